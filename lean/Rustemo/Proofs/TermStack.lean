import Rustemo.Proofs.TermTree
import Rustemo.Proofs.CoreSound
/-!
# The parse stack of a certified table is small (termination, C15)

For a stack satisfying the soundness invariant `PathInv` (every entry carries a derivation tree of the
symbol of the transition that led to its state) whose trees use only productions in `U`:

* `stack_height`: with a ranking `rn` of the states that decreases along every goto on a nullable
  nonterminal (`SRank`), the height is at most `(Y + 1) · Wn`, `Y` = number of tokens shifted
  (an entry without tokens is a step down the ranking, an entry with tokens resets it);
* `stack_nodes`: the trees on the stack have at most `height · E + 2·Y·K` nodes together.
-/
namespace Rustemo

structure SRank (g : Grammar) (t : Table) (nul : Nat → Prop) (rn : Nat → Nat) (Wn : Nat) : Prop where
  dec : ∀ s X s', nul X → t.goto g s X = some s' → rn s' < rn s
  lt : ∀ s, rn s < Wn

/-- number of entries whose tree has tokens -/
def fullS : List (Nat × Tree) → Nat
  | [] => 0
  | (_, tr) :: below => (if tr.yield = [] then 0 else 1) + fullS below

def nodesS : List (Nat × Tree) → Nat
  | [] => 0
  | (_, tr) :: below => tr.nodes + nodesS below

def UsesS (U : Nat → Prop) (st : List (Nat × Tree)) : Prop := ∀ e ∈ st, e.2.Uses U

theorem fullS_le_yields : ∀ (st : List (Nat × Tree)), fullS st ≤ (yields st).length
  | [] => by simp [fullS, yields]
  | (s, tr) :: below => by
    have := fullS_le_yields below
    simp only [fullS, yields, List.length_append]
    split
    · omega
    · rename_i h
      have : 0 < tr.yield.length := List.length_pos_iff.mpr h
      omega

section
variable {g : Grammar} {t : Table} {U : Nat → Prop} {nul : Nat → Prop} {r : Nat → Nat} {m W : Nat}

theorem stack_height {rn : Nat → Nat} {Wn : Nat} (hg : GRank g U nul r m W) (hs : SRank g t nul rn Wn)
    (start : Nat) : ∀ (st : List (Nat × Tree)), PathInv g t start st → UsesS U st →
      st.length + rn (topOf start st) + 1 ≤ (fullS st + 1) * Wn
  | [], _, _ => by
    have := hs.lt start
    simp only [List.length_nil, topOf, fullS, Nat.zero_add, Nat.one_mul]
    omega
  | (s, tr) :: below, hp, hu => by
    obtain ⟨⟨X, hv, htr⟩, hbelow⟩ := hp
    have ih := stack_height hg hs start below hbelow (fun e he => hu e (by simp [he]))
    have hlt := hs.lt s
    simp only [List.length_cons, topOf, fullS]
    split
    · -- no tokens: a goto on a nullable nonterminal
      rename_i hy
      have hX := Tree.eps_root hg tr X hv (hu (s, tr) (by simp)) hy
      have hnt := hg.nulNT X hX
      unfold Table.trans at htr
      rw [if_neg (by omega)] at htr
      have := hs.dec _ X s hX htr
      rw [Nat.zero_add]
      omega
    · rw [Nat.add_mul (1 + fullS below) 1 Wn, Nat.one_mul, Nat.add_comm 1 (fullS below)]
      omega

theorem stack_nodes {E C K : Nat} (hc : Consts m W E C K) (hg : GRank g U nul r m W) (start : Nat) :
    ∀ (st : List (Nat × Tree)), PathInv g t start st → UsesS U st →
      nodesS st + fullS st * K ≤ st.length * E + 2 * (yields st).length * K
  | [], _, _ => by simp [nodesS, fullS, yields]
  | (s, tr) :: below, hp, hu => by
    obtain ⟨⟨X, hv, _⟩, hbelow⟩ := hp
    have ih := stack_nodes hc hg start below hbelow (fun e he => hu e (by simp [he]))
    have hut := hu (s, tr) (by simp)
    simp only [nodesS, fullS, yields, List.length_cons, List.length_append]
    split
    · rename_i hy
      have h1 := hc.eps_le hg tr X hv hut hy
      simp only [hy, List.length_nil, Nat.add_zero, Nat.zero_add]
      rw [Nat.add_mul, Nat.one_mul]
      omega
    · rename_i hy
      have hpos : 0 < tr.yield.length := List.length_pos_iff.mpr hy
      obtain ⟨y, hyy⟩ : ∃ y, tr.yield.length = y + 1 := ⟨tr.yield.length - 1, by omega⟩
      have h1 := Tree.size_bound hc hg tr X hv hut y hyy
      have h3 := hc.rank_le hg X
      rw [hyy]
      have e1 : (1 + fullS below) * K = K + fullS below * K := by rw [Nat.add_mul, Nat.one_mul]
      have e2 : 2 * ((yields below).length + (y + 1)) * K =
          2 * (yields below).length * K + 2 * y * K + 2 * K := by
        rw [Nat.mul_add, Nat.mul_add, Nat.add_mul, Nat.add_mul]
        omega
      have e3 : ((below.length + 1) * E) = below.length * E + E := by rw [Nat.add_mul, Nat.one_mul]
      rw [e1, e2, e3]
      omega

end

end Rustemo
