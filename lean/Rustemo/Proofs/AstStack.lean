import Rustemo.Model.AstEval
/-!
# C10: the stack machine `run` (the generated DefaultBuilder driven by the parser's calls) computes `eval`

`run_events`: for every tree and every stack, running the builder calls of the tree pushes exactly the
outcome of `eval` — the same value, or the same error.
-/
namespace Rustemo.Ast

def pushRes (s : List (Option Val)) : Except Err (Option Val) → Except Err (List (Option Val))
  | .ok r => .ok (r :: s)
  | .error e => .error e

def pushAll (s : List (Option Val)) : Except Err (List (Option Val)) → Except Err (List (Option Val))
  | .ok rs => .ok (rs.reverse ++ s)
  | .error e => .error e

def thenRun (sh : Shapes) (fs : List Ev) : Except Err (List (Option Val)) → Except Err (List (Option Val))
  | .ok s => run sh fs s
  | .error e => .error e

theorem run_append (sh : Shapes) : ∀ (es fs : List Ev) (s : List (Option Val)),
    run sh (es ++ fs) s = thenRun sh fs (run sh es s)
  | [], fs, s => by simp [run, thenRun]
  | e :: es, fs, s => by
    simp only [run, List.cons_append]
    split
    · simp [thenRun]
    · exact run_append sh es fs _

theorem popCount_ne_of_lenCheck_err (p : PShape) (len : Nat) (h : popCount p len ≠ len) :
    lenCheck p len = .error .stack := by
  unfold popCount at h
  unfold lenCheck
  simp only at h ⊢
  split
  · rename_i hc
    rw [if_pos hc] at h
    have : ¬ (len == p.content.length) = true := by
      intro he
      have e : len = p.content.length := by simpa using he
      exact h e.symm
    simp [this]
  · rename_i hc
    rw [if_neg hc] at h
    exact absurd rfl h

theorem reduce_stack_err (sh : Shapes) (p : PShape) (rs : List (Option Val)) (hr : p.reachable = true)
    (h : popCount p rs.length ≠ rs.length) : reduce sh p rs = .error .stack := by
  unfold reduce
  simp [hr, popCount_ne_of_lenCheck_err p rs.length h]

theorem reduce_unreachable (sh : Shapes) (p : PShape) (rs : List (Option Val)) (hr : p.reachable = false) :
    reduce sh p rs = .error (.panic "Reduce of unreachable nonterminal!") := by
  unfold reduce
  simp [hr]

mutual
theorem run_events (sh : Shapes) : ∀ (t : PTree) (s : List (Option Val)),
    run sh t.events s = pushRes s (eval sh t)
  | .leaf t text, s => by
    simp only [PTree.events, run, stepEv, eval]
    cases evalLeaf sh t text <;> simp [pushRes]
  | .node p kids, s => by
    simp only [PTree.events, eval]
    rw [run_append, run_eventsL sh kids s]
    cases hrs : evalList sh kids with
    | error e => simp [pushAll, thenRun, pushRes]
    | ok rs =>
      have hlen : rs.length = kids.length := evalList_length sh kids rs hrs
      simp only [pushAll, thenRun, run, stepEv]
      cases hp : sh.prods[p]? with
      | none => simp [pushRes]
      | some ps =>
        simp only
        cases hreach : ps.reachable with
        | false => simp [reduce_unreachable sh ps rs hreach, pushRes]
        | true =>
          simp only [Bool.not_true, Bool.false_eq_true, if_false]
          by_cases hpop : popCount ps kids.length = kids.length
          · have htake : ((rs.reverse ++ s).take kids.length).reverse = rs := by
              rw [← hlen, ← List.length_reverse, List.take_left]; simp
            have hdrop : (rs.reverse ++ s).drop kids.length = s := by
              rw [← hlen, ← List.length_reverse, List.drop_left]
            have hl : ¬ (rs.length + s.length < kids.length) := by omega
            simp only [hpop, ne_eq, not_true_eq_false, if_false, List.length_append, List.length_reverse, hl, htake, hdrop]
            cases reduce sh ps rs <;> simp [pushRes]
          · have : popCount ps rs.length ≠ rs.length := by rw [hlen]; exact hpop
            simp [hpop, reduce_stack_err sh ps rs hreach this, pushRes]
theorem run_eventsL (sh : Shapes) : ∀ (ts : List PTree) (s : List (Option Val)),
    run sh (PTree.eventsL ts) s = pushAll s (evalList sh ts)
  | [], s => by simp [PTree.eventsL, run, evalList, pushAll]
  | t :: ts, s => by
    simp only [PTree.eventsL, evalList]
    rw [run_append, run_events sh t s]
    cases eval sh t with
    | error e => simp [pushRes, thenRun, pushAll]
    | ok r =>
      simp only [pushRes, thenRun]
      rw [run_eventsL sh ts (r :: s)]
      cases evalList sh ts with
      | error e => simp [pushAll]
      | ok rs => simp [pushAll]
theorem evalList_length (sh : Shapes) : ∀ (ts : List PTree) (rs : List (Option Val)),
    evalList sh ts = .ok rs → rs.length = ts.length
  | [], rs, h => by simp only [evalList] at h; cases h; rfl
  | t :: ts, rs, h => by
    simp only [evalList] at h
    split at h
    · cases h
    · split at h
      · cases h
      · rename_i rs' hrs'
        cases h
        simp [evalList_length sh ts rs' hrs']
end

/-- the value `get_result` returns after the builder calls of the tree -/
def runTree (sh : Shapes) (t : PTree) : Except Err Val :=
  match run sh t.events [] with
  | .ok s => getResult s
  | .error e => .error e

/-- If the generated builder, called as the parser calls it, returns `v`, then `eval` yields `v`. -/
theorem eval_of_runTree (sh : Shapes) (t : PTree) (v : Val) (h : runTree sh t = .ok v) :
    eval sh t = .ok (some v) := by
  unfold runTree at h
  rw [run_events sh t []] at h
  cases he : eval sh t with
  | error e => rw [he] at h; simp [pushRes] at h
  | ok r =>
    rw [he] at h
    simp only [pushRes] at h
    cases r with
    | none => simp [getResult] at h
    | some w => simp only [getResult, Except.ok.injEq] at h; rw [h]

theorem runTree_of_eval (sh : Shapes) (t : PTree) (v : Val) (h : eval sh t = .ok (some v)) :
    runTree sh t = .ok v := by
  unfold runTree
  rw [run_events sh t [], h]
  rfl

end Rustemo.Ast
