import Rustemo.Proofs.GlrErr3
import Rustemo.Proofs.GlrErr5
/-!
# The outcome of a `LexDet` run: the error points at the first offending token; `ok` only on a sentence
-/
namespace Rustemo.Glr
open Rustemo

theorem jinv_start (env : Env) (tok : Nat → Tok) : JInv env tok (({} : Gss).addHead startHead).1 := by
  have hstart : (({} : Gss).addHead startHead).1.heads[0]? = some startHead := by
    rw [addHead_heads]; rfl
  refine ⟨⟨startHead, hstart, rfl, rfl⟩, ?_, ?_⟩
  · intro e ed he; simp [Gss.addHead] at he
  · intro h hd hh
    rw [addHead_heads] at hh
    split at hh
    · rename_i heq
      have : h = 0 := heq
      rw [this]; exact Conn.start
    · simp at hh

theorem stepKeeps_J {env : Env} (hT : TableOk env) (hC : CompleteRN env.g env.t) (hW : GWF env.g)
    {pp : Bool} {fuel n : Nat} {tok : Nat → Tok} {P L : Nat → Pos} (hL : LexDet env pp fuel n tok P L) :
    StepKeeps env pp fuel n tok P (fun _ st => JInv env tok st.gss) :=
  fun _ _ _ _ _ _ RI hF hJ hok => frontierStep_J hT hC hW hL hF RI hJ hok

theorem Conn.edge {g : Gss} {h : Nat} (hc : Conn g h) : h = 0 ∨ ∃ (e : Nat) (ed : Edge), g.edges[e]? = some ed ∧ ed.src = h := by
  induction hc with
  | start => exact Or.inl rfl
  | step e ed he _ _ => exact Or.inr ⟨e, ed, he, rfl⟩

/-- **the error of a run**: position = start of the first offending token, which really is the first one -/
theorem parse_err_spec {env : Env} (hT : TableOk env) (hC : CompleteRN env.g env.t) (hW : GWF env.g) (hV : ViableOk env)
    {pp : Bool} {fuel n : Nat} {tok : Nat → Tok} {P L : Nat → Pos} (hL : LexDet env pp fuel n tok P L)
    {e : PErr} (he : parse env pp fuel = .err e) :
    ∃ (k : Nat) (ks : List Nat), k ≤ n ∧ e = .expected (L k) ks ∧ ks ≠ [] ∧
      ViablePrefix env.g (kindsOf tok 0 k) ∧
      (k < n → ¬ ViablePrefix env.g (kindsOf tok 0 (k + 1))) ∧ (k = n → ¬ Sentence env.g (kindsOf tok 0 n)) := by
  rcases parse_finalE hT hC hW hL (stepKeeps_J hT hC hW hL) (jinv_start env tok) with h | ⟨s, h⟩ | h
  · rw [h] at he; cases he
  · rw [h] at he; cases he
  · obtain ⟨k, ks, h1, h2, h3, h4, h5, st, subs, b, hd, RI, hJ, hhd, hfr⟩ := finalE_error hT hC hW hL h he
    refine ⟨k, ks, h1, h2, h3, ?_, h4, h5⟩
    obtain ⟨stk, hp, _, hy⟩ := stack_of_conn RI.sok.g hJ b (hJ.conn b hd hhd) hd hhd
    rw [← hfr, ← hy]
    exact viable_of_stack hT hW hV stk hp

/-- **`ok` only on a sentence**, and never with an empty forest -/
theorem parse_ok_spec {env : Env} (hT : TableOk env) (hC : CompleteRN env.g env.t) (hW : GWF env.g)
    {pp : Bool} {fuel n : Nat} {tok : Nat → Tok} {P L : Nat → Pos} (hL : LexDet env pp fuel n tok P L)
    {r : GlrResult} (hr : parse env pp fuel = .ok r) : Sentence env.g (kindsOf tok 0 n) ∧ r.roots ≠ [] := by
  rcases parse_finalE hT hC hW hL (stepKeeps_J hT hC hW hL) (jinv_start env tok) with h | ⟨s, h⟩ | h
  · rw [h] at hr; cases hr
  · rw [h] at hr; cases hr
  · obtain ⟨F, st, lastBase, subs, RI, hF, _, hJ, ho⟩ := h
    rw [hr] at ho
    have hne : st.accepted ≠ [] ∧ r = ⟨st.gss, forestRoots st.gss st.accepted⟩ := by
      split at ho
      · rename_i hc
        injection ho with ho
        refine ⟨?_, ho⟩
        intro h0; rw [h0] at hc; simp at hc
      · exact absurd ho.symm (makeError_not_ok _ _ _ _)
    obtain ⟨hacc0, hreq⟩ := hne
    subst hreq
    cases hal : st.accepted with
    | nil => exact absurd hal hacc0
    | cons v rest =>
      have hv : v ∈ st.accepted := by rw [hal]; simp
      have hg := RI.sok.g
      obtain ⟨hda, tka, hhda, htka, hact⟩ := RI.sok.acc v hv
      have hk0 : tka.kind = 0 := hC.acceptStop _ _ hact
      have hlt : hda.frontier < F := by
        rcases Nat.lt_or_ge hda.frontier F with hlt | hge
        · exact hlt
        · have := RI.gu.noAbove v hda hhda
          have heq : hda.frontier = F := by omega
          have := RI.blevel v hda hhda heq
          simp at this
      have htk := RI.toks v hda hhda hlt tka htka
      have hlv : hda.frontier = n := by
        rcases Nat.lt_or_ge hda.frontier n with h1 | h1
        · have := (hL.terms hda.frontier h1).1
          rw [← htk, hk0] at this
          omega
        · omega
      have hconn := hJ.conn v hda hhda
      obtain ⟨stk, hp, htop, hy⟩ := stack_of_conn hg hJ v hconn hda hhda
      constructor
      · rw [← hlv, ← hy]
        exact sentence_of_accept_stack hT stk hp (x := tka.kind) (by rw [htop]; exact hact)
      · -- the accepting head is not the start head, so it has an edge, which has a possibility
        rcases hconn.edge with h0 | ⟨e, ed, hed, hsrc⟩
        · exfalso
          subst h0
          obtain ⟨hd0, k1, k2, _⟩ := hJ.h0
          rw [hhda] at k1; injection k1 with k1; subst k1
          obtain ⟨au, hau, pr, _, _, hitem⟩ := hT.s.accept_item _ _ hact
          have := hT.s.start_items _ (main_auto_mem env) au.aug 1 (by rw [k2] at hitem; exact hitem)
          omega
        · have hpne := (hg.edges e ed hed).poss_ne (by simp)
          cases hps : ed.poss with
          | nil => exact absurd hps hpne
          | cons m ms =>
            have := mem_forestRoots (g := st.gss) hv hed hsrc (m := m) (by rw [hps]; simp)
            intro hnil
            simp only at hnil
            rw [hal, hnil] at this
            simp at this

end Rustemo.Glr
