import Rustemo.Proofs.FrontExact
/-!
# The helper rules of repetition sugar have the documented shape

For files where two uses with the same helper name are the same use (`sepClash` excluded) and no
helper name is a rule name (`helperCapture` excluded): the entry named `u.helper` has exactly two
productions, `u.rhs0` and `u.rhs1`, and (for `+`/`*`) the annotation `vec`.
-/
namespace Rustemo.Front

/-- first production of the helper of a use: `X`, `H [sep] X`, `X1` -/
def Use.rhs0 (fx : Fixes) (u : Use) : List RAssign :=
  match u.kind with
  | .opt => [resolving u.base]
  | .one => oneRhs0 (u.helper fx) u.base u.sep
  | .zero => [resolving (helperName fx u.base .oneOrMore u.sep)]

/-- second production: `EMPTY`, `X`, `EMPTY` -/
def Use.rhs1 (u : Use) : List RAssign :=
  match u.kind with
  | .opt => []
  | .one => [resolving u.base]
  | .zero => []

def Use.ann (u : Use) : Option Name :=
  match u.kind with
  | .opt => none
  | _ => some kVec

theorem createUse_spec (fx : Fixes) (u : Use) (s : Acc) :
    createUse fx u s = createHelper (u.helper fx) u.ann (u.rhs0 fx) u.rhs1 s := by
  unfold createUse Use.ann Use.rhs0 Use.rhs1
  cases u.kind <;> rfl

/-- the entry `nt` is the helper rule of `u`, its two productions being in `l` -/
def Shape (fx : Fixes) (u : Use) (nt : NonTerm) (l : List GProd) : Prop :=
  ∃ pa pb, pa ∈ l ∧ pb ∈ l ∧ nt.prods = [pa.idx, pb.idx] ∧ pa.rhs = u.rhs0 fx ∧ pb.rhs = u.rhs1 ∧
    pa.nonterminal = nt.idx ∧ pb.nonterminal = nt.idx ∧ nt.annotation = u.ann ∧
    pa.prio = 10 ∧ pb.prio = 10 ∧ pa.assoc = .none ∧ pb.assoc = .none

theorem Shape.mono {fx : Fixes} {u : Use} {nt : NonTerm} {l l' : List GProd} (h : Shape fx u nt l)
    (hl : ∀ p, p ∈ l → p ∈ l') : Shape fx u nt l' := by
  obtain ⟨pa, pb, ha, hb, r⟩ := h
  exact ⟨pa, pb, hl pa ha, hl pb hb, r⟩

/-- the set of uses `U` of the file names helpers unambiguously and apart from the rule names -/
structure UsesOk (fx : Fixes) (U : List Use) (ruleNames : List Name) : Prop where
  inj : ∀ u v, u ∈ U → v ∈ U → u.helper fx = v.helper fx → u = v
  apart : ∀ u, u ∈ U → u.helper fx ∉ ruleNames

def HelpersOk (fx : Fixes) (U : List Use) (nts : List NonTerm) (l : List GProd) : Prop :=
  ∀ nt, nt ∈ nts → ∀ u, u ∈ U → nt.name = u.helper fx → Shape fx u nt l

theorem closed_helpers (fx : Fixes) (U : List Use) (rn : List Name) (hU : UsesOk fx U rn) (v : Use) (hv : v ∈ U) :
    Closed fx (fun s => HelpersOk fx U s.1.nts (s.1.prods ++ s.2)) v := by
  intro s hs habs
  rw [createUse_spec]
  have hnts : (createHelper (v.helper fx) v.ann (v.rhs0 fx) v.rhs1 s).1.nts =
      s.1.nts ++ [{ idx := s.1.nextNt, name := v.helper fx, annotation := v.ann,
                    prods := [s.1.nextProd, s.1.nextProd + 1] }] :=
    insertNt_absent (nt := { idx := s.1.nextNt, name := v.helper fx, annotation := v.ann,
                             prods := [s.1.nextProd, s.1.nextProd + 1] }) habs
  intro nt hnt u hu hname
  rw [hnts] at hnt
  rcases List.mem_append.mp hnt with hm | hm
  · apply (hs nt hm u hu hname).mono
    intro p hp
    show p ∈ s.1.prods ++ (s.2 ++ _)
    rcases List.mem_append.mp hp with h | h
    · exact List.mem_append_left _ h
    · exact List.mem_append_right _ (List.mem_append_left _ h)
  · simp at hm
    subst hm
    have huv : u = v := hU.inj u v hu hv hname.symm
    subst huv
    refine ⟨{ idx := s.1.nextProd, nonterminal := s.1.nextNt, ntidx := 0, rhs := u.rhs0 fx },
            { idx := s.1.nextProd + 1, nonterminal := s.1.nextNt, ntidx := 1, rhs := u.rhs1 }, ?_, ?_,
            rfl, rfl, rfl, rfl, rfl, rfl, rfl, rfl, rfl, rfl⟩
    · show _ ∈ s.1.prods ++ (s.2 ++ _)
      simp
    · show _ ∈ s.1.prods ++ (s.2 ++ _)
      simp

theorem altStep_helpers {cx : Ctx} {U : List Use} {rn : List Name} (hU : UsesOk cx.fx U rn)
    {rule : Rule} {ntIdx j : Nat} {alt : Alt} {st st' : XSt} (hr : rule.name ∈ rn)
    (hsub : ∀ u, u ∈ altUses cx.matchesMap alt → u ∈ U)
    (hh : HelpersOk cx.fx U st.nts st.prods) (h : altStep cx rule ntIdx j alt st = .ok st') :
    HelpersOk cx.fx U st'.nts st'.prods := by
  unfold altStep at h
  simp only at h
  obtain ⟨res, h1, h⟩ := Outcome.bind_eq_ok.mp h
  obtain ⟨_, _, h⟩ := Outcome.bind_eq_ok.mp h
  cases h
  have hP := rhsSteps_pres (cx := cx) (P := fun s => HelpersOk cx.fx U s.1.nts (s.1.prods ++ s.2))
    (fun a ha u hu => closed_helpers cx.fx U rn hU u (hsub u (by
      unfold altUses
      exact List.mem_flatMap.mpr ⟨a, ha, hu⟩)))
    (s := ({ st with nextProd := st.nextProd + 1 }, [])) (by simpa using hh) h1
  intro nt hnt u hu hname
  have hne : nt.name ≠ rule.name := by
    intro e
    exact hU.apart u hu (hname ▸ e ▸ hr)
  have hmono : ∀ p, p ∈ res.2.1.prods ++ res.2.2 →
      p ∈ res.2.1.prods ++ [mkProd st.nextProd ntIdx j res.1 (inherit cx.fx (metaOf rule.metas) (metaOf alt.metas))]
        ++ res.2.2 := by
    intro p hp
    rcases List.mem_append.mp hp with h | h
    · exact List.mem_append_left _ (List.mem_append_left _ h)
    · exact List.mem_append_right _ h
  show Shape cx.fx u nt (res.2.1.prods ++ [_] ++ res.2.2)
  have hnt' : nt ∈ (if hasNt res.2.1.nts rule.name = true then pushProd rule.name st.nextProd res.2.1.nts
      else res.2.1.nts ++ [{ idx := ntIdx, name := rule.name, annotation := rule.annotation, prods := [st.nextProd] }]) := hnt
  split at hnt'
  · obtain ⟨x, hx, en, ei, ea, epr⟩ := mem_pushProd hnt'
    have hxs := hP x hx u hu (en ▸ hname)
    rcases epr with e | ⟨e', _⟩
    · obtain ⟨pa, pb, ha, hb, r1, r2, r3, r4, r5, r6, r7⟩ := hxs
      exact ⟨pa, pb, hmono pa ha, hmono pb hb, by rw [e]; exact r1, r2, r3, by rw [ei]; exact r4,
        by rw [ei]; exact r5, by rw [ea]; exact r6, r7⟩
    · exact absurd (en ▸ e') hne
  · rcases List.mem_append.mp hnt' with hm | hm
    · exact (hP nt hm u hu hname).mono hmono
    · simp at hm
      subst hm
      exact absurd rfl hne

theorem altSteps_helpers {cx : Ctx} {U : List Use} {rn : List Name} (hU : UsesOk cx.fx U rn)
    {rule : Rule} {ntIdx : Nat} (hr : rule.name ∈ rn) :
    ∀ {alts : List Alt} {j : Nat} {st st' : XSt}, (∀ a, a ∈ alts → ∀ u, u ∈ altUses cx.matchesMap a → u ∈ U) →
      HelpersOk cx.fx U st.nts st.prods → altSteps cx rule ntIdx j alts st = .ok st' →
      HelpersOk cx.fx U st'.nts st'.prods
  | [], _, _, _, _, hh, h => by
    cases h
    exact hh
  | a :: as, j, st, st', hs, hh, h => by
    unfold altSteps at h
    obtain ⟨st1, h1, h2⟩ := Outcome.bind_eq_ok.mp h
    exact altSteps_helpers hU hr (fun b hb => hs b (by simp [hb]))
      (altStep_helpers hU hr (hs a (by simp)) hh h1) h2

theorem ruleSteps_helpers {cx : Ctx} {U : List Use} {rn : List Name} (hU : UsesOk cx.fx U rn) :
    ∀ {rules : List Rule} {st st' : XSt}, (∀ r, r ∈ rules → r.name ∈ rn) →
      (∀ u, u ∈ rulesUses cx.matchesMap rules → u ∈ U) →
      HelpersOk cx.fx U st.nts st.prods → ruleSteps cx rules st = .ok st' → HelpersOk cx.fx U st'.nts st'.prods
  | [], _, _, _, _, hh, h => by
    cases h
    exact hh
  | r :: rs, st, st', hrn, hs, hh, h => by
    unfold ruleSteps at h
    obtain ⟨st1, h1, h2⟩ := Outcome.bind_eq_ok.mp h
    have hsr : ∀ a, a ∈ r.alts → ∀ u, u ∈ altUses cx.matchesMap a → u ∈ U := by
      intro a ha u hu
      apply hs
      unfold rulesUses ruleUses
      exact List.mem_flatMap.mpr ⟨r, by simp, List.mem_flatMap.mpr ⟨a, ha, hu⟩⟩
    have hh1 : HelpersOk cx.fx U st1.nts st1.prods := by
      rcases ruleStep_ok h1 with ⟨nt, hf, h1⟩ | ⟨hf, h1⟩
      · exact altSteps_helpers hU (hrn r (by simp)) hsr hh h1
      · exact altSteps_helpers (st := { st with nextNt := st.nextNt + 1 }) hU (hrn r (by simp)) hsr hh h1
    exact ruleSteps_helpers hU (fun x hx => hrn x (by simp [hx]))
      (fun u hu => hs u (by
        unfold rulesUses at hu ⊢
        simp only [List.flatMap_cons, List.mem_append]
        exact Or.inr hu)) hh1 h2

/-- a helper name is none of the builder's own names: it contains `0`, `1` or `p` -/
theorem helper_ne_of_not_mem {x s y t : Name} {c : Nat} (hc : c ∈ s) (ht : c ∉ t) : x ++ s ++ y ≠ t := by
  intro e
  apply ht
  rw [← e]
  simp [hc]

theorem helper_not_reserved (fx : Fixes) (u : Use) (t : Name) (ht : t = kEMPTY ∨ t = kAUG ∨ t = kAUGL) :
    u.helper fx ≠ t := by
  unfold Use.helper helperName
  cases hk : u.kind with
  | opt =>
    apply helper_ne_of_not_mem (c := 112)
    · show 112 ∈ repSuffix RepOp.optional
      decide
    · rcases ht with rfl | rfl | rfl <;> decide
  | one =>
    apply helper_ne_of_not_mem (c := 49)
    · show 49 ∈ repSuffix RepOp.oneOrMore
      decide
    · rcases ht with rfl | rfl | rfl <;> decide
  | zero =>
    apply helper_ne_of_not_mem (c := 48)
    · show 48 ∈ repSuffix RepOp.zeroOrMore
      decide
    · rcases ht with rfl | rfl | rfl <;> decide

theorem init_names1 (b : Name) : ntNames (createAug kAUG b xst0).nts = [kEMPTY, kAUG] := rfl
theorem init_names2 (b c : Name) : ntNames (createAug kAUGL c (createAug kAUG b xst0)).nts = [kEMPTY, kAUG, kAUGL] := rfl

theorem extract_helpers {cx : Ctx} {U : List Use} {rn : List Name} (hU : UsesOk cx.fx U rn)
    {r0 : Rule} {rules : List Rule} {st : XSt} (hrn : ∀ r, r ∈ rules → r.name ∈ rn)
    (hs : ∀ u, u ∈ rulesUses cx.matchesMap rules → u ∈ U) (h : extract cx r0 rules = .ok st) :
    HelpersOk cx.fx U st.nts st.prods := by
  unfold extract at h
  simp only at h
  refine ruleSteps_helpers hU hrn hs ?_ h
  -- the initial entries EMPTY, AUG, AUGL are no helpers
  intro nt hnt u hu hname
  exfalso
  have : nt.name = kEMPTY ∨ nt.name = kAUG ∨ nt.name = kAUGL := by
    split at hnt
    · rename_i lr _
      have hm : nt.name ∈ ntNames (createAug kAUGL lr.name (createAug kAUG r0.name xst0)).nts :=
        List.mem_map_of_mem hnt
      rw [init_names2] at hm
      simp at hm
      exact hm
    · have hm : nt.name ∈ ntNames (createAug kAUG r0.name xst0).nts := List.mem_map_of_mem hnt
      rw [init_names1] at hm
      simp at hm
      rcases hm with h | h
      · exact Or.inl h
      · exact Or.inr (Or.inl h)
  exact helper_not_reserved cx.fx u nt.name this hname.symm

end Rustemo.Front
