import Rustemo.Model.AstEval
/-!
# C10: the value computed by the default builder carries the content tokens in input order

Per-kind lemmas (`applyAct_tokens`), the parameter lemma (`params_tokens`) and the induction over the
parse tree (`eval_tokens` / `evalList_rel`).
-/
namespace Rustemo.Ast

/-! ## well-shaped trees -/

/-- does the builder push a VALUE for this subtree? (keyword terminals: no) -/
def kidHasValue (sh : Shapes) : PTree → Bool
  | .leaf t _ => termContent sh t
  | .node _ _ => true

/-- the content flags of the production agree with the children that are there
(fewer children than flags: a right-nulled reduction) -/
def flagsAgree (sh : Shapes) : List Bool → List PTree → Bool
  | _, [] => true
  | [], _ :: _ => false
  | c :: cs, k :: ks => (c == kidHasValue sh k) && flagsAgree sh cs ks

def prodFlagsAgree (sh : Shapes) (p : Nat) (kids : List PTree) : Bool :=
  match sh.prods[p]? with
  | some ps => flagsAgree sh ps.content kids
  | none => false

mutual
/-- every node's children match the content flags of its production — implied by validity of the
tree for the grammar (the flags are `symbol_has_content` of the rhs symbols) -/
def PTree.wellShaped (sh : Shapes) : PTree → Bool
  | .leaf _ _ => true
  | .node p kids => prodFlagsAgree sh p kids && PTree.wellShapedL sh kids
def PTree.wellShapedL (sh : Shapes) : List PTree → Bool
  | [] => true
  | t :: ts => t.wellShaped sh && PTree.wellShapedL sh ts
end

/-- the shapes for which the token theorem holds: the repaired variant, or no right-recursive `@vec` -/
def Supported (sh : Shapes) : Prop := sh.fixed = true ∨ ∀ p ∈ sh.prods, p.act ≠ .vecPush false

def tokensOpt : Option Val → List String
  | some v => v.tokens
  | none => []

/-! ## tokens of the building blocks -/

theorem tokensL_append (as bs : List Val) : Val.tokensL (as ++ bs) = Val.tokensL as ++ Val.tokensL bs := by
  induction as with
  | nil => simp [Val.tokensL]
  | cons a as ih => simp [Val.tokensL, ih]

@[simp] theorem tokens_wrapSome (o : Bool) (v : Val) : (wrapSome o v).tokens = v.tokens := by
  unfold wrapSome; split <;> simp [Val.tokens]

@[simp] theorem tokens_wrapVariant (w : Option String) (v : Val) : (wrapVariant w v).tokens = v.tokens := by
  unfold wrapVariant; split <;> simp [Val.tokens, Val.tokensL]

@[simp] theorem tokens_mkStructVal (loc : Bool) (sn : String) (fs : List String) (ps : List Val) :
    (mkStructVal loc sn fs ps).tokens = Val.tokensL ps := by
  unfold mkStructVal; split <;> simp [Val.tokens]

/-- every action body keeps the tokens of its parameters, in parameter order — except `a.push(b)` with
the vector as the RIGHT operand in the code as it is (`fixed = false`). -/
theorem applyAct_tokens (loc fixed opt : Bool) (act : Act) (ps : List Val) (v : Val)
    (hs : fixed = true ∨ act ≠ .vecPush false)
    (h : applyAct loc fixed opt act ps = .ok v) : v.tokens = Val.tokensL ps := by
  unfold applyAct at h
  split at h
  · cases h; simp [Val.tokens, Val.tokensL]
  · split at h
    · cases h; simp
    · cases h
  · cases h; simp [Val.tokensL]
  · cases h; simp [Val.tokens, Val.tokensL]
  · cases h; simp [Val.tokens, Val.tokensL]
  · cases h; simp [Val.tokens, Val.tokensL]
  · cases h; simp [Val.tokens, Val.tokensL, tokensL_append]
  · cases h
    rcases hs with hf | hne
    · subst hf; simp [Val.tokens, Val.tokensL, pushRight]
    · exact absurd rfl hne
  · cases h

/-! ## parameters -/

/-- results of the children, related to the children -/
def KidsRel (sh : Shapes) : List PTree → List (Option Val) → Prop
  | [], [] => True
  | t :: ts, r :: rs => tokensOpt r = t.contentTokens sh ∧ r.isSome = kidHasValue sh t ∧ KidsRel sh ts rs
  | _, _ => False

theorem params_nil_tokens (cs : List Bool) (ps : List Val) (h : params cs [] = .ok ps) : Val.tokensL ps = [] := by
  induction cs generalizing ps with
  | nil => simp [params] at h; subst h; rfl
  | cons c cs ih =>
    simp only [params] at h
    split at h
    · cases h
    · rename_i qs hq
      cases h
      have := ih qs hq
      split <;> simp [Val.tokensL, Val.tokens, this]

theorem params_tokens (sh : Shapes) (cs : List Bool) (ts : List PTree) (rs : List (Option Val)) (ps : List Val)
    (hrel : KidsRel sh ts rs) (hfl : flagsAgree sh cs ts = true) (h : params cs rs = .ok ps) :
    Val.tokensL ps = PTree.contentTokensL sh ts := by
  induction cs generalizing ts rs ps with
  | nil =>
    cases ts with
    | nil => simp [params] at h; subst h; simp [Val.tokensL, PTree.contentTokensL]
    | cons t ts => simp [flagsAgree] at hfl
  | cons c cs ih =>
    cases ts with
    | nil =>
      cases rs with
      | nil => simp [PTree.contentTokensL]; exact params_nil_tokens (c :: cs) ps h
      | cons r rs => simp [KidsRel] at hrel
    | cons t ts =>
      cases rs with
      | nil => simp [KidsRel] at hrel
      | cons r rs =>
        simp only [KidsRel] at hrel
        obtain ⟨htok, hval, hrest⟩ := hrel
        simp only [flagsAgree, Bool.and_eq_true, beq_iff_eq] at hfl
        obtain ⟨hc, hfl'⟩ := hfl
        simp only [params] at h
        split at h
        · cases h
        · rename_i qs hq
          have ihq := ih ts rs qs hrest hfl' hq
          split at h
          · rename_i hct
            split at h
            · rename_i v
              cases h
              simp [Val.tokensL, PTree.contentTokensL, ihq, ← htok, tokensOpt]
            · cases h
          · rename_i hcf
            cases h
            have hnv : kidHasValue sh t = false := by rw [← hc]; simpa using hcf
            rw [hnv] at hval
            cases r with
            | none => simp [tokensOpt] at htok; simp [PTree.contentTokensL, ← htok, ihq]
            | some v => simp at hval

/-! ## the induction over the tree -/

theorem evalLeaf_rel (sh : Shapes) (t : Nat) (text : String) (r : Option Val) (h : evalLeaf sh t text = .ok r) :
    tokensOpt r = (PTree.leaf t text).contentTokens sh ∧ r.isSome = kidHasValue sh (.leaf t text) := by
  unfold evalLeaf at h
  split at h
  · cases h
  · split at h
    · cases h
    · rename_i content reach hlook
      split at h
      · cases h
      · split at h
        · rename_i hc
          cases h
          simp [PTree.contentTokens, kidHasValue, termContent, hlook, hc, tokensOpt]
          split <;> simp [Val.tokens]
        · rename_i hc
          cases h
          simp [PTree.contentTokens, kidHasValue, termContent, hlook, hc, tokensOpt]

theorem reduce_tokens (sh : Shapes) (hs : Supported sh) (p : Nat) (ps : PShape) (hp : sh.prods[p]? = some ps)
    (kids : List PTree) (rs : List (Option Val)) (v : Val)
    (hrel : KidsRel sh kids rs) (hfl : flagsAgree sh ps.content kids = true) (h : reduce sh ps rs = .ok v) :
    v.tokens = PTree.contentTokensL sh kids := by
  unfold reduce at h
  split at h
  · cases h
  · split at h
    · cases h
    · split at h
      · cases h
      · rename_i qs hq
        have h1 := params_tokens sh ps.content kids rs qs hrel hfl hq
        have hmem : ps ∈ sh.prods := List.mem_of_getElem? hp
        have hs' : sh.fixed = true ∨ ps.act ≠ .vecPush false := by
          rcases hs with hf | hall
          · exact Or.inl hf
          · exact Or.inr (hall ps hmem)
        rw [applyAct_tokens sh.loc sh.fixed ps.optional ps.act qs v hs' h, h1]

mutual
theorem eval_rel (sh : Shapes) (hs : Supported sh) :
    ∀ (t : PTree) (r : Option Val), t.wellShaped sh = true → eval sh t = .ok r →
      tokensOpt r = t.contentTokens sh ∧ r.isSome = kidHasValue sh t
  | .leaf t text, r, _, h => by
    simp only [eval] at h
    exact evalLeaf_rel sh t text r h
  | .node p kids, r, hw, h => by
    simp only [PTree.wellShaped, Bool.and_eq_true] at hw
    obtain ⟨hfl, hwk⟩ := hw
    simp only [eval] at h
    split at h
    · cases h
    · rename_i rs hrs
      have hrel := evalList_rel sh hs kids rs hwk hrs
      split at h
      · cases h
      · rename_i ps hp
        split at h
        · cases h
        · rename_i v hv
          cases h
          have hfl' : flagsAgree sh ps.content kids = true := by
            simpa [prodFlagsAgree, hp] using hfl
          have := reduce_tokens sh hs p ps hp kids rs v hrel hfl' hv
          simp [tokensOpt, PTree.contentTokens, this, kidHasValue]
theorem evalList_rel (sh : Shapes) (hs : Supported sh) :
    ∀ (ts : List PTree) (rs : List (Option Val)), PTree.wellShapedL sh ts = true → evalList sh ts = .ok rs →
      KidsRel sh ts rs
  | [], rs, _, h => by
    simp only [evalList] at h
    cases h
    simp [KidsRel]
  | t :: ts, rs, hw, h => by
    simp only [PTree.wellShapedL, Bool.and_eq_true] at hw
    obtain ⟨hwt, hwts⟩ := hw
    simp only [evalList] at h
    split at h
    · cases h
    · rename_i r hr
      split at h
      · cases h
      · rename_i rs' hrs'
        cases h
        have h1 := eval_rel sh hs t r hwt hr
        have h2 := evalList_rel sh hs ts rs' hwts hrs'
        exact ⟨h1.1, h1.2, h2⟩
end

/-- main lemma of C10 -/
theorem eval_tokens (sh : Shapes) (hs : Supported sh) (t : PTree) (hw : t.wellShaped sh = true) (v : Val)
    (h : eval sh t = .ok (some v)) : v.tokens = t.contentTokens sh := by
  have := (eval_rel sh hs t (some v) hw h).1
  simpa [tokensOpt] using this

end Rustemo.Ast
