import Rustemo.Proofs.GlrCompleteDefs
import Rustemo.Proofs.LexTokRun
import Rustemo.Model.GlrLexCert
/-!
# `LexDet` discharged for single-character terminals (the lexer side of the GLR theorems)

`GlrParser::find_lookaheads` (model `Glr.findLookaheadsCtx`) on a grammar all of whose terminals are distinct
one-character string recognizers (`Cert.singleCharLexer`, `SingleChar`), with the recognizer matrix of those
recognizers and nothing to skip (`charEnvOk`, `CharEnv`), full parse (`partialParse = false`), no Layout rule
(part of `Cert.singleCharLexer`): a head at byte offset `i` in state `s` is offered exactly the token of byte `i`
(STOP at the end of the input) if `s` has an action on it, and nothing otherwise — the hypothesis `LexDet` of the
completeness-type theorems of the GLR engine, with the tokens `byteTok env i` at the positions `bytePos env i`.

Why `partialParse = false`: with partial parsing a state that has no action on the next token but has one on STOP
is offered a synthetic STOP (`stopOrNone`), which `LexDet.look` excludes (it asks for NO token there).
-/
namespace Rustemo
open Rustemo.Glr

/-! ## soundness of the extra checks -/

theorem nodupB_sound : ∀ (l : List Nat), nodupB l = true → l.Nodup := by
  intro l
  induction l with
  | nil => intro _; exact List.nodup_nil
  | cons x xs ih =>
    intro h
    unfold nodupB at h
    simp only [Bool.and_eq_true, Bool.not_eq_true', List.contains_eq_mem, decide_eq_false_iff_not] at h
    exact List.nodup_cons.mpr ⟨h.1, ih h.2⟩

theorem Cert.sortedNodup_sound (t : Table) (h : Cert.sortedNodup t = true) (s : Nat) :
    ((t.sorted s).map (·.1)).Nodup := by
  unfold Table.sorted
  split
  · rename_i st hst
    exact nodupB_sound _ (forStates_spec h hst)
  · exact List.nodup_nil

theorem knownBytes_sound {g : Grammar} {input : List Nat} (h : knownBytes g input = true) :
    ∀ b ∈ input, charToTerm g b < g.nterms := by
  intro b hb
  unfold knownBytes at h
  rw [List.all_eq_true] at h
  simpa using h b hb

/-- the tokens a lookahead filter must reduce to one: grammar order, or every state's list repetition free -/
def LexUnique (env : Env) : Prop := env.grammarOrder = true ∨ ∀ s, ((env.t.sorted s).map (·.1)).Nodup

theorem lexUniqueOk_sound (env : Env) (h : lexUniqueOk env = true) : LexUnique env := by
  unfold lexUniqueOk at h
  simp only [Bool.or_eq_true] at h
  rcases h with h | h
  · exact Or.inl h
  · exact Or.inr (Cert.sortedNodup_sound env.t h)

/- a sentence has no unknown byte -/
mutual
theorem Tree.yield_lt (g : Grammar) : ∀ (t : Tree) (X : Nat), t.Valid g X → ∀ a ∈ t.yield, a < g.nterms
  | .leaf k _ _ _, X, hv, a, ha => by
    simp only [Tree.yield, List.mem_singleton] at ha
    simp only [Tree.Valid] at hv
    rw [ha]; exact hv.2
  | .node p _ _ cs, X, hv, a, ha => by
    simp only [Tree.Valid] at hv
    obtain ⟨pr, _, _, hcs⟩ := hv
    simp only [Tree.yield] at ha
    exact TreeList.yield_lt g cs pr.rhs hcs a ha
theorem TreeList.yield_lt (g : Grammar) :
    ∀ (ts : TreeList) (Xs : List Nat), ts.Valid g Xs → ∀ a ∈ ts.yield, a < g.nterms
  | .nil, _, _, a, ha => by simp [TreeList.yield] at ha
  | .cons t ts, Xs, hv, a, ha => by
    simp only [TreeList.Valid] at hv
    obtain ⟨X, Xs', _, h1, h2⟩ := hv
    simp only [TreeList.yield, List.mem_append] at ha
    rcases ha with ha | ha
    · exact Tree.yield_lt g t X h1 a ha
    · exact TreeList.yield_lt g ts Xs' h2 a ha
end

theorem knownBytes_of_sentence {g : Grammar} {input : List Nat} (h : Sentence g (tokensOf g input)) :
    knownBytes g input = true := by
  obtain ⟨tr, hv, hy⟩ := h
  unfold knownBytes
  rw [List.all_eq_true]
  intro b hb
  have : charToTerm g b ∈ tr.yield := by
    rw [hy]; unfold tokensOf; exact List.mem_map_of_mem hb
  simpa using Tree.yield_lt g tr _ hv _ this

/-! ## the token iterator offers at most one token -/

theorem iter_length_le_one (env : Env) (pos : Pos) (a : Nat) :
    ∀ (L : List (Nat × Bool)) (matched : Bool), (L.map (·.1)).Nodup →
      (∀ e ∈ L, ∀ l, env.recog e.1 pos.pos = some l → e.1 = a) →
      (tokenIterAux env pos matched L).length ≤ 1 := by
  intro L
  induction L with
  | nil => intro m _ _; simp [tokenIterAux]
  | cons e rest ih =>
    intro m hnd hm
    obtain ⟨k, fin⟩ := e
    simp only [List.map_cons, List.nodup_cons] at hnd
    obtain ⟨hk, hnd'⟩ := hnd
    have hm' : ∀ e ∈ rest, ∀ l, env.recog e.1 pos.pos = some l → e.1 = a :=
      fun e he => hm e (List.mem_cons_of_mem _ he)
    unfold tokenIterAux
    split
    · rename_i l hl
      have hka : k = a := hm (k, fin) List.mem_cons_self l hl
      have hnil : tokenIterAux env pos true rest = [] := by
        apply iter_nil
        intro e he
        cases hr : env.recog e.1 pos.pos with
        | none => rfl
        | some l' =>
          exfalso
          apply hk
          have : e.1 = k := by rw [hka]; exact hm' e he l' hr
          rw [← this]
          exact List.mem_map_of_mem he
      split <;> simp [hnil]
    · split
      · simp
      · exact ih m hnd' hm'

/-- the filters of `find_lookaheads` on copies of one token -/
theorem keepToks_all_eq (longest go : Bool) (tk : Tok) (toks : List Tok) (hne : toks ≠ [])
    (h : ∀ x ∈ toks, x = tk) (hone : go = true ∨ toks.length ≤ 1) : keepToks longest go toks = [tk] := by
  cases toks with
  | nil => exact absurd rfl hne
  | cons x rest =>
    have hx : x = tk := h x List.mem_cons_self
    subst hx
    have hml : maxLen (x :: rest) = x.val.2 := by
      unfold maxLen
      rw [maxLen_all_eq x.val.2 _ 0 (fun y hy => by rw [h y hy])]
      simp
    have hfilter : (x :: rest).filter (fun t => t.val.2 == maxLen (x :: rest)) = x :: rest := by
      rw [List.filter_eq_self]
      intro y hy
      rw [hml, h y hy]
      simp
    have hl1 : (if longest = true then (x :: rest).filter (fun t => t.val.2 == maxLen (x :: rest)) else x :: rest)
        = x :: rest := by
      split
      · exact hfilter
      · rfl
    unfold keepToks
    simp only [hl1]
    rcases hone with hgo | hlen
    · simp [hgo]
    · have : rest = [] := by
        cases rest with
        | nil => rfl
        | cons y ys => simp at hlen
      subst this
      split <;> simp

/-! ## `find_lookaheads` -/

/-- the core of the GLR lexing lemma: if the lexer step moves the context to `ctx'` (whitespace skipped) and runs the
    token iterator there, `find_lookaheads` (full parse) ends at `ctx'.pos` and offers exactly the token of the byte
    at `ctx'.pos` iff it has a non-empty cell in the head's state -/
theorem findLookaheads_core (env : Env)
    (hrec : ∀ k pos, k < env.g.nterms → pos ≤ env.input.length → env.recog k pos = charRecog env.g env.input k pos)
    (hc : SingleChar env.g env.t) (hu : LexUnique env) (fuel : Nat) (ctx ctx' : Ctx)
    (hlex : lexNext env ctx (env.t.sorted ctx.state) = (ctx', tokenIter env ctx'.pos (env.t.sorted ctx.state)))
    (hle : ctx'.pos.pos ≤ env.input.length)
    (a : Nat) (ha : a = lookahead (toksFrom env.g env.input ctx'.pos.pos)) :
    (findLookaheadsCtx env false fuel ctx).1.pos = ctx'.pos ∧
    (findLookaheadsCtx env false fuel ctx).2 =
      .ok (if (env.t.cell ctx.state a).isEmpty then [] else [tokAt env ctx'.pos a]) := by
  have hspec : ∀ k, k < env.g.nterms →
      (k = a → charRecog env.g env.input k ctx'.pos.pos = some (tokLen env.input ctx'.pos.pos)) ∧
      (k ≠ a → charRecog env.g env.input k ctx'.pos.pos = none) := by
    intro k hk; rw [ha]; exact charRecog_spec hc env.input ctx'.pos.pos k hk
  have hlt : ∀ e ∈ env.t.sorted ctx.state, e.1 < env.g.nterms := by
    intro e hmem
    have : e.1 ∈ (env.t.sorted ctx.state).map (·.1) := List.mem_map_of_mem hmem
    have hne := (hc.sorted_cell _ _).mp this
    rcases Nat.lt_or_ge e.1 env.g.nterms with h | h
    · exact h
    · exact absurd (hc.cells_lt _ _ h) hne
  have hm : ∀ e ∈ env.t.sorted ctx.state, ∀ l, env.recog e.1 ctx'.pos.pos = some l →
      e.1 = a ∧ l = tokLen env.input ctx'.pos.pos := by
    intro e hmem l hkl
    rw [hrec _ _ (hlt e hmem) hle] at hkl
    obtain ⟨h1, h2⟩ := hspec e.1 (hlt e hmem)
    by_cases hka : e.1 = a
    · have := h1 hka; rw [this] at hkl; injection hkl with hkl; exact ⟨hka, hkl.symm⟩
    · have := h2 hka; rw [this] at hkl; simp at hkl
  have hall := iter_all_eq env ctx'.pos a (env.t.sorted ctx.state) false hm
  unfold findLookaheadsCtx
  simp only [hlex, hc.noLayout]
  by_cases hcell : env.t.cell ctx.state a = []
  · have hnil : tokenIter env ctx'.pos (env.t.sorted ctx.state) = [] := by
      apply iter_nil
      intro e hmem
      have hne : e.1 ≠ a := by
        intro hea
        have : a ∈ (env.t.sorted ctx.state).map (·.1) := hea ▸ List.mem_map_of_mem hmem
        exact (hc.sorted_cell _ _).mp this hcell
      rw [hrec _ _ (hlt e hmem) hle]
      exact (hspec e.1 (hlt e hmem)).2 hne
    simp [hnil, hcell, stopOrNone]
  · have hmem := (hc.sorted_cell _ _).mpr hcell
    rw [List.mem_map] at hmem
    obtain ⟨e, hmem, hea⟩ := hmem
    have hne : tokenIter env ctx'.pos (env.t.sorted ctx.state) ≠ [] := by
      apply iter_ne_nil
      refine ⟨e, hmem, ?_⟩
      rw [hrec _ _ (hlt e hmem) hle, (hspec e.1 (hlt e hmem)).1 hea]
      simp
    have hone : env.grammarOrder = true ∨ (tokenIter env ctx'.pos (env.t.sorted ctx.state)).length ≤ 1 := by
      rcases hu with h | h
      · exact Or.inl h
      · exact Or.inr (iter_length_le_one env ctx'.pos a _ false (h ctx.state) (fun e hmem l hl => (hm e hmem l hl).1))
    have hk := keepToks_all_eq env.longest env.grammarOrder _ _ hne hall hone
    have hne' : (tokenIter env ctx'.pos (env.t.sorted ctx.state)).isEmpty = false := by
      simpa [List.isEmpty_iff] using hne
    have hcell' : (env.t.cell ctx.state a).isEmpty = false := by
      simpa [List.isEmpty_iff] using hcell
    simp [hne', hcell', hk]

/-- **The GLR lexing lemma** (nothing to skip): `find_lookaheads` (full parse) in state `ctx.state` at byte offset
    `ctx.pos.pos` stays where it is and offers exactly the next token of the input iff that token has a non-empty
    cell. -/
theorem findLookaheads_spec (env : Env) (he : CharEnv env) (hc : SingleChar env.g env.t) (hu : LexUnique env)
    (fuel : Nat) (ctx : Ctx) (hle : ctx.pos.pos ≤ env.input.length)
    (a : Nat) (ha : a = lookahead (toksFrom env.g env.input ctx.pos.pos)) :
    (findLookaheadsCtx env false fuel ctx).1.pos = ctx.pos ∧
    (findLookaheadsCtx env false fuel ctx).2 =
      .ok (if (env.t.cell ctx.state a).isEmpty then [] else [tokAt env ctx.pos a]) := by
  obtain ⟨ctx', hlex, hpos, _, _⟩ := lexNext_spec env he ctx (env.t.sorted ctx.state)
  rw [← hpos] at hlex hle ha ⊢
  exact findLookaheads_core env he.recog hc hu fuel ctx ctx' hlex hle a ha

/-! ## the tokens and positions of a byte input -/

/-- position of byte `i` (`position_after` of the first `i` bytes, one token at a time) -/
def bytePos (env : Env) : Nat → Pos
  | 0 => Pos.start
  | i+1 => posAfter (sliceOf env.input ((bytePos env i).pos, tokLen env.input (bytePos env i).pos)) (bytePos env i)

/-- token `i` of the input: the terminal of byte `i` (one byte long), STOP (empty) at the end -/
def byteTok (env : Env) (i : Nat) : Tok := tokAt env (bytePos env i) (lookahead (toksFrom env.g env.input i))

theorem bytePos_pos (env : Env) : ∀ i, i ≤ env.input.length → (bytePos env i).pos = i := by
  intro i
  induction i with
  | zero => intro _; rfl
  | succ i ih =>
    intro hi
    have hp := ih (by omega)
    unfold bytePos
    simp only [posAfter, hp, sliceOf, tokLen, List.length_take, List.length_drop]
    have : ¬ env.input.length ≤ i := by omega
    simp only [this, ↓reduceIte]
    omega

theorem byteTok_kind (env : Env) (i : Nat) (hi : i < env.input.length) :
    (byteTok env i).kind = charToTerm env.g env.input[i] := by
  unfold byteTok tokAt
  simp only [toksFrom_cons hi, lookahead, List.headD_cons]

theorem byteTok_kinds (env : Env) :
    (List.range env.input.length).map (fun i => (byteTok env i).kind) = tokensOf env.g env.input := by
  apply List.ext_getElem
  · simp [tokensOf]
  · intro i h1 h2
    simp only [List.length_map, List.length_range] at h1
    simp only [List.getElem_map, List.getElem_range, tokensOf]
    exact byteTok_kind env i h1

/-- **`LexDet` holds of the byte input**: tokens `byteTok env 0 … byteTok env (|input|-1)`, end token
    `byteTok env |input|` (STOP), positions `bytePos env i` before and after the (empty) whitespace in front of token
    `i`.  Hypotheses: `SingleChar` (= `Cert.singleCharLexer`, which includes "no Layout rule"), `CharEnv`
    (= `charEnvOk`), every byte a terminal character (`knownBytes`), one token kept (`LexUnique` = `lexUniqueOk`);
    full parse (`partialParse = false`); any fuel (without a Layout rule `find_lookaheads` uses none). -/
theorem lexDet_bytes (env : Env) (hc : SingleChar env.g env.t) (he : CharEnv env)
    (hk : knownBytes env.g env.input = true) (hu : LexUnique env) (fuel : Nat) :
    LexDet env false fuel env.input.length (byteTok env) (bytePos env) (bytePos env) := by
  refine ⟨rfl, ?_, ?_, ?_, ?_⟩
  · intro i _
    rfl
  · intro i hi ctx hp hs
    have hpp : ctx.pos.pos = i := by rw [hp]; exact bytePos_pos env i hi
    have := findLookaheads_spec env he hc hu fuel ctx (by omega) (lookahead (toksFrom env.g env.input i))
      (by rw [hpp])
    rw [hp] at this
    exact this
  · unfold byteTok tokAt
    simp only [toksFrom_nil (Nat.le_refl _), lookahead, List.headD_nil]
  · intro i hi
    rw [byteTok_kind env i hi]
    have h0 := charToTerm_ne_zero hc env.input[i]
    have h1 := knownBytes_sound hk env.input[i] (List.getElem_mem hi)
    omega

/-- **`LexDet` from executable certificates** (the form asked for): under `Cert.singleCharLexer` (single-character
    string terminals, pairwise distinct; `sorted_terminals` = the terminals with actions; NO Layout rule),
    `charEnvOk` (recognizer matrix = those recognizers on the input, string lexer, whitespace skipping off or nothing
    to skip), `knownBytes` and `lexUniqueOk`, for the full parse (`pp = false`) and every fuel, the GLR run is
    token-deterministic with token kinds `tokensOf env.g env.input`. -/
theorem lexDet_of_singleChar (env : Env) (hlex : Cert.singleCharLexer env.g env.t = true)
    (henv : charEnvOk env = true) (hknown : knownBytes env.g env.input = true) (huniq : lexUniqueOk env = true)
    (fuel : Nat) :
    ∃ n tok P L, LexDet env false fuel n tok P L ∧
      (List.range n).map (fun i => (tok i).kind) = tokensOf env.g env.input ∧
      n = env.input.length ∧ (∀ i, i ≤ n → (L i).pos = i) :=
  ⟨env.input.length, byteTok env, bytePos env, bytePos env,
    lexDet_bytes env (Cert.singleCharLexer_sound _ _ hlex) (charEnvOk_sound env henv) hknown
      (lexUniqueOk_sound env huniq) fuel,
    byteTok_kinds env, rfl, bytePos_pos env⟩

end Rustemo
