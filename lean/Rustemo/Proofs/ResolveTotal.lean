import Rustemo.Proofs.Resolve
/-!
# `addReduce`/`cell`: nothing is invented, shift-like actions never multiply, panics characterised
-/
set_option linter.unusedSimpArgs false
namespace Rustemo.Resolve
open Rustemo

theorem mem_rrLR (fx : Fixes) (n : Nat) (new : Action) (reduces cell : List Action) (a : Action)
    (h : a ∈ rrLR fx n new reduces cell) : a ∈ cell ∨ a = new := by
  unfold rrLR at h
  split at h
  · split at h
    · simp only [List.mem_append, List.mem_filter, List.mem_singleton] at h
      rcases h with h | h
      · exact .inl h.1
      · exact .inr h
    · split at h
      · simp only [List.mem_append, List.mem_singleton] at h; exact h
      · exact .inl h
  · simp only at h
    split at h
    · simp only [List.mem_append, List.mem_filter, List.mem_singleton] at h
      rcases h with h | h
      · exact .inl h.1
      · exact .inr h
    · simp only [List.mem_filter] at h; exact .inl h.1

theorem mem_rrStep (fx : Fixes) (cfg : Cfg) (info : Nat → PInfo) (r : Red)
    (reduces cell : List Action) (a : Action) (h : a ∈ rrStep fx cfg info r reduces cell) :
    a ∈ cell ∨ a = .reduce r.prod r.pos := by
  unfold rrStep at h
  simp only at h
  split at h
  · simpa using h
  · split at h
    · exact .inl h
    · split at h
      · simp only [List.mem_append, List.mem_filter, List.mem_singleton] at h
        rcases h with h | h
        · exact .inl h.1
        · exact .inr h
      · split at h
        · simpa using h
        · exact mem_rrLR _ _ _ _ _ _ h

theorem mem_overrideShift (fx : Fixes) (b : Bool) (cell c : List Action)
    (h : overrideShift fx b cell = .ok c) (a : Action) (ha : a ∈ c) : a ∈ cell := by
  unfold overrideShift at h
  split at h
  · injection h with h; subst h; exact (List.mem_filter.mp ha).1
  · split at h
    · injection h with h; subst h; exact List.dropLast_subset _ ha
    · cases h

theorem mem_applySR (fx : Fixes) (cfg : Cfg) (info : Nat → PInfo) (r : Red)
    (reduces cell : List Action) (d : SR) (c : List Action)
    (h : applySR fx cfg info r reduces cell d = .ok c) (a : Action) (ha : a ∈ c) :
    a ∈ cell ∨ a = .reduce r.prod r.pos := by
  cases d with
  | keepShift => injection h with h; subst h; exact .inl ha
  | both => injection h with h; subst h; exact mem_rrStep _ _ _ _ _ _ _ ha
  | override b =>
    simp only [applySR] at h
    cases ho : overrideShift fx b cell with
    | ok c0 =>
      rw [ho] at h; injection h with h; subst h
      rcases mem_rrStep _ _ _ _ _ _ _ ha with h1 | h1
      · exact .inl (mem_overrideShift _ _ _ _ ho _ h1)
      · exact .inr h1
    | panic s => rw [ho] at h; cases h
    | err e => rw [ho] at h; cases h
    | fuel => rw [ho] at h; cases h

/-- **One step never invents an action**: whatever is in the cell afterwards was there before or
    is the reduction being added. -/
theorem mem_addReduce (fx : Fixes) (cfg : Cfg) (info : Nat → PInfo) (ta : Assoc) (sp : Option Nat)
    (r : Red) (cell c : List Action) (h : addReduce fx cfg info ta sp r cell = .ok c)
    (a : Action) (ha : a ∈ c) : a ∈ cell ∨ a = .reduce r.prod r.pos := by
  unfold addReduce at h
  split at h
  · injection h with h; subst h; exact .inr (by simpa using ha)
  · simp only at h
    split at h
    · cases h
    · split at h
      · cases h
      · unfold onShift at h
        split at h
        · injection h with h; subst h; exact mem_rrStep _ _ _ _ _ _ _ ha
        · unfold withShift at h
          split at h
          · cases h
          · exact mem_applySR _ _ _ _ _ _ _ _ h _ ha

end Rustemo.Resolve

namespace Rustemo.Resolve
open Rustemo

/-- `c` is a sublist of `cell`, possibly with `new` appended -/
def Shape (new : Action) (cell c : List Action) : Prop :=
  ∃ l, l.Sublist cell ∧ (c = l ∨ c = l ++ [new])

theorem Shape.trans_sub {new : Action} {cell0 cell c : List Action} (h : Shape new cell c)
    (hs : cell.Sublist cell0) : Shape new cell0 c := by
  obtain ⟨l, hl, hc⟩ := h
  exact ⟨l, hl.trans hs, hc⟩

theorem shape_rrLR (fx : Fixes) (n : Nat) (new : Action) (reduces cell : List Action) :
    Shape new cell (rrLR fx n new reduces cell) := by
  unfold rrLR
  split
  · split
    · exact ⟨_, List.filter_sublist, .inr rfl⟩
    · split
      · exact ⟨_, List.Sublist.refl _, .inr rfl⟩
      · exact ⟨_, List.Sublist.refl _, .inl rfl⟩
  · simp only
    split
    · exact ⟨_, List.filter_sublist, .inr rfl⟩
    · exact ⟨_, List.filter_sublist, .inl rfl⟩

theorem shape_rrStep (fx : Fixes) (cfg : Cfg) (info : Nat → PInfo) (r : Red)
    (reduces cell : List Action) :
    Shape (.reduce r.prod r.pos) cell (rrStep fx cfg info r reduces cell) := by
  unfold rrStep
  simp only
  split
  · exact ⟨_, List.Sublist.refl _, .inr rfl⟩
  · split
    · exact ⟨_, List.Sublist.refl _, .inl rfl⟩
    · split
      · exact ⟨_, List.filter_sublist, .inr rfl⟩
      · split
        · exact ⟨_, List.Sublist.refl _, .inr rfl⟩
        · exact shape_rrLR _ _ _ _ _

theorem sub_overrideShift (fx : Fixes) (b : Bool) (cell c : List Action)
    (h : overrideShift fx b cell = .ok c) : c.Sublist cell := by
  unfold overrideShift at h
  split at h
  · injection h with h; subst h; exact List.filter_sublist
  · split at h
    · injection h with h; subst h; exact List.dropLast_sublist _
    · cases h

theorem shape_applySR (fx : Fixes) (cfg : Cfg) (info : Nat → PInfo) (r : Red)
    (reduces cell : List Action) (d : SR) (c : List Action)
    (h : applySR fx cfg info r reduces cell d = .ok c) :
    Shape (.reduce r.prod r.pos) cell c := by
  cases d with
  | keepShift => injection h with h; subst h; exact ⟨_, List.Sublist.refl _, .inl rfl⟩
  | both => injection h with h; subst h; exact shape_rrStep _ _ _ _ _ _
  | override b =>
    simp only [applySR] at h
    cases ho : overrideShift fx b cell with
    | ok c0 =>
      rw [ho] at h; injection h with h; subst h
      exact (shape_rrStep _ _ _ _ _ _).trans_sub (sub_overrideShift _ _ _ _ ho)
    | panic s => rw [ho] at h; cases h
    | err e => rw [ho] at h; cases h
    | fuel => rw [ho] at h; cases h

theorem shape_addReduce (fx : Fixes) (cfg : Cfg) (info : Nat → PInfo) (ta : Assoc) (sp : Option Nat)
    (r : Red) (cell c : List Action) (h : addReduce fx cfg info ta sp r cell = .ok c) :
    Shape (.reduce r.prod r.pos) cell c := by
  unfold addReduce at h
  split at h
  · injection h with h; subst h; exact ⟨[], List.nil_sublist _, .inr rfl⟩
  · simp only at h
    split at h
    · cases h
    · split at h
      · cases h
      · unfold onShift at h
        split at h
        · injection h with h; subst h; exact shape_rrStep _ _ _ _ _ _
        · unfold withShift at h
          split at h
          · cases h
          · exact shape_applySR _ _ _ _ _ _ _ _ h

theorem Shape.shiftLikes_le {p l : Nat} {cell c : List Action}
    (h : Shape (.reduce p l) cell c) : shiftLikes c ≤ shiftLikes cell := by
  obtain ⟨l', hl, hc⟩ := h
  have := (hl.filter isShiftLike).length_le
  rcases hc with hc | hc <;> subst hc <;> simp [shiftLikes, List.filter_append] <;> exact this

end Rustemo.Resolve

namespace Rustemo.Resolve
open Rustemo

theorem all_isReduce_filter (cell : List Action) :
    (cell.filter (fun a => !isShiftLike a)).all isReduce = true := by
  simp only [List.all_eq_true, List.mem_filter]
  intro a ⟨_, h⟩
  cases a <;> simp_all

theorem eq_singleton_of_mem {α} {l : List α} {a : α} (hl : l.length ≤ 1) (ha : a ∈ l) : l = [a] := by
  match l, hl, ha with
  | [b], _, ha => simp at ha; subst ha; rfl
  | _ :: _ :: _, hl, _ => simp at hl

/-- the SHIFT/ACCEPT of a cell that holds at most one -/
theorem head_shifts {cell : List Action} (h1 : shiftLikes cell ≤ 1) {sh : Action}
    (hm : sh ∈ cell) (hs : isShiftLike sh = true) : (cell.filter isShiftLike).head? = some sh := by
  have : sh ∈ cell.filter isShiftLike := List.mem_filter.mpr ⟨hm, hs⟩
  rw [eq_singleton_of_mem h1 this]; rfl

theorem head_shifts_mem {cell : List Action} {sh : Action}
    (h : (cell.filter isShiftLike).head? = some sh) : sh ∈ cell ∧ isShiftLike sh = true := by
  have := List.mem_of_head? h
  exact List.mem_filter.mp this

theorem shiftPrio_some {sp : Option Nat} {cell : List Action} (h2 : SpOk sp cell) {sh : Action}
    (hm : sh ∈ cell) (hs : isShiftLike sh = true) : ∃ shp, shiftPrio sp sh = some shp := by
  cases sh with
  | accept => exact ⟨10, rfl⟩
  | reduce p l => simp at hs
  | shift s => cases sp with
    | some x => exact ⟨x, rfl⟩
    | none => rcases h2 with h | h
              · exact absurd rfl h
              · exact absurd hm (h s)

end Rustemo.Resolve

namespace Rustemo.Resolve
open Rustemo

/-- **A step of the repaired code never panics** on a cell with at most one SHIFT/ACCEPT whose
    shift priority is defined. -/
theorem addReduce_total (fx : Fixes) (hn : fx.noAssert = true) (cfg : Cfg) (info : Nat → PInfo)
    (ta : Assoc) (sp : Option Nat) (r : Red) (cell : List Action)
    (h1 : shiftLikes cell ≤ 1) (h2 : SpOk sp cell) :
    ∃ c, addReduce fx cfg info ta sp r cell = .ok c := by
  unfold addReduce
  split
  · exact ⟨_, rfl⟩
  · simp only
    rw [if_neg (by unfold shiftLikes at h1; omega)]
    rw [all_isReduce_filter]
    simp only [Bool.not_true, Bool.false_eq_true, if_false]
    unfold onShift
    split
    · exact ⟨_, rfl⟩
    · rename_i sh hh
      obtain ⟨hm, hs⟩ := head_shifts_mem hh
      obtain ⟨shp, hp⟩ := shiftPrio_some h2 hm hs
      rw [hp]
      simp only [withShift]
      generalize srDecide fx cfg (info r.prod) ta (compare (info r.prod).prio shp) = d
      cases d with
      | keepShift => exact ⟨_, rfl⟩
      | both => exact ⟨_, rfl⟩
      | override b => simp [applySR, overrideShift, hn, afterOverride]

/-- **When exactly today's code panics** (on a cell with at most one SHIFT/ACCEPT whose shift
    priority is defined): iff the reduction overrides the SHIFT (higher priority, or equal priority
    and the associativity arm that pops) while the cell holds something besides the SHIFT. -/
theorem addReduce_panic_iff (fx : Fixes) (hn : fx.noAssert = false) (cfg : Cfg) (info : Nat → PInfo)
    (ta : Assoc) (sp : Option Nat) (r : Red) (cell : List Action)
    (h1 : shiftLikes cell ≤ 1) (h2 : SpOk sp cell) :
    (∃ site, addReduce fx cfg info ta sp r cell = .panic site) ↔
      (Overrides fx cfg info ta sp r cell ∧ 2 ≤ cell.length) := by
  unfold addReduce
  split
  · rename_i he
    have : cell = [] := by simpa using he
    subst this
    constructor
    · rintro ⟨_, h⟩; cases h
    · rintro ⟨_, h⟩; simp at h
  · rename_i hne
    simp only
    rw [if_neg (by unfold shiftLikes at h1; omega)]
    rw [all_isReduce_filter]
    simp only [Bool.not_true, Bool.false_eq_true, if_false]
    unfold onShift
    split
    · rename_i hh
      constructor
      · rintro ⟨_, h⟩; cases h
      · rintro ⟨⟨sh, hm, hs, _⟩, _⟩
        have := head_shifts h1 hm hs
        rw [hh] at this; cases this
    · rename_i sh hh
      obtain ⟨hm, hs⟩ := head_shifts_mem hh
      obtain ⟨shp, hp⟩ := shiftPrio_some h2 hm hs
      rw [hp]
      simp only [withShift]
      have huniq : ∀ sh', sh' ∈ cell → isShiftLike sh' = true → sh' = sh := by
        intro sh' hm' hs'
        have := head_shifts h1 hm' hs'
        rw [hh] at this; injection this with this; exact this.symm
      constructor
      · rintro ⟨site, h⟩
        cases hd : srDecide fx cfg (info r.prod) ta (compare (info r.prod).prio shp) with
        | keepShift => rw [hd] at h; cases h
        | both => rw [hd] at h; cases h
        | override b =>
          rw [hd] at h
          refine ⟨⟨sh, hm, hs, shp, hp, b, hd⟩, ?_⟩
          simp only [applySR, overrideShift, hn, Bool.false_eq_true, if_false] at h
          split at h
          · cases h
          · rename_i hl
            have : cell.length ≠ 0 := by
              intro h0; exact hne (by simp [List.length_eq_zero_iff.mp h0])
            have : ¬ cell.length = 1 := by simpa using hl
            omega
      · rintro ⟨⟨sh', hm', hs', shp', hp', b, hd⟩, hl⟩
        have := huniq sh' hm' hs'
        subst this
        rw [hp] at hp'; injection hp' with hp'; subst hp'
        rw [hd]
        have : ¬ cell.length = 1 := by omega
        simp [applySR, overrideShift, hn, this, afterOverride]

end Rustemo.Resolve

namespace Rustemo.Resolve
open Rustemo

/-- a step ends in a cell or in a panic, nothing else -/
theorem addReduce_ok_or_panic (fx : Fixes) (cfg : Cfg) (info : Nat → PInfo) (ta : Assoc)
    (sp : Option Nat) (r : Red) (cell : List Action) :
    (∃ c, addReduce fx cfg info ta sp r cell = .ok c) ∨
      (∃ s, addReduce fx cfg info ta sp r cell = .panic s) := by
  unfold addReduce
  split
  · exact .inl ⟨_, rfl⟩
  · simp only
    split
    · exact .inr ⟨_, rfl⟩
    · split
      · exact .inr ⟨_, rfl⟩
      · unfold onShift
        split
        · exact .inl ⟨_, rfl⟩
        · unfold withShift
          split
          · exact .inr ⟨_, rfl⟩
          · rename_i shp _
            cases srDecide fx cfg (info r.prod) ta (compare (info r.prod).prio shp) with
            | keepShift => exact .inl ⟨_, rfl⟩
            | both => exact .inl ⟨_, rfl⟩
            | override b =>
              simp only [applySR, overrideShift]
              split
              · exact .inl ⟨_, rfl⟩
              · split
                · exact .inl ⟨_, rfl⟩
                · exact .inr ⟨_, rfl⟩

end Rustemo.Resolve
