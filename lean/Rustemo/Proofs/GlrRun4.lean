import Rustemo.Proofs.GlrRun3
/-!
# What one `reducePath` on level `F` leaves alone and what it records (`RB`)
-/
namespace Rustemo.Glr
open Rustemo

/-- book-keeping of one reducer run on level `F` (lookahead kind `a`), relative to the graph `g0` it started on:
    lower levels are framed, the shifts and accepts of every head of the sub-frontier are recorded, every head of
    the level is a base head or in the sub-frontier -/
structure RB (env : Env) (F a : Nat) (tk0 : Tok) (LF : Pos) (base acc0 : List Nat) (sub0 : SubFrontier) (g0 : Gss)
    (rs : RState) : Prop where
  frame : FrameLt F g0 rs.gss
  sc : ∀ (s u s' : Nat), (s, u) ∈ rs.sub → Action.shift s' ∈ env.t.cell s a → (u, s') ∈ rs.shifts
  ac : ∀ (s u : Nat), (s, u) ∈ rs.sub → Action.accept ∈ env.t.cell s a → u ∈ rs.accepted
  li : ∀ (h : Nat) (hd : Head), rs.gss.heads[h]? = some hd → hd.frontier = F → h ∈ base ∨ InSub rs.sub h
  tp : ∀ (h : Nat) (hd : Head), rs.gss.heads[h]? = some hd → hd.frontier = F →
    hd.pos = LF ∧ ∀ t, hd.tok = some t → t = tk0
  am : ∀ x ∈ acc0, x ∈ rs.accepted
  sm : ∀ x ∈ sub0, x ∈ rs.sub
  ns : ∀ (s h : Nat), (s, h) ∈ rs.sub → h ∈ base ∨ (env.g.nterms ≤ env.t.symAt s ∧ s ≠ 0)

theorem registerActions_shifts_mono (head edge : Nat) (hc ec : Bool) : ∀ (acts : List Action)
    (acc : List Reduction × List (Nat × Nat) × List Nat), ∀ x ∈ acc.2.1, x ∈ (registerActions head edge hc ec acts acc).2.1
  | [], acc, x, hx => by simpa [registerActions] using hx
  | act :: rest, (q, sh, ac), x, hx => by
    cases act with
    | reduce p len =>
      simp only [registerActions]
      split
      · exact registerActions_shifts_mono head edge hc ec rest _ x hx
      · exact registerActions_shifts_mono head edge hc ec rest _ x hx
    | shift s =>
      simp only [registerActions]
      apply registerActions_shifts_mono head edge hc ec rest _ x
      simp only at hx ⊢
      split
      · exact List.mem_cons_of_mem _ hx
      · exact hx
    | accept =>
      simp only [registerActions]
      exact registerActions_shifts_mono head edge hc ec rest _ x hx

theorem registerActions_acc_mono (head edge : Nat) (hc ec : Bool) : ∀ (acts : List Action)
    (acc : List Reduction × List (Nat × Nat) × List Nat), ∀ x ∈ acc.2.2, x ∈ (registerActions head edge hc ec acts acc).2.2
  | [], acc, x, hx => by simpa [registerActions] using hx
  | act :: rest, (q, sh, ac), x, hx => by
    cases act with
    | reduce p len =>
      simp only [registerActions]
      split
      · exact registerActions_acc_mono head edge hc ec rest _ x hx
      · exact registerActions_acc_mono head edge hc ec rest _ x hx
    | shift s =>
      simp only [registerActions]
      exact registerActions_acc_mono head edge hc ec rest _ x hx
    | accept =>
      simp only [registerActions]
      apply registerActions_acc_mono head edge hc ec rest _ x
      simp only at hx ⊢
      split
      · exact List.mem_append_left _ hx
      · exact hx

theorem registerActions_shifts_new (head edge : Nat) (ec : Bool) {s : Nat} : ∀ (acts : List Action)
    (acc : List Reduction × List (Nat × Nat) × List Nat), Action.shift s ∈ acts →
    (head, s) ∈ (registerActions head edge true ec acts acc).2.1
  | [], _, hm => by simp at hm
  | act :: rest, (q, sh, ac), hm => by
    rcases List.mem_cons.mp hm with heq | hr
    · subst heq
      simp only [registerActions]
      apply registerActions_shifts_mono
      simp
    · cases act with
      | reduce p len =>
        simp only [registerActions]
        split
        · exact registerActions_shifts_new head edge ec rest _ hr
        · exact registerActions_shifts_new head edge ec rest _ hr
      | shift s2 => simp only [registerActions]; exact registerActions_shifts_new head edge ec rest _ hr
      | accept => simp only [registerActions]; exact registerActions_shifts_new head edge ec rest _ hr

theorem registerActions_acc_new (head edge : Nat) (ec : Bool) : ∀ (acts : List Action)
    (acc : List Reduction × List (Nat × Nat) × List Nat), Action.accept ∈ acts →
    head ∈ (registerActions head edge true ec acts acc).2.2
  | [], _, hm => by simp at hm
  | act :: rest, (q, sh, ac), hm => by
    rcases List.mem_cons.mp hm with heq | hr
    · subst heq
      simp only [registerActions]
      apply registerActions_acc_mono
      simp
    · cases act with
      | reduce p len =>
        simp only [registerActions]
        split
        · exact registerActions_acc_new head edge ec rest _ hr
        · exact registerActions_acc_new head edge ec rest _ hr
      | shift s2 => simp only [registerActions]; exact registerActions_acc_new head edge ec rest _ hr
      | accept => simp only [registerActions]; exact registerActions_acc_new head edge ec rest _ hr

/-- the edge `findOrCreateEdge` returns goes from the head to the root -/
theorem findOrCreateEdge_ends {g : Gss} {hA u0 : Nat} {ed : Edge}
    (hed : (findOrCreateEdge g hA u0).1.edges[(findOrCreateEdge g hA u0).2.1]? = some ed) :
    ed.src = hA ∧ ed.dst = u0 := by
  unfold findOrCreateEdge at hed
  cases hb : g.edgeBetween hA u0 with
  | some e =>
    rw [hb] at hed
    simp only at hed
    obtain ⟨ed0, k3, k4, k5⟩ := edgeBetween_some hb
    rw [hed] at k3; injection k3 with k3; subst k3
    exact ⟨k4, k5⟩
  | none =>
    rw [hb] at hed
    simp only [addEdge_idx, addEdge_edges, ↓reduceIte] at hed
    injection hed with hed; subst hed
    exact ⟨rfl, rfl⟩

/-- one `reducePath` keeps the book-keeping -/
theorem reducePath_rb {env : Env} (hT : TableOk env) {F a : Nat} {tk0 : Tok} {LF : Pos} {base acc0 : List Nat} {sub0 : SubFrontier} {g0 : Gss}
    {rs rs' : RState}
    {p0 startHead : Nat}
    {sh : Head} {tk : Tok} {q : Path} (hI : RInv env F rs)
    (hsh : rs.gss.heads[startHead]? = some sh) (hshF : sh.frontier = F) (htk : sh.tok = some tk) (hka : tk.kind = a)
    (hb : RB env F a tk0 LF base acc0 sub0 g0 rs) (h : reducePath env p0 startHead rs q = .ok rs') :
    RB env F a tk0 LF base acc0 sub0 g0 rs' := by
  obtain ⟨d, hf, hcase⟩ := reducePath_inv h
  have e1 : d.sh = sh := by have := hf.hsh; rw [hsh] at this; injection this with this; exact this.symm
  have e2 : d.tk = tk := by have := hf.htk; rw [e1, htk] at this; injection this with this; exact this.symm
  cases hcase with
  | skip _ heq => subst heq; exact hb
  | fold g1 sub1 hA hc ed hne hfh hed hnew heq =>
    simp only [Bool.or_eq_false_iff] at hnew
    obtain ⟨⟨hcf, hecf⟩, _⟩ := hnew
    obtain ⟨_, _, _, hold1, _⟩ := grow_head hfh q.root
    obtain ⟨k1, k2, k3⟩ := hold1 hcf
    subst k1; subst k2
    obtain ⟨_, _, _, hold2, _⟩ := grow_edge rs hA q.root
    obtain ⟨m1, m2⟩ := hold2 hecf
    rw [m1] at hed heq
    obtain ⟨ed0, n1, n2, n3⟩ := edgeBetween_some m2
    rw [hed] at n1; injection n1 with n1; subst n1
    obtain ⟨hdA, hhA, _, hAF, _⟩ := hI.sub _ _ (sfGet_mem k3)
    have hsub' : rs'.sub = rs.sub := by rw [heq]
    have hsh' : rs'.shifts = rs.shifts := by rw [heq]
    have hac' : rs'.accepted = rs.accepted := by rw [heq]
    have hgs : rs'.gss = replaceChildren rs.gss p0 q.parents ed.poss := by rw [heq]
    have hfr : FrameLt F rs.gss rs'.gss ∧ rs'.gss.heads = rs.gss.heads := by
      rw [hgs]
      cases replaceChildren_spec rs.gss p0 q.parents ed.poss with
      | same h1 _ => rw [h1]; exact ⟨FrameLt.refl _ _, rfl⟩
      | one n0 sp l C0 h1 h2 _ _ h5 h6 h7 =>
        exact ⟨frame_setNode F hI.g hed (by rw [n2]; exact hhA) (by omega) h1 h2 h5 h6 h7, h5⟩
    refine ⟨hb.frame.trans hfr.1, ?_, ?_, ?_, ?_, fun x hx => by rw [hac']; exact hb.am x hx,
      fun x hx => by rw [hsub']; exact hb.sm x hx, fun s h hm => by rw [hsub'] at hm; exact hb.ns s h hm⟩
    · intro s u s' hs hact; rw [hsh']; rw [hsub'] at hs; exact hb.sc s u s' hs hact
    · intro s u hs hact; rw [hac']; rw [hsub'] at hs; exact hb.ac s u hs hact
    · intro i hd hi hiF
      rw [hfr.2] at hi
      rw [hsub']
      exact hb.li i hd hi hiF
    · intro i hd hi hiF
      rw [hfr.2] at hi
      exact hb.tp i hd hi hiF
  | new g1 sub1 hA hc ed span hne hfh hed hnew heq =>
    rw [e1] at hfh
    rw [e2, hka] at hne heq
    obtain ⟨gr1, hge1, hgn1, hold1, hnew1⟩ := grow_head hfh q.root
    obtain ⟨gr2, hgh2, hgn2, hold2, hnew2⟩ := grow_edge { rs with gss := g1, sub := sub1 } hA q.root
    simp only at gr2 hgh2 hgn2 hold2 hnew2
    obtain ⟨hsrc, hdst⟩ := findOrCreateEdge_ends hed
    -- the head `hA` in `g1`: on level `F`, in the new sub-frontier
    have hA1 : ∃ hdA : Head, g1.heads[hA]? = some hdA ∧ hdA.frontier = F ∧ hdA.state = d.s' ∧ (d.s', hA) ∈ sub1 := by
      cases hcb : hc with
      | false =>
        obtain ⟨j1, j2, j3⟩ := hold1 hcb
        obtain ⟨x, hx, hxs, hxF, _⟩ := hI.sub _ _ (sfGet_mem j3)
        exact ⟨x, by rw [j1]; exact hx, hxF, hxs, by rw [j2]; exact sfGet_mem j3⟩
      | true =>
        obtain ⟨_, j2, j3, j4⟩ := hnew1 hcb
        refine ⟨{ sh with state := d.s' }, ?_, hshF, rfl, by rw [j4, j2]; exact mem_sfInsert_self _ _ _⟩
        rw [j3, j2, addHead_heads]; simp
    obtain ⟨hdA, hhA1, hAF, hAs, hAin⟩ := hA1
    have hgs : rs'.gss = ((findOrCreateEdge g1 hA q.root).1.addNode (.nonterm p0 span d.hr.lay q.parents)).1.pushPoss
        (findOrCreateEdge g1 hA q.root).2.1 (findOrCreateEdge g1 hA q.root).1.nodes.size := by rw [heq]; rfl
    have hsub' : rs'.sub = sub1 := by rw [heq]; rfl
    have hsh' : rs'.shifts = (registerActions hA (findOrCreateEdge g1 hA q.root).2.1 hc (findOrCreateEdge g1 hA q.root).2.2
        (env.t.cell d.s' a) (rs.queue, rs.shifts, rs.accepted)).2.1 := by rw [heq]; rfl
    have hac' : rs'.accepted = (registerActions hA (findOrCreateEdge g1 hA q.root).2.1 hc (findOrCreateEdge g1 hA q.root).2.2
        (env.t.cell d.s' a) (rs.queue, rs.shifts, rs.accepted)).2.2 := by rw [heq]; rfl
    -- frames
    have f1 : FrameLt F rs.gss g1 := by
      cases hcb : hc with
      | false => obtain ⟨j1, _, _⟩ := hold1 hcb; rw [j1]; exact FrameLt.refl _ _
      | true =>
        obtain ⟨_, _, j3, _⟩ := hnew1 hcb
        rw [j3]
        exact frame_addHead F rs.gss _ (by simp [hshF])
    have f2 : FrameLt F g1 (findOrCreateEdge g1 hA q.root).1 := by
      cases hec : (findOrCreateEdge g1 hA q.root).2.2 with
      | false => obtain ⟨j1, _⟩ := hold2 hec; rw [j1]; exact FrameLt.refl _ _
      | true =>
        obtain ⟨_, _, j3⟩ := hnew2 hec
        rw [j3]
        exact frame_addEdge F g1 hA q.root [] hdA hhA1 (by omega)
    have f12 := f1.trans f2
    have f3 : FrameLt F (findOrCreateEdge g1 hA q.root).1
        ((findOrCreateEdge g1 hA q.root).1.addNode (.nonterm p0 span d.hr.lay q.parents)).1 := by
      refine ⟨fun _ _ h _ => h, fun _ _ h _ => h, fun _ _ _ he _ _ => he, fun _ _ _ he _ _ => he, ?_,
        fun _ hd h => ⟨hd, h, rfl, rfl⟩, fun _ ed he => ⟨ed, he, rfl, rfl, fun _ hn => hn⟩,
        fun n tk sp hn => addNode_old hn⟩
      intro e ed' hs n he hhs hsl hn
      have he0 := f12.edges_bwd e ed' hs he hhs hsl
      obtain ⟨_, _, _, _, _, hp⟩ := (hI.g.edges e ed' he0).ends
      obtain ⟨nd', hnd', _⟩ := hp n hn
      have : (findOrCreateEdge g1 hA q.root).1.nodes[n]? = some nd' := by rw [hgn2, hgn1]; exact hnd'
      rw [addNode_old this, this]
    have f4 : FrameLt F ((findOrCreateEdge g1 hA q.root).1.addNode (.nonterm p0 span d.hr.lay q.parents)).1 rs'.gss := by
      rw [hgs]
      apply frame_pushPoss F _ _ _ ed hdA (by simpa using hed)
      · simp only [addNode_heads]; rw [hgh2, hsrc]; exact hhA1
      · omega
    have hheads : rs'.gss.heads = g1.heads := by rw [hgs]; simp [hgh2]
    refine ⟨hb.frame.trans ((f12.trans f3).trans f4), ?_, ?_, ?_, ?_,
      fun x hx => by rw [hac']; exact registerActions_acc_mono _ _ _ _ _ _ _ (hb.am x hx),
      fun x hx => by rw [hsub']; exact gr1.sub_old x (hb.sm x hx), ?_⟩
    · intro s u s' hs hact
      rw [hsub'] at hs
      rw [hsh']
      rcases gr1.sub_new _ hs with hold | hnw
      · exact registerActions_shifts_mono _ _ _ _ _ _ _ (hb.sc s u s' hold hact)
      · cases hcb : hc with
        | false => rw [hcb] at hnw; simp at hnw
        | true =>
          rw [hcb] at hnw
          simp only [↓reduceIte, Option.some.injEq] at hnw
          obtain ⟨j1, j2, _, j4⟩ := hnew1 hcb
          rw [j4] at hs
          have hs1 : s = d.s' := by
            rcases mem_sfInsert hs with k | k
            · injection k
            · exfalso
              obtain ⟨x, hx, _⟩ := hI.sub _ _ k
              have := lt_of_getElem?_some hx
              omega
          subst hs1
          rw [← hnw]
          exact registerActions_shifts_new _ _ _ _ _ hact
    · intro s u hs hact
      rw [hsub'] at hs
      rw [hac']
      rcases gr1.sub_new _ hs with hold | hnw
      · exact registerActions_acc_mono _ _ _ _ _ _ _ (hb.ac s u hold hact)
      · cases hcb : hc with
        | false => rw [hcb] at hnw; simp at hnw
        | true =>
          rw [hcb] at hnw
          simp only [↓reduceIte, Option.some.injEq] at hnw
          obtain ⟨j1, j2, _, j4⟩ := hnew1 hcb
          rw [j4] at hs
          have hs1 : s = d.s' := by
            rcases mem_sfInsert hs with k | k
            · injection k
            · exfalso
              obtain ⟨x, hx, _⟩ := hI.sub _ _ k
              have := lt_of_getElem?_some hx
              omega
          subst hs1
          rw [← hnw]
          exact registerActions_acc_new _ _ _ _ _ hact
    · intro i hd hi hiF
      rw [hheads] at hi
      rw [hsub']
      rcases gr1.heads_new i hd hi with hold | hnw
      · rcases hb.li i hd hold hiF with k | ⟨s, k⟩
        · exact Or.inl k
        · exact Or.inr ⟨s, gr1.sub_old _ k⟩
      · right
        cases hcb : hc with
        | false => rw [hcb] at hnw; simp at hnw
        | true =>
          rw [hcb] at hnw
          simp only [↓reduceIte, Option.some.injEq] at hnw
          rw [← hnw]
          exact ⟨_, hAin⟩
    · intro i hd hi hiF
      rw [hheads] at hi
      rcases gr1.heads_new i hd hi with hold | hnw
      · exact hb.tp i hd hold hiF
      · cases hcb : hc with
        | false => rw [hcb] at hnw; simp at hnw
        | true =>
          rw [hcb] at hnw
          simp only [↓reduceIte, Option.some.injEq] at hnw
          obtain ⟨_, j2, j3, _⟩ := hnew1 hcb
          rw [j3, ← hnw, j2, addHead_heads] at hi
          simp only [↓reduceIte, Option.some.injEq] at hi
          rw [← hi]
          exact hb.tp startHead sh hsh hshF
    · intro s u hs
      rw [hsub'] at hs
      rcases gr1.sub_new _ hs with hold | hnw
      · exact hb.ns s u hold
      · right
        cases hcb : hc with
        | false => rw [hcb] at hnw; simp at hnw
        | true =>
          rw [hcb] at hnw
          simp only [↓reduceIte, Option.some.injEq] at hnw
          obtain ⟨j1, j2, _, j4⟩ := hnew1 hcb
          rw [j4] at hs
          have hs1 : s = d.s' := by
            rcases mem_sfInsert hs with k | k
            · injection k
            · exfalso
              obtain ⟨x, hx, _⟩ := hI.sub _ _ k
              have := lt_of_getElem?_some hx
              omega
          subst hs1
          obtain ⟨hA', _⟩ := goto_spec hf.hgoto
          have htrans : env.t.trans env.g d.hr.state d.pr.lhs d.s' := by
            unfold Table.trans
            have : ¬ d.pr.lhs < env.g.nterms := by omega
            simp only [this, ↓reduceIte]; exact hf.hgoto
          rw [hT.sym _ _ _ htrans]
          refine ⟨hA', ?_⟩
          intro h0
          exact hT.s.no_into_start _ (main_auto_mem env) _ _ (by rw [h0] at htrans; exact htrans)

theorem RB.extra {env : Env} (hT : TableOk env) (F a : Nat) (tk0 : Tok) (LF : Pos) (base acc0 : List Nat) (sub0 : SubFrontier) (g0 : Gss) :
    Extra env F a (RB env F a tk0 LF base acc0 sub0 g0) :=
  ⟨fun _ _ h => ⟨h.frame, h.sc, h.ac, h.li, h.tp, h.am, h.sm, h.ns⟩,
   fun _ _ _ _ _ _ _ hI hsh hshF htk hka hb h => reducePath_rb hT hI hsh hshF htk hka hb h⟩

end Rustemo.Glr
