import Rustemo.Proofs.GlrReduce2
/-!
# `reducePath`, `reduceOne`, `reducerLoop`, `reduceAll`
-/
namespace Rustemo.Glr
open Rustemo

variable {A : Prop}

theorem tokKind_ok {hd : Head} (h : hd.tok.isSome = true) : ∃ tk, hd.tok = some tk ∧ tokKind hd = .ok tk.kind := by
  cases hk : hd.tok with
  | none => rw [hk] at h; simp at h
  | some tk => exact ⟨tk, rfl, by unfold tokKind; rw [hk]⟩

theorem reducePath_sat {env : Env} (hT : TableOk env) {F : Nat} {rs : RState} (hI : RInv env F rs)
    {prod len : Nat} {pr : Prod} (hpr : env.g.prods[prod]? = some pr) (hlen : len ≤ pr.rhs.length)
    (hnul : ∀ Y ∈ pr.rhs.drop len, Nullable env.g Y) (haug : env.g.isAug prod = false)
    {startHead : Nat} {sh : Head} (hsh : rs.gss.heads[startHead]? = some sh) (htok : sh.tok.isSome = true)
    (hF : sh.frontier = F) {path : Path} (hp : PathOk env rs.gss prod len pr F 0 path) :
    Sat A (fun rs' => RInv env F rs' ∧ Ext rs.gss rs'.gss) (reducePath env prod startHead rs path) := by
  obtain ⟨tk, htk, hkind⟩ := tokKind_ok htok
  obtain ⟨⟨hr, hhr, hitem⟩, hdl, hchain⟩ := hp
  obtain ⟨s', hgoto⟩ := hT.tot.goto_total _ prod pr hitem hpr haug
  have hplen : path.parents.length = len := by omega
  simp only [List.drop_zero] at hchain
  unfold reducePath
  rw [head_sat' _ _ _ hsh]
  simp only [obind]
  rw [hkind]
  simp only
  rw [head_sat' _ _ _ hhr]
  simp only [prodLhs, hpr, gotoState, hgoto]
  split
  · exact ⟨hI, Ext.refl _⟩
  · -- the goto state has actions for the lookahead
    obtain ⟨hA, _⟩ := goto_spec hgoto
    have htrans : env.t.trans env.g hr.state pr.lhs s' := by
      unfold Table.trans
      have : ¬ pr.lhs < env.g.nterms := by omega
      simp only [this, ↓reduceIte]; exact hgoto
    have hsym : env.t.symAt s' = pr.lhs := hT.sym _ _ _ htrans
    have hshok := hI.g.heads _ sh hsh
    have hok : HeadOk env { sh with state := s' } :=
      ⟨hT.tot.goto_range _ _ _ hgoto, Or.inr fun au hau heq => hT.s.no_into_start au hau _ _ (by have : s' = au.start := heq; rw [← this]; exact htrans),
        hshok.span, hshok.tok⟩
    apply Sat.bind (findOrCreateHead_sat hI.g hI.sub sh htok hF s' hok)
    rintro ⟨g1, sub1, head, hc⟩ ⟨hg1, hx1, hsub1, hedges1, hnodes1, ⟨hd, hhd, hds, hdf, hdt, hdc⟩, hnc⟩
    simp only at hg1 hx1 hsub1 hedges1 hnodes1 hhd hdc hnc ⊢
    -- facts moved to g1
    obtain ⟨hr1, hhr1, hrs1, _, _⟩ := hx1.heads _ hr hhr
    have hchain1 := ChildrenOk.ext hx1 _ _ _ _ hchain
    have hkindc : hc = true → ∃ tk', hd.tok = some tk' ∧ tk'.kind = tk.kind := by
      intro h; exact ⟨tk, by rw [(hdc h).1, htk], rfl⟩
    have hlists1 := hI.lists.ext hx1
    have hl : pr.lhs = env.t.symAt hd.state := by rw [hds, hsym]
    have hparents_old : ∀ e ∈ path.parents, ∃ ed : Edge, g1.edges[e]? = some ed := childrenOk_mem hchain1
    have hcell : ∀ a ∈ env.t.cell s' tk.kind, a ∈ env.t.cell hd.state tk.kind := by rw [hds]; exact fun a h => h
    cases hbetween : g1.edgeBetween head path.root with
    | some edge =>
      -- the edge exists
      simp only [findOrCreateEdge, hbetween]
      obtain ⟨ed, hed, hsrc, hdst⟩ := edgeBetween_some hbetween
      rw [edge_sat' _ _ _ hed]
      simp only [obind]
      have hhd' : g1.heads[ed.src]? = some hd := by rw [hsrc]; exact hhd
      have hch' : ChildrenOk env.t g1 path.parents (pr.rhs.take path.parents.length) ed.dst hd.frontier := by
        rw [hplen, hdst, hdf]; exact hchain1
      split
      · -- not a new solution: fold
        obtain ⟨hg', hx'⟩ := replaceChildren_inv hg1 hed hhd' hpr hl (by omega) (by rw [hplen]; exact hnul) hch'
          ed.poss (fun n hn => hn)
        exact ⟨⟨hg', hsub1.ext hx', hlists1.ext hx'⟩, hx1.trans hx'⟩
      · -- new solution on an existing edge
        apply Sat.bind (solutionSpan_sat hg1 hr path.parents (fun e he => ⟨hparents_old e he, by simp⟩))
        intro span _
        obtain ⟨hg3, hx3⟩ := newSolution_ok hg1 (Or.inl rfl) hed hhd' hpr hl (by omega) (by rw [hplen]; exact hnul) hch'
          span hr.lay
        obtain ⟨hd3, hhd3, hds3, hdf3, hdt3⟩ := hx3.heads _ hd hhd
        obtain ⟨ed3, hed3, hsrc3, _⟩ := hx3.edges _ ed hed
        have hreg := registerActions_ok hT (hc := hc) (ec := false) (kind := tk.kind) hhd3 (tok_isSome_ext hdt3 hdt)
          (by rw [hdf3, hdf]) (fun h => by obtain ⟨tk', h1, h2⟩ := hkindc h; exact ⟨tk', hdt3 _ h1, h2⟩)
          hed3 (by rw [hsrc3, hsrc]) (env.t.cell s' tk.kind) (rs.queue, rs.shifts, rs.accepted)
          (by rw [hds3]; exact hcell) (hlists1.ext hx3)
        exact ⟨⟨hg3, hsub1.ext hx3, hreg⟩, hx1.trans hx3⟩
    | none =>
      -- the edge is created
      simp only [findOrCreateEdge, hbetween]
      have hg2 := GInvX.addEdge hg1 head path.root [] hd hr1 hhd hhr1
        (by rw [hds, hsym, hrs1]; exact htrans) (by simp)
      simp only [↓reduceIte] at hg2
      have hx2 := ext_addEdge g1 head path.root []
      have hed2 : (g1.addEdge head path.root []).1.edges[g1.edges.size]? = some ⟨head, path.root, []⟩ := by
        rw [addEdge_edges, if_pos rfl]
      rw [addEdge_idx, edge_sat' _ _ _ hed2]
      simp only [obind, Bool.or_true, Bool.true_or, Bool.not_true, Bool.false_eq_true, ↓reduceIte]
      have hparents2 : ∀ e ∈ path.parents, (∃ ed : Edge, (g1.addEdge head path.root []).1.edges[e]? = some ed) ∧
          some g1.edges.size ≠ some e := by
        intro e he
        obtain ⟨ed, hed⟩ := hparents_old e he
        obtain ⟨ed', hed', _, _⟩ := hx2.edges e ed hed
        have := lt_of_getElem?_some hed
        exact ⟨⟨ed', hed'⟩, by intro h; injection h with h; omega⟩
      apply Sat.bind (solutionSpan_sat hg2 hr path.parents hparents2)
      intro span _
      have hch2 : ChildrenOk env.t (g1.addEdge head path.root []).1 path.parents (pr.rhs.take path.parents.length)
          path.root hd.frontier := by
        rw [hplen, hdf]; exact ChildrenOk.ext hx2 _ _ _ _ hchain1
      obtain ⟨hg3, hx3⟩ := newSolution_ok (ed := ⟨head, path.root, []⟩) hg2 (Or.inr rfl) hed2 (hd := hd) hhd hpr hl
        (by omega) (by rw [hplen]; exact hnul) hch2 span hr.lay
      have hx13 := hx2.trans hx3
      obtain ⟨hd3, hhd3, hds3, hdf3, hdt3⟩ := hx13.heads _ hd hhd
      obtain ⟨ed3, hed3, hsrc3, _⟩ := hx3.edges _ _ hed2
      have hreg := registerActions_ok hT (hc := hc) (ec := true) (kind := tk.kind) hhd3 (tok_isSome_ext hdt3 hdt)
        (by rw [hdf3, hdf]) (fun h => by obtain ⟨tk', h1, h2⟩ := hkindc h; exact ⟨tk', hdt3 _ h1, h2⟩)
        hed3 (by rw [hsrc3]) (env.t.cell s' tk.kind) (rs.queue, rs.shifts, rs.accepted)
        (by rw [hds3]; exact hcell) (hlists1.ext hx13)
      exact ⟨⟨hg3, hsub1.ext hx13, hreg⟩, hx1.trans hx13⟩

end Rustemo.Glr
