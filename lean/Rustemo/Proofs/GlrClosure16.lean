import Rustemo.Proofs.GlrClosure15
/-!
# Reduction closure: the theorem
-/
namespace Rustemo.Glr
open Rustemo

/-- an extra invariant threaded through the reducer loop: it ignores the queue and is kept by `reducePath` -/
structure Extra (env : Env) (F a : Nat) (X : RState → Prop) : Prop where
  queue : ∀ (rs : RState) (q : List Reduction), X rs → X { rs with queue := q }
  step : ∀ (rs rs' : RState) (p0 startHead : Nat) (sh : Head) (tk : Tok) (q : Path), RInv env F rs →
    rs.gss.heads[startHead]? = some sh → sh.frontier = F → sh.tok = some tk → tk.kind = a →
    X rs → reducePath env p0 startHead rs q = .ok rs' → X rs'

theorem Extra.trivial (env : Env) (F a : Nat) : Extra env F a (fun _ => True) :=
  ⟨fun _ _ _ => True.intro, fun _ _ _ _ _ _ _ _ _ _ _ _ _ _ => True.intro⟩

/-- all paths of one reduction, one after the other -/
theorem foldPaths_closure {env : Env} (hT : TableOk env) (hC : CompleteRN env.g env.t) (hW : GWF env.g) {F a : Nat}
    {X : RState → Prop} (hX : Extra env F a X)
    {p0 len0 : Nat} {pr0 : Prod} {startHead : Nat} {sh : Head} {tk : Tok}
    (hnul : ∀ Y ∈ pr0.rhs.drop len0, Nullable env.g Y) (haug : env.g.isAug p0 = false) :
    ∀ (paths : List Path) (rs rs' : RState), RInv env F rs → UInv F a rs.gss rs.sub → QSub rs → X rs →
      (∀ q ∈ paths, PathCtx env F a rs p0 len0 pr0 startHead sh tk q ∧ PathOk env rs.gss p0 len0 pr0 F 0 q) →
      RCInvR env F a rs (Rem p0 len0 paths) → foldO (reducePath env p0 startHead) paths rs = .ok rs' →
      RInv env F rs' ∧ Ext rs.gss rs'.gss ∧ UInv F a rs'.gss rs'.sub ∧ QSub rs' ∧ RCInv env F a rs' ∧ X rs'
  | [], rs, rs', hI, hU, hqs, hx, _, hinv, h => by
    simp only [foldO] at h
    injection h with h; subst h
    refine ⟨hI, Ext.refl _, hU, hqs, ?_, hx⟩
    intro u p pr P s'' hk
    rcases hinv u p pr P s'' hk with h | h | h
    · exact Or.inl h
    · exact Or.inr (Or.inl h)
    · obtain ⟨_, _, hm⟩ := h; simp at hm
  | q :: rest, rs, rs', hI, hU, hqs, hx, hpaths, hinv, h => by
    simp only [foldO] at h
    obtain ⟨rs1, h1, h2⟩ := obind_eq_ok h
    obtain ⟨pc, hpok⟩ := hpaths q (by simp)
    have so := reducePath_closure hT hC hW hI hU pc hpok hnul haug hinv hqs h1
    have hx1 : X rs1 := hX.step rs rs1 p0 startHead sh tk q hI pc.hsh pc.hshF pc.htk pc.hka hx h1
    have hpaths1 : ∀ q' ∈ rest, PathCtx env F a rs1 p0 len0 pr0 startHead sh tk q' ∧ PathOk env rs1.gss p0 len0 pr0 F 0 q' := by
      intro q' hq'
      obtain ⟨pc', hpok'⟩ := hpaths q' (by simp [hq'])
      refine ⟨⟨pc'.hpr0, pc'.hlen0, so.heads _ _ pc'.hsh, pc'.hshF, ?_, pc'.htk, pc'.hka, ChainEnd.ext so.ext pc'.hqc, pc'.hql⟩,
        hpok'.ext so.ext⟩
      obtain ⟨s, hm⟩ := pc'.hshsub
      exact ⟨s, so.sub _ hm⟩
    obtain ⟨k1, k2, k3, k4, k5, k6⟩ :=
      foldPaths_closure hT hC hW hX hnul haug rest rs1 rs' so.inv so.u so.qsub hx1 hpaths1 so.rc h2
    exact ⟨k1, so.ext.trans k2, k3, k4, k5, k6⟩

/-- one pending reduction -/
theorem reduceOne_closure {env : Env} (hT : TableOk env) (hC : CompleteRN env.g env.t) (hW : GWF env.g) {F a : Nat}
    {X : RState → Prop} (hX : Extra env F a X)
    {rs rs' : RState} {r : Reduction} {rest : List Reduction} (hq : rs.queue = r :: rest)
    (hI : RInv env F rs) (hU : UInv F a rs.gss rs.sub) (hqs : QSub rs) (hinv : RCInv env F a rs) (hx : X rs)
    (h : reduceOne env { rs with queue := rest } r = .ok rs') :
    RInv env F rs' ∧ Ext rs.gss rs'.gss ∧ UInv F a rs'.gss rs'.sub ∧ QSub rs' ∧ RCInv env F a rs' ∧ X rs' := by
  have hr : RedOk env rs.gss F r := hI.lists.queue r (by rw [hq]; simp)
  have hI0 : RInv env F { rs with queue := rest } :=
    ⟨hI.g, hI.sub, ⟨fun x hx => hI.lists.queue x (by rw [hq]; simp [hx]), hI.lists.shifts, hI.lists.acc⟩⟩
  have hqs0 : QSub { rs with queue := rest } := fun x hx => hqs x (by rw [hq]; simp [hx])
  unfold reduceOne at h
  obtain ⟨startHead, hs, h⟩ := obind_eq_ok h
  obtain ⟨paths, hp, h⟩ := obind_eq_ok h
  simp only at hs hp
  -- the facts about the reduction
  obtain ⟨pr, hpr, hpathsok⟩ := findReductionPaths_ok (A := True) hT hI.g hr
  rw [hp] at hpathsok
  have hchains := findReductionPaths_chain (env := env) hI.g hs hp
  obtain ⟨h0, hs0, hin0⟩ := hqs r (by rw [hq]; simp)
  rw [hs] at hs0; injection hs0 with hs0; subst hs0
  obtain ⟨sh, pr', hpr', hlen, hnul, haug, htok, hF, hitem, hstart⟩ := hr
  rw [hpr] at hpr'; injection hpr' with hpr'; subst hpr'
  have hsh : rs.gss.heads[startHead]? = some sh := by
    unfold startHeadOf at hs
    cases hst : r.start with
    | edge e =>
      rw [hst] at hs hstart
      obtain ⟨ed, hed, hsh, _⟩ := hstart
      simp only [edge_sat' _ _ _ hed, obind] at hs
      injection hs with hs; rw [← hs]; exact hsh
    | node n =>
      rw [hst] at hs hstart
      simp only at hs
      injection hs with hs; rw [← hs]; exact hstart.1
  obtain ⟨sA, hmA⟩ := hin0
  obtain ⟨shd, tk, k1, k2, k3⟩ := hU.subKind _ _ hmA
  rw [hsh] at k1; injection k1 with k1; subst k1
  -- every path with its context
  have hpaths : ∀ q ∈ paths, PathCtx env F a { rs with queue := rest } r.prod r.len pr startHead sh tk q ∧
      PathOk env rs.gss r.prod r.len pr F 0 q := by
    intro q hq'
    have hpok := hpathsok q hq'
    obtain ⟨Xs, hc⟩ := hchains q hq'
    -- the chain with the production's symbols: same edges, so the same end
    obtain ⟨v, hv, hcv, hhv, _⟩ := ChildrenOk.toChain hpok.chain
    have hve : v = startHead := ChainEnd.end_unique hcv hc
    subst hve
    have hql : q.parents.length = r.len := by have := hpok.dlen; omega
    refine ⟨⟨hpr, hlen, hsh, hF, ⟨sA, hmA⟩, k2, k3, ?_, hql⟩, hpok⟩
    simpa using hcv
  -- the popped reduction's pending chains are exactly the chains over the paths found
  have hinv0 : RCInvR env F a { rs with queue := rest } (Rem r.prod r.len paths) := by
    intro u p pr1 P s'' hk
    rcases hinv u p pr1 P s'' hk with hcov | hpend | hfalse
    · exact Or.inl hcov
    · obtain ⟨r1, hr1, m1, m2, m3⟩ := hpend
      rw [hq] at hr1
      rcases List.mem_cons.mp hr1 with heq | hrest
      · subst heq
        right; right
        refine ⟨m1.symm, m2, ?_⟩
        obtain ⟨v, hcP, _⟩ := hk.chain
        obtain ⟨w, hcw, _⟩ := ChainEnd.split r1.len hcP
        apply findReductionPaths_complete hp hcw (by simp; omega)
        cases hst : r1.start with
        | edge e =>
          rw [hst] at m3
          simp only at m3 ⊢
          refine ⟨m3.1, ?_⟩
          rw [List.getElem?_take]
          have : r1.len - 1 < r1.len := by omega
          simp [this, m3.2]
        | node n =>
          rw [hst] at m3
          exact m3
      · exact Or.inr (Or.inl ⟨r1, hrest, m1, m2, m3⟩)
    · exact absurd hfalse (fun h => h)
  obtain ⟨j1, j2, j3, j4, j5, j6⟩ :=
    foldPaths_closure hT hC hW hX hnul haug paths _ rs' hI0 hU hqs0 (hX.queue rs rest hx) hpaths hinv0 h
  exact ⟨j1, j2, j3, j4, j5, j6⟩

/-- **Reduction closure.** When the reducer loop of a sub-frontier ends, every chain (from a root whose state holds
    the initial item of a production with the lookahead kind of the sub-frontier, spelling a prefix of that
    production up to a head of the sub-frontier, the rest nullable, the goto state alive on the lookahead) is
    COVERED: the edge from the head of the goto state down to the root carries a possibility of the production
    whose children list is prefix-comparable with the chain — no reduction path was lost, whatever the order in
    which edges appeared. -/
theorem reducerLoop_closureX {env : Env} (hT : TableOk env) (hC : CompleteRN env.g env.t) (hW : GWF env.g) {F a : Nat}
    {X : RState → Prop} (hX : Extra env F a X) :
    ∀ (fuel : Nat) (rs rs' : RState), RInv env F rs → UInv F a rs.gss rs.sub → QSub rs → RCInv env F a rs → X rs →
      reducerLoop env fuel rs = .ok rs' →
      RInv env F rs' ∧ Ext rs.gss rs'.gss ∧ UInv F a rs'.gss rs'.sub ∧ rs'.queue = [] ∧ X rs' ∧
      ∀ (u p : Nat) (pr : Prod) (P : List Nat) (s' : Nat), KChain env F a rs'.gss rs'.sub u p pr P s' →
        Covered rs' u p P s'
  | 0, _, _, _, _, _, _, _, h => by simp [reducerLoop] at h
  | fuel+1, rs, rs', hI, hU, hqs, hinv, hx, h => by
    unfold reducerLoop at h
    split at h
    · rename_i hq
      injection h with h; subst h
      refine ⟨hI, Ext.refl _, hU, hq, hx, ?_⟩
      intro u p pr P s' hk
      rcases hinv u p pr P s' hk with h1 | h1 | h1
      · exact h1
      · obtain ⟨r, hr, _⟩ := h1; rw [hq] at hr; simp at hr
      · exact absurd h1 (fun h => h)
    · rename_i r rest hq
      obtain ⟨rs1, h1, h2⟩ := obind_eq_ok h
      obtain ⟨k1, k2, k3, k4, k5, k6⟩ := reduceOne_closure hT hC hW hX hq hI hU hqs hinv hx h1
      obtain ⟨m1, m2, m3, m4, m5, m6⟩ := reducerLoop_closureX hT hC hW hX fuel rs1 rs' k1 k3 k4 k5 k6 h2
      exact ⟨m1, k2.trans m2, m3, m4, m5, m6⟩

theorem reducerLoop_closure {env : Env} (hT : TableOk env) (hC : CompleteRN env.g env.t) (hW : GWF env.g) {F a : Nat}
    (fuel : Nat) (rs rs' : RState) (hI : RInv env F rs) (hU : UInv F a rs.gss rs.sub) (hqs : QSub rs)
    (hinv : RCInv env F a rs) (h : reducerLoop env fuel rs = .ok rs') :
    RInv env F rs' ∧ Ext rs.gss rs'.gss ∧ UInv F a rs'.gss rs'.sub ∧ rs'.queue = [] ∧
    ∀ (u p : Nat) (pr : Prod) (P : List Nat) (s' : Nat), KChain env F a rs'.gss rs'.sub u p pr P s' →
      Covered rs' u p P s' := by
  obtain ⟨m1, m2, m3, m4, _, m6⟩ :=
    reducerLoop_closureX hT hC hW (Extra.trivial env F a) fuel rs rs' hI hU hqs hinv True.intro h
  exact ⟨m1, m2, m3, m4, m6⟩

end Rustemo.Glr
