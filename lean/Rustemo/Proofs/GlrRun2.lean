import Rustemo.Proofs.GlrRun1
import Rustemo.Proofs.GlrPush1
/-!
# Frame: what a phase working on level `F` leaves untouched, and why a finished level stays finished

`FrameLt F g g'`: heads of a level below `F`, the edges that start at them and the nodes packed on those edges
are the same in `g` and `g'` (none added, none changed); everything else only grows.  A level `k < F` that was
done in `g` is done in `g'`.
-/
namespace Rustemo.Glr
open Rustemo

structure FrameLt (F : Nat) (g g' : Gss) : Prop where
  heads_fwd : ∀ (i : Nat) (hd : Head), g.heads[i]? = some hd → hd.frontier < F → g'.heads[i]? = some hd
  heads_bwd : ∀ (i : Nat) (hd : Head), g'.heads[i]? = some hd → hd.frontier < F → g.heads[i]? = some hd
  edges_fwd : ∀ (e : Nat) (ed : Edge) (hs : Head), g.edges[e]? = some ed → g.heads[ed.src]? = some hs →
    hs.frontier < F → g'.edges[e]? = some ed
  edges_bwd : ∀ (e : Nat) (ed : Edge) (hs : Head), g'.edges[e]? = some ed → g'.heads[ed.src]? = some hs →
    hs.frontier < F → g.edges[e]? = some ed
  nodes : ∀ (e : Nat) (ed : Edge) (hs : Head) (n : Nat), g.edges[e]? = some ed → g.heads[ed.src]? = some hs →
    hs.frontier < F → n ∈ ed.poss → g'.nodes[n]? = g.nodes[n]?
  mono_heads : ∀ (i : Nat) (hd : Head), g.heads[i]? = some hd →
    ∃ hd' : Head, g'.heads[i]? = some hd' ∧ hd'.state = hd.state ∧ hd'.frontier = hd.frontier
  mono_edges : ∀ (e : Nat) (ed : Edge), g.edges[e]? = some ed →
    ∃ ed' : Edge, g'.edges[e]? = some ed' ∧ ed'.src = ed.src ∧ ed'.dst = ed.dst ∧ ∀ n ∈ ed.poss, n ∈ ed'.poss
  mono_terms : ∀ (n : Nat) (tk : Tok) (sp : Span), g.nodes[n]? = some (.term tk sp) → g'.nodes[n]? = some (.term tk sp)

theorem FrameLt.refl (F : Nat) (g : Gss) : FrameLt F g g :=
  ⟨fun _ _ h _ => h, fun _ _ h _ => h, fun _ _ _ h _ _ => h, fun _ _ _ h _ _ => h, fun _ _ _ _ _ _ _ _ => rfl,
   fun _ hd h => ⟨hd, h, rfl, rfl⟩, fun _ ed h => ⟨ed, h, rfl, rfl, fun _ hn => hn⟩, fun _ _ _ h => h⟩

theorem FrameLt.trans {F : Nat} {a b c : Gss} (h1 : FrameLt F a b) (h2 : FrameLt F b c) : FrameLt F a c := by
  constructor
  · intro i hd hi hf; exact h2.heads_fwd i hd (h1.heads_fwd i hd hi hf) hf
  · intro i hd hi hf; exact h1.heads_bwd i hd (h2.heads_bwd i hd hi hf) hf
  · intro e ed hs he hh hf
    exact h2.edges_fwd e ed hs (h1.edges_fwd e ed hs he hh hf) (h1.heads_fwd _ hs hh hf) hf
  · intro e ed hs he hh hf
    exact h1.edges_bwd e ed hs (h2.edges_bwd e ed hs he hh hf) (h2.heads_bwd _ hs hh hf) hf
  · intro e ed hs n he hh hf hn
    rw [h2.nodes e ed hs n (h1.edges_fwd e ed hs he hh hf) (h1.heads_fwd _ hs hh hf) hf hn,
      h1.nodes e ed hs n he hh hf hn]
  · intro i hd hi
    obtain ⟨x, hx, s1, f1⟩ := h1.mono_heads i hd hi
    obtain ⟨y, hy, s2, f2⟩ := h2.mono_heads i x hx
    exact ⟨y, hy, by rw [s2, s1], by rw [f2, f1]⟩
  · intro e ed he
    obtain ⟨x, hx, s1, d1, p1⟩ := h1.mono_edges e ed he
    obtain ⟨y, hy, s2, d2, p2⟩ := h2.mono_edges e x hx
    exact ⟨y, hy, by rw [s2, s1], by rw [d2, d1], fun n hn => p2 n (p1 n hn)⟩
  · intro n tk sp hn; exact h2.mono_terms n tk sp (h1.mono_terms n tk sp hn)

theorem FrameLt.mono {F F' : Nat} {g g' : Gss} (h : FrameLt F g g') (hle : F' ≤ F) : FrameLt F' g g' :=
  ⟨fun i hd hi hf => h.heads_fwd i hd hi (Nat.lt_of_lt_of_le hf hle),
   fun i hd hi hf => h.heads_bwd i hd hi (Nat.lt_of_lt_of_le hf hle),
   fun e ed hs he hh hf => h.edges_fwd e ed hs he hh (Nat.lt_of_lt_of_le hf hle),
   fun e ed hs he hh hf => h.edges_bwd e ed hs he hh (Nat.lt_of_lt_of_le hf hle),
   fun e ed hs n he hh hf hn => h.nodes e ed hs n he hh (Nat.lt_of_lt_of_le hf hle) hn,
   h.mono_heads, h.mono_edges, h.mono_terms⟩

/-- chains go forward along a frame -/
theorem FrameLt.chain_fwd {F : Nat} {g g' : Gss} (h : FrameLt F g g') {t : Table} :
    ∀ {P Xs : List Nat} {u v : Nat}, ChainEnd t g P Xs u v → ChainEnd t g' P Xs u v
  | [], _, _, _, hc => hc
  | e :: es, _, _, _, hc => by
    obtain ⟨ed, hs, X, Xs', he, hhs, hXs, hdst, hsym, hr⟩ := hc
    obtain ⟨ed', he', hsrc, hdst', _⟩ := h.mono_edges e ed he
    obtain ⟨hs', hhs', hst, _⟩ := h.mono_heads _ hs hhs
    exact ⟨ed', hs', X, Xs', he', by rw [hsrc]; exact hhs', hXs, by rw [hdst', hdst], by rw [hst]; exact hsym,
      by rw [hsrc]; exact h.chain_fwd hr⟩

/-- levels do not decrease along a chain -/
theorem chain_level {env : Env} {g : Gss} {F : Nat} (hg : GInv env g) (hu : GU F g) :
    ∀ {P Xs : List Nat} {u v : Nat} {hdu hdv : Head}, ChainEnd env.t g P Xs u v → g.heads[u]? = some hdu →
      g.heads[v]? = some hdv → hdu.frontier ≤ hdv.frontier
  | [], _, _, _, _, _, hc, h1, h2 => by
    rw [hc.2] at h1; rw [h1] at h2; injection h2 with h2; subst h2; exact Nat.le_refl _
  | e :: es, _, _, _, hdu, hdv, hc, h1, h2 => by
    obtain ⟨ed, hs, X, Xs', he, hhs, hXs, hdst, hsym, hr⟩ := hc
    have k1 := hu.edgeMono e ed hs hdu he hhs (by rw [hdst]; exact h1)
    have k2 := chain_level hg hu hr hhs h2
    omega

/-- a chain of `g'` that ends below `F` is a chain of `g` -/
theorem FrameLt.chain_back {env : Env} {F F' : Nat} {g g' : Gss} (h : FrameLt F g g') (hg' : GInv env g')
    (hu' : GU F' g') :
    ∀ {P Xs : List Nat} {u v : Nat} {hdv : Head}, ChainEnd env.t g' P Xs u v → g'.heads[v]? = some hdv →
      hdv.frontier < F → ChainEnd env.t g P Xs u v
  | [], _, _, _, _, hc, _, _ => hc
  | e :: es, _, _, _, hdv, hc, hv, hlt => by
    obtain ⟨ed, hs, X, Xs', he, hhs, hXs, hdst, hsym, hr⟩ := hc
    have k2 := chain_level hg' hu' hr hhs hv
    have hsl : hs.frontier < F := by omega
    have he0 := h.edges_bwd e ed hs he hhs hsl
    have hhs0 := h.heads_bwd _ hs hhs hsl
    exact ⟨ed, hs, X, Xs', he0, hhs0, hXs, hdst, hsym, h.chain_back hg' hu' hr hv hlt⟩

/-- the part of `LevelDone` that the reducer establishes -/
structure LevelRed (env : Env) (g : Gss) (tok : Nat → Tok) (k : Nat) (sub : SubFrontier) : Prop where
  subOk : ∀ (s h : Nat), (s, h) ∈ sub → ∃ hd : Head, g.heads[h]? = some hd ∧ hd.state = s ∧ hd.frontier = k
  closed : ∀ (u p : Nat) (pr : Prod) (P : List Nat) (s' : Nat), KChain env k (tok k).kind g sub u p pr P s' →
    Covered ⟨g, [], [], [], sub⟩ u p P s'
  alive : ∀ (h : Nat) (hd : Head), g.heads[h]? = some hd → hd.frontier = k →
    env.t.cell hd.state (tok k).kind ≠ [] → (hd.state, h) ∈ sub

theorem LevelDone.toRed {env : Env} {g : Gss} {tok : Nat → Tok} {k : Nat} {sub : SubFrontier}
    (h : LevelDone env g tok k sub) : LevelRed env g tok k sub := ⟨h.subOk, h.closed, h.alive⟩

/-- the reducer part of a finished level stays finished -/
theorem LevelRed.frame {env : Env} {g g' : Gss} {tok : Nat → Tok} {k F F' : Nat} {sub : SubFrontier}
    (hd : LevelRed env g tok k sub) (hf : FrameLt F g g') (hk : k < F) (hg' : GInv env g') (hu' : GU F' g') :
    LevelRed env g' tok k sub := by
  have hsubv : ∀ v, InSub sub v → ∃ hv : Head, g.heads[v]? = some hv ∧ g'.heads[v]? = some hv ∧ hv.frontier = k := by
    rintro v ⟨s, hs⟩
    obtain ⟨hv, h1, _, h3⟩ := hd.subOk s v hs
    exact ⟨hv, h1, hf.heads_fwd v hv h1 (by omega), h3⟩
  constructor
  · intro s h hs
    obtain ⟨x, h1, h2, h3⟩ := hd.subOk s h hs
    exact ⟨x, hf.heads_fwd h x h1 (by omega), h2, h3⟩
  · intro u p pr P s' hk'
    obtain ⟨v, hch, hin⟩ := hk'.chain
    obtain ⟨hv, hv0, hv1, hvl⟩ := hsubv v hin
    have hch0 := hf.chain_back hg' hu' hch hv1 (by omega)
    obtain ⟨hu, hhu, hitem, hgoto⟩ := hk'.root
    have hul : hu.frontier ≤ hv.frontier := chain_level hg' hu' hch hhu hv1
    have hhu0 := hf.heads_bwd u hu hhu (by omega)
    have hk0 : KChain env k (tok k).kind g sub u p pr P s' := by
      refine ⟨⟨hu, hhu0, hitem, hgoto⟩, hk'.prod, hk'.notAug, hk'.len, ⟨v, hch0, hin⟩, ?_, hk'.live⟩
      intro i hi w hw hcw hhw hwl
      exact hk'.nullOk i hi w hw (hf.chain_fwd hcw) (hf.heads_fwd w hw hhw (by omega)) hwl
    obtain ⟨hA, e, ed, n, sp, l, C, h1, h2, h3, h4, h5, h6, h7⟩ := hd.closed u p pr P s' hk0
    have hAin : InSub sub hA := ⟨s', sfGet_mem h1⟩
    obtain ⟨hhA, hA0, _, hAl⟩ := hsubv hA hAin
    have hA0' : g.heads[ed.src]? = some hhA := by rw [h3]; exact hA0
    refine ⟨hA, e, ed, n, sp, l, C, h1, hf.edges_fwd e ed hhA h2 hA0' (by omega), h3, h4, h5, ?_, h7⟩
    show g'.nodes[n]? = _
    rw [hf.nodes e ed hhA n h2 hA0' (by omega) h5]
    exact h6
  · intro h x hx hxl hne
    exact hd.alive h x (hf.heads_bwd h x hx (by omega)) hxl hne

/-- **a finished level stays finished** -/
theorem LevelDone.frame {env : Env} {g g' : Gss} {tok : Nat → Tok} {k F F' : Nat} {sub : SubFrontier}
    (hd : LevelDone env g tok k sub) (hf : FrameLt F g g') (hk : k < F) (hg' : GInv env g') (hu' : GU F' g') :
    LevelDone env g' tok k sub := by
  have hr := hd.toRed.frame hf hk hg' hu'
  refine ⟨hr.subOk, hr.closed, ?_, hr.alive⟩
  intro s u s' hs hact
  obtain ⟨v, hv, e, ed, n, sp, h1, h2, h3, h4, h5, h6, h7, h8⟩ := hd.shifted s u s' hs hact
  obtain ⟨hv', k1, k2, k3⟩ := hf.mono_heads v hv h1
  obtain ⟨ed', m1, m2, m3, m4⟩ := hf.mono_edges e ed h4
  exact ⟨v, hv', e, ed', n, sp, k1, by rw [k2, h2], by rw [k3, h3], m1, by rw [m2, h5], by rw [m3, h6], m4 n h7,
    hf.mono_terms n _ sp h8⟩

end Rustemo.Glr
