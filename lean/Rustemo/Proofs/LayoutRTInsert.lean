import Rustemo.Proofs.LayoutRTTile
/-!
# Layout insertion invariance (C14, part C; default string lexer, no Layout rule)

Two inputs parsed with the same table and settings.  `Aligned env1 env2 R`: `R` relates byte offsets
of the two inputs at which the lexer looks for tokens (the offsets reached after whitespace skipping)
such that related offsets see the same recognizer answers (the match matrix of the second input is
the shifted matrix of the first), carry the same token texts, and stay related after any matching
token followed by whitespace skipping.  Then the two parses run in lockstep: if the first is accepted
so is the second, with the same tree up to positions and layout (`Tree.shape`: token kinds,
productions, token texts).
-/
namespace Rustemo

/-- a tree without positions and layout -/
inductive Shape where
  | leaf (kind : Nat) (text : List Nat)
  | node (prod : Nat) (cs : List Shape)

mutual
def Tree.shape (input : List Nat) : Tree → Shape
  | .leaf k _ v _ => .leaf k (sliceOf input v)
  | .node p _ _ cs => .node p (TreeList.shapes input cs)
def TreeList.shapes (input : List Nat) : TreeList → List Shape
  | .nil => []
  | .cons t ts => Tree.shape input t :: TreeList.shapes input ts
end

theorem shapes_ofList (input : List Nat) (l : List Tree) :
    (TreeList.ofList l).shapes input = l.map (Tree.shape input) := by
  induction l with
  | nil => simp [TreeList.ofList, TreeList.shapes]
  | cons t ts ih => simp [TreeList.ofList, TreeList.shapes, ih]

/-- the offset at which the lexer looks for tokens when the context is at offset `p` -/
def postSkip (env : Env) (p : Nat) : Nat :=
  p + (if env.skipWs then wsPrefixLen (env.input.drop p).length (env.input.drop p) else 0)

structure Aligned (env1 env2 : Env) (R : Nat → Nat → Prop) : Prop where
  start : R (postSkip env1 0) (postSkip env2 0)
  recog : ∀ p q, R p q → ∀ k, env1.recog k p = env2.recog k q
  next : ∀ p q, R p q → ∀ k l, env1.recog k p = some l → R (postSkip env1 (p + l)) (postSkip env2 (q + l))
  text : ∀ p q, R p q → ∀ k l, env1.recog k p = some l →
    sliceOf env1.input (p, l) = sliceOf env2.input (q, l)

/-! ## The lexer's answer as a function of the recognizer answers at one offset -/

def tokKey (tk : Tok) : Nat × Nat := (tk.kind, tk.val.2)

def keysAux (f : Nat → Option Nat) : Bool → List (Nat × Bool) → List (Nat × Nat)
  | _, [] => []
  | m, (k, fin) :: rest =>
    match f k with
    | some l => (k, l) :: (if fin then [] else keysAux f true rest)
    | none => if fin && m then [] else keysAux f m rest

theorem tokenIterAux_keys (env : Env) (pos : Pos) :
    ∀ (exp : List (Nat × Bool)) (m : Bool),
      (tokenIterAux env pos m exp).map tokKey = keysAux (fun k => env.recog k pos.pos) m exp
  | [], m => by simp [tokenIterAux, keysAux]
  | (k, fin) :: rest, m => by
    unfold tokenIterAux keysAux
    simp only
    cases h : env.recog k pos.pos with
    | some l =>
      simp only [List.map_cons, tokKey]
      congr 1
      split
      · simp
      · exact tokenIterAux_keys env pos rest true
    | none =>
      simp only
      split
      · simp
      · exact tokenIterAux_keys env pos rest m

def maxL (keys : List (Nat × Nat)) : Nat := keys.foldl (fun m x => max m x.2) 0

def pickKey (longest : Bool) (keys : List (Nat × Nat)) : Option (Nat × Nat) :=
  if longest then (keys.filter (fun x => x.2 == maxL keys)).head? else keys.head?

theorem maxLen_keys (toks : List Tok) : maxLen toks = maxL (toks.map tokKey) := by
  unfold maxLen maxL
  rw [List.foldl_map]
  rfl

theorem pickToken_keys (longest : Bool) (toks : List Tok) :
    (pickToken longest toks).map tokKey = pickKey longest (toks.map tokKey) := by
  unfold pickToken pickKey
  split
  · rw [← List.head?_map, maxLen_keys]
    congr 1
    rw [List.filter_map]
    rfl
  · rw [List.head?_map]

/-! ## One lexing round on both inputs -/

theorem lexNext_eq (env : Env) (hc : env.custom = none) (ctx : Ctx) (exp : List (Nat × Bool)) :
    lexNext env ctx exp =
      ((lexNext env ctx exp).1, tokenIter env (lexNext env ctx exp).1.pos exp) := by
  unfold lexNext
  rw [hc]

theorem lexNext_state' (env : Env) (hc : env.custom = none) (ctx : Ctx) (exp : List (Nat × Bool)) :
    (lexNext env ctx exp).1.state = ctx.state := by
  unfold lexNext
  rw [hc]
  simp only
  split
  · unfold skip; simp only; split <;> rfl
  · rfl

theorem lexNext_pos (env : Env) (hc : env.custom = none) (ctx : Ctx) (exp : List (Nat × Bool)) :
    (lexNext env ctx exp).1.pos.pos = postSkip env ctx.pos.pos ∧ Stable env (lexNext env ctx exp).1 := by
  have := lexNext_lay env hc ctx exp
  simp only at this
  exact ⟨this.1, this.2.2⟩

theorem postSkip_stable (env : Env) (ctx : Ctx) (h : Stable env ctx) : postSkip env ctx.pos.pos = ctx.pos.pos := by
  unfold postSkip
  rw [stable_n_zero env ctx h]
  rfl

theorem stable_of_pos {env : Env} {a b : Ctx} (hp : a.pos = b.pos) (h : Stable env b) : Stable env a := by
  unfold Stable at *; rw [hp]; exact h

/-- what `nextTokenBase` returns when it returns a token -/
theorem ntBase_ok_inv (env : Env) (hc : env.custom = none) (pp : Bool) (ctx ctx' : Ctx) (tk : Tok)
    (h : nextTokenBase env pp ctx = (ctx', .ok tk)) :
    ctx' = (lexNext env ctx (env.t.sorted ctx.state)).1 ∧
    ((pickToken env.longest (tokenIter env ctx'.pos (env.t.sorted ctx.state)) = some tk) ∨
     (pickToken env.longest (tokenIter env ctx'.pos (env.t.sorted ctx.state)) = none ∧
      (pp && ((env.t.sorted ctx'.state).map (·.1)).contains 0) = true ∧
      tk = ⟨0, (ctx'.pos.pos, 0), ctx'.span⟩)) := by
  unfold nextTokenBase at h
  rw [lexNext_eq env hc] at h
  simp only at h
  split at h
  · rename_i tk' hpick
    injection h with h1 h2
    injection h2 with h2
    subst h1 h2
    exact ⟨rfl, Or.inl hpick⟩
  · rename_i hpick
    unfold noToken at h
    simp only at h
    split at h
    · rename_i hstop
      injection h with h1 h2
      injection h2 with h2
      subst h1 h2
      exact ⟨rfl, Or.inr ⟨hpick, hstop, rfl⟩⟩
    · split at h <;> (injection h with _ h2; simp at h2)

/-- converse -/
theorem ntBase_ok_intro_tok (env : Env) (hc : env.custom = none) (pp : Bool) (ctx : Ctx) (tk : Tok)
    (h : pickToken env.longest (tokenIter env (lexNext env ctx (env.t.sorted ctx.state)).1.pos
      (env.t.sorted ctx.state)) = some tk) :
    nextTokenBase env pp ctx = ((lexNext env ctx (env.t.sorted ctx.state)).1, .ok tk) := by
  unfold nextTokenBase
  rw [lexNext_eq env hc]
  simp only [h]

theorem ntBase_ok_intro_stop (env : Env) (hc : env.custom = none) (pp : Bool) (ctx : Ctx)
    (h : pickToken env.longest (tokenIter env (lexNext env ctx (env.t.sorted ctx.state)).1.pos
      (env.t.sorted ctx.state)) = none)
    (hstop : (pp && ((env.t.sorted (lexNext env ctx (env.t.sorted ctx.state)).1.state).map (·.1)).contains 0) = true) :
    nextTokenBase env pp ctx =
      ((lexNext env ctx (env.t.sorted ctx.state)).1,
       .ok ⟨0, ((lexNext env ctx (env.t.sorted ctx.state)).1.pos.pos, 0),
            (lexNext env ctx (env.t.sorted ctx.state)).1.span⟩) := by
  unfold nextTokenBase
  rw [lexNext_eq env hc]
  simp only [h]
  unfold noToken
  simp only [hstop, ↓reduceIte]

section
variable (env1 env2 : Env) (R : Nat → Nat → Prop)

/-- the lexer finds corresponding tokens at related offsets -/
theorem lexSim' (hc1 : env1.custom = none) (hc2 : env2.custom = none)
    (ht : env2.t = env1.t) (hlg : env2.longest = env1.longest) (pp : Bool)
    (ctx1 ctx2 ctx1' : Ctx) (tk1 : Tok) (hstate : ctx1.state = ctx2.state)
    (hrec : ∀ k, env1.recog k (postSkip env1 ctx1.pos.pos) = env2.recog k (postSkip env2 ctx2.pos.pos))
    (h : nextTokenBase env1 pp ctx1 = (ctx1', .ok tk1)) :
    ∃ ctx2' tk2, nextTokenBase env2 pp ctx2 = (ctx2', .ok tk2) ∧
      ctx1'.pos.pos = postSkip env1 ctx1.pos.pos ∧ ctx2'.pos.pos = postSkip env2 ctx2.pos.pos ∧
      Stable env1 ctx1' ∧ Stable env2 ctx2' ∧ tokKey tk1 = tokKey tk2 ∧
      TokRec env1 ctx1' tk1 ∧ TokRec env2 ctx2' tk2 := by
  obtain ⟨hctx1', hcase⟩ := ntBase_ok_inv env1 hc1 pp ctx1 ctx1' tk1 h
  obtain ⟨hp1, hs1⟩ := lexNext_pos env1 hc1 ctx1 (env1.t.sorted ctx1.state)
  obtain ⟨hp2, hs2⟩ := lexNext_pos env2 hc2 ctx2 (env2.t.sorted ctx2.state)
  rw [← hctx1'] at hp1 hs1
  have hst1 : ctx1'.state = ctx1.state := by rw [hctx1']; exact lexNext_state' env1 hc1 _ _
  have hst2 := lexNext_state' env2 hc2 ctx2 (env2.t.sorted ctx2.state)
  generalize hc2' : (lexNext env2 ctx2 (env2.t.sorted ctx2.state)).1 = ctx2' at hp2 hs2 hst2
  have hsorted : env2.t.sorted ctx2.state = env1.t.sorted ctx1.state := by rw [ht, hstate]
  -- the keys of the candidate tokens agree
  have hkeys : (tokenIter env1 ctx1'.pos (env1.t.sorted ctx1.state)).map tokKey =
      (tokenIter env2 ctx2'.pos (env2.t.sorted ctx2.state)).map tokKey := by
    unfold tokenIter
    rw [tokenIterAux_keys, tokenIterAux_keys, hsorted]
    congr 1
    funext k
    rw [hp1, hp2]
    exact hrec k
  have hpick : (pickToken env1.longest (tokenIter env1 ctx1'.pos (env1.t.sorted ctx1.state))).map tokKey =
      (pickToken env2.longest (tokenIter env2 ctx2'.pos (env2.t.sorted ctx2.state))).map tokKey := by
    rw [pickToken_keys, pickToken_keys, hkeys, hlg]
  rcases hcase with hp | ⟨hp, hstop, htk⟩
  · rw [hp] at hpick
    simp only [Option.map_some] at hpick
    cases hp2' : pickToken env2.longest (tokenIter env2 ctx2'.pos (env2.t.sorted ctx2.state)) with
    | none => rw [hp2'] at hpick; simp at hpick
    | some tk2 =>
      rw [hp2'] at hpick
      simp only [Option.map_some, Option.some.injEq] at hpick
      refine ⟨ctx2', tk2, ?_, hp1, hp2, hs1, hs2, hpick, ?_, ?_⟩
      · have := ntBase_ok_intro_tok env2 hc2 pp ctx2 tk2 (by rw [hc2']; exact hp2')
        rw [hc2'] at this; exact this
      · exact Or.inr (tokenIterAux_recog env1 ctx1'.pos _ false tk1 (pickToken_mem hp))
      · exact Or.inr (tokenIterAux_recog env2 ctx2'.pos _ false tk2 (pickToken_mem hp2'))
  · rw [hp] at hpick
    simp only [Option.map_none] at hpick
    have hp2' : pickToken env2.longest (tokenIter env2 ctx2'.pos (env2.t.sorted ctx2.state)) = none := by
      cases hx : pickToken env2.longest (tokenIter env2 ctx2'.pos (env2.t.sorted ctx2.state)) with
      | none => rfl
      | some x => rw [hx] at hpick; simp at hpick
    have hstop2 : (pp && ((env2.t.sorted ctx2'.state).map (·.1)).contains 0) = true := by
      rw [hst2, hsorted, ← hst1]; exact hstop
    have := ntBase_ok_intro_stop env2 hc2 pp ctx2 (by rw [hc2']; exact hp2') (by rw [hc2']; exact hstop2)
    rw [hc2'] at this
    refine ⟨ctx2', _, this, hp1, hp2, hs1, hs2, ?_, ?_, Or.inl rfl⟩
    · rw [htk]; rfl
    · rw [htk]; exact Or.inl rfl

theorem lexSim (hc1 : env1.custom = none) (hc2 : env2.custom = none)
    (ht : env2.t = env1.t) (hlg : env2.longest = env1.longest) (hal : Aligned env1 env2 R) (pp : Bool)
    (ctx1 ctx2 ctx1' : Ctx) (tk1 : Tok) (hstate : ctx1.state = ctx2.state)
    (hR : R (postSkip env1 ctx1.pos.pos) (postSkip env2 ctx2.pos.pos))
    (h : nextTokenBase env1 pp ctx1 = (ctx1', .ok tk1)) :
    ∃ ctx2' tk2, nextTokenBase env2 pp ctx2 = (ctx2', .ok tk2) ∧
      ctx1'.pos.pos = postSkip env1 ctx1.pos.pos ∧ ctx2'.pos.pos = postSkip env2 ctx2.pos.pos ∧
      Stable env1 ctx1' ∧ Stable env2 ctx2' ∧ tokKey tk1 = tokKey tk2 ∧
      TokRec env1 ctx1' tk1 ∧ TokRec env2 ctx2' tk2 :=
  lexSim' env1 env2 hc1 hc2 ht hlg pp ctx1 ctx2 ctx1' tk1 hstate (hal.recog _ _ hR) h

/-- configurations of the two runs that correspond -/
structure CRel (c1 c2 : Cfg) : Prop where
  stack : c1.stack.map (·.state) = c2.stack.map (·.state)
  res : c1.res.map (Tree.shape env1.input) = c2.res.map (Tree.shape env2.input)
  pos : R c1.ctx.pos.pos c2.ctx.pos.pos
  st1 : Stable env1 c1.ctx
  st2 : Stable env2 c2.ctx
  key : tokKey c1.tok = tokKey c2.tok
  rec1 : TokRec env1 c1.ctx c1.tok
  rec2 : TokRec env2 c2.ctx c2.tok

theorem topState_map {st1 st2 : List StackItem} (h : st1.map (·.state) = st2.map (·.state)) :
    topState st1 = topState st2 := by
  unfold topState
  rw [← List.head?_map, ← List.head?_map, h]

theorem sim_next (hc1 : env1.custom = none) (hc2 : env2.custom = none)
    (hg : env2.g = env1.g) (ht : env2.t = env1.t) (hlg : env2.longest = env1.longest)
    (hr1 : RecogOk env1) (hr2 : RecogOk env2) (hns : NoShiftStop env1.t)
    (hal : Aligned env1 env2 R) (pp : Bool) (c1 c2 c1' : Cfg) (hrel : CRel env1 env2 R c1 c2)
    (hstep : step env1 (nextTokenBase env1 pp) c1 = .next c1') :
    ∃ c2', step env2 (nextTokenBase env2 pp) c2 = .next c2' ∧ CRel env1 env2 R c1' c2' := by
  have hkey0 := hrel.key
  unfold tokKey at hkey0
  have hkind : c1.tok.kind = c2.tok.kind := (_root_.Prod.mk.inj hkey0).1
  have hvlen : c1.tok.val.2 = c2.tok.val.2 := (_root_.Prod.mk.inj hkey0).2
  have hlenS : c1.stack.length = c2.stack.length := by
    have := congrArg List.length hrel.stack; simpa using this
  have hlenR : c1.res.length = c2.res.length := by
    have := congrArg List.length hrel.res; simpa using this
  cases step_next_inv env1 _ c1 c1' hstep with
  | shift state s' acts ctx1 tk htop hcell hnt1 hc' =>
    have hk : c1.tok.kind ≠ 0 := by
      intro h0; apply hns state s'; rw [← h0, hcell]; simp
    obtain ⟨hv1, hrec1⟩ : c1.tok.val.1 = c1.ctx.pos.pos ∧ env1.recog c1.tok.kind c1.tok.val.1 = some c1.tok.val.2 := by
      rcases hrel.rec1 with h | h
      · exact absurd h hk
      · exact h
    obtain ⟨hv2, hrec2⟩ : c2.tok.val.1 = c2.ctx.pos.pos ∧ env2.recog c2.tok.kind c2.tok.val.1 = some c2.tok.val.2 := by
      rcases hrel.rec2 with h | h
      · exact absurd (hkind.trans h) hk
      · exact h
    have hb1 := hr1 _ _ _ hrec1
    have hb2 := hr2 _ _ _ hrec2
    have hnp1 : (shiftCtx env1 c1 s').pos.pos = c1.ctx.pos.pos + c1.tok.val.2 := by
      show (posAfter (sliceOf env1.input c1.tok.val) c1.ctx.pos).pos = _
      rw [posAfter_pos]
      have : c1.tok.val = (c1.tok.val.1, c1.tok.val.2) := rfl
      rw [this, sliceOf_length _ _ _ hb1]
    have hnp2 : (shiftCtx env2 c2 s').pos.pos = c2.ctx.pos.pos + c2.tok.val.2 := by
      show (posAfter (sliceOf env2.input c2.tok.val) c2.ctx.pos).pos = _
      rw [posAfter_pos]
      have : c2.tok.val = (c2.tok.val.1, c2.tok.val.2) := rfl
      rw [this, sliceOf_length _ _ _ hb2]
    have hR' : R (postSkip env1 (shiftCtx env1 c1 s').pos.pos) (postSkip env2 (shiftCtx env2 c2 s').pos.pos) := by
      rw [hnp1, hnp2, ← hvlen]
      apply hal.next _ _ hrel.pos c1.tok.kind
      rw [← hv1]; exact hrec1
    obtain ⟨ctx2', tk2, hnt2, hp1, hp2, hs1, hs2, hkey, hrc1, hrc2⟩ :=
      lexSim env1 env2 R hc1 hc2 ht hlg hal pp (shiftCtx env1 c1 s') (shiftCtx env2 c2 s') ctx1 tk rfl hR' hnt1
    have htop2 : topState c2.stack = some state := by rw [← topState_map hrel.stack]; exact htop
    have hcell2 : env2.t.cell state c2.tok.kind = .shift s' :: acts := by rw [ht, ← hkind]; exact hcell
    refine ⟨_, step_shift_intro env2 _ c2 state s' acts ctx2' tk2 htop2 hcell2 hnt2, ?_⟩
    subst hc'
    refine ⟨by simp [shiftItem, hrel.stack], ?_, by rw [hp1, hp2]; exact hR', hs1, hs2, hkey, hrc1, hrc2⟩
    have htext : sliceOf env1.input c1.tok.val = sliceOf env2.input c2.tok.val := by
      have e1 : c1.tok.val = (c1.ctx.pos.pos, c1.tok.val.2) := by rw [← hv1]
      have e2 : c2.tok.val = (c2.ctx.pos.pos, c1.tok.val.2) := by rw [← hv2, hvlen]
      rw [e1, e2]
      apply hal.text _ _ hrel.pos c1.tok.kind
      rw [← hv1]; exact hrec1
    simp only [List.map_cons, hrel.res, shiftLeaf, Tree.shape, htext, hkind]
  | reduce state p len fromState s' pr acts ctx1 tk htop hcell hlen hfrom hpr hgoto hrlen hnt1 hc' =>
    have hR' : R (postSkip env1 (reduceCtx c1 s').pos.pos) (postSkip env2 (reduceCtx c2 s').pos.pos) := by
      show R (postSkip env1 c1.ctx.pos.pos) (postSkip env2 c2.ctx.pos.pos)
      rw [postSkip_stable env1 _ hrel.st1, postSkip_stable env2 _ hrel.st2]
      exact hrel.pos
    obtain ⟨ctx2', tk2, hnt2, hp1, hp2, hs1, hs2, hkey, hrc1, hrc2⟩ :=
      lexSim env1 env2 R hc1 hc2 ht hlg hal pp (reduceCtx c1 s') (reduceCtx c2 s') ctx1 tk rfl hR' hnt1
    have htop2 : topState c2.stack = some state := by rw [← topState_map hrel.stack]; exact htop
    have hcell2 : env2.t.cell state c2.tok.kind = .reduce p len :: acts := by rw [ht, ← hkind]; exact hcell
    have hfrom2 : topState (c2.stack.drop len) = some fromState := by
      rw [← topState_map (st1 := c1.stack.drop len)]
      · exact hfrom
      · rw [List.map_drop, List.map_drop, hrel.stack]
    refine ⟨_, step_reduce_intro env2 _ c2 state p len fromState s' pr acts ctx2' tk2 htop2 hcell2
      (by omega) hfrom2 (by rw [hg]; exact hpr) (by rw [hg, ht]; exact hgoto) (by omega) hnt2, ?_⟩
    subst hc'
    have hpos1 : ctx1.pos.pos = c1.ctx.pos.pos := by
      rw [hp1]; exact postSkip_stable env1 _ hrel.st1
    have hpos2 : ctx2'.pos.pos = c2.ctx.pos.pos := by
      rw [hp2]; exact postSkip_stable env2 _ hrel.st2
    refine ⟨?_, ?_, ?_, stable_of_pos rfl hs1, stable_of_pos rfl hs2, hkey, hrc1, hrc2⟩
    · simp only [List.map_cons, List.map_drop, hrel.stack]
    · simp only [List.map_cons, List.map_drop, hrel.res, reduceNode, Tree.shape, shapes_ofList,
        List.map_reverse, List.map_take]
    · show R ctx1.pos.pos ctx2'.pos.pos
      rw [hpos1, hpos2]; exact hrel.pos

theorem sim_done (ht : env2.t = env1.t) (pp : Bool) (c1 c2 : Cfg) (ctx1 : Ctx) (r1 : ParseResult)
    (hrel : CRel env1 env2 R c1 c2)
    (hstep : step env1 (nextTokenBase env1 pp) c1 = .done ctx1 r1) :
    ∃ ctx2 r2, step env2 (nextTokenBase env2 pp) c2 = .done ctx2 r2 ∧
      r1.tree.shape env1.input = r2.tree.shape env2.input := by
  have hkey0 := hrel.key
  unfold tokKey at hkey0
  have hkind : c1.tok.kind = c2.tok.kind := (_root_.Prod.mk.inj hkey0).1
  obtain ⟨state, acts, rest, htop, hcell, _, hres, _, _⟩ := step_done_inv env1 _ c1 ctx1 r1 hstep
  have hres2 := hrel.res
  rw [hres] at hres2
  cases hc2 : c2.res with
  | nil => rw [hc2] at hres2; simp at hres2
  | cons tr2 rest2 =>
    rw [hc2] at hres2
    simp only [List.map_cons, List.cons.injEq] at hres2
    refine ⟨c2.ctx, ⟨tr2, c2.slice, c2.hist⟩, ?_, hres2.1⟩
    exact step_accept_intro env2 _ c2 state acts tr2 rest2
      (by rw [← topState_map hrel.stack]; exact htop) (by rw [ht, ← hkind]; exact hcell) hc2

theorem runLoop_sim (hc1 : env1.custom = none) (hc2 : env2.custom = none)
    (hg : env2.g = env1.g) (ht : env2.t = env1.t) (hlg : env2.longest = env1.longest)
    (hr1 : RecogOk env1) (hr2 : RecogOk env2) (hns : NoShiftStop env1.t)
    (hal : Aligned env1 env2 R) (pp : Bool) :
    ∀ (fuel : Nat) (c1 c2 : Cfg) (ctx1 : Ctx) (r1 : ParseResult), CRel env1 env2 R c1 c2 →
      runLoop env1 (nextTokenBase env1 pp) fuel c1 = (ctx1, .ok r1) →
      ∃ ctx2 r2, runLoop env2 (nextTokenBase env2 pp) fuel c2 = (ctx2, .ok r2) ∧
        r1.tree.shape env1.input = r2.tree.shape env2.input := by
  intro fuel
  induction fuel with
  | zero => intro c1 c2 ctx1 r1 _ h; simp [runLoop] at h
  | succ n ih =>
    intro c1 c2 ctx1 r1 hrel h
    unfold runLoop at h
    split at h
    · rename_i c1' hstep
      obtain ⟨c2', hstep2, hrel'⟩ := sim_next env1 env2 R hc1 hc2 hg ht hlg hr1 hr2 hns hal pp c1 c2 c1' hrel hstep
      obtain ⟨ctx2, r2, hrun2, hsh⟩ := ih c1' c2' ctx1 r1 hrel' h
      refine ⟨ctx2, r2, ?_, hsh⟩
      unfold runLoop
      rw [hstep2]
      exact hrun2
    · rename_i ctx1' r1' hstep
      injection h with h1 h2
      injection h2 with h2
      subst h1 h2
      obtain ⟨ctx2, r2, hstep2, hsh⟩ := sim_done env1 env2 R ht pp c1 c2 ctx1' r1' hrel hstep
      refine ⟨ctx2, r2, ?_, hsh⟩
      unfold runLoop
      rw [hstep2]
    · rename_i ctx1' o hstep
      injection h with _ h2
      subst h2
      exact absurd rfl (step_stop_not_ok env1 _ c1 ctx1' _ hstep r1)

end

/-- **Layout insertion invariance**, one direction (apply it to `R` reversed for the other) -/
theorem parse_insertion (env1 env2 : Env) (R : Nat → Nat → Prop)
    (hc1 : env1.custom = none) (hc2 : env2.custom = none)
    (hl1 : env1.t.layoutState = none)
    (hg : env2.g = env1.g) (ht : env2.t = env1.t) (hlg : env2.longest = env1.longest)
    (hr1 : RecogOk env1) (hr2 : RecogOk env2) (hns : NoShiftStop env1.t)
    (hal : Aligned env1 env2 R) (pp : Bool) (fuel : Nat) (ctx1 : Ctx) (r1 : ParseResult)
    (h : parse env1 pp fuel = (ctx1, .ok r1)) :
    ∃ ctx2 r2, parse env2 pp fuel = (ctx2, .ok r2) ∧
      r1.tree.shape env1.input = r2.tree.shape env2.input := by
  have hl2 : env2.t.layoutState = none := by rw [ht]; exact hl1
  have e1 : nextTokenMain env1 pp fuel = nextTokenBase env1 pp := by
    funext ctx; exact nextTokenMain_eq_base env1 hl1 pp fuel ctx
  have e2 : nextTokenMain env2 pp fuel = nextTokenBase env2 pp := by
    funext ctx; exact nextTokenMain_eq_base env2 hl2 pp fuel ctx
  unfold parse parseWith at h ⊢
  rw [e1] at h
  rw [e2]
  simp only at h ⊢
  split at h
  · rename_i ctx1' tk1 hnt1
    obtain ⟨ctx2', tk2, hnt2, hp1, hp2, hs1, hs2, hkey, hrc1, hrc2⟩ :=
      lexSim env1 env2 R hc1 hc2 ht hlg hal pp {} {} ctx1' tk1 rfl hal.start hnt1
    rw [hnt2]
    simp only
    refine runLoop_sim env1 env2 R hc1 hc2 hg ht hlg hr1 hr2 hns hal pp fuel _ _ ctx1 r1 ?_ h
    exact ⟨by simp, by simp, by rw [hp1, hp2]; exact hal.start, hs1, hs2, hkey, hrc1, hrc2⟩
  all_goals (injection h with _ h2; simp at h2)

end Rustemo

namespace Rustemo

theorem Aligned.symm {env1 env2 : Env} {R : Nat → Nat → Prop} (h : Aligned env1 env2 R) :
    Aligned env2 env1 (fun q p => R p q) :=
  ⟨h.start, fun q p hR k => (h.recog p q hR k).symm,
   fun q p hR k l hk => h.next p q hR k l (by rw [h.recog p q hR k]; exact hk),
   fun q p hR k l hk => (h.text p q hR k l (by rw [h.recog p q hR k]; exact hk)).symm⟩

end Rustemo

namespace Rustemo

/-- alignment along the tokens the first parse shifted (`toks` in input order), from the related
    offsets `p`, `q`: each token starts at `p`, all recognizers agree at `p` / `q`, the token text is
    the same, and the offsets after the token and whitespace skipping are aligned for the rest; where
    the tokens end the recognizers agree once more (end of input / partial-parse stop) -/
def PathAligned (env1 env2 : Env) : List Tok → Nat → Nat → Prop
  | [], p, q => ∀ k, env1.recog k p = env2.recog k q
  | tk :: rest, p, q =>
    tk.val.1 = p ∧ (∀ k, env1.recog k p = env2.recog k q) ∧
    sliceOf env1.input tk.val = sliceOf env2.input (q, tk.val.2) ∧
    PathAligned env1 env2 rest (postSkip env1 (p + tk.val.2)) (postSkip env2 (q + tk.val.2))

end Rustemo
