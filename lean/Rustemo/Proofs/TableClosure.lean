import Rustemo.Proofs.TableBasic
/-!
# Table construction: what `LRState::closure` does to an item list

`addDemand` (one `new_item` of the second loop), `applyDemands`, `gatherDemands`, `closureRound`, `closure`.
-/
namespace Rustemo.Table

/-- `a ⊆ b` for lookahead lists -/
def Sub (a b : List Nat) : Prop := ∀ x ∈ a, x ∈ b

theorem Sub.refl (a : List Nat) : Sub a a := fun _ h => h
theorem Sub.trans {a b c : List Nat} (h1 : Sub a b) (h2 : Sub b c) : Sub a c := fun x h => h2 x (h1 x h)

/-! ## `addDemand` -/

theorem addDemand_cores (d : Nat × List Nat) (items : List Item) :
    ((addDemand d items).1.map core = items.map core ∧ (d.1, 0) ∈ items.map core) ∨
    ((addDemand d items).1.map core = items.map core ++ [(d.1, 0)] ∧ (d.1, 0) ∉ items.map core) := by
  induction items with
  | nil => right; simp [addDemand, core]
  | cons x xs ih =>
    unfold addDemand
    by_cases hx : (x.prod == d.1 && x.dot == 0) = true
    · left
      rw [if_pos hx]; simp only [List.map_cons]
      simp only [Bool.and_eq_true, beq_iff_eq] at hx
      refine ⟨by simp [core], ?_⟩
      simp [core, ← hx.1, ← hx.2]
    · rw [if_neg hx]; simp only [List.map_cons]
      have hne : core x ≠ (d.1, 0) := by
        intro h; apply hx
        simp only [core, _root_.Prod.mk.injEq] at h
        simp [h.1, h.2]
      rcases ih with ⟨h1, h2⟩ | ⟨h1, h2⟩
      · left
        refine ⟨?_, List.mem_cons_of_mem _ h2⟩
        rw [h1]
      · right
        refine ⟨?_, ?_⟩
        · rw [h1]; rfl
        · intro h
          rcases List.mem_cons.mp h with h | h
          · exact hne h.symm
          · exact h2 h

/-- every old item is still there, with at least its lookaheads -/
theorem addDemand_mono (d : Nat × List Nat) (items : List Item) :
    ∀ it ∈ items, ∃ it' ∈ (addDemand d items).1, core it' = core it ∧ Sub it.la it'.la := by
  induction items with
  | nil => intro it h; simp at h
  | cons x xs ih =>
    intro it hit
    unfold addDemand
    by_cases hx : (x.prod == d.1 && x.dot == 0) = true
    · rw [if_pos hx]
      rcases List.mem_cons.mp hit with h | h
      · subst h
        exact ⟨_, List.mem_cons_self, rfl, fun a ha => mem_union.mpr (.inl ha)⟩
      · exact ⟨it, List.mem_cons_of_mem _ h, rfl, Sub.refl _⟩
    · rw [if_neg hx]
      rcases List.mem_cons.mp hit with h | h
      · subst h
        exact ⟨it, List.mem_cons_self, rfl, Sub.refl _⟩
      · obtain ⟨it', h1, h2, h3⟩ := ih it h
        exact ⟨it', List.mem_cons_of_mem _ h1, h2, h3⟩

/-- the demand is met afterwards -/
theorem addDemand_sat (d : Nat × List Nat) (items : List Item) :
    ∃ it' ∈ (addDemand d items).1, core it' = (d.1, 0) ∧ Sub d.2 it'.la := by
  induction items with
  | nil => exact ⟨⟨d.1, 0, d.2⟩, by simp [addDemand], rfl, Sub.refl _⟩
  | cons x xs ih =>
    unfold addDemand
    by_cases hx : (x.prod == d.1 && x.dot == 0) = true
    · rw [if_pos hx]
      simp only [Bool.and_eq_true, beq_iff_eq] at hx
      exact ⟨_, List.mem_cons_self, by simp [core, hx.1, hx.2], fun a ha => mem_union.mpr (.inr ha)⟩
    · rw [if_neg hx]
      obtain ⟨it', h1, h2, h3⟩ := ih
      exact ⟨it', List.mem_cons_of_mem _ h1, h2, h3⟩

/-- where the items afterwards come from -/
theorem addDemand_origin (d : Nat × List Nat) (items : List Item) :
    ∀ it' ∈ (addDemand d items).1,
      (∃ it ∈ items, core it = core it' ∧ ∀ a ∈ it'.la, a ∈ it.la ∨ a ∈ d.2) ∨ it' = ⟨d.1, 0, d.2⟩ := by
  induction items with
  | nil => intro it' h; right; simpa [addDemand] using h
  | cons x xs ih =>
    intro it' hit
    unfold addDemand at hit
    by_cases hx : (x.prod == d.1 && x.dot == 0) = true
    · rw [if_pos hx] at hit
      rcases List.mem_cons.mp hit with h | h
      · left
        refine ⟨x, List.mem_cons_self, by rw [h]; rfl, ?_⟩
        intro a ha
        rw [h] at ha
        exact mem_union.mp ha
      · left; exact ⟨it', List.mem_cons_of_mem _ h, rfl, fun a ha => .inl ha⟩
    · rw [if_neg hx] at hit
      rcases List.mem_cons.mp hit with h | h
      · left; exact ⟨x, List.mem_cons_self, by rw [h], fun a ha => .inl (by rw [h] at ha; exact ha)⟩
      · rcases ih it' h with ⟨it, h1, h2, h3⟩ | h1
        · left; exact ⟨it, List.mem_cons_of_mem _ h1, h2, h3⟩
        · right; exact h1

/-- where the lookaheads afterwards come from: the old item, or the demand if the item is `(d.1, 0)` -/
theorem addDemand_origin2 (d : Nat × List Nat) (items : List Item) :
    ∀ it' ∈ (addDemand d items).1,
      (∃ it ∈ items, core it = core it' ∧ ∀ a ∈ it'.la, a ∈ it.la ∨ (a ∈ d.2 ∧ core it' = (d.1, 0))) ∨
        it' = ⟨d.1, 0, d.2⟩ := by
  induction items with
  | nil => intro it' h; right; simpa [addDemand] using h
  | cons x xs ih =>
    intro it' hit
    unfold addDemand at hit
    by_cases hx : (x.prod == d.1 && x.dot == 0) = true
    · rw [if_pos hx] at hit
      rcases List.mem_cons.mp hit with h | h
      · left
        refine ⟨x, List.mem_cons_self, by rw [h]; rfl, ?_⟩
        intro a ha
        rw [h] at ha ⊢
        simp only [Bool.and_eq_true, beq_iff_eq] at hx
        rcases mem_union.mp ha with h' | h'
        · exact .inl h'
        · exact .inr ⟨h', by simp [core, hx.1, hx.2]⟩
      · left; exact ⟨it', List.mem_cons_of_mem _ h, rfl, fun a ha => .inl ha⟩
    · rw [if_neg hx] at hit
      rcases List.mem_cons.mp hit with h | h
      · left; exact ⟨x, List.mem_cons_self, by rw [h], fun a ha => .inl (by rw [h] at ha; exact ha)⟩
      · rcases ih it' h with ⟨it, h1, h2, h3⟩ | h1
        · left; exact ⟨it, List.mem_cons_of_mem _ h1, h2, h3⟩
        · right; exact h1

/-- every item afterwards is an old item with at least its lookaheads, or the new item -/
theorem addDemand_back (d : Nat × List Nat) (items : List Item) :
    ∀ it' ∈ (addDemand d items).1,
      (∃ it ∈ items, core it = core it' ∧ Sub it.la it'.la) ∨ it' = ⟨d.1, 0, d.2⟩ := by
  induction items with
  | nil => intro it' h; right; simpa [addDemand] using h
  | cons x xs ih =>
    intro it' hit
    unfold addDemand at hit
    by_cases hx : (x.prod == d.1 && x.dot == 0) = true
    · rw [if_pos hx] at hit
      rcases List.mem_cons.mp hit with h | h
      · left
        refine ⟨x, List.mem_cons_self, by rw [h]; rfl, ?_⟩
        intro a ha
        rw [h]
        exact mem_union.mpr (.inl ha)
      · left; exact ⟨it', List.mem_cons_of_mem _ h, rfl, Sub.refl _⟩
    · rw [if_neg hx] at hit
      rcases List.mem_cons.mp hit with h | h
      · left; exact ⟨x, List.mem_cons_self, by rw [h], by rw [h]; exact Sub.refl _⟩
      · rcases ih it' h with ⟨it, h1, h2, h3⟩ | h1
        · left; exact ⟨it, List.mem_cons_of_mem _ h1, h2, h3⟩
        · right; exact h1

/-- the flag `change` stays false only if nothing changed -/
theorem addDemand_unchanged (d : Nat × List Nat) (items : List Item) (h : (addDemand d items).2 = false) :
    (addDemand d items).1 = items ∧ ∃ it ∈ items, core it = (d.1, 0) ∧ Sub d.2 it.la := by
  induction items with
  | nil => simp [addDemand] at h
  | cons x xs ih =>
    unfold addDemand at h ⊢
    by_cases hx : (x.prod == d.1 && x.dot == 0) = true
    · rw [if_pos hx] at h ⊢
      have hu := union_eq_self_of_not_lt h
      simp only [Bool.and_eq_true, beq_iff_eq] at hx
      refine ⟨by rw [hu], x, List.mem_cons_self, by simp [core, hx.1, hx.2], ?_⟩
      intro a ha
      rw [← hu]; exact mem_union.mpr (.inr ha)
    · rw [if_neg hx] at h ⊢
      obtain ⟨h1, it, h2, h3, h4⟩ := ih h
      exact ⟨by rw [h1], it, List.mem_cons_of_mem _ h2, h3, h4⟩

/-! ## `applyDemands` -/

theorem applyDemands_unchanged : ∀ (ds : List (Nat × List Nat)) (items : List Item) (ch : Bool),
    (applyDemands ds items ch).2 = false →
      ch = false ∧ (applyDemands ds items ch).1 = items ∧
        ∀ d ∈ ds, ∃ it ∈ items, core it = (d.1, 0) ∧ Sub d.2 it.la
  | [], items, ch, h => by simpa [applyDemands] using h
  | d :: ds, items, ch, h => by
    unfold applyDemands at h ⊢
    obtain ⟨h1, h2, h3⟩ := applyDemands_unchanged ds _ _ h
    simp only [Bool.or_eq_false_iff] at h1
    obtain ⟨h4, it, h5, h6, h7⟩ := addDemand_unchanged d items h1.2
    rw [h4] at h2 h3 ⊢
    refine ⟨h1.1, h2, ?_⟩
    intro d' hd'
    rcases List.mem_cons.mp hd' with h | h
    · subst h; exact ⟨it, h5, h6, h7⟩
    · exact h3 d' h

/-- an invariant of item lists that every `addDemand` keeps is kept by `applyDemands` -/
theorem applyDemands_induct (P : List Item → Prop) (ds : List (Nat × List Nat))
    (hstep : ∀ d ∈ ds, ∀ items, P items → P (addDemand d items).1) :
    ∀ (items : List Item) (ch : Bool), P items → P (applyDemands ds items ch).1 := by
  induction ds with
  | nil => intro items ch h; exact h
  | cons d ds ih =>
    intro items ch h
    unfold applyDemands
    exact ih (fun d' hd' => hstep d' (List.mem_cons_of_mem _ hd')) _ _ (hstep d List.mem_cons_self items h)

theorem applyDemands_mono (ds : List (Nat × List Nat)) (items : List Item) (ch : Bool) :
    ∀ it ∈ items, ∃ it' ∈ (applyDemands ds items ch).1, core it' = core it ∧ Sub it.la it'.la := by
  induction ds generalizing items ch with
  | nil => intro it h; exact ⟨it, h, rfl, Sub.refl _⟩
  | cons d ds ih =>
    intro it hit
    unfold applyDemands
    obtain ⟨it1, h1, h2, h3⟩ := addDemand_mono d items it hit
    obtain ⟨it2, h4, h5, h6⟩ := ih (addDemand d items).1 (ch || (addDemand d items).2) it1 h1
    exact ⟨it2, h4, h5.trans h2, h3.trans h6⟩

/-! ## `insDemand`, `gatherDemands` -/

theorem cmpLA_eq : ∀ {a b : List Nat}, cmpLA a b = .eq → a = b
  | [], [], _ => rfl
  | [], _ :: _, h => by simp [cmpLA] at h
  | _ :: _, [], h => by simp [cmpLA] at h
  | x :: xs, y :: ys, h => by
    unfold cmpLA at h
    by_cases h1 : x < y
    · simp [h1] at h
    · by_cases h2 : y < x
      · simp [h1, h2] at h
      · simp only [h1, h2, if_false] at h
        have : x = y := by omega
        rw [this, cmpLA_eq h]

theorem cmpDemand_eq {x y : Nat × List Nat} (h : cmpDemand x y = .eq) : x = y := by
  unfold cmpDemand at h
  by_cases h1 : x.1 < y.1
  · simp [h1] at h
  · by_cases h2 : y.1 < x.1
    · simp [h1, h2] at h
    · simp only [h1, h2, if_false] at h
      have : x.1 = y.1 := by omega
      exact Prod.ext this (cmpLA_eq h)

theorem mem_insDemand {x y : Nat × List Nat} {l : List (Nat × List Nat)} :
    y ∈ insDemand x l ↔ y = x ∨ y ∈ l := by
  induction l with
  | nil => simp [insDemand]
  | cons z zs ih =>
    unfold insDemand
    split
    · simp
    · rename_i h
      have := cmpDemand_eq h
      subst this
      simp
    · simp only [List.mem_cons, ih]
      constructor
      · rintro (h | h | h)
        · exact .inr (.inl h)
        · exact .inl h
        · exact .inr (.inr h)
      · rintro (h | h | h)
        · exact .inr (.inl h)
        · exact .inl h
        · exact .inr (.inr h)

theorem mem_insDemands {y : Nat × List Nat} {ds acc : List (Nat × List Nat)} :
    y ∈ insDemands ds acc ↔ y ∈ ds ∨ y ∈ acc := by
  unfold insDemands
  induction ds generalizing acc with
  | nil => simp
  | cons d ds ih =>
    simp only [List.foldl_cons, ih, mem_insDemand, List.mem_cons]
    constructor
    · rintro (h | h | h)
      · exact .inl (.inr h)
      · exact .inl (.inl h)
      · exact .inr h
    · rintro ((h | h) | h)
      · exact .inr (.inl h)
      · exact .inl h
      · exact .inr (.inr h)

/-- the demands gathered are exactly those of the items (and what was there before) -/
theorem gatherDemands_spec (g : Grammar) (fs : Array (List Nat)) :
    ∀ (items : List Item) (acc ds : List (Nat × List Nat)), gatherDemands g fs items acc = .ok ds →
      (∀ it ∈ items, ∃ dsi, itemDemands g fs it = .ok dsi ∧ ∀ d ∈ dsi, d ∈ ds) ∧
      (∀ d ∈ acc, d ∈ ds) ∧
      (∀ d ∈ ds, d ∈ acc ∨ ∃ it ∈ items, ∃ dsi, itemDemands g fs it = .ok dsi ∧ d ∈ dsi)
  | [], acc, ds, h => by
    simp only [gatherDemands, Res.ok.injEq] at h
    subst h
    exact ⟨by simp, fun d h => h, fun d h => .inl h⟩
  | it :: rest, acc, ds, h => by
    unfold gatherDemands at h
    split at h
    · rename_i dsi hdsi
      obtain ⟨h1, h2, h3⟩ := gatherDemands_spec g fs rest _ ds h
      refine ⟨?_, ?_, ?_⟩
      · intro it' hit'
        rcases List.mem_cons.mp hit' with h' | h'
        · subst h'
          exact ⟨dsi, hdsi, fun d hd => h2 d (mem_insDemands.mpr (.inl hd))⟩
        · exact h1 it' h'
      · exact fun d hd => h2 d (mem_insDemands.mpr (.inr hd))
      · intro d hd
        rcases h3 d hd with h' | ⟨it', h4, h5⟩
        · rcases mem_insDemands.mp h' with h'' | h''
          · exact .inr ⟨it, List.mem_cons_self, dsi, hdsi, h''⟩
          · exact .inl h''
        · exact .inr ⟨it', List.mem_cons_of_mem _ h4, h5⟩
    · simp at h
    · simp at h
    · simp at h

/-! ## `closureRound`, `closure` -/

theorem closureRound_ok {g : Grammar} {fs : Array (List Nat)} {items : List Item} {r : List Item × Bool}
    (h : closureRound g fs items = .ok r) :
    ∃ ds, gatherDemands g fs items [] = .ok ds ∧ r = applyDemands ds items false := by
  unfold closureRound at h
  split at h
  · rename_i ds hds
    simp only [Res.ok.injEq] at h
    exact ⟨ds, hds, h.symm⟩
  · simp at h
  · simp at h
  · simp at h

/-- induction over the rounds of one closure computation: `P` is an invariant of the item list, `Q` what is
    known of every demand raised by a list satisfying `P` -/
theorem closureRound_induct {g : Grammar} {fs : Array (List Nat)} (P : List Item → Prop)
    (Q : Nat × List Nat → Prop)
    (hQ : ∀ items, P items → ∀ it ∈ items, ∀ dsi, itemDemands g fs it = .ok dsi → ∀ d ∈ dsi, Q d)
    (hP : ∀ items d, P items → Q d → P (addDemand d items).1)
    {items : List Item} {r : List Item × Bool} (h : closureRound g fs items = .ok r) (h0 : P items) :
    P r.1 := by
  obtain ⟨ds, hds, hr⟩ := closureRound_ok h
  subst hr
  obtain ⟨_, _, h3⟩ := gatherDemands_spec g fs items [] ds hds
  apply applyDemands_induct P ds _ _ _ h0
  intro d hd its hits
  apply hP its d hits
  rcases h3 d hd with h' | ⟨it, h4, dsi, h5, h6⟩
  · simp at h'
  · exact hQ items h0 it h4 dsi h5 d h6

theorem closure_induct {g : Grammar} {fs : Array (List Nat)} (P : List Item → Prop)
    (Q : Nat × List Nat → Prop)
    (hQ : ∀ items, P items → ∀ it ∈ items, ∀ dsi, itemDemands g fs it = .ok dsi → ∀ d ∈ dsi, Q d)
    (hP : ∀ items d, P items → Q d → P (addDemand d items).1) :
    ∀ (n : Nat) (items items' : List Item), closure g fs n items = .ok items' → P items → P items' := by
  intro n
  induction n with
  | zero => intro items items' h; simp [closure] at h
  | succ n ih =>
    intro items items' h h0
    unfold closure at h
    split at h
    · rename_i its hr
      exact ih its items' h (closureRound_induct P Q hQ hP hr h0)
    · rename_i its hr
      simp only [Res.ok.injEq] at h
      subst h
      exact closureRound_induct P Q hQ hP hr h0
    · simp at h
    · simp at h
    · simp at h

/-- the last round of a closure computation changed nothing -/
theorem closure_exit {g : Grammar} {fs : Array (List Nat)} :
    ∀ (n : Nat) (items items' : List Item), closure g fs n items = .ok items' →
      closureRound g fs items' = .ok (items', false) := by
  intro n
  induction n with
  | zero => intro items items' h; simp [closure] at h
  | succ n ih =>
    intro items items' h
    unfold closure at h
    split at h
    · rename_i its hr
      exact ih its items' h
    · rename_i its hr
      simp only [Res.ok.injEq] at h
      subst h
      obtain ⟨ds, hds, hr'⟩ := closureRound_ok hr
      have h2 : (applyDemands ds items false).2 = false := by rw [← hr']
      have h3 : (applyDemands ds items false).1 = its := by rw [← hr']
      obtain ⟨_, h4, _⟩ := applyDemands_unchanged ds items false h2
      rw [h4] at h3
      subst h3
      exact hr
    · simp at h
    · simp at h
    · simp at h

/-- a list that a closure round leaves unchanged meets every demand it raises -/
theorem closureRound_fix {g : Grammar} {fs : Array (List Nat)} {items : List Item}
    (h : closureRound g fs items = .ok (items, false)) :
    ∀ it ∈ items, ∃ dsi, itemDemands g fs it = .ok dsi ∧
      ∀ d ∈ dsi, ∃ it' ∈ items, core it' = (d.1, 0) ∧ Sub d.2 it'.la := by
  obtain ⟨ds, hds, hr⟩ := closureRound_ok h
  have h2 : (applyDemands ds items false).2 = false := by rw [← hr]
  obtain ⟨_, _, h5⟩ := applyDemands_unchanged ds items false h2
  obtain ⟨h6, _, _⟩ := gatherDemands_spec g fs items [] ds hds
  intro it hit
  obtain ⟨dsi, h7, h8⟩ := h6 it hit
  exact ⟨dsi, h7, fun d hd => h5 d (h8 d hd)⟩

end Rustemo.Table
