import Rustemo.Model.Glr
import Rustemo.Model.GlrCert
/-!
Concrete grammars with the tables the real compiler builds for them (GLR, `LALR_RN`; generated from the hook's
dump by a script), used by the non-vacuity examples next to the engine theorems.
-/
namespace Rustemo.Glr.Example
open Rustemo

/-- `S: 'a' S A | EMPTY; A: 'a' | EMPTY;` — right-nullable, ambiguous.  Terminals STOP(0) a(1); nonterminals
    EMPTY(2) AUG(3) S(4) A(5); productions 0: AUG→S, 1: S→a S A, 2: S→ε, 3: A→a, 4: A→ε.  The table has the
    right-nulled reductions `reduce 1 1` and `reduce 1 2`. -/
def g : Grammar :=
  { nterms := 2, nnonterms := 4,
    prods := #[{ lhs := 3, rhs := [4] }, { lhs := 4, rhs := [1, 4, 5] }, { lhs := 4, rhs := [] }, { lhs := 5, rhs := [1] }, { lhs := 5, rhs := [] }],
    emptyIdx := 2, augIdx := 3, startIdx := 4 }

def t : Table :=
  { states := #[
      { symbol := 3, items := [⟨0, 0, [0]⟩, ⟨1, 0, [0]⟩, ⟨2, 0, [0]⟩],
        actions := #[[.reduce 2 0], [.shift 1]], gotos := #[none, none, some 2, none],
        sorted := [(0, true), (1, true)] },
      { symbol := 1, items := [⟨1, 1, [0, 1]⟩, ⟨1, 0, [0, 1]⟩, ⟨2, 0, [0, 1]⟩],
        actions := #[[.reduce 1 1, .reduce 2 0], [.shift 1, .reduce 1 1, .reduce 2 0]], gotos := #[none, none, some 3, none],
        sorted := [(0, true), (1, true)] },
      { symbol := 4, items := [⟨0, 1, [0]⟩],
        actions := #[[.accept], []], gotos := #[none, none, none, none],
        sorted := [(0, false)] },
      { symbol := 4, items := [⟨1, 2, [0, 1]⟩, ⟨3, 0, [0, 1]⟩, ⟨4, 0, [0, 1]⟩],
        actions := #[[.reduce 1 2, .reduce 4 0], [.shift 4, .reduce 1 2, .reduce 4 0]], gotos := #[none, none, none, some 5],
        sorted := [(0, true), (1, true)] },
      { symbol := 1, items := [⟨3, 1, [0, 1]⟩],
        actions := #[[.reduce 3 1], [.reduce 3 1]], gotos := #[none, none, none, none],
        sorted := [(0, true), (1, true)] },
      { symbol := 5, items := [⟨1, 3, [0, 1]⟩],
        actions := #[[.reduce 1 3], [.reduce 1 3]], gotos := #[none, none, none, none],
        sorted := [(0, true), (1, true)] }] }

/-- recognizers `'a'` and STOP over an input of `n` bytes `a` -/
def recogA (n : Nat) (term pos : Nat) : Option Nat :=
  if term = 1 then (if pos < n then some 1 else none)
  else if term = 0 then (if pos = n then some 0 else none)
  else none

/-- the input `a…a` (n times) -/
def env (n : Nat) : Env := { g := g, t := t, input := List.replicate n 97, recog := recogA n }

def solutionsOf (o : Outcome GlrResult) : Option Nat :=
  match o with
  | .ok r => some r.forest.solutions
  | _ => none

def isErr (o : Outcome GlrResult) : Bool :=
  match o with
  | .err _ => true
  | _ => false

end Rustemo.Glr.Example
