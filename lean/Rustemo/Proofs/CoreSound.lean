import Rustemo.Model.Core
/-!
# Soundness of the LR core

If the table is *structurally* well formed (`Structural`, a finite list of facts about items,
transitions and reduce entries that never mentions lookaheads) then the stack always spells a path
of the automaton whose entries carry valid derivation trees, a reduction pops exactly the
right-hand side of its production, and an accepted tree is a derivation of the shifted tokens
from the start symbol.  Lookahead kinds are arbitrary: whatever a lexer produced.
-/
namespace Rustemo

def Table.hasItem (t : Table) (s p d : Nat) : Prop :=
  ∃ st, t.states[s]? = some st ∧ ∃ it ∈ st.items, it.prod = p ∧ it.dot = d

/-- transition `s --X--> s'` of the automaton as encoded in the table -/
def Table.trans (t : Table) (g : Grammar) (s X s' : Nat) : Prop :=
  if X < g.nterms then Action.shift s' ∈ t.cell s X else t.goto g s X = some s'

/-- The structural certificate, as a proposition, for all automata of the table at once. -/
structure Structural (g : Grammar) (t : Table) (autos : List Auto) : Prop where
  item_prod : ∀ s p d, t.hasItem s p d → ∃ pr, g.prods[p]? = some pr ∧ d ≤ pr.rhs.length
  start_items : ∀ a ∈ autos, ∀ p d, t.hasItem a.start p d → d = 0
  no_into_start : ∀ a ∈ autos, ∀ s X, ¬ t.trans g s X a.start
  target_items : ∀ s X s' p d, t.trans g s X s' → t.hasItem s' p (d+1) →
      (∃ pr, g.prods[p]? = some pr ∧ pr.rhs[d]? = some X) ∧ t.hasItem s p d
  reduce_item : ∀ s a p len, Action.reduce p len ∈ t.cell s a →
      t.hasItem s p len ∧ ∃ pr, g.prods[p]? = some pr ∧ pr.rhs.length = len
  accept_item : ∀ s x, Action.accept ∈ t.cell s x →
      ∃ a ∈ autos, ∃ pr, g.prods[a.aug]? = some pr ∧ pr.rhs = [a.sym] ∧ t.hasItem s a.aug 1
  aug_start_only : ∀ a ∈ autos, ∀ s, t.hasItem s a.aug 0 → s = a.start
  shift_term : ∀ s a s', Action.shift s' ∈ t.cell s a → a < g.nterms
  distinct : ∀ a ∈ autos, ∀ b ∈ autos, a.start = b.start → a = b

/-- List version of `TreeList.Valid`. -/
def ValidList (g : Grammar) : List Tree → List Nat → Prop
  | [], Xs => Xs = []
  | t :: ts, Xs => ∃ X Xs', Xs = X :: Xs' ∧ t.Valid g X ∧ ValidList g ts Xs'

def PathInv (g : Grammar) (t : Table) (start : Nat) : List (Nat × Tree) → Prop
  | [] => True
  | (s, tr) :: below => (∃ X, tr.Valid g X ∧ t.trans g (topOf start below) X s) ∧ PathInv g t start below

def yields : List (Nat × Tree) → List Nat
  | [] => []
  | (_, tr) :: below => yields below ++ tr.yield

theorem validList_ofList (g : Grammar) (l : List Tree) (Xs : List Nat) :
    ValidList g l Xs → (TreeList.ofList l).Valid g Xs := by
  induction l generalizing Xs with
  | nil => intro h; simpa [ValidList, TreeList.ofList, TreeList.Valid] using h
  | cons t ts ih =>
    intro h
    obtain ⟨X, Xs', rfl, hv, hl⟩ := h
    simp only [TreeList.ofList, TreeList.Valid]
    exact ⟨X, Xs', rfl, hv, ih _ hl⟩

theorem yield_ofList (l : List Tree) : (TreeList.ofList l).yield = (l.map Tree.yield).flatten := by
  induction l with
  | nil => simp [TreeList.ofList, TreeList.yield]
  | cons t ts ih => simp [TreeList.ofList, TreeList.yield, ih]

theorem validList_append (g : Grammar) (l1 l2 : List Tree) (X1 X2 : List Nat) :
    ValidList g l1 X1 → ValidList g l2 X2 → ValidList g (l1 ++ l2) (X1 ++ X2) := by
  induction l1 generalizing X1 with
  | nil => intro h1 h2; simp [ValidList] at h1; subst h1; simpa using h2
  | cons t ts ih =>
    intro h1 h2
    obtain ⟨X, Xs', rfl, hv, hl⟩ := h1
    exact ⟨X, Xs' ++ X2, by simp, hv, ih _ hl h2⟩

theorem pathInv_drop (g : Grammar) (t : Table) (start : Nat) (st : List (Nat × Tree)) (n : Nat) :
    PathInv g t start st → PathInv g t start (st.drop n) := by
  induction n generalizing st with
  | zero => simp
  | succ n ih =>
    cases st with
    | nil => simp [PathInv]
    | cons e b =>
      obtain ⟨s, tr⟩ := e
      intro h; simpa using ih b h.2

/-- Path lemma: an item with dot `d` in the top state means the top `d` entries spell `rhs[0..d)`. -/
theorem path_lemma (g : Grammar) (t : Table) (autos : List Auto) (hs : Structural g t autos)
    (au : Auto) (hin : au ∈ autos) (start : Nat) (hstart : start = au.start) :
    ∀ (d : Nat) (st : List (Nat × Tree)) (p : Nat), PathInv g t start st →
      t.hasItem (topOf start st) p d →
      d ≤ st.length ∧ t.hasItem (topOf start (st.drop d)) p 0 ∧
      ∃ pr, g.prods[p]? = some pr ∧ ValidList g ((st.take d).reverse.map (·.2)) (pr.rhs.take d)
        ∧ d ≤ pr.rhs.length := by
  intro d
  induction d with
  | zero =>
    intro st p _ hi
    obtain ⟨pr, hpr, _⟩ := hs.item_prod _ p 0 hi
    exact ⟨Nat.zero_le _, by simpa using hi, pr, hpr, by simp [ValidList], Nat.zero_le _⟩
  | succ d ih =>
    intro st p hp hi
    cases st with
    | nil =>
      have := hs.start_items au hin p (d+1) (by rw [← hstart]; simpa [topOf] using hi)
      omega
    | cons e below =>
      obtain ⟨s, tr⟩ := e
      obtain ⟨⟨X, hv, htr⟩, hbelow⟩ := hp
      have hi' : t.hasItem s p (d+1) := by simpa [topOf] using hi
      obtain ⟨⟨pr, hpr, hX⟩, hsrc⟩ := hs.target_items _ X s p d htr hi'
      obtain ⟨hlen, h0, pr', hpr', hvl, hdl⟩ := ih below p hbelow hsrc
      have : pr' = pr := by rw [hpr] at hpr'; exact (Option.some.inj hpr').symm
      subst this
      have hlt : d < pr'.rhs.length := by
        rcases Nat.lt_or_ge d pr'.rhs.length with h | h
        · exact h
        · simp [List.getElem?_eq_none h] at hX
      refine ⟨by simp; omega, by simpa using h0, pr', hpr, ?_, by omega⟩
      have htake : pr'.rhs.take (d+1) = pr'.rhs.take d ++ [X] := by
        rw [List.take_add_one]; simp [hX]
      rw [htake]
      simp only [List.take_succ_cons, List.reverse_cons, List.map_append, List.map_cons, List.map_nil]
      exact validList_append g _ _ _ _ hvl ⟨X, [], rfl, hv, rfl⟩

/-- The soundness invariant of a core configuration. -/
structure CInv (g : Grammar) (t : Table) (start : Nat) (c : CCfg) : Prop where
  path : PathInv g t start c.stack
  yld  : yields c.stack = c.shifted.reverse

theorem yields_take_drop (st : List (Nat × Tree)) (d : Nat) :
    yields st = yields (st.drop d) ++ (((st.take d).reverse.map (·.2)).map Tree.yield).flatten := by
  induction d generalizing st with
  | zero => simp
  | succ d ih =>
    cases st with
    | nil => simp [yields]
    | cons e below =>
      obtain ⟨s, tr⟩ := e
      simp only [List.drop_succ_cons, List.take_succ_cons, List.reverse_cons, List.map_append,
        List.map_cons, List.map_nil, List.flatten_append, yields]
      rw [ih below]
      simp [List.append_assoc]

/-- Tree constructors that decorate but do not change kind / production / children. -/
structure Decorators (leafOf : Nat → Tree) (nodeOf : Nat → List Tree → Tree) : Prop where
  leaf : ∀ a, ∃ sp v l, leafOf a = .leaf a sp v l
  node : ∀ p cs, ∃ sp l, nodeOf p cs = .node p sp l (TreeList.ofList cs)

theorem decorators_plain : Decorators Tree.tok Tree.mk :=
  ⟨fun _ => ⟨_, _, _, rfl⟩, fun _ _ => ⟨_, _, rfl⟩⟩

theorem cinv_init (g : Grammar) (t : Table) (start : Nat) : CInv g t start ⟨[], []⟩ :=
  ⟨trivial, rfl⟩

/-- every non-final step preserves the invariant, whatever the lookahead -/
theorem cstep_preserves (g : Grammar) (t : Table) (autos : List Auto) (hs : Structural g t autos)
    (au : Auto) (hin : au ∈ autos) (start : Nat) (hstart : start = au.start)
    (leafOf : Nat → Tree) (nodeOf : Nat → List Tree → Tree) (hd : Decorators leafOf nodeOf)
    (c c' : CCfg) (a : Nat) (hinv : CInv g t start c)
    (hstep : cstepWith g t start leafOf nodeOf c a = .shift c' ∨
             cstepWith g t start leafOf nodeOf c a = .reduce c') : CInv g t start c' := by
  unfold cstepWith at hstep
  split at hstep
  · simp at hstep
  · rename_i act acts hcell
    have hmem : act ∈ t.cell (topOf start c.stack) a := by rw [hcell]; simp
    split at hstep
    · -- shift
      rename_i s'
      have hc : c' = ⟨(s', leafOf a) :: c.stack, a :: c.shifted⟩ := by
        rcases hstep with h | h
        · injection h with h; exact h.symm
        · simp at h
      subst hc
      have hterm := hs.shift_term _ _ _ hmem
      obtain ⟨sp, v, l, hleaf⟩ := hd.leaf a
      refine ⟨⟨⟨a, ?_, ?_⟩, hinv.path⟩, ?_⟩
      · rw [hleaf]; exact ⟨rfl, hterm⟩
      · unfold Table.trans; simp [hterm, hmem]
      · simp [yields, hleaf, Tree.yield, hinv.yld]
    · -- reduce
      rename_i p len
      split at hstep
      · simp at hstep
      · rename_i hlen
        split at hstep
        · simp at hstep
        · rename_i pr hpr
          split at hstep
          · simp at hstep
          · rename_i s' hgoto
            have hc : c' = ⟨(s', nodeOf p ((c.stack.take len).reverse.map (·.2))) :: c.stack.drop len,
                             c.shifted⟩ := by
              rcases hstep with h | h
              · simp at h
              · injection h with h; exact h.symm
            subst hc
            obtain ⟨hitem, pr', hpr', hrl⟩ := hs.reduce_item _ _ _ _ hmem
            have : pr' = pr := by rw [hpr] at hpr'; exact (Option.some.inj hpr').symm
            subst this
            obtain ⟨_, h0, pr'', hpr'', hvl, _⟩ := path_lemma g t autos hs au hin start hstart len c.stack p hinv.path hitem
            have : pr'' = pr' := by rw [hpr] at hpr''; exact (Option.some.inj hpr'').symm
            subst this
            have hfull : pr''.rhs.take len = pr''.rhs := by rw [← hrl]; simp
            rw [hfull] at hvl
            obtain ⟨sp, l, hnode⟩ := hd.node p ((c.stack.take len).reverse.map (·.2))
            have hA : g.nterms ≤ pr''.lhs := by
              unfold Table.goto at hgoto
              split at hgoto
              · assumption
              · simp at hgoto
            refine ⟨⟨⟨pr''.lhs, ?_, ?_⟩, pathInv_drop g t start _ _ hinv.path⟩, ?_⟩
            · rw [hnode]; simp only [Tree.Valid]
              exact ⟨pr'', hpr, rfl, validList_ofList g _ _ hvl⟩
            · unfold Table.trans
              have : ¬ pr''.lhs < g.nterms := by omega
              simp only [this, ↓reduceIte]
              exact hgoto
            · simp only [yields, hnode, Tree.yield, yield_ofList]
              rw [← hinv.yld, yields_take_drop c.stack len]
    · -- accept
      split at hstep <;> simp at hstep

/-- an accepted tree is a derivation of exactly the shifted tokens from the start symbol of the
    automaton the run was started in -/
theorem cstep_accept_sound (g : Grammar) (t : Table) (autos : List Auto) (hs : Structural g t autos)
    (au : Auto) (hin : au ∈ autos) (start : Nat) (hstart : start = au.start)
    (leafOf : Nat → Tree) (nodeOf : Nat → List Tree → Tree)
    (c : CCfg) (a : Nat) (tr : Tree) (hinv : CInv g t start c)
    (hstep : cstepWith g t start leafOf nodeOf c a = .accept tr) :
    tr.Valid g au.sym ∧ tr.yield = c.shifted.reverse ∧ c.stack.length = 1 := by
  unfold cstepWith at hstep
  split at hstep
  · simp at hstep
  · rename_i act acts hcell
    have hmem : act ∈ t.cell (topOf start c.stack) a := by rw [hcell]; simp
    split at hstep
    · simp at hstep
    · split at hstep
      · simp at hstep
      · split at hstep
        · simp at hstep
        · split at hstep <;> simp at hstep
    · split at hstep
      · simp at hstep
      · rename_i s1 tr1 below hstack
        injection hstep with htr; subst htr
        obtain ⟨au', hin', pr, hpr, hrhs, hitem⟩ := hs.accept_item _ _ hmem
        -- the path lemma only needs the items, not which automaton we are in, beyond the start state
        have hpl : 1 ≤ c.stack.length → t.hasItem (topOf start (c.stack.drop 1)) au'.aug 0 ∧
            ValidList g ((c.stack.take 1).reverse.map (·.2)) (pr.rhs.take 1) := by
          intro _
          obtain ⟨_, h0, pr', hpr', hvl, _⟩ :=
            path_lemma g t autos hs au hin start hstart 1 c.stack au'.aug hinv.path hitem
          have : pr' = pr := by rw [hpr] at hpr'; exact (Option.some.inj hpr').symm
          subst this
          exact ⟨h0, hvl⟩
        obtain ⟨h0, hvl⟩ := hpl (by rw [hstack]; simp)
        rw [hstack] at h0 hvl
        simp only [List.drop_succ_cons, List.drop_zero] at h0
        have hstart' := hs.aug_start_only au' hin' _ h0
        have hbelow : below = [] := by
          cases below with
          | nil => rfl
          | cons e b =>
            obtain ⟨s2, tr2⟩ := e
            exfalso
            have hp := hinv.path
            rw [hstack] at hp
            obtain ⟨_, ⟨⟨X, _, htr⟩, _⟩⟩ := hp
            simp only [topOf] at hstart'
            rw [hstart'] at htr
            exact hs.no_into_start au' hin' _ _ htr
        subst hbelow
        simp only [topOf] at hstart'
        have hau : au' = au := hs.distinct au' hin' au hin (by rw [← hstart', hstart])
        subst hau
        rw [hrhs] at hvl
        simp only [List.take_succ_cons, List.take_zero, List.reverse_cons, List.reverse_nil,
          List.nil_append, List.map_cons, List.map_nil, ValidList] at hvl
        obtain ⟨X, Xs', hX, hv, hnil⟩ := hvl
        subst hnil
        injection hX with hX _
        subst hX
        refine ⟨hv, ?_, by simp [hstack]⟩
        have hy := hinv.yld
        rw [hstack] at hy
        simpa [yields] using hy

end Rustemo
