import Rustemo.Proofs.LexFilters
/-!
# The last strategy: grammar order

The token iterator walks the sorted list front to back, so what it yields is a sublist (in order) of
the sorted terminal list.  All yielded terminals are survivors of "priority, then most specific" and
therefore have THE SAME sort key; the sort breaks ties of the key by grammar index, hence the yielded
list is strictly increasing in the grammar index `idx`.  Taking the first token of that list (after
the longest-match filter, which keeps a sublist) is therefore taking the one that comes first in the
grammar.
-/
namespace Rustemo.Lex

theorem withFlags_map_fst (ms : Bool) : ∀ (S : List TermDesc), (withFlags ms S).map Prod.fst = S
  | [] => rfl
  | [_] => rfl
  | a :: b :: rest => by
    show a :: (withFlags ms (b :: rest)).map Prod.fst = a :: b :: rest
    rw [withFlags_map_fst ms (b :: rest)]

/-- the iterator yields a sublist (in order) of the list it walks -/
theorem iter_sublist (m : Nat → Option Nat) : ∀ (L : List (TermDesc × Bool)) (b : Bool),
    ((iter m b L).map Prod.fst).Sublist (L.map Prod.fst)
  | [], b => by simp [iter]
  | (t, fin) :: rest, b => by
    simp only [iter, List.map_cons]
    cases hm : m t.idx with
    | some l =>
      simp only [List.map_cons]
      refine List.Sublist.cons_cons _ ?_
      cases fin with
      | true => simp
      | false => simpa using iter_sublist m rest true
    | none =>
      simp only
      refine List.Sublist.cons _ ?_
      cases h : (fin && b) with
      | true => simp
      | false => simpa using iter_sublist m rest b

theorem iter_withFlags_sublist (ms : Bool) (m : Nat → Option Nat) (S : List TermDesc) (b : Bool) :
    ((iter m b (withFlags ms S)).map Prod.fst).Sublist S := by
  have := iter_sublist m (withFlags ms S) b
  rwa [withFlags_map_fst] at this

theorem sorted_pairwise (ms : Bool) : ∀ (S : List TermDesc), Sorted ms S → S.Pairwise (Before ms)
  | [], _ => List.Pairwise.nil
  | _ :: rest, h => List.pairwise_cons.mpr ⟨h.1, sorted_pairwise ms rest h.2⟩

/-- `KeyLt` is irreflexive -/
theorem keyLt_irrefl (k : Nat × Nat) : ¬ KeyLt k k := by
  unfold KeyLt; omega

/-- among terminals of equal key the sort order is the grammar order -/
theorem before_same_key {ms : Bool} {a b : TermDesc} (h : Before ms a b)
    (hk : key ms a = key ms b) : a.idx < b.idx := by
  rcases h with h | h
  · rw [hk] at h; exact absurd h (keyLt_irrefl _)
  · exact h.2

theorem topPrio_same_prio {m : Nat → Option Nat} {S : List TermDesc} {t u : TermDesc}
    (ht : TopPrio m S t) (hu : TopPrio m S u) : t.prio = u.prio := by
  have h1 := ht.2.2 u hu.1 hu.2.1
  have h2 := hu.2.2 t ht.1 ht.2.1
  omega

/-- all survivors have the same sort key: same (top) priority and, under most-specific, either all
    regexes (length component 0) or strings of the same (maximal) length -/
theorem survivors_same_key {ms : Bool} {m : Nat → Option Nat} {S : List TermDesc} {t u : TermDesc}
    (ht : Survives ms m S t) (hu : Survives ms m S u) : key ms t = key ms u := by
  have hp := topPrio_same_prio ht.1 hu.1
  cases hms : ms with
  | false => simp [key, hp]
  | true =>
    obtain ⟨ht1, ht2⟩ := ht.2 hms
    obtain ⟨hu1, hu2⟩ := hu.2 hms
    have hlen : t.strLen.getD 0 = u.strLen.getD 0 := by
      cases hts : t.isStr with
      | true =>
        cases hus : u.isStr with
        | true =>
          have h1 := (ht1 hts u hu.1.1 hu.1 hus).1
          have h2 := (hu1 hus t ht.1.1 ht.1 hts).1
          omega
        | false =>
          have := hu2 hus t ht.1.1 ht.1
          rw [hts] at this; simp at this
      | false =>
        have hus := ht2 hts u hu.1.1 hu.1
        rw [notStr_getD hts, notStr_getD hus]
    simp [key, hp, hlen]

/-- **The iterator yields its tokens in grammar order**: strictly increasing terminal index. -/
theorem iter_idx_increasing (ms : Bool) (m : Nat → Option Nat) (S : List TermDesc)
    (hs : Sorted ms S) (hw : ∀ u ∈ S, WFT u) :
    (iter m false (withFlags ms S)).Pairwise (fun a b => a.1.idx < b.1.idx) := by
  have hsub := iter_withFlags_sublist ms m S false
  have hpw : ((iter m false (withFlags ms S)).map Prod.fst).Pairwise (Before ms) :=
    (sorted_pairwise ms S hs).sublist hsub
  rw [List.pairwise_map] at hpw
  refine hpw.imp_of_mem ?_
  intro a b ha hb hab
  have hsa := ((iter_survivors ms m S hs hw a.1 a.2).mp ha).1
  have hsb := ((iter_survivors ms m S hs hw b.1 b.2).mp hb).1
  exact before_same_key hab (survivors_same_key hsa hsb)

/-! ## list-level facts about `head?` of a strictly increasing list -/

theorem head?_le_of_pairwise {α : Type} (f : α → Nat) {L : List α} {a : α}
    (hp : L.Pairwise (fun x y => f x < f y)) (hh : L.head? = some a) :
    ∀ b ∈ L, f a ≤ f b := by
  cases L with
  | nil => simp at hh
  | cons x xs =>
    simp only [List.head?_cons, Option.some.injEq] at hh
    subst hh
    intro b hb
    rcases List.mem_cons.mp hb with h | h
    · subst h; exact Nat.le_refl _
    · exact Nat.le_of_lt ((List.pairwise_cons.mp hp).1 b h)

theorem eq_of_pairwise_lt {α : Type} (f : α → Nat) :
    ∀ {L : List α}, L.Pairwise (fun x y => f x < f y) → ∀ {a b : α}, a ∈ L → b ∈ L → f a = f b → a = b
  | [], _, _, _, ha, _, _ => by simp at ha
  | x :: xs, hp, a, b, ha, hb, hab => by
    obtain ⟨h1, h2⟩ := List.pairwise_cons.mp hp
    rcases List.mem_cons.mp ha with ha' | ha' <;> rcases List.mem_cons.mp hb with hb' | hb'
    · rw [ha', hb']
    · subst ha'; have := h1 b hb'; omega
    · subst hb'; have := h1 a ha'; omega
    · exact eq_of_pairwise_lt f h2 ha' hb' hab

/-- LR: on a list in grammar order the token acted on has the lowest grammar index among the tokens
    that pass the longest-match filter -/
theorem lrPick_first (longest : Bool) (toks : List (TermDesc × Nat)) (a : TermDesc × Nat)
    (hp : toks.Pairwise (fun x y => x.1.idx < y.1.idx)) (h : lrPick longest toks = some a) :
    ∀ b ∈ toks, (longest = true → b.2 = a.2) → a.1.idx ≤ b.1.idx := by
  intro b hb hlen
  have hspec := (lrPick_spec longest toks).1 a h
  unfold lrPick at h
  cases longest with
  | false =>
    simp only [Bool.false_eq_true, ↓reduceIte] at h
    exact head?_le_of_pairwise (fun x => x.1.idx) hp h b hb
  | true =>
    simp only [↓reduceIte] at h
    have hp' : (toks.filter fun t => t.2 == maxLen' toks).Pairwise (fun x y => x.1.idx < y.1.idx) :=
      hp.sublist List.filter_sublist
    refine head?_le_of_pairwise (fun x => x.1.idx) hp' h b ?_
    rw [mem_longest]
    refine ⟨hb, fun u hu => ?_⟩
    rw [hlen rfl]
    exact hspec.2 rfl u hu

/-- GLR with grammar order on keeps exactly the token LR acts on -/
theorem glrKeep_order_eq_lrPick (longest : Bool) (toks : List (TermDesc × Nat)) :
    glrKeep longest true toks = (lrPick longest toks).toList := by
  have htake : ∀ (L : List (TermDesc × Nat)), L.take 1 = L.head?.toList := by
    intro L; cases L <;> simp
  unfold glrKeep lrPick
  cases longest with
  | false => simp only [Bool.false_eq_true, ↓reduceIte]; exact htake _
  | true => simp only [↓reduceIte]; exact htake _

/-- the token LR acts on, characterised: a yielded token that passes the longest-match filter and has
    the lowest grammar index among the yielded tokens that pass it -/
theorem lrPick_iff_first (longest : Bool) (toks : List (TermDesc × Nat)) (a : TermDesc × Nat)
    (hp : toks.Pairwise (fun x y => x.1.idx < y.1.idx)) :
    lrPick longest toks = some a ↔
      (a ∈ toks ∧ (longest = true → ∀ u ∈ toks, u.2 ≤ a.2) ∧
       ∀ b ∈ toks, (longest = true → b.2 = a.2) → a.1.idx ≤ b.1.idx) := by
  obtain ⟨h1, h2⟩ := lrPick_spec longest toks
  constructor
  · intro h
    exact ⟨(h1 a h).1, (h1 a h).2, lrPick_first longest toks a hp h⟩
  · rintro ⟨hin, hmax, hfirst⟩
    cases hpick : lrPick longest toks with
    | none => rw [h2.mp hpick] at hin; simp at hin
    | some c =>
      obtain ⟨hcin, hcmax⟩ := h1 c hpick
      have hlen : longest = true → a.2 = c.2 := fun hl => by
        have := hmax hl c hcin
        have := hcmax hl a hin
        omega
      have hca := lrPick_first longest toks c hp hpick a hin hlen
      have hac := hfirst c hcin (fun hl => (hlen hl).symm)
      have : c = a := eq_of_pairwise_lt (fun x => x.1.idx) hp hcin hin (by omega)
      rw [this]

end Rustemo.Lex
