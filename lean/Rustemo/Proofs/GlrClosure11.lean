import Rustemo.Proofs.GlrClosure10
/-!
# One reduction path and the closure invariant: context, the skip case, the fold case
-/
namespace Rustemo.Glr
open Rustemo

/-- what is known about the path being reduced -/
structure PathCtx (env : Env) (F a : Nat) (rs : RState) (p0 len0 : Nat) (pr0 : Prod) (startHead : Nat) (sh : Head)
    (tk : Tok) (q : Path) : Prop where
  hpr0 : env.g.prods[p0]? = some pr0
  hlen0 : len0 ≤ pr0.rhs.length
  hsh : rs.gss.heads[startHead]? = some sh
  hshF : sh.frontier = F
  hshsub : InSub rs.sub startHead
  htk : sh.tok = some tk
  hka : tk.kind = a
  hqc : ChainEnd env.t rs.gss q.parents (pr0.rhs.take len0) q.root startHead
  hql : q.parents.length = len0

theorem rem_cons {p0 len0 : Nat} {q : Path} {rest : List Path} {u p : Nat} {P : List Nat}
    (h : Rem p0 len0 (q :: rest) u p P) :
    (p = p0 ∧ len0 ≤ P.length ∧ q.parents = P.take len0 ∧ q.root = u) ∨ Rem p0 len0 rest u p P := by
  obtain ⟨h1, h2, h3⟩ := h
  rcases List.mem_cons.mp h3 with heq | hr
  · left
    refine ⟨h1, h2, ?_, ?_⟩
    · rw [← heq]
    · rw [← heq]
  · exact Or.inr ⟨h1, h2, hr⟩

/-- the goto state of a chain of the processed production from the processed root is the one `reducePath` uses -/
theorem kchain_goto_eq {env : Env} {F a : Nat} {g : Gss} {sub : SubFrontier} {u p : Nat} {pr : Prod} {P : List Nat}
    {s'' : Nat} (hk : KChain env F a g sub u p pr P s'') {pr0 : Prod} (hpr0 : env.g.prods[p]? = some pr0)
    {hr : Head} (hhr : g.heads[u]? = some hr) {s' : Nat} (hgoto : env.t.goto env.g hr.state pr0.lhs = some s') :
    pr = pr0 ∧ s'' = s' := by
  have h1 := hk.prod
  rw [hpr0] at h1; injection h1 with h1; subst h1
  obtain ⟨hu, hhu, _, hg⟩ := hk.root
  rw [hhr] at hhu; injection hhu with hhu; subst hhu
  rw [hgoto] at hg; injection hg with hg
  exact ⟨rfl, hg.symm⟩

theorem closure_skip {env : Env} {F a : Nat} {rs : RState} {p0 len0 : Nat} {pr0 : Prod} {startHead : Nat} {sh : Head}
    {tk : Tok} {q : Path} (pc : PathCtx env F a rs p0 len0 pr0 startHead sh tk q) {rest : List Path}
    (hinv : RCInvR env F a rs (Rem p0 len0 (q :: rest))) {hr : Head} (hhr : rs.gss.heads[q.root]? = some hr) {s' : Nat}
    (hgoto : env.t.goto env.g hr.state pr0.lhs = some s') (hempty : env.t.cell s' tk.kind = []) :
    RCInvR env F a rs (Rem p0 len0 rest) := by
  intro u p pr P s'' hk
  rcases hinv u p pr P s'' hk with h | h | h
  · exact Or.inl h
  · exact Or.inr (Or.inl h)
  · rcases rem_cons h with ⟨hp, _, _, hroot⟩ | h
    · subst hp; subst hroot
      obtain ⟨_, hs⟩ := kchain_goto_eq hk pc.hpr0 hhr hgoto
      have := hk.live
      rw [hs, ← pc.hka, hempty] at this
      exact absurd rfl this
    · exact Or.inr (Or.inr h)

/-- the edge down from a head whose state is entered on a nonterminal carries no terminal possibility -/
theorem no_term_on_goto_edge {env : Env} (hW : GWF env.g) {g : Gss} (hg : GInv env g) {e : Nat} {ed : Edge}
    (hed : g.edges[e]? = some ed) {hs : Head} (hhs : g.heads[ed.src]? = some hs) {p : Nat} {pr : Prod}
    (hpr : env.g.prods[p]? = some pr) (hsym : env.t.symAt hs.state = pr.lhs) :
    ∀ n ∈ ed.poss, ∀ (tk : Tok) (sp : Span), g.nodes[n]? ≠ some (.term tk sp) := by
  intro n hn tk sp hnd
  obtain ⟨hs', _, hhs', _, _, hposs⟩ := (hg.edges e ed hed).ends
  rw [hhs] at hhs'; injection hhs' with hhs'; subst hhs'
  obtain ⟨nd, hnd', hfit⟩ := hposs n hn
  rw [hnd] at hnd'; injection hnd' with hnd'; subst hnd'
  obtain ⟨h1, h2, _⟩ := hfit
  have := hW.lhs_nonterm p pr hpr
  rw [hsym] at h2
  omega

end Rustemo.Glr
