import Rustemo.Proofs.GlrReduce3
/-!
# The reducer loop and the sequence of sub-frontiers
-/
namespace Rustemo.Glr
open Rustemo

variable {A : Prop}

theorem reduceOne_sat {env : Env} (hT : TableOk env) {F : Nat} {rs : RState} (hI : RInv env F rs)
    {r : Reduction} (hr : RedOk env rs.gss F r) :
    Sat A (fun rs' => RInv env F rs' ∧ Ext rs.gss rs'.gss) (reduceOne env rs r) := by
  obtain ⟨pr, hpr, hpaths⟩ := findReductionPaths_ok hT hI.g hr
  obtain ⟨sh, pr', hpr', hlen, hnul, haug, htok, hF, hitem, hstart⟩ := hr
  rw [hpr] at hpr'; injection hpr' with hpr'; subst hpr'
  unfold reduceOne
  have hsh : ∃ startHead, startHeadOf rs.gss r = .ok startHead ∧ rs.gss.heads[startHead]? = some sh := by
    unfold startHeadOf
    cases hs : r.start with
    | edge e =>
      rw [hs] at hstart
      obtain ⟨ed, hed, hsh, _⟩ := hstart
      exact ⟨ed.src, by simp only [edge_sat' _ _ _ hed, obind], hsh⟩
    | node n =>
      rw [hs] at hstart
      exact ⟨n, rfl, hstart.1⟩
  obtain ⟨startHead, hso, hsh⟩ := hsh
  rw [hso]
  simp only [obind]
  apply Sat.bind hpaths
  intro paths hps
  apply foldO_sat (I := fun rs' => RInv env F rs' ∧ Ext rs.gss rs'.gss) paths rs ⟨hI, Ext.refl _⟩
  intro rs' q hq ⟨hI', hx'⟩
  obtain ⟨sh', hsh', _, hfr', htk'⟩ := hx'.heads _ sh hsh
  have := reducePath_sat (A := A) hT hI' hpr hlen hnul haug hsh' (tok_isSome_ext htk' htok) (by rw [hfr', hF])
    ((hps q hq).ext hx')
  exact this.mono fun rs'' ⟨h1, h2⟩ => ⟨h1, hx'.trans h2⟩

theorem reducerLoop_sat {env : Env} (hT : TableOk env) {F : Nat} :
    ∀ (fuel : Nat) (rs : RState), RInv env F rs →
      Sat A (fun rs' => RInv env F rs' ∧ Ext rs.gss rs'.gss) (reducerLoop env fuel rs)
  | 0, _, _ => trivial
  | fuel+1, rs, hI => by
    unfold reducerLoop
    split
    · exact ⟨hI, Ext.refl _⟩
    · rename_i r rest hq
      have hr : RedOk env rs.gss F r := hI.lists.queue r (by rw [hq]; simp)
      have hI0 : RInv env F { rs with queue := rest } :=
        ⟨hI.g, hI.sub, ⟨fun x hx => hI.lists.queue x (by rw [hq]; simp [hx]), hI.lists.shifts, hI.lists.acc⟩⟩
      apply Sat.bind (reduceOne_sat hT hI0 hr)
      intro rs' ⟨hI', hx'⟩
      exact (reducerLoop_sat hT fuel rs' hI').mono fun rs'' ⟨h1, h2⟩ => ⟨h1, Ext.trans hx' h2⟩

/-- the engine state between the phases of a frontier -/
structure StOk (env : Env) (F : Nat) (st : St) : Prop where
  g : GInv env st.gss
  shifts : ∀ s ∈ st.shifts, ShiftOk env st.gss F s
  acc : ∀ h ∈ st.accepted, AccOk env st.gss h

theorem reduceAll_sat {env : Env} (hT : TableOk env) {F : Nat} (fuel : Nat) :
    ∀ (fr : List ((Pos × Nat) × SubFrontier)) (qs : List (List Reduction)) (st : St),
      StOk env F st → FrontierOk st.gss F fr → (∀ q ∈ qs, ∀ r ∈ q, RedOk env st.gss F r) →
      Sat A (fun st' => StOk env F st' ∧ Ext st.gss st'.gss) (reduceAll env fuel fr qs st)
  | [], _, st, hs, _, _ => ⟨hs, Ext.refl _⟩
  | sf :: rest, qs, st, hs, hf, hq => by
    unfold reduceAll
    have hhead : ∀ r ∈ qs.headD [], RedOk env st.gss F r := by
      cases qs with
      | nil => simp
      | cons q _ => simpa using hq q (by simp)
    have hI : RInv env F ⟨st.gss, qs.headD [], st.shifts, st.accepted, sf.2⟩ :=
      ⟨hs.g, hf sf.1 sf.2 (by simp), ⟨hhead, hs.shifts, hs.acc⟩⟩
    apply Sat.bind (reducerLoop_sat hT fuel _ hI)
    intro rs ⟨hI', hx'⟩
    have hx'' : Ext st.gss rs.gss := hx'
    have := reduceAll_sat hT fuel rest qs.tail { gss := rs.gss, shifts := rs.shifts, accepted := rs.accepted }
      ⟨hI'.g, hI'.lists.shifts, hI'.lists.acc⟩
      (FrontierOk.ext hx'' (fun k sub hm => hf k sub (List.mem_cons_of_mem _ hm)))
      (fun q hq' r hr => (hq q (List.mem_of_mem_tail hq') r hr).ext hx'')
    exact this.mono fun st' ⟨h1, h2⟩ => ⟨h1, Ext.trans hx'' h2⟩

end Rustemo.Glr
