import Rustemo.Proofs.Gen
/-!
# C08 — consequences of `WF`: every path in the generated code resolves to the intended discriminant
-/
namespace Rustemo
namespace Gen

/-- `stateOk` unpacked -/
structure StateOkP (g : Grammar) (t : Table) (st : State) : Prop where
  sym : st.symbol < g.nterms + g.nnonterms
  aw : st.actions.size = g.nterms
  gw : st.gotos.size = g.nnonterms
  acts : ∀ cell ∈ st.actions.toList, ∀ a ∈ cell, actOk g t a = true
  gotos : ∀ x ∈ st.gotos.toList, gotoOk t x = true
  sorted : ∀ tf ∈ st.sorted, tf.1 < g.nterms
  sortedLen : st.sorted.length ≤ maxRecognizers t

theorem stateOk_out {g : Grammar} {t : Table} {st : State} (h : stateOk g t st = true) :
    StateOkP g t st := by
  simp only [stateOk, symOk, Bool.and_eq_true, decide_eq_true_eq, beq_iff_eq, List.all_eq_true] at h
  obtain ⟨⟨⟨⟨⟨⟨h1, h2⟩, h3⟩, h4⟩, h5⟩, h6⟩, h7⟩ := h
  exact ⟨h1, h2, h3, h4, h5, h6, h7⟩

/-- `WF` unpacked -/
structure WFP (g : Grammar) (t : Table) : Prop where
  terms : g.terms.size = g.nterms
  nts : g.ntNames.size = g.nnonterms
  nonempty : t.states.isEmpty = false
  states : ∀ st ∈ t.states.toList, StateOkP g t st
  prods : ∀ p ∈ userProds g, prodOk g p = true
  layout : layoutOk t = true
  ndS : (enums g t).states.Nodup
  ndT : (enums g t).tokens.Nodup
  ndP : (enums g t).prods.Nodup
  ndN : (enums g t).nonterms.Nodup

theorem WF_out {g : Grammar} {t : Table} (h : WF g t = true) : WFP g t := by
  simp only [WF, genOk, namesOk, Bool.and_eq_true, decide_eq_true_eq, beq_iff_eq, List.all_eq_true,
    Bool.not_eq_true'] at h
  obtain ⟨⟨⟨⟨⟨⟨h1, h2⟩, h3⟩, h4⟩, h5⟩, h6⟩, ⟨⟨h7, h8⟩, h9⟩, h10⟩ := h
  exact ⟨h1, h2, h3, fun st hst => stateOk_out (h4 st hst), h5, h6, h7, h8, h9, h10⟩

theorem WF_genOk {g : Grammar} {t : Table} (h : WF g t = true) : genOk g t = true := by
  simp only [WF, Bool.and_eq_true] at h
  exact h.1

theorem WFP.state {g : Grammar} {t : Table} (w : WFP g t) {s : Nat} {st : State}
    (h : t.states[s]? = some st) : StateOkP g t st := by
  apply w.states
  rw [← Array.getElem?_toList] at h
  exact List.mem_of_getElem? h

/-! ## names resolve -/

theorem resolve_state {g : Grammar} {t : Table} (w : WFP g t) {s : Nat} (hs : s < t.states.size) :
    resolve (enums g t).states (stateIdent g t s) = some s := by
  have := w.ndS
  simp only [enums] at this ⊢
  exact resolve_map (stateIdent g t) this (List.getElem?_range hs)

theorem resolve_token {g : Grammar} {t : Table} (w : WFP g t) {a : Nat} (ha : a < g.nterms) :
    resolve (enums g t).tokens (termName g a) = some a := by
  have hnd := w.ndT
  simp only [enums] at hnd ⊢
  have ha' : a < g.terms.size := by rw [w.terms]; exact ha
  have h1 : g.terms.toList[a]? = some g.terms[a] := by
    rw [Array.getElem?_toList]; exact Array.getElem?_eq_getElem ha'
  have h2 : termName g a = (g.terms[a]).name := by
    simp [termName, Array.getElem?_eq_getElem ha']
  rw [h2]
  exact resolve_map (fun (tm : Terminal) => tm.name) hnd h1

theorem resolve_nonterm {g : Grammar} {t : Table} (w : WFP g t) {n : Nat} (hn : n < g.nnonterms) :
    resolve (enums g t).nonterms (ntName g n) = some n := by
  have hnd := w.ndN
  simp only [enums] at hnd ⊢
  have hn' : n < g.ntNames.size := by rw [w.nts]; exact hn
  apply resolve_of_getElem? hnd
  rw [Array.getElem?_toList]
  simp [ntName, Array.getD_eq_getD_getElem?, Array.getElem?_eq_getElem hn']

theorem userProds_nodup (g : Grammar) : (userProds g).Nodup :=
  List.Nodup.sublist List.filter_sublist List.nodup_range

theorem mem_userProds {g : Grammar} {p : Nat} : p ∈ userProds g ↔ p < g.prods.size ∧ skipped g p = false := by
  simp [userProds, List.mem_filter, List.mem_range]

theorem resolve_prod {g : Grammar} {t : Table} (w : WFP g t) {p : Nat} (hp : p ∈ userProds g) :
    resolve (enums g t).prods (prodKindName g p) = some (kindIdx g p) := by
  have hnd := w.ndP
  simp only [enums] at hnd ⊢
  obtain ⟨i, hi⟩ := List.mem_iff_getElem?.mp hp
  have hk : kindIdx g p = i := idxOf_getElem? (userProds_nodup g) hi
  rw [hk]
  exact resolve_map (prodKindName g) hnd hi

/-! ## action expressions evaluate to the encoded table action -/

theorem prodOk_lt {g : Grammar} {p : Nat} (h : prodOk g p = true) : p < g.prods.size := by
  unfold prodOk at h
  cases hp : g.prods[p]? with
  | none => simp [hp] at h
  | some pr =>
    exact (Array.getElem?_eq_some_iff.mp hp).1

theorem evalExpr_action {g : Grammar} {t : Table} (w : WFP g t) {a : Action} (ha : actOk g t a = true) :
    evalExpr (enums g t) (actionToSyntax g t (some a)) = some (encode g a) := by
  cases a with
  | shift s =>
    have hs : s < t.states.size := by simpa [actOk] using ha
    simp [actionToSyntax, evalExpr, encode, resolve_state w hs]
  | reduce p l =>
    simp only [actOk, Bool.and_eq_true, Bool.not_eq_true'] at ha
    have hp : p ∈ userProds g := mem_userProds.mpr ⟨prodOk_lt ha.1, ha.2⟩
    simp [actionToSyntax, evalExpr, encode, resolve_prod w hp]
  | accept => simp [actionToSyntax, evalExpr, encode]

/-- `encode` with the padding value -/
def encodeO (g : Grammar) : Option Action → CAct
  | some a => encode g a
  | none => .error

theorem encode_notError (g : Grammar) (a : Action) : (encode g a).notError = true := by
  cases a <;> rfl

theorem evalCell_arrCell {g : Grammar} {t : Table} (w : WFP g t) (ma : Nat) {cell : List Action}
    (hc : ∀ a ∈ cell, actOk g t a = true) :
    evalCell (enums g t) (arrCell g t ma cell) =
      some (cell.map (encode g) ++ List.replicate (ma - cell.length) CAct.error) := by
  unfold evalCell arrCell
  rw [List.map_map]
  rw [allSome_map_of_forall _ (encodeO g)]
  · simp [List.map_append, List.map_map, encodeO, Function.comp_def]
  · intro x hx
    rcases List.mem_append.mp hx with hx | hx
    · obtain ⟨a, ha, rfl⟩ := List.mem_map.mp hx
      simp [encodeO, evalExpr_action w (hc a ha)]
    · have : x = none := (List.mem_replicate.mp hx).2
      subst this
      simp [encodeO, actionToSyntax, evalExpr]

theorem evalCell_fnCell {g : Grammar} {t : Table} (w : WFP g t) {cell : List Action}
    (hc : ∀ a ∈ cell, actOk g t a = true) :
    evalCell (enums g t) (cell.map (fun a => actionToSyntax g t (some a))) = some (cell.map (encode g)) := by
  unfold evalCell
  rw [List.map_map]
  exact allSome_map_of_forall _ (encode g) cell (fun a ha => by simp [evalExpr_action w (hc a ha)])

/-! ## expected token kinds (the same code in both layouts) -/

theorem expectedOf_rows {g : Grammar} {t : Table} (w : WFP g t) {s : Nat} (hs : s < t.states.size) :
    expectedOf (enums g t) (t.states.toList.map (tokenKindsRow g (maxRecognizers t))) s = .ok (t.sorted s) := by
  have hst : t.states[s]? = some t.states[s] := Array.getElem?_eq_getElem hs
  have ok := w.state hst
  unfold expectedOf
  rw [List.getElem?_map, Array.getElem?_toList, hst]
  simp only [Option.map_some]
  have hrow : allSome ((tokenKindsRow g (maxRecognizers t) t.states[s]).map (evalKind (enums g t)))
      = some ((t.states[s]).sorted.map some ++
          List.replicate (maxRecognizers t - (t.states[s]).sorted.length) none) := by
    unfold tokenKindsRow
    rw [List.map_append, List.map_map, List.map_replicate]
    have h1 : (t.states[s]).sorted.map (evalKind (enums g t) ∘ fun tf => some (termName g tf.1, tf.2))
        = (t.states[s]).sorted.map (fun tf => some (some tf)) := by
      apply List.map_congr_left
      intro tf htf
      simp [evalKind, resolve_token w (ok.sorted tf htf)]
    rw [h1]
    have h2 : evalKind (enums g t) none = some none := rfl
    rw [h2]
    have h3 : ∀ (l : List (Nat × Bool)) (k : Nat),
        l.map (fun tf => some (some tf)) ++ List.replicate k (some (none : Option (Nat × Bool)))
          = (l.map some ++ List.replicate k none).map (fun x => some x) := by
      intro l k; simp [List.map_append, List.map_map, Function.comp_def]
    rw [h3]
    exact allSome_map_of_forall _ id _ (fun x _ => rfl) |>.trans (by simp)
  rw [hrow]
  simp [mapWhileSome_pad, Table.sorted, hst]

end Gen
end Rustemo
