import Rustemo.Proofs.LayoutRTTile
import Rustemo.Proofs.LayoutRTCert
import Rustemo.Proofs.LayoutRTOrder
import Rustemo.Model.LROld
/-!
# The generic tree is lossless under a user Layout rule (C14, part A)

`GInv` is `RInv` of `Proofs/Roundtrip.lean` without "lexing again does not move": since the repair of
C14-N1 the layout skipped when the lexer is re-run after a reduce is MERGED into the layout ahead
(`mergeLay`), so the invariant "the layout ahead is exactly the input between the end of the last
shifted token and the position" survives a re-lex that moves.  `NtG` says what a `next_token`
function must satisfy: it never moves backwards, and called right after a shift (no layout ahead,
span ending at the position) it records exactly the bytes it advanced over as the layout ahead.

`ntG_main` proves `NtG` for `nextTokenMain` of a Layout table from the slice theorem
(`layoutParse_slice`) and the position restore after a failed / empty layout parse (repair of
C14-N2).  No hypothesis on the input is left.
-/
namespace Rustemo
open LayoutCert

/-! ## The layout sub-parse keeps "no layout ahead" -/

theorem runLoop_lay_none (env : Env) (hc : env.custom = none) (hsk : env.skipWs = false) :
    ∀ (fuel : Nat) (c : Cfg) (ctx : Ctx) (o : Outcome ParseResult), c.ctx.lay = none →
      runLoop env (nextTokenBase env true) fuel c = (ctx, o) → ctx.lay = none := by
  intro fuel
  induction fuel with
  | zero =>
    intro c ctx o hl h
    simp only [runLoop] at h
    injection h with h1 _
    rw [← h1]; exact hl
  | succ n ih =>
    intro c ctx o hl h
    unfold runLoop at h
    split at h
    · rename_i c' hstep
      refine ih c' ctx o ?_ h
      cases step_next_inv env _ c c' hstep with
      | shift state s' acts ctx1 tk htop hcell hnt1 hc' =>
        have := ntBase_ctx env hc hsk true _ _ _ hnt1
        subst this; subst hc'; rfl
      | reduce state p len fromState s' pr acts ctx1 tk htop hcell hlen hfrom hpr hgoto hrlen hnt1 hc' =>
        have := ntBase_ctx env hc hsk true _ _ _ hnt1
        subst this; subst hc'
        show mergeLay c.ctx.lay c.ctx.pos.pos c.ctx.pos.pos = none
        rw [mergeLay_same]; exact hl
    · rename_i ctx' r' hstep
      injection h with h1 _
      obtain ⟨_, _, _, _, _, hctx, _⟩ := step_done_inv env _ c ctx' r' hstep
      rw [← h1, hctx]; exact hl
    · rename_i ctx' o' hstep
      injection h with h1 _
      rw [← h1]
      cases step_stop_inv env _ c ctx' o' hstep with
      | panic site h ho => rw [h]; exact hl
      | noAction state htop hcell h ho => rw [h]; exact hl
      | shift state s' acts o'' htop hcell hnt1 hno ho =>
        have := ntBase_ctx env hc hsk true _ _ _ hnt1
        rw [this]; rfl
      | reduce state p len fromState s' pr acts o'' htop hcell hlen hfrom hpr hgoto hnt1 hno ho =>
        have := ntBase_ctx env hc hsk true _ _ _ hnt1
        rw [this]; exact hl

theorem layoutParse_lay_none (env : Env) (hc : env.custom = none) (hsk : env.skipWs = false)
    (ls : Nat) (ctx : Ctx) (fuel : Nat) (cx : Ctx) (o : Outcome ParseResult) (hl : ctx.lay = none)
    (h : layoutParse env ls ctx fuel = (cx, o)) : cx.lay = none := by
  unfold layoutParse parseWith at h
  simp only at h
  split at h
  · rename_i ctx1 tk hnt1
    have := ntBase_ctx env hc hsk true _ _ _ hnt1
    subst this
    exact runLoop_lay_none env hc hsk fuel _ cx o hl h
  all_goals
    rename_i ctx1 _ hnt1
    have := ntBase_ctx env hc hsk true _ _ _ hnt1
    subst this
    injection h with h1 _
    rw [← h1]; exact hl

/-! ## The invariant -/

structure GInv (env : Env) (c : Cfg) : Prop where
  flat : flatRes env.input c.res = env.input.take (endOf c.hist)
  lay : LayOk (endOf c.hist) c.ctx
  tok : TokIn env.input c.ctx c.tok

/-- what `next_token` must do for the round-trip invariant to survive a step -/
def NtG (env : Env) (nt : Ctx → Ctx × Outcome Tok) : Prop :=
  ∀ ctx ctx' tk, nt ctx = (ctx', .ok tk) →
    TokIn env.input ctx' tk ∧ ctx.pos.pos ≤ ctx'.pos.pos ∧
    (ctx.lay = none → ctx.span.e.pos = ctx.pos.pos → LayOk ctx.pos.pos ctx')

theorem layOk_le {E : Nat} {ctx : Ctx} (h : LayOk E ctx) : E ≤ ctx.pos.pos := by
  unfold LayOk at h
  split at h
  · omega
  · omega

theorem layBytes_of_layOk (input : List Nat) {E : Nat} {ctx : Ctx} (h : LayOk E ctx) :
    layBytes input ctx.lay = sliceOf input (E, ctx.pos.pos - E) := by
  unfold LayOk at h
  unfold layBytes
  split at h
  · rename_i o l hl
    rw [hl]
    obtain ⟨h1, h2⟩ := h
    simp only
    congr 2
    omega
  · rename_i hl
    rw [hl]
    simp only
    unfold sliceOf
    simp [h]

/-- the merged layout is again exactly the input between `E` and the (new) position -/
theorem layOk_merge {E : Nat} {old : Ctx} (h : LayOk E old) (ctx1 : Ctx) (hle : old.pos.pos ≤ ctx1.pos.pos) :
    LayOk E { ctx1 with lay := mergeLay old.lay old.pos.pos ctx1.pos.pos } := by
  have hE := layOk_le h
  by_cases hgt : ctx1.pos.pos > old.pos.pos
  · have hstart : old.pos.pos - layLen old.lay = E := by
      unfold LayOk at h
      split at h
      · rename_i o l hl
        rw [hl]; simp only [layLen]; omega
      · rename_i hl
        rw [hl]; simp only [layLen]; omega
    have hm : mergeLay old.lay old.pos.pos ctx1.pos.pos = some (E, ctx1.pos.pos - E) := by
      unfold mergeLay
      rw [if_pos hgt, hstart]
    rw [hm]
    unfold LayOk
    simp only [true_and]
    omega
  · have hp : ctx1.pos.pos = old.pos.pos := by omega
    have hm : mergeLay old.lay old.pos.pos ctx1.pos.pos = old.lay := by
      unfold mergeLay
      rw [if_neg hgt]
    rw [hm]
    unfold LayOk at h ⊢
    simp only
    rw [hp]
    exact h

theorem flat_shift (env : Env) (c : Cfg)
    (hflat : flatRes env.input c.res = env.input.take (endOf c.hist))
    (hlay : LayOk (endOf c.hist) c.ctx) (hv1 : c.tok.val.1 = c.ctx.pos.pos) :
    flatRes env.input (shiftLeaf c :: c.res) = env.input.take (c.tok.val.1 + c.tok.val.2) := by
  have hle := layOk_le hlay
  unfold flatRes at hflat ⊢
  simp only [List.reverse_cons, List.map_append, List.map_cons, List.map_nil,
    List.flatten_append, List.flatten_cons, List.flatten_nil, List.append_nil, shiftLeaf, Tree.flat]
  rw [hflat, layBytes_of_layOk env.input hlay]
  have hval : sliceOf env.input c.tok.val =
      sliceOf env.input (c.ctx.pos.pos, (c.tok.val.1 + c.tok.val.2) - c.ctx.pos.pos) := by
    have : c.tok.val = (c.tok.val.1, c.tok.val.2) := rfl
    rw [this, hv1]
    congr 2
    omega
  rw [hval, slice_append_slice _ _ _ _ hle (by omega), take_append_slice _ _ _ (by omega)]

theorem flat_reduce (env : Env) (c : Cfg) (p len : Nat) :
    flatRes env.input (reduceNode c p len :: c.res.drop len) = flatRes env.input c.res := by
  rw [flatRes_take_drop env.input c.res len]
  unfold flatRes
  simp only [List.reverse_cons, List.map_append, List.map_cons, List.map_nil,
    List.flatten_append, List.flatten_cons, List.flatten_nil, List.append_nil, reduceNode,
    Tree.flat, flat_ofList]

/-- one iteration of the parser loop preserves the round-trip invariant -/
theorem step_ginv (env : Env) (nt : Ctx → Ctx × Outcome Tok) (c c' : Cfg) (hnt : NtG env nt)
    (hns : NoShiftStop env.t) (hinv : GInv env c) (hstep : step env nt c = .next c') : GInv env c' := by
  cases step_next_inv env nt c c' hstep with
  | shift state s' acts ctx1 tk htop hcell hnt1 hc' =>
    have hk : c.tok.kind ≠ 0 := by
      intro h0; apply hns state s'; rw [← h0, hcell]; simp
    obtain ⟨hv1, hv2⟩ : c.tok.val.1 = c.ctx.pos.pos ∧ c.tok.val.1 + c.tok.val.2 ≤ env.input.length := by
      rcases hinv.tok with h | h
      · exact absurd h hk
      · exact h
    have hp0 : (shiftCtx env c s').pos.pos = c.tok.val.1 + c.tok.val.2 := by
      show (posAfter (sliceOf env.input c.tok.val) c.ctx.pos).pos = _
      rw [posAfter_pos]
      have : c.tok.val = (c.tok.val.1, c.tok.val.2) := rfl
      rw [this, sliceOf_length _ _ _ hv2, hv1]
    obtain ⟨h2, _, h4⟩ := hnt _ ctx1 tk hnt1
    have hlay := h4 rfl rfl
    rw [hp0] at hlay
    subst hc'
    have hE : endOf (c.tok :: c.hist) = c.tok.val.1 + c.tok.val.2 := rfl
    refine ⟨?_, ?_, h2⟩
    · simp only [hE]; exact flat_shift env c hinv.flat hinv.lay hv1
    · simp only [hE]; exact hlay
  | reduce state p len fromState s' pr acts ctx1 tk htop hcell hlen hfrom hpr hgoto hrlen hnt1 hc' =>
    obtain ⟨h2, hmono, _⟩ := hnt _ ctx1 tk hnt1
    subst hc'
    refine ⟨?_, layOk_merge hinv.lay ctx1 hmono, ?_⟩
    · simp only; rw [flat_reduce]; exact hinv.flat
    · unfold TokIn at h2 ⊢
      simp only
      exact h2

theorem runLoop_ginv (env : Env) (nt : Ctx → Ctx × Outcome Tok) (autos : List Auto)
    (hs : Structural env.g env.t autos) (au : Auto) (hin : au ∈ autos) (start : Nat)
    (hstart : start = au.start) (hnt : NtG env nt) (hns : NoShiftStop env.t) :
    ∀ (fuel : Nat) (c : Cfg) (ctx : Ctx) (r : ParseResult),
      FInv start c → CInv env.g env.t start c.abs → GInv env c →
      runLoop env nt fuel c = (ctx, .ok r) →
      Tree.flat env.input r.tree ++ layBytes env.input ctx.lay = env.input.take ctx.pos.pos ∧
      Tree.flat env.input r.tree = env.input.take (endOf r.hist) := by
  intro fuel
  induction fuel with
  | zero => intro c ctx r _ _ _ h; simp [runLoop] at h
  | succ n ih =>
    intro c ctx r hf hc hr h
    unfold runLoop at h
    split at h
    · rename_i c' hstep
      obtain ⟨hf', leafOf, nodeOf, hd, hcs⟩ := step_refines env nt start c c' hf hstep
      have hc' := cstep_preserves env.g env.t autos hs au hin start hstart leafOf nodeOf hd c.abs c'.abs
        c.tok.kind hc hcs
      exact ih c' ctx r hf' hc' (step_ginv env nt c c' hnt hns hr hstep) h
    · rename_i ctx' r' hstep
      injection h with h1 h2
      injection h2 with h2
      subst h1 h2
      obtain ⟨state, acts, rest, htop, hcell, hctx, hres, _, hhist⟩ := step_done_inv env nt c ctx' r' hstep
      obtain ⟨hacc, _⟩ := step_done_refines env nt start c ctx' r' hf hstep
      obtain ⟨_, _, hlen1⟩ := cstep_accept_sound env.g env.t autos hs au hin start hstart Tree.tok Tree.mk
        c.abs c.tok.kind r'.tree hc hacc
      have hrest : rest = [] := by
        have : c.abs.stack.length = c.res.length := by
          show (absStack c).length = c.res.length
          simp only [absStack, List.length_zip, List.length_map]
          have := hf.len; omega
        rw [this, hres] at hlen1
        simp at hlen1
        exact hlen1
      subst hrest
      have hflat := hr.flat
      rw [hres] at hflat
      have hflat' : Tree.flat env.input r'.tree = env.input.take (endOf c.hist) := by
        simpa [flatRes] using hflat
      refine ⟨?_, by rw [hhist]; exact hflat'⟩
      rw [hflat', hctx, layBytes_of_layOk env.input hr.lay]
      exact take_append_slice _ _ _ (layOk_le hr.lay)
    · rename_i ctx' o hstep
      injection h with _ h2
      subst h2
      exact absurd rfl (step_stop_not_ok env nt c ctx' _ hstep r)

/-! ## `nextTokenMain` of a Layout table -/

theorem noToken_inv (env : Env) (pp : Bool) (ctx ctx' : Ctx) (tk : Tok)
    (h : noToken env pp ctx = (ctx', .ok tk)) : ctx' = ctx ∧ tk.kind = 0 := by
  unfold noToken at h
  simp only at h
  split at h
  · injection h with h1 h2
    injection h2 with h2
    subst h1 h2
    exact ⟨rfl, rfl⟩
  · split at h <;> (injection h with _ h2; simp at h2)

theorem ntG_main (env : Env) (hc : env.custom = none) (hsk : env.skipWs = false) (hr : RecogOk env)
    (hns : NoShiftStop env.t) (ls : Nat) (hl : env.t.layoutState = some ls)
    (hs : Structural env.g env.t (autosOf env.g env.t)) (au : Auto) (hin : au ∈ autosOf env.g env.t)
    (hstart : ls = au.start) (hsym : env.g.nterms ≤ au.sym) (fuel : Nat) (pp : Bool) :
    NtG env (nextTokenMain env pp fuel) := by
  intro ctx ctx' tk hn
  unfold nextTokenMain lexNext at hn
  rw [hc, hsk] at hn
  simp only [Bool.false_eq_true, ↓reduceIte] at hn
  split at hn
  · -- a token is found at once
    rename_i tk' hpick
    injection hn with h1 h2
    injection h2 with h2
    subst h1 h2
    refine ⟨Or.inr (tokenIterAux_val env hr ctx.pos _ false tk' (pickToken_mem hpick)), Nat.le_refl _, ?_⟩
    intro hlay _
    unfold LayOk; rw [hlay]
  · rw [hl] at hn
    simp only at hn
    generalize hlp : layoutParse env ls ctx fuel = lp at hn
    obtain ⟨cx, r⟩ := lp
    have hmono := layoutParse_pos_mono env ls ctx fuel cx r hlp
    simp only at hn
    -- no layout found: the context is put back where it was
    have hback : ∀ (c0 : Ctx), c0.pos = ctx.pos → c0.lay = cx.lay → noToken env pp c0 = (ctx', .ok tk) →
        TokIn env.input ctx' tk ∧ ctx.pos.pos ≤ ctx'.pos.pos ∧
        (ctx.lay = none → ctx.span.e.pos = ctx.pos.pos → LayOk ctx.pos.pos ctx') := by
      intro c0 hp0 hl0 hn0
      obtain ⟨hctx', hk⟩ := noToken_inv env pp _ _ _ hn0
      subst hctx'
      refine ⟨Or.inl hk, by rw [hp0]; exact Nat.le_refl _, ?_⟩
      intro hlay _
      have hcl := layoutParse_lay_none env hc hsk ls ctx fuel cx _ hlay hlp
      unfold LayOk
      rw [hl0, hcl, hp0]
    split at hn
    · rename_i pr
      split at hn
      · rename_i off len hslice
        split at hn
        · -- layout skipped, lex again
          have hctx' := ntBase_ctx env hc hsk pp _ _ _ hn
          have htok := (ntLay_base env hc hr pp _ _ _ hn).2.2.2 tk rfl
          subst hctx'
          refine ⟨htok, hmono, ?_⟩
          intro hlay hE
          obtain ⟨hsl, hle, _⟩ := layoutParse_slice env hc hsk hr hns _ hs au hin ls hstart hsym ctx hE
            fuel cx pr hlp
          rw [hslice] at hsl
          injection hsl with hsl
          injection hsl with ho hlen'
          subst ho hlen'
          unfold LayOk
          simp only [true_and]
          omega
        · exact hback { cx with state := ctx.state, span := ctx.span, pos := ctx.pos } rfl rfl hn
      · exact hback { cx with state := ctx.state, span := ctx.span, pos := ctx.pos } rfl rfl hn
    · exact hback { cx with state := ctx.state, span := ctx.span, pos := ctx.pos } rfl rfl hn
    · injection hn with _ h2; simp at h2
    · injection hn with _ h2; simp at h2

/-- **Round trip under a user Layout rule.** -/
theorem parse_roundtrip_layout (env : Env) (hc : env.custom = none) (hsk : env.skipWs = false)
    (ls : Nat) (hl : env.t.layoutState = some ls) (hr : RecogOk env) (hns : NoShiftStop env.t)
    (hs : Structural env.g env.t (autosOf env.g env.t))
    (hauto : LayoutCert.autoOk env.g env.t ls = true) (pp : Bool) (fuel : Nat)
    (ctx : Ctx) (r : ParseResult) (h : parse env pp fuel = (ctx, .ok r)) :
    Tree.flat env.input r.tree ++ layBytes env.input ctx.lay = env.input.take ctx.pos.pos ∧
    Tree.flat env.input r.tree = env.input.take (endOf r.hist) := by
  obtain ⟨au, hin, hstart, hsym⟩ := autoOk_sound env.g env.t ls hauto
  have hnt := ntG_main env hc hsk hr hns ls hl hs au hin hstart hsym fuel pp
  unfold parse parseWith at h
  simp only at h
  split at h
  · rename_i ctx1 tk hnt1
    obtain ⟨htok1, _, hlay1⟩ := hnt _ ctx1 tk hnt1
    have hlay := hlay1 rfl rfl
    refine runLoop_ginv env _ (autosOf env.g env.t) hs ⟨0, 0, env.g.startIdx⟩
      (by unfold autosOf; exact List.mem_cons_self) 0 rfl hnt hns fuel _ ctx r
      ⟨by simp, by simp⟩
      ⟨by simp [Cfg.abs, absStack, PathInv], by simp [Cfg.abs, absStack, yields]⟩ ?_ h
    refine ⟨by simp [flatRes, endOf], ?_, htok1⟩
    simp only [endOf]; exact hlay
  all_goals (injection h with _ h2; simp at h2)

end Rustemo

namespace Rustemo

/-- executable form of the round-trip statement: `some (reconstructed, consumed)` if the parse is
    accepted (used by the counterexample theorems, decided by kernel evaluation) -/
def flatOf (env : Env) (pp : Bool) (fuel : Nat) : Option (List Nat × List Nat) :=
  match parse env pp fuel with
  | (ctx, .ok r) =>
    some (Tree.flat env.input r.tree ++ layBytes env.input ctx.lay, env.input.take ctx.pos.pos)
  | _ => none

/-- the same for the loop as it was before the repairs of C14-N1/N2 (`Model/LROld.lean`) -/
def flatOfOld (env : Env) (pp : Bool) (fuel : Nat) : Option (List Nat × List Nat) :=
  match parseOld env pp fuel with
  | (ctx, .ok r) =>
    some (Tree.flat env.input r.tree ++ layBytes env.input ctx.lay, env.input.take ctx.pos.pos)
  | _ => none

theorem flatOfOld_spec (env : Env) (pp : Bool) (fuel : Nat) (a b : List Nat)
    (h : flatOfOld env pp fuel = some (a, b)) :
    ∃ ctx r, parseOld env pp fuel = (ctx, .ok r) ∧
      Tree.flat env.input r.tree ++ layBytes env.input ctx.lay = a ∧ env.input.take ctx.pos.pos = b := by
  unfold flatOfOld at h
  split at h
  · rename_i ctx r heq
    injection h with h
    injection h with h1 h2
    exact ⟨ctx, r, heq, h1, h2⟩
  · simp at h

theorem flatOf_spec (env : Env) (pp : Bool) (fuel : Nat) (a b : List Nat)
    (h : flatOf env pp fuel = some (a, b)) :
    ∃ ctx r, parse env pp fuel = (ctx, .ok r) ∧
      Tree.flat env.input r.tree ++ layBytes env.input ctx.lay = a ∧ env.input.take ctx.pos.pos = b := by
  unfold flatOf at h
  split at h
  · rename_i ctx r heq
    injection h with h
    injection h with h1 h2
    exact ⟨ctx, r, heq, h1, h2⟩
  · simp at h

end Rustemo
