import Rustemo.Proofs.LayoutRTTile
import Rustemo.Proofs.LayoutRTCert
/-!
# The generic tree is lossless under a user Layout rule (C14, part A)

`GInv` generalises `RInv` of `Proofs/Roundtrip.lean`: "lexing again does not move" (`Stable`) becomes
an arbitrary predicate `St` of the byte offset, and `NtG` says what a `next_token` function must
satisfy for the round-trip invariant to survive a step: it ends at a settled offset; started at a
settled offset it does not move; started right after a shift (no layout ahead, span ending at the
position) it records exactly the bytes it advanced over as the layout ahead.

`ntG_main` proves `NtG` for `nextTokenMain` of a Layout table from the executable conditions of
`Model/LayoutCert.lean`, the scanner refinement (`layoutParse_scan`) and the slice theorem
(`layoutParse_slice`).
-/
namespace Rustemo
open LayoutCert

/-! ## The layout sub-parse keeps "no layout ahead" -/

theorem runLoop_lay_none (env : Env) (hc : env.custom = none) (hsk : env.skipWs = false) :
    ∀ (fuel : Nat) (c : Cfg) (ctx : Ctx) (o : Outcome ParseResult), c.ctx.lay = none →
      runLoop env (nextTokenBase env true) fuel c = (ctx, o) → ctx.lay = none := by
  intro fuel
  induction fuel with
  | zero =>
    intro c ctx o hl h
    simp only [runLoop] at h
    injection h with h1 _
    rw [← h1]; exact hl
  | succ n ih =>
    intro c ctx o hl h
    unfold runLoop at h
    split at h
    · rename_i c' hstep
      refine ih c' ctx o ?_ h
      cases step_next_inv env _ c c' hstep with
      | shift state s' acts ctx1 tk htop hcell hnt1 hc' =>
        have := ntBase_ctx env hc hsk true _ _ _ hnt1
        subst this; subst hc'; rfl
      | reduce state p len fromState s' pr acts ctx1 tk htop hcell hlen hfrom hpr hgoto hrlen hnt1 hc' =>
        subst hc'; exact hl
    · rename_i ctx' r' hstep
      injection h with h1 _
      obtain ⟨_, _, _, _, _, hctx, _⟩ := step_done_inv env _ c ctx' r' hstep
      rw [← h1, hctx]; exact hl
    · rename_i ctx' o' hstep
      injection h with h1 _
      rw [← h1]
      cases step_stop_inv env _ c ctx' o' hstep with
      | panic site h ho => rw [h]; exact hl
      | noAction state htop hcell h ho => rw [h]; exact hl
      | shift state s' acts o'' htop hcell hnt1 hno ho =>
        have := ntBase_ctx env hc hsk true _ _ _ hnt1
        rw [this]; rfl
      | reduce state p len fromState s' pr acts o'' htop hcell hlen hfrom hpr hgoto hnt1 hno ho =>
        have := ntBase_ctx env hc hsk true _ _ _ hnt1
        rw [this]; exact hl

theorem layoutParse_lay_none (env : Env) (hc : env.custom = none) (hsk : env.skipWs = false)
    (ls : Nat) (ctx : Ctx) (fuel : Nat) (cx : Ctx) (o : Outcome ParseResult) (hl : ctx.lay = none)
    (h : layoutParse env ls ctx fuel = (cx, o)) : cx.lay = none := by
  unfold layoutParse parseWith at h
  simp only at h
  split at h
  · rename_i ctx1 tk hnt1
    have := ntBase_ctx env hc hsk true _ _ _ hnt1
    subst this
    exact runLoop_lay_none env hc hsk fuel _ cx o hl h
  all_goals
    rename_i ctx1 _ hnt1
    have := ntBase_ctx env hc hsk true _ _ _ hnt1
    subst this
    injection h with h1 _
    rw [← h1]; exact hl

/-! ## The generalised invariant -/

structure GInv (env : Env) (St : Nat → Prop) (ms : List Nat) (c : Cfg) : Prop where
  flat : flatRes env.input c.res = env.input.take (endOf c.hist)
  le : endOf c.hist ≤ c.ctx.pos.pos
  lay : LayOk (endOf c.hist) c.ctx
  tok : TokIn env.input c.ctx c.tok
  settled : St c.ctx.pos.pos
  states : ∀ it ∈ c.stack, it.state ∈ ms

/-- what `next_token` must do for the round-trip invariant to survive a step -/
def NtG (env : Env) (St : Nat → Prop) (ms : List Nat) (nt : Ctx → Ctx × Outcome Tok) : Prop :=
  ∀ ctx ctx' tk, CtxOk env.input ctx → ctx.state ∈ ms → nt ctx = (ctx', .ok tk) →
    St ctx'.pos.pos ∧ TokIn env.input ctx' tk ∧
    (St ctx.pos.pos → ctx'.pos.pos = ctx.pos.pos) ∧
    (ctx.lay = none → ctx.span.e.pos = ctx.pos.pos → LayOk ctx.pos.pos ctx')

theorem layOk_le {E : Nat} {ctx : Ctx} (h : LayOk E ctx) : E ≤ ctx.pos.pos := by
  unfold LayOk at h
  split at h
  · omega
  · omega

theorem layBytes_of_layOk (input : List Nat) {E : Nat} {ctx : Ctx} (h : LayOk E ctx) :
    layBytes input ctx.lay = sliceOf input (E, ctx.pos.pos - E) := by
  unfold LayOk at h
  unfold layBytes
  split at h
  · rename_i o l hl
    rw [hl]
    obtain ⟨h1, h2⟩ := h
    simp only
    congr 2
    omega
  · rename_i hl
    rw [hl]
    simp only
    unfold sliceOf
    simp [h]

theorem flat_shift (env : Env) (c : Cfg)
    (hflat : flatRes env.input c.res = env.input.take (endOf c.hist))
    (hlay : LayOk (endOf c.hist) c.ctx) (hv1 : c.tok.val.1 = c.ctx.pos.pos) :
    flatRes env.input (shiftLeaf c :: c.res) = env.input.take (c.tok.val.1 + c.tok.val.2) := by
  have hle := layOk_le hlay
  unfold flatRes at hflat ⊢
  simp only [List.reverse_cons, List.map_append, List.map_cons, List.map_nil,
    List.flatten_append, List.flatten_cons, List.flatten_nil, List.append_nil, shiftLeaf, Tree.flat]
  rw [hflat, layBytes_of_layOk env.input hlay]
  have hval : sliceOf env.input c.tok.val =
      sliceOf env.input (c.ctx.pos.pos, (c.tok.val.1 + c.tok.val.2) - c.ctx.pos.pos) := by
    have : c.tok.val = (c.tok.val.1, c.tok.val.2) := rfl
    rw [this, hv1]
    congr 2
    omega
  rw [hval, slice_append_slice _ _ _ _ hle (by omega), take_append_slice _ _ _ (by omega)]

theorem flat_reduce (env : Env) (c : Cfg) (p len : Nat) :
    flatRes env.input (reduceNode c p len :: c.res.drop len) = flatRes env.input c.res := by
  rw [flatRes_take_drop env.input c.res len]
  unfold flatRes
  simp only [List.reverse_cons, List.map_append, List.map_cons, List.map_nil,
    List.flatten_append, List.flatten_cons, List.flatten_nil, List.append_nil, reduceNode,
    Tree.flat, flat_ofList]

theorem posOk_posOf (input : List Nat) (n : Nat) (h : n ≤ input.length) : PosOk input (posOf input n) := by
  have := posOf_pos input n h
  exact ⟨by rw [this], by rw [this]; exact h⟩

theorem shiftCtx_ok (env : Env) (c : Cfg) (hinv : SInv env.input c) (hk : c.tok.kind ≠ 0) (s' : Nat) :
    CtxOk env.input (shiftCtx env c s') := by
  obtain ⟨hpos, _, hv2⟩ := shift_pos env c hinv hk s'
  obtain ⟨hcp, _, _⟩ := hinv.ctx
  have hok := posOk_posOf env.input _ hv2
  have hpos' : posAfter (sliceOf env.input c.tok.val) c.ctx.pos =
      posOf env.input (c.ctx.pos.pos + c.tok.val.2) := hpos
  unfold CtxOk shiftCtx
  simp only [hpos']
  exact ⟨hok, hcp, hok⟩

theorem mem_of_topState {st : List StackItem} {s : Nat} (h : topState st = some s) :
    ∃ it ∈ st, it.state = s := by
  unfold topState at h
  cases st with
  | nil => simp at h
  | cons x xs => simp at h; exact ⟨x, by simp, h⟩

/-- one iteration of the parser loop preserves the generalised round-trip invariant -/
theorem step_ginv (env : Env) (St : Nat → Prop) (ms : List Nat) (hcl : Closed env.g env.t ms)
    (nt : Ctx → Ctx × Outcome Tok) (c c' : Cfg) (hnt : NtG env St ms nt) (hns : NoShiftStop env.t)
    (hs : SInv env.input c) (hinv : GInv env St ms c) (hstep : step env nt c = .next c') :
    GInv env St ms c' := by
  cases step_next_inv env nt c c' hstep with
  | shift state s' acts ctx1 tk htop hcell hnt1 hc' =>
    have hk : c.tok.kind ≠ 0 := by
      intro h0; apply hns state s'; rw [← h0, hcell]; simp
    obtain ⟨hv1, hv2⟩ : c.tok.val.1 = c.ctx.pos.pos ∧ c.tok.val.1 + c.tok.val.2 ≤ env.input.length := by
      rcases hinv.tok with h | h
      · exact absurd h hk
      · exact h
    obtain ⟨it, hit, hst⟩ := mem_of_topState htop
    have hstate : state ∈ ms := by rw [← hst]; exact hinv.states it hit
    have hs' : s' ∈ ms := hcl.shift state hstate c.tok.kind s' (by rw [hcell]; simp)
    have hp0 : (shiftCtx env c s').pos.pos = c.tok.val.1 + c.tok.val.2 := by
      show (posAfter (sliceOf env.input c.tok.val) c.ctx.pos).pos = _
      rw [posAfter_pos]
      have : c.tok.val = (c.tok.val.1, c.tok.val.2) := rfl
      rw [this, sliceOf_length _ _ _ hv2, hv1]
    obtain ⟨h1, h2, _, h4⟩ := hnt _ ctx1 tk (shiftCtx_ok env c hs hk s') hs' hnt1
    have hlay := h4 rfl rfl
    rw [hp0] at hlay
    subst hc'
    have hE : endOf (c.tok :: c.hist) = c.tok.val.1 + c.tok.val.2 := rfl
    refine ⟨?_, ?_, ?_, h2, h1, ?_⟩
    · simp only [hE]; exact flat_shift env c hinv.flat hinv.lay hv1
    · simp only [hE]; exact layOk_le hlay
    · simp only [hE]; exact hlay
    · intro it' hit'
      rcases List.mem_cons.mp hit' with h | h
      · subst h; exact hs'
      · exact hinv.states it' h
  | reduce state p len fromState s' pr acts ctx1 tk htop hcell hlen hfrom hpr hgoto hrlen hnt1 hc' =>
    obtain ⟨it, hit, hst⟩ := mem_of_topState hfrom
    have hfromS : fromState ∈ ms := by rw [← hst]; exact hinv.states it (List.mem_of_mem_drop hit)
    have hs' : s' ∈ ms := hcl.goto fromState hfromS pr.lhs s' hgoto
    obtain ⟨hcp, hcs, hce⟩ := hs.ctx
    have hctx0 : CtxOk env.input (reduceCtx c s') := ⟨hcp, hcs, hce⟩
    obtain ⟨h1, h2, h3, _⟩ := hnt _ ctx1 tk hctx0 hs' hnt1
    have hpos : ctx1.pos.pos = c.ctx.pos.pos := h3 hinv.settled
    subst hc'
    refine ⟨?_, ?_, ?_, ?_, ?_, ?_⟩
    · simp only; rw [flat_reduce]; exact hinv.flat
    · simp only; rw [hpos]; exact hinv.le
    · have := hinv.lay
      unfold LayOk at this ⊢
      simp only
      rw [hpos]
      exact this
    · unfold TokIn at h2 ⊢
      simp only
      exact h2
    · simp only; exact h1
    · intro it' hit'
      rcases List.mem_cons.mp hit' with h | h
      · subst h; exact hs'
      · exact hinv.states it' (List.mem_of_mem_drop h)

theorem runLoop_ginv (env : Env) (St : Nat → Prop) (ms : List Nat) (hcl : Closed env.g env.t ms)
    (nt : Ctx → Ctx × Outcome Tok) (autos : List Auto)
    (hs : Structural env.g env.t autos) (au : Auto) (hin : au ∈ autos) (start : Nat)
    (hstart : start = au.start) (hnt : NtG env St ms nt) (hntok : NtOk env.input nt)
    (hns : NoShiftStop env.t) :
    ∀ (fuel : Nat) (c : Cfg) (ctx : Ctx) (r : ParseResult),
      FInv start c → CInv env.g env.t start c.abs → SInv env.input c → GInv env St ms c →
      runLoop env nt fuel c = (ctx, .ok r) →
      Tree.flat env.input r.tree ++ layBytes env.input ctx.lay = env.input.take ctx.pos.pos ∧
      Tree.flat env.input r.tree = env.input.take (endOf r.hist) := by
  intro fuel
  induction fuel with
  | zero => intro c ctx r _ _ _ _ h; simp [runLoop] at h
  | succ n ih =>
    intro c ctx r hf hc hsi hr h
    unfold runLoop at h
    split at h
    · rename_i c' hstep
      obtain ⟨hf', leafOf, nodeOf, hd, hcs⟩ := step_refines env nt start c c' hf hstep
      have hc' := cstep_preserves env.g env.t autos hs au hin start hstart leafOf nodeOf hd c.abs c'.abs
        c.tok.kind hc hcs
      exact ih c' ctx r hf' hc' (step_spans env nt c c' hntok hns hsi hstep)
        (step_ginv env St ms hcl nt c c' hnt hns hsi hr hstep) h
    · rename_i ctx' r' hstep
      injection h with h1 h2
      injection h2 with h2
      subst h1 h2
      obtain ⟨state, acts, rest, htop, hcell, hctx, hres, _, hhist⟩ := step_done_inv env nt c ctx' r' hstep
      obtain ⟨hacc, _⟩ := step_done_refines env nt start c ctx' r' hf hstep
      obtain ⟨_, _, hlen1⟩ := cstep_accept_sound env.g env.t autos hs au hin start hstart Tree.tok Tree.mk
        c.abs c.tok.kind r'.tree hc hacc
      have hrest : rest = [] := by
        have : c.abs.stack.length = c.res.length := by
          show (absStack c).length = c.res.length
          simp only [absStack, List.length_zip, List.length_map]
          have := hf.len; omega
        rw [this, hres] at hlen1
        simp at hlen1
        exact hlen1
      subst hrest
      have hflat := hr.flat
      rw [hres] at hflat
      have hflat' : Tree.flat env.input r'.tree = env.input.take (endOf c.hist) := by
        simpa [flatRes] using hflat
      refine ⟨?_, by rw [hhist]; exact hflat'⟩
      rw [hflat', hctx, layBytes_of_layOk env.input hr.lay]
      exact take_append_slice _ _ _ hr.le
    · rename_i ctx' o hstep
      injection h with _ h2
      subst h2
      exact absurd rfl (step_stop_not_ok env nt c ctx' _ hstep r)

/-! ## `nextTokenMain` of a Layout table -/

/-- no layout parse started at this byte offset succeeds and consumes something -/
def Settled (env : Env) (ls fuel : Nat) (p : Nat) : Prop := consumes env ls fuel p = false

theorem noToken_inv (env : Env) (pp : Bool) (ctx ctx' : Ctx) (tk : Tok)
    (h : noToken env pp ctx = (ctx', .ok tk)) : ctx' = ctx ∧ tk.kind = 0 := by
  unfold noToken at h
  simp only at h
  split at h
  · injection h with h1 h2
    injection h2 with h2
    subst h1 h2
    exact ⟨rfl, rfl⟩
  · split at h <;> (injection h with _ h2; simp at h2)

theorem ntG_main (env : Env) (hc : env.custom = none) (hsk : env.skipWs = false) (hr : RecogOk env)
    (hns : NoShiftStop env.t) (ls : Nat) (hl : env.t.layoutState = some ls)
    (hs : Structural env.g env.t (autosOf env.g env.t)) (au : Auto) (hin : au ∈ autosOf env.g env.t)
    (hstart : ls = au.start) (hsym : env.g.nterms ≤ au.sym) (fuel : Nat) (ms : List Nat)
    (hcond : Conds env ls fuel ms) (pp : Bool) :
    NtG env (Settled env ls fuel) ms (nextTokenMain env pp fuel) := by
  intro ctx ctx' tk hctx hstate hn
  have hpl : ctx.pos.pos ≤ env.input.length := hctx.1.2
  have hposAt : posAt env.input ctx.pos.pos = ctx.pos := by rw [posAt_eq_posOf]; exact hctx.1.1.symm
  unfold nextTokenMain lexNext at hn
  rw [hc, hsk] at hn
  simp only [Bool.false_eq_true, ↓reduceIte] at hn
  split at hn
  · -- a token is found at once
    rename_i tk' hpick
    injection hn with h1 h2
    injection h2 with h2
    subst h1 h2
    have hset : Settled env ls fuel ctx.pos.pos := by
      apply hcond.notToken ctx.pos.pos hpl ctx.state hstate
      rw [hposAt, hpick]; rfl
    refine ⟨hset, Or.inr (tokenIterAux_val env hr ctx.pos _ false tk' (pickToken_mem hpick)),
      fun _ => rfl, ?_⟩
    intro hlay _
    unfold LayOk; rw [hlay]
  · rw [hl] at hn
    simp only at hn
    generalize hlp : layoutParse env ls ctx fuel = lp at hn
    obtain ⟨cx, r⟩ := lp
    obtain ⟨hscok, hscerr⟩ := layoutParse_scan env hc hsk hr hns ls ctx fuel cx r hctx hlp
    simp only at hn
    -- facts shared by the branches in which the layout parse was accepted
    have hacc : ∀ pr, r = .ok pr →
        Settled env ls fuel cx.pos.pos ∧ (Settled env ls fuel ctx.pos.pos → cx.pos.pos = ctx.pos.pos) := by
      intro pr hpr
      have hsc := hscok pr hpr
      exact ⟨hcond.idempotent ctx.pos.pos hpl cx.pos.pos hsc,
        fun hset => consumes_false_ok env ls fuel _ _ hsc hset⟩
    split at hn
    · rename_i pr
      obtain ⟨hset, hstay⟩ := hacc pr rfl
      split at hn
      · rename_i off len hslice
        split at hn
        · -- layout skipped, lex again
          rename_i hlen
          have hctx' := ntBase_ctx env hc hsk pp _ _ _ hn
          have htok := (ntLay_base env hc hr pp _ _ _ hn).2.2.2 tk rfl
          subst hctx'
          refine ⟨hset, htok, hstay, ?_⟩
          intro hlay hE
          obtain ⟨hsl, hle, _⟩ := layoutParse_slice env hc hsk hr hns _ hs au hin ls hstart hsym ctx hE
            fuel cx pr hlp
          rw [hslice] at hsl
          injection hsl with hsl
          injection hsl with ho hlen'
          subst ho hlen'
          unfold LayOk
          simp only [true_and]
          omega
        · rename_i hlen
          obtain ⟨hctx', hk⟩ := noToken_inv env pp _ _ _ hn
          subst hctx'
          refine ⟨hset, Or.inl hk, hstay, ?_⟩
          intro hlay hE
          obtain ⟨hsl, hle, _⟩ := layoutParse_slice env hc hsk hr hns _ hs au hin ls hstart hsym ctx hE
            fuel cx pr hlp
          rw [hslice] at hsl
          injection hsl with hsl
          injection hsl with ho hlen'
          have hcl := layoutParse_lay_none env hc hsk ls ctx fuel cx _ hlay hlp
          unfold LayOk
          simp only [hcl]
          omega
      · rename_i hslice
        obtain ⟨hctx', hk⟩ := noToken_inv env pp _ _ _ hn
        subst hctx'
        refine ⟨hset, Or.inl hk, hstay, ?_⟩
        intro hlay hE
        obtain ⟨hsl, _, _⟩ := layoutParse_slice env hc hsk hr hns _ hs au hin ls hstart hsym ctx hE
          fuel cx pr hlp
        rw [hslice] at hsl
        simp at hsl
    · -- the layout parse failed
      rename_i e
      obtain ⟨hctx', hk⟩ := noToken_inv env pp _ _ _ hn
      subst hctx'
      have hsc := hscerr e rfl
      have hq : cx.pos.pos = ctx.pos.pos := hcond.failStays ctx.pos.pos hpl _ hsc
      have hset : Settled env ls fuel ctx.pos.pos := consumes_fail env ls fuel _ _ hsc
      refine ⟨by show Settled env ls fuel cx.pos.pos; rw [hq]; exact hset, Or.inl hk, fun _ => hq, ?_⟩
      intro hlay _
      have hcl := layoutParse_lay_none env hc hsk ls ctx fuel cx _ hlay hlp
      unfold LayOk
      simp only [hcl]
      exact hq
    · injection hn with _ h2; simp at h2
    · injection hn with _ h2; simp at h2

/-- **Round trip under a user Layout rule.** -/
theorem parse_roundtrip_layout (env : Env) (hc : env.custom = none) (hsk : env.skipWs = false)
    (ls : Nat) (hl : env.t.layoutState = some ls) (hr : RecogOk env) (hns : NoShiftStop env.t)
    (hs : Structural env.g env.t (autosOf env.g env.t))
    (pp : Bool) (fuel : Nat) (hcert : LayoutCert.check env ls fuel = true)
    (ctx : Ctx) (r : ParseResult) (h : parse env pp fuel = (ctx, .ok r)) :
    Tree.flat env.input r.tree ++ layBytes env.input ctx.lay = env.input.take ctx.pos.pos ∧
    Tree.flat env.input r.tree = env.input.take (endOf r.hist) := by
  unfold LayoutCert.check LayoutCert.static at hcert
  simp only [Bool.and_eq_true] at hcert
  obtain ⟨⟨⟨⟨hclosed, hauto⟩, h1⟩, h2⟩, h3⟩ := hcert
  have hcl := closed_sound env.g env.t _ hclosed
  have hcond := conds_sound env ls fuel h1 h2 h3
  obtain ⟨au, hin, hstart, hsym⟩ := autoOk_sound env.g env.t ls hauto
  have hnt := ntG_main env hc hsk hr hns ls hl hs au hin hstart hsym fuel _ hcond pp
  have hntok := ntOk_main env hc hr hns pp fuel
  unfold parse parseWith at h
  simp only at h
  have h0 : CtxOk env.input ({} : Ctx) := by
    have hs0 : PosOk env.input Pos.start := by
      unfold PosOk posOf Pos.start; simp [posAfter, lastNl]
    exact ⟨hs0, hs0, hs0⟩
  split at h
  · rename_i ctx1 tk hnt1
    obtain ⟨hset1, htok1, _, hlay1⟩ := hnt _ ctx1 tk h0 hcl.start hnt1
    obtain ⟨hc1, ht1⟩ := hntok _ _ _ h0 hnt1
    have hlay := hlay1 rfl rfl
    refine runLoop_ginv env _ _ hcl _ (autosOf env.g env.t) hs ⟨0, 0, env.g.startIdx⟩
      (by unfold autosOf; exact List.mem_cons_self) 0 rfl hnt hntok hns fuel _ ctx r
      ⟨by simp, by simp⟩
      ⟨by simp [Cfg.abs, absStack, PathInv], by simp [Cfg.abs, absStack, yields]⟩
      ⟨by simp, hc1, by simp, by simp, ht1 tk rfl⟩ ?_ h
    refine ⟨by simp [flatRes, endOf], ?_, ?_, htok1, hset1, ?_⟩
    · simp only [endOf]; omega
    · simp only [endOf]; exact hlay
    · intro it hit
      simp at hit
      subst hit
      exact hcl.start
  all_goals (injection h with _ h2; simp at h2)

end Rustemo

namespace Rustemo

/-- executable form of the round-trip statement: `some (reconstructed, consumed)` if the parse is
    accepted (used by the counterexample theorems, decided by kernel evaluation) -/
def flatOf (env : Env) (pp : Bool) (fuel : Nat) : Option (List Nat × List Nat) :=
  match parse env pp fuel with
  | (ctx, .ok r) =>
    some (Tree.flat env.input r.tree ++ layBytes env.input ctx.lay, env.input.take ctx.pos.pos)
  | _ => none

theorem flatOf_spec (env : Env) (pp : Bool) (fuel : Nat) (a b : List Nat)
    (h : flatOf env pp fuel = some (a, b)) :
    ∃ ctx r, parse env pp fuel = (ctx, .ok r) ∧
      Tree.flat env.input r.tree ++ layBytes env.input ctx.lay = a ∧ env.input.take ctx.pos.pos = b := by
  unfold flatOf at h
  split at h
  · rename_i ctx r heq
    injection h with h
    injection h with h1 h2
    exact ⟨ctx, r, heq, h1, h2⟩
  · simp at h

end Rustemo
