import Rustemo.Proofs.GlrRun2
/-!
# Frames of the graph primitives
-/
namespace Rustemo.Glr
open Rustemo

theorem frame_addHead (F : Nat) (g : Gss) (nh : Head) (hF : F ≤ nh.frontier) : FrameLt F g (g.addHead nh).1 := by
  have hold : ∀ (i : Nat) (hd : Head), g.heads[i]? = some hd → (g.addHead nh).1.heads[i]? = some hd := by
    intro i hd hi
    rw [addHead_heads]
    have := lt_of_getElem?_some hi
    have : ¬ i = g.heads.size := by omega
    simp [this, hi]
  have hback : ∀ (i : Nat) (hd : Head), (g.addHead nh).1.heads[i]? = some hd → hd.frontier < F → g.heads[i]? = some hd := by
    intro i hd hi hf
    rw [addHead_heads] at hi
    split at hi
    · injection hi with hi; subst hi; omega
    · exact hi
  exact ⟨fun i hd hi _ => hold i hd hi, hback, fun _ _ _ he _ _ => he, fun _ _ _ he _ _ => he,
    fun _ _ _ _ _ _ _ _ => rfl, fun i hd hi => ⟨hd, hold i hd hi, rfl, rfl⟩,
    fun _ ed he => ⟨ed, he, rfl, rfl, fun _ hn => hn⟩, fun _ _ _ h => h⟩

theorem frame_setHead (F : Nat) (g : Gss) (i : Nat) (old hd : Head) (hold : g.heads[i]? = some old)
    (hF : F ≤ old.frontier) (hf : hd.frontier = old.frontier) (hs : hd.state = old.state) :
    FrameLt F g (g.setHead i hd) := by
  have hlt := lt_of_getElem?_some hold
  have hfw : ∀ (j : Nat) (x : Head), g.heads[j]? = some x → x.frontier < F → (g.setHead i hd).heads[j]? = some x := by
    intro j x hj hx
    rw [setHead_heads]
    by_cases hij : i = j
    · subst hij; rw [hold] at hj; injection hj with hj; subst hj; omega
    · simp [hij, hj]
  have hbw : ∀ (j : Nat) (x : Head), (g.setHead i hd).heads[j]? = some x → x.frontier < F → g.heads[j]? = some x := by
    intro j x hj hx
    rw [setHead_heads] at hj
    by_cases hij : i = j
    · subst hij
      simp only [hlt, ↓reduceIte] at hj
      injection hj with hj; subst hj; omega
    · simpa [hij] using hj
  refine ⟨hfw, hbw, fun _ _ _ he _ _ => he, fun _ _ _ he _ _ => he, fun _ _ _ _ _ _ _ _ => rfl, ?_,
    fun _ ed he => ⟨ed, he, rfl, rfl, fun _ hn => hn⟩, fun _ _ _ h => h⟩
  intro j x hj
  rw [setHead_heads]
  by_cases hij : i = j
  · subst hij; rw [hold] at hj; injection hj with hj; subst hj
    exact ⟨hd, by simp [hlt], hs, hf⟩
  · exact ⟨x, by simp [hij, hj], rfl, rfl⟩

theorem frame_addEdge (F : Nat) (g : Gss) (s d : Nat) (ps : List Nat) (hs : Head) (hhs : g.heads[s]? = some hs)
    (hF : F ≤ hs.frontier) : FrameLt F g (g.addEdge s d ps).1 := by
  have hold : ∀ (e : Nat) (ed : Edge), g.edges[e]? = some ed → (g.addEdge s d ps).1.edges[e]? = some ed := by
    intro e ed he
    rw [addEdge_edges]
    have := lt_of_getElem?_some he
    have : ¬ e = g.edges.size := by omega
    simp [this, he]
  refine ⟨fun _ _ h _ => h, fun _ _ h _ => h, fun e ed _ he _ _ => hold e ed he, ?_, fun _ _ _ _ _ _ _ _ => rfl,
    fun _ hd h => ⟨hd, h, rfl, rfl⟩, fun e ed he => ⟨ed, hold e ed he, rfl, rfl, fun _ hn => hn⟩, fun _ _ _ h => h⟩
  intro e ed x he hx hxl
  rw [addEdge_edges] at he
  split at he
  · injection he with he; subst he
    simp only [addEdge_heads] at hx
    rw [hhs] at hx; injection hx with hx; subst hx; omega
  · exact he

theorem frame_addNode {env : Env} (F : Nat) {g : Gss} {x : Option Nat} (hg : GInvX env g x) (nd : SNode) :
    FrameLt F g (g.addNode nd).1 := by
  refine ⟨fun _ _ h _ => h, fun _ _ h _ => h, fun _ _ _ he _ _ => he, fun _ _ _ he _ _ => he, ?_,
    fun _ hd h => ⟨hd, h, rfl, rfl⟩, fun _ ed he => ⟨ed, he, rfl, rfl, fun _ hn => hn⟩, ?_⟩
  · intro e ed hs n he _ _ hn
    obtain ⟨_, _, _, _, _, hp⟩ := (hg.edges e ed he).ends
    obtain ⟨nd', hnd', _⟩ := hp n hn
    rw [addNode_old hnd', hnd']
  · intro n tk sp hn; exact addNode_old hn

theorem frame_pushPoss (F : Nat) (g : Gss) (e n : Nat) (ed : Edge) (hs : Head) (he : g.edges[e]? = some ed)
    (hhs : g.heads[ed.src]? = some hs) (hF : F ≤ hs.frontier) : FrameLt F g (g.pushPoss e n) := by
  refine ⟨fun _ _ h _ => by simpa using h, fun _ _ h _ => by simpa using h, ?_, ?_, fun _ _ _ _ _ _ _ _ => by simp,
    fun _ hd h => ⟨hd, by simpa using h, rfl, rfl⟩, ?_, fun _ _ _ h => by simpa using h⟩
  · intro e' ed' x he' hx hxl
    rw [pushPoss_edges _ _ _ ed he]
    by_cases h : e' = e
    · subst h
      rw [he] at he'; injection he' with he'; subst he'
      rw [hhs] at hx; injection hx with hx; subst hx; omega
    · simp [h, he']
  · intro e' ed' x he' hx hxl
    rw [pushPoss_edges _ _ _ ed he] at he'
    simp only [pushPoss_heads] at hx
    split at he'
    · injection he' with he'; subst he'
      simp only at hx
      rw [hhs] at hx; injection hx with hx; subst hx; omega
    · exact he'
  · intro e' ed' he'
    rw [pushPoss_edges _ _ _ ed he]
    by_cases h : e' = e
    · subst h
      rw [he] at he'; injection he' with he'; subst he'
      exact ⟨{ ed with poss := ed.poss ++ [n] }, by simp, rfl, rfl, fun m hm => by simp [hm]⟩
    · exact ⟨ed', by simp [h, he'], rfl, rfl, fun _ hn => hn⟩

/-- one nonterminal node (packed on an edge that starts on level `F` or above) gets new children -/
theorem frame_setNode {env : Env} (F : Nat) {g g' : Gss} (hg : GInv env g) {e0 n0 : Nat} {ed0 : Edge} {hs0 : Head}
    (he0 : g.edges[e0]? = some ed0) (hhs0 : g.heads[ed0.src]? = some hs0) (hF : F ≤ hs0.frontier) (hn0 : n0 ∈ ed0.poss)
    {p : Nat} {sp : Span} {l : Option Slice} {C0 C : List Nat} (hnd0 : g.nodes[n0]? = some (.nonterm p sp l C0))
    (hh : g'.heads = g.heads) (hee : g'.edges = g.edges)
    (hnn : ∀ m, g'.nodes[m]? = if n0 = m then some (.nonterm p sp l C) else g.nodes[m]?) : FrameLt F g g' := by
  refine ⟨fun _ _ h _ => by rw [hh]; exact h, fun _ _ h _ => by rw [hh] at h; exact h,
    fun _ _ _ he _ _ => by rw [hee]; exact he, fun _ _ _ he _ _ => by rw [hee] at he; exact he, ?_,
    fun _ hd h => ⟨hd, by rw [hh]; exact h, rfl, rfl⟩,
    fun _ ed he => ⟨ed, by rw [hee]; exact he, rfl, rfl, fun _ hn => hn⟩, ?_⟩
  · intro e ed hs n he hhs hsl hn
    rw [hnn]
    by_cases h : n0 = n
    · subst h
      have hnt : ¬ isTermNode g n0 := by
        rintro ⟨tk, sp', ht⟩; rw [hnd0] at ht; injection ht with ht; cases ht
      have := hg.uniq e e0 ed ed0 n0 he he0 hn hn0 hnt
      subst this
      rw [he] at he0; injection he0 with he0; subst he0
      rw [hhs] at hhs0; injection hhs0 with hhs0; subst hhs0
      omega
    · simp [h]
  · intro n tk sp' hn
    rw [hnn]
    by_cases h : n0 = n
    · subst h; rw [hnd0] at hn; injection hn with hn; cases hn
    · simp [h, hn]

end Rustemo.Glr
