import Rustemo.Model.GlrCert
import Rustemo.Proofs.CertSound
/-!
# Soundness of the certificates for GLR tables (`Model/GlrCert.lean`)

`StructuralRN` is `Structural` with right-nulled reduce entries; `Cert.structuralRN` implies it given that
the list `nul` only holds symbols that derive the empty string, which `Cert.nulOk` establishes.
-/
namespace Rustemo

/-- `X` derives the empty string -/
def Nullable (g : Grammar) (X : Nat) : Prop := ∃ t : Tree, t.Valid g X ∧ t.yield = []

/-- The structural certificate with right-nulled reductions, as a proposition. -/
structure StructuralRN (g : Grammar) (t : Table) (autos : List Auto) : Prop where
  item_prod : ∀ s p d, t.hasItem s p d → ∃ pr, g.prods[p]? = some pr ∧ d ≤ pr.rhs.length
  start_items : ∀ a ∈ autos, ∀ p d, t.hasItem a.start p d → d = 0
  no_into_start : ∀ a ∈ autos, ∀ s X, ¬ t.trans g s X a.start
  target_items : ∀ s X s' p d, t.trans g s X s' → t.hasItem s' p (d+1) →
      (∃ pr, g.prods[p]? = some pr ∧ pr.rhs[d]? = some X) ∧ t.hasItem s p d
  reduce_item : ∀ s a p len, Action.reduce p len ∈ t.cell s a →
      t.hasItem s p len ∧ ∃ pr, g.prods[p]? = some pr ∧ len ≤ pr.rhs.length ∧
        ∀ Y ∈ pr.rhs.drop len, Nullable g Y
  accept_item : ∀ s x, Action.accept ∈ t.cell s x →
      ∃ a ∈ autos, ∃ pr, g.prods[a.aug]? = some pr ∧ pr.rhs = [a.sym] ∧ t.hasItem s a.aug 1
  aug_start_only : ∀ a ∈ autos, ∀ s, t.hasItem s a.aug 0 → s = a.start
  shift_term : ∀ s a s', Action.shift s' ∈ t.cell s a → a < g.nterms
  distinct : ∀ a ∈ autos, ∀ b ∈ autos, a.start = b.start → a = b

/-- a plain structural table is a right-nulled one without right-nulled entries -/
theorem Structural.toRN {g : Grammar} {t : Table} {autos : List Auto} (h : Structural g t autos) :
    StructuralRN g t autos where
  item_prod := h.item_prod
  start_items := h.start_items
  no_into_start := h.no_into_start
  target_items := h.target_items
  reduce_item := by
    intro s a p len hm
    obtain ⟨hi, pr, hpr, hl⟩ := h.reduce_item s a p len hm
    refine ⟨hi, pr, hpr, by omega, ?_⟩
    intro Y hY
    rw [← hl] at hY
    simp at hY
  accept_item := h.accept_item
  aug_start_only := h.aug_start_only
  shift_term := h.shift_term
  distinct := h.distinct

/-! ## nullable certificate -/

theorem validList_nil_yield (g : Grammar) : ∀ (Xs : List Nat), (∀ X ∈ Xs, Nullable g X) →
    ∃ cs : TreeList, cs.Valid g Xs ∧ cs.yield = []
  | [], _ => ⟨.nil, by simp [TreeList.Valid], by simp [TreeList.yield]⟩
  | X :: Xs, h => by
    obtain ⟨t, ht, hy⟩ := h X (by simp)
    obtain ⟨cs, hcs, hys⟩ := validList_nil_yield g Xs (fun Y hY => h Y (by simp [hY]))
    refine ⟨.cons t cs, ?_, by simp [TreeList.yield, hy, hys]⟩
    simp only [TreeList.Valid]
    exact ⟨X, Xs, rfl, ht, hcs⟩

theorem Cert.nulOk_sound (g : Grammar) : ∀ (nul : List Nat), Cert.nulOk g nul = true →
    ∀ X ∈ nul, Nullable g X
  | [], _, X, hX => by simp at hX
  | Y :: rest, h, X, hX => by
    simp only [Cert.nulOk, Bool.and_eq_true, List.any_eq_true, beq_iff_eq, List.all_eq_true,
      List.contains_iff_mem] at h
    obtain ⟨⟨pr, hpr, hl, hr⟩, hrest⟩ := h
    have ih := Cert.nulOk_sound g rest hrest
    rcases List.mem_cons.mp hX with rfl | hX'
    · obtain ⟨cs, hcs, hy⟩ := validList_nil_yield g pr.rhs (fun Z hZ => ih Z (hr Z hZ))
      obtain ⟨p, hp, hpe⟩ := List.getElem_of_mem hpr
      have hp' : p < g.prods.size := by simpa using hp
      have hget : g.prods[p]? = some pr := by
        rw [Array.getElem?_eq_getElem hp']
        simp only [Array.getElem_toList] at hpe
        rw [hpe]
      refine ⟨.node p default none cs, ?_, by simp [Tree.yield, hy]⟩
      simp only [Tree.Valid]
      exact ⟨pr, hget, hl, hcs⟩
    · exact ih X hX'

/-! ## accessing symbols -/

theorem Cert.symbolsOk_sound (g : Grammar) (t : Table) (h : Cert.symbolsOk g t = true) :
    ∀ s X s', t.trans g s X s' → t.symAt s' = X := by
  intro s X s' htr
  unfold Cert.symbolsOk at h
  unfold Table.trans at htr
  split at htr
  · obtain ⟨st, hst, hm⟩ := mem_cell htr
    have := forStates_spec h hst
    simp only [Bool.and_eq_true] at this
    have := forCells_spec this.1 hm
    simpa using this
  · obtain ⟨hA, st, hst, hm⟩ := goto_spec htr
    have := forStates_spec h hst
    simp only [Bool.and_eq_true] at this
    have := forGotos_spec this.2 hm
    simp only [beq_iff_eq] at this
    omega

/-! ## the structural certificate with right-nulled reductions -/

theorem Cert.structuralRN_sound (g : Grammar) (t : Table) (autos : List Auto) (nul : List Nat)
    (hn : ∀ X ∈ nul, Nullable g X)
    (h : Cert.structuralRN g t autos nul = true) : StructuralRN g t autos := by
  unfold Cert.structuralRN at h
  simp only [Bool.and_eq_true] at h
  obtain ⟨⟨⟨⟨h1, h2⟩, h3⟩, h4⟩, h5⟩ := h
  have trans_cases : ∀ s X s', t.trans g s X s' →
      ∃ st, t.states[s]? = some st ∧ (∀ au ∈ autos, s' ≠ au.start) ∧ t.targetOk g st X s' = true := by
    intro s X s' htr
    unfold Table.trans at htr
    split at htr
    · obtain ⟨st, hst, hm⟩ := mem_cell htr
      have := forStates_spec h3 hst
      simp only [Bool.and_eq_true] at this
      have := forCells_spec this.2 hm
      simp only [Bool.and_eq_true, List.all_eq_true, bne_iff_ne, ne_eq] at this
      exact ⟨st, hst, this.1, this.2⟩
    · obtain ⟨hA, st, hst, hm⟩ := goto_spec htr
      have := forStates_spec h4 hst
      have := forGotos_spec this hm
      simp only [Bool.and_eq_true, List.all_eq_true, bne_iff_ne, ne_eq] at this
      have hX : g.nterms + (X - g.nterms) = X := by omega
      rw [hX] at this
      exact ⟨st, hst, this.1, this.2⟩
  have items_autos : ∀ s st, t.states[s]? = some st → ∀ it ∈ st.items, ∀ au ∈ autos,
      (s ≠ au.start ∨ it.dot = 0) ∧ (s = au.start ∨ ¬ (it.prod = au.aug ∧ it.dot = 0)) := by
    intro s st hst it hit au hau
    have := forStates_spec h2 hst
    rw [List.all_eq_true] at this
    have := this it hit
    rw [List.all_eq_true] at this
    have := this au hau
    simp only [Bool.and_eq_true, Bool.or_eq_true, bne_iff_ne, ne_eq, beq_iff_eq, Bool.not_eq_true',
      Bool.and_eq_false_iff] at this
    refine ⟨this.1, ?_⟩
    rcases this.2 with h | h
    · exact Or.inl h
    · right
      intro ⟨hp, hd⟩
      rcases h with h | h
      · simp [hp] at h
      · simp [hd] at h
  constructor
  · intro s p d ⟨st, hst, it, hit, hp, hd⟩
    have := forStates_spec h1 hst
    rw [List.all_eq_true] at this
    have := this it hit
    split at this
    · rename_i pr hpr
      subst hp hd
      exact ⟨pr, hpr, by simpa using this⟩
    · simp at this
  · intro au hau p d ⟨st, hst, it, hit, _, hd⟩
    rcases (items_autos _ st hst it hit au hau).1 with h | h
    · exact absurd rfl h
    · omega
  · intro au hau s X htr
    obtain ⟨_, _, hne, _⟩ := trans_cases s X au.start htr
    exact hne au hau rfl
  · intro s X s' p d htr hi
    obtain ⟨st, hst, _, hok⟩ := trans_cases s X s' htr
    exact targetOk_spec hst hok hi
  · -- reduce_item (right-nulled)
    intro s a p len hm
    obtain ⟨st, hst, hm'⟩ := mem_cell hm
    have := forStates_spec h3 hst
    simp only [Bool.and_eq_true] at this
    have := forCells_spec this.2 hm'
    simp only [Bool.and_eq_true] at this
    refine ⟨hasItemB_spec hst this.1, ?_⟩
    have h2 := this.2
    split at h2
    · rename_i pr hpr
      simp only [Bool.and_eq_true, decide_eq_true_eq, List.all_eq_true, List.contains_iff_mem] at h2
      exact ⟨pr, hpr, h2.1, fun Y hY => hn Y (h2.2 Y hY)⟩
    · simp at h2
  · intro s a hm
    obtain ⟨st, hst, hm'⟩ := mem_cell hm
    have := forStates_spec h3 hst
    simp only [Bool.and_eq_true] at this
    have := forCells_spec this.2 hm'
    simp only [List.any_eq_true, Bool.and_eq_true] at this
    obtain ⟨au, hau, h1', h2'⟩ := this
    refine ⟨au, hau, ?_⟩
    split at h1'
    · rename_i pr hpr
      exact ⟨pr, hpr, by simpa using h1', hasItemB_spec hst h2'⟩
    · simp at h1'
  · intro au hau s ⟨st, hst, it, hit, hp, hd⟩
    rcases (items_autos _ st hst it hit au hau).2 with h | h
    · exact h
    · exact absurd ⟨hp, hd⟩ h
  · intro s a s' hm
    obtain ⟨st, hst, hm'⟩ := mem_cell hm
    have := forStates_spec h3 hst
    simp only [Bool.and_eq_true, decide_eq_true_eq] at this
    have hsz := this.1
    rcases Nat.lt_or_ge a st.actions.size with h' | h'
    · omega
    · simp [Array.getD_eq_getD_getElem?, Array.getElem?_eq_none h'] at hm'
  · intro a ha b hb hab
    rw [List.all_eq_true] at h5
    have := h5 a ha
    rw [List.all_eq_true] at this
    have := this b hb
    simp only [Bool.or_eq_true, bne_iff_ne, ne_eq, decide_eq_true_eq] at this
    rcases this with h | h
    · exact absurd hab h
    · exact h

end Rustemo
