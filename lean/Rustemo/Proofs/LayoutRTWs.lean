import Rustemo.Proofs.Roundtrip
/-!
# Whitespace slices

`WsBytes bs`: the byte string `bs` is a sequence of whole whitespace characters (UTF-8 encodings of
`char::is_whitespace` characters, as `wsCharLen` decodes them).  What `StringLexer::skip` stores as
the layout ahead is such a string.
-/
namespace Rustemo

/-- `c` is the encoding of exactly one whitespace character -/
def WsChar (c : List Nat) : Prop := c ≠ [] ∧ wsCharLen c = c.length

inductive WsBytes : List Nat → Prop where
  | nil : WsBytes []
  | cons (c rest : List Nat) : WsChar c → WsBytes rest → WsBytes (c ++ rest)

/-- the character `wsCharLen` finds at the head of `bs` is a whitespace character by itself -/
theorem wsCharLen_take_self (bs : List Nat) (h : wsCharLen bs ≠ 0) :
    wsCharLen (bs.take (wsCharLen bs)) = wsCharLen bs := by
  cases bs with
  | nil => simp [wsCharLen] at h
  | cons b rest =>
    by_cases h1 : (9 ≤ b ∧ b ≤ 13) ∨ b = 32
    · have e : wsCharLen (b :: rest) = 1 := by simp [wsCharLen, h1]
      rw [e]; simp [wsCharLen, h1]
    · by_cases h2 : b = 0xC2
      · subst h2
        cases rest with
        | nil => simp [wsCharLen] at h
        | cons c r2 =>
          by_cases h3 : c = 0x85 ∨ c = 0xA0
          · have e : wsCharLen (0xC2 :: c :: r2) = 2 := by simp [wsCharLen, h3]
            rw [e]; simp [wsCharLen, h3]
          · have e : wsCharLen (0xC2 :: c :: r2) = 0 := by simp [wsCharLen, h3]
            exact absurd e h
      · by_cases h4 : b = 0xE1
        · subst h4
          match rest, h with
          | [], h => simp [wsCharLen] at h
          | [c], h => simp [wsCharLen] at h
          | c :: d :: r2, h =>
            by_cases h5 : c = 0x9A ∧ d = 0x80
            · obtain ⟨hc, hd⟩ := h5
              subst hc hd
              simp [wsCharLen]
            · exfalso
              apply h
              simp only [wsCharLen]
              simp only [show ¬ ((9 ≤ 0xE1 ∧ 0xE1 ≤ 13) ∨ 0xE1 = 32) by omega, ↓reduceIte]
              simp only [show ¬ (0xE1 = 0xC2) by omega, ↓reduceIte]
              split
              · rename_i heq
                injection heq with a1 a2
                injection a2 with a2 a3
                exact absurd ⟨a1, a2⟩ h5
              · rfl
        · by_cases h6 : b = 0xE2
          · subst h6
            match rest, h with
            | [], h => simp [wsCharLen] at h
            | [c], h => simp [wsCharLen] at h
            | c :: d :: r2, h =>
              by_cases h7 : c = 0x80
              · subst h7
                by_cases h8 : (0x80 ≤ d ∧ d ≤ 0x8A) ∨ d = 0xA8 ∨ d = 0xA9 ∨ d = 0xAF
                · have e : wsCharLen (0xE2 :: 0x80 :: d :: r2) = 3 := by simp [wsCharLen, h8]
                  rw [e]; simp [wsCharLen, h8]
                · have e : wsCharLen (0xE2 :: 0x80 :: d :: r2) = 0 := by simp [wsCharLen, h8]
                  exact absurd e h
              · by_cases h9 : c = 0x81 ∧ d = 0x9F
                · obtain ⟨hc, hd⟩ := h9
                  subst hc hd
                  simp [wsCharLen]
                · exfalso
                  apply h
                  simp only [wsCharLen]
                  simp only [show ¬ ((9 ≤ 0xE2 ∧ 0xE2 ≤ 13) ∨ 0xE2 = 32) by omega, ↓reduceIte]
                  simp only [show ¬ (0xE2 = 0xC2) by omega, show ¬ (0xE2 = 0xE1) by omega, ↓reduceIte]
                  split
                  · rename_i heq
                    injection heq with a1 a2
                    exact absurd a1 h7
                  · rename_i heq
                    injection heq with a1 a2
                    injection a2 with a2 a3
                    exact absurd ⟨a1, a2⟩ h9
                  · rfl
          · by_cases h10 : b = 0xE3
            · subst h10
              match rest, h with
              | [], h => simp [wsCharLen] at h
              | [c], h => simp [wsCharLen] at h
              | c :: d :: r2, h =>
                by_cases h11 : c = 0x80 ∧ d = 0x80
                · obtain ⟨hc, hd⟩ := h11
                  subst hc hd
                  simp [wsCharLen]
                · exfalso
                  apply h
                  simp only [wsCharLen]
                  simp only [show ¬ ((9 ≤ 0xE3 ∧ 0xE3 ≤ 13) ∨ 0xE3 = 32) by omega, ↓reduceIte]
                  simp only [show ¬ (0xE3 = 0xC2) by omega, show ¬ (0xE3 = 0xE1) by omega,
                    show ¬ (0xE3 = 0xE2) by omega, ↓reduceIte]
                  split
                  · rename_i heq
                    injection heq with a1 a2
                    injection a2 with a2 a3
                    exact absurd ⟨a1, a2⟩ h11
                  · rfl
            · exfalso
              apply h
              simp [wsCharLen, h1, h2, h4, h6, h10]

theorem wsPrefix_wsBytes : ∀ (fuel : Nat) (bs : List Nat), WsBytes (bs.take (wsPrefixLen fuel bs))
  | 0, bs => by simp [wsPrefixLen]; exact .nil
  | fuel+1, bs => by
    unfold wsPrefixLen
    simp only
    split
    · simp; exact .nil
    · rename_i h0
      rw [List.take_add]
      refine .cons _ _ ⟨?_, ?_⟩ (wsPrefix_wsBytes fuel (bs.drop (wsCharLen bs)))
      · intro hnil
        have hle := wsCharLen_le bs
        have : (bs.take (wsCharLen bs)).length = wsCharLen bs := by
          simp only [List.length_take]; omega
        rw [hnil] at this
        simp at this
        exact h0 this.symm
      · rw [wsCharLen_take_self bs h0]
        have hle := wsCharLen_le bs
        simp only [List.length_take]; omega

end Rustemo
