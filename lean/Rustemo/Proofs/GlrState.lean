import Rustemo.Proofs.GlrPrim
import Rustemo.Proofs.NoPanic
/-!
# Invariants of the engine state around the GSS: pending reductions, shifts, accepted heads,
sub-frontiers; and the path lemma for `find_reduction_paths`
-/
namespace Rustemo.Glr
open Rustemo

variable {A : Prop}

/-- what the certificate `Cert.glr` establishes about the table -/
structure TableOk (env : Env) : Prop where
  s : StructuralRN env.g env.t (autosOf env.g env.t)
  sym : ∀ s X s', env.t.trans env.g s X s' → env.t.symAt s' = X
  tot : Total env.g env.t 0

theorem main_auto_mem (env : Env) : (⟨0, 0, env.g.startIdx⟩ : Auto) ∈ autosOf env.g env.t := by
  unfold autosOf; exact List.mem_cons_self

/-- a pending reduction: its start head has a lookahead, is on level `F` and its state holds the item
    `(prod, len)` of a production with a nullable tail from `len` on -/
def RedOk (env : Env) (g : Gss) (F : Nat) (r : Reduction) : Prop :=
  ∃ (sh : Head) (pr : Prod), env.g.prods[r.prod]? = some pr ∧ r.len ≤ pr.rhs.length ∧
    (∀ Y ∈ pr.rhs.drop r.len, Nullable env.g Y) ∧ env.g.isAug r.prod = false ∧
    sh.tok.isSome = true ∧ sh.frontier = F ∧ env.t.hasItem sh.state r.prod r.len ∧
    (match r.start with
     | .edge e => ∃ ed : Edge, g.edges[e]? = some ed ∧ g.heads[ed.src]? = some sh ∧ 0 < r.len
     | .node n => g.heads[n]? = some sh ∧ r.len = 0)

def SubOk (g : Gss) (F : Nat) (sub : SubFrontier) : Prop :=
  ∀ s h, (s, h) ∈ sub → ∃ hd : Head, g.heads[h]? = some hd ∧ hd.state = s ∧ hd.frontier = F ∧ hd.tok.isSome = true

def ShiftOk (env : Env) (g : Gss) (F : Nat) (sh : Nat × Nat) : Prop :=
  ∃ (hd : Head) (tk : Tok), g.heads[sh.1]? = some hd ∧ hd.tok = some tk ∧ hd.frontier = F ∧
    Action.shift sh.2 ∈ env.t.cell hd.state tk.kind

def AccOk (env : Env) (g : Gss) (h : Nat) : Prop :=
  ∃ (hd : Head) (tk : Tok), g.heads[h]? = some hd ∧ hd.tok = some tk ∧ Action.accept ∈ env.t.cell hd.state tk.kind

theorem tok_isSome_ext {hd hd' : Head} (ht : ∀ tk, hd.tok = some tk → hd'.tok = some tk)
    (h : hd.tok.isSome = true) : hd'.tok.isSome = true := by
  cases hk : hd.tok with
  | none => rw [hk] at h; simp at h
  | some tk => rw [ht tk hk]; rfl

theorem RedOk.ext {env : Env} {g g' : Gss} {F : Nat} {r : Reduction} (hx : Ext g g') (h : RedOk env g F r) :
    RedOk env g' F r := by
  obtain ⟨sh, pr, hpr, hlen, hnul, haug, htok, hF, hitem, hstart⟩ := h
  cases hs : r.start with
  | edge e =>
    rw [hs] at hstart
    obtain ⟨ed, hed, hsh, hpos⟩ := hstart
    obtain ⟨ed', hed', hsrc, _⟩ := hx.edges e ed hed
    obtain ⟨sh', hsh', hst, hfr, htk⟩ := hx.heads _ sh hsh
    refine ⟨sh', pr, hpr, hlen, hnul, haug, tok_isSome_ext htk htok, by rw [hfr, hF], by rw [hst]; exact hitem, ?_⟩
    rw [hs]
    exact ⟨ed', hed', by rw [hsrc]; exact hsh', hpos⟩
  | node n =>
    rw [hs] at hstart
    obtain ⟨hsh, hz⟩ := hstart
    obtain ⟨sh', hsh', hst, hfr, htk⟩ := hx.heads _ sh hsh
    refine ⟨sh', pr, hpr, hlen, hnul, haug, tok_isSome_ext htk htok, by rw [hfr, hF], by rw [hst]; exact hitem, ?_⟩
    rw [hs]
    exact ⟨hsh', hz⟩

theorem SubOk.ext {g g' : Gss} {F : Nat} {sub : SubFrontier} (hx : Ext g g') (h : SubOk g F sub) : SubOk g' F sub := by
  intro s hh hm
  obtain ⟨hd, hhd, hs, hf, ht⟩ := h s hh hm
  obtain ⟨hd', hhd', hs', hf', ht'⟩ := hx.heads _ hd hhd
  exact ⟨hd', hhd', by rw [hs', hs], by rw [hf', hf], tok_isSome_ext ht' ht⟩

theorem ShiftOk.ext {env : Env} {g g' : Gss} {F : Nat} {sh : Nat × Nat} (hx : Ext g g') (h : ShiftOk env g F sh) :
    ShiftOk env g' F sh := by
  obtain ⟨hd, tk, hhd, htk, hF, hm⟩ := h
  obtain ⟨hd', hhd', hs', hf', ht'⟩ := hx.heads _ hd hhd
  exact ⟨hd', tk, hhd', ht' tk htk, by rw [hf', hF], by rw [hs']; exact hm⟩

theorem AccOk.ext {env : Env} {g g' : Gss} {h : Nat} (hx : Ext g g') (ha : AccOk env g h) : AccOk env g' h := by
  obtain ⟨hd, tk, hhd, htk, hm⟩ := ha
  obtain ⟨hd', hhd', hs', _, ht'⟩ := hx.heads _ hd hhd
  exact ⟨hd', tk, hhd', ht' tk htk, by rw [hs']; exact hm⟩

/-! ## sorted maps: membership after insertion -/

theorem mem_sfInsert {s h : Nat} : ∀ {sub : SubFrontier} {x : Nat × Nat}, x ∈ sfInsert s h sub → x = (s, h) ∨ x ∈ sub
  | [], x, hx => by simp [sfInsert] at hx; exact Or.inl hx
  | (s', h') :: rest, x, hx => by
    simp only [sfInsert] at hx
    split at hx
    · rcases List.mem_cons.mp hx with h1 | h1
      · exact Or.inl h1
      · exact Or.inr h1
    · split at hx
      · rcases List.mem_cons.mp hx with h1 | h1
        · exact Or.inl h1
        · exact Or.inr (List.mem_cons_of_mem _ h1)
      · rcases List.mem_cons.mp hx with h1 | h1
        · exact Or.inr (by rw [h1]; exact List.mem_cons_self)
        · rcases mem_sfInsert h1 with h2 | h2
          · exact Or.inl h2
          · exact Or.inr (List.mem_cons_of_mem _ h2)

theorem sfGet_mem {s h : Nat} {sub : SubFrontier} (hg : sfGet s sub = some h) : (s, h) ∈ sub := by
  unfold sfGet at hg
  cases hf : sub.find? (fun e => e.1 == s) with
  | none => rw [hf] at hg; simp at hg
  | some e =>
    rw [hf] at hg
    simp only [Option.map_some, Option.some.injEq] at hg
    have h1 := List.mem_of_find?_eq_some hf
    have h2 := List.find?_some hf
    simp only [beq_iff_eq] at h2
    have : e = (s, h) := by cases e; simp_all
    rw [← this]; exact h1

theorem SubOk.insert {g : Gss} {F : Nat} {sub : SubFrontier} {s h : Nat} (hs : SubOk g F sub)
    (hd : Head) (hh : g.heads[h]? = some hd) (h1 : hd.state = s) (h2 : hd.frontier = F) (h3 : hd.tok.isSome = true) :
    SubOk g F (sfInsert s h sub) := by
  intro s' h' hm
  rcases mem_sfInsert hm with heq | hold
  · injection heq with e1 e2; subst e1 e2
    exact ⟨hd, hh, h1, h2, h3⟩
  · exact hs s' h' hold

/-- every sub-frontier of a frontier -/
def FrontierOk (g : Gss) (F : Nat) (fr : Frontier) : Prop := ∀ k sub, (k, sub) ∈ fr → SubOk g F sub

theorem FrontierOk.insert {g : Gss} {F : Nat} {k : Pos × Nat} {s h : Nat} (hd : Head)
    (hh : g.heads[h]? = some hd) (h1 : hd.state = s) (h2 : hd.frontier = F) (h3 : hd.tok.isSome = true) :
    ∀ {fr : Frontier}, FrontierOk g F fr → FrontierOk g F (frInsert k s h fr)
  | [], _ => by
    intro k' sub hm
    simp only [frInsert, List.mem_singleton] at hm
    injection hm with _ e2
    rw [e2]
    intro s' h' hm'
    simp only [List.mem_singleton] at hm'
    injection hm' with e3 e4
    rw [e3, e4]
    exact ⟨hd, hh, h1, h2, h3⟩
  | (k0, sf) :: rest, hf => by
    have hsingle : SubOk g F [(s, h)] := by
      intro s' h' hm'
      simp only [List.mem_singleton] at hm'
      injection hm' with e3 e4
      rw [e3, e4]
      exact ⟨hd, hh, h1, h2, h3⟩
    intro k' sub hm
    simp only [frInsert] at hm
    split at hm
    · rcases List.mem_cons.mp hm with hm | hm
      · injection hm with _ e2
        rw [e2]; exact hsingle
      · exact hf k' sub hm
    · split at hm
      · rcases List.mem_cons.mp hm with hm | hm
        · injection hm with _ e2
          rw [e2]
          exact SubOk.insert (hf k0 sf List.mem_cons_self) hd hh h1 h2 h3
        · exact hf k' sub (List.mem_cons_of_mem _ hm)
      · rcases List.mem_cons.mp hm with hm | hm
        · injection hm with e1 e2
          rw [e2]
          exact hf k0 sf List.mem_cons_self
        · exact FrontierOk.insert hd hh h1 h2 h3 (fr := rest) (fun k sub hm => hf k sub (List.mem_cons_of_mem _ hm)) k' sub hm

theorem FrontierOk.ext {g g' : Gss} {F : Nat} {fr : Frontier} (hx : Ext g g') (h : FrontierOk g F fr) :
    FrontierOk g' F fr := fun k sub hm => (h k sub hm).ext hx

/-! ## the path lemma -/

/-- a (pending) reduction path with the dot at position `d` -/
structure PathOk (env : Env) (g : Gss) (p len : Nat) (pr : Prod) (j d : Nat) (path : Path) : Prop where
  item : ∃ hr : Head, g.heads[path.root]? = some hr ∧ env.t.hasItem hr.state p d
  dlen : d + path.parents.length = len
  chain : ChildrenOk env.t g path.parents ((pr.rhs.take len).drop d) path.root j

theorem PathOk.ext {env : Env} {g g' : Gss} {p len : Nat} {pr : Prod} {j d : Nat} {path : Path} (hx : Ext g g')
    (h : PathOk env g p len pr j d path) : PathOk env g' p len pr j d path := by
  obtain ⟨⟨hr, hhr, hi⟩, hl, hc⟩ := h
  obtain ⟨hr', hhr', hs, _, _⟩ := hx.heads _ hr hhr
  exact ⟨⟨hr', hhr', by rw [hs]; exact hi⟩, hl, ChildrenOk.ext hx _ _ _ _ hc⟩

theorem expandOne_ok {env : Env} {g : Gss} {x : Option Nat} (hT : TableOk env) (hg : GInvX env g x) {p len : Nat} {pr : Prod}
    (hpr : env.g.prods[p]? = some pr) (hlen : len ≤ pr.rhs.length) {j d : Nat} {path : Path}
    (h : PathOk env g p len pr j (d+1) path) : ∀ q ∈ expandOne g path, PathOk env g p len pr j d q := by
  intro q hq
  unfold expandOne at hq
  rw [List.mem_filterMap] at hq
  obtain ⟨e, he, hq⟩ := hq
  obtain ⟨ed, hed, hsrc⟩ := mem_backedges.mp he
  rw [hed] at hq
  injection hq with hq; subst hq
  obtain ⟨⟨hr, hhr, hi⟩, hl, hc⟩ := h
  obtain ⟨hs, hd, hhs, hhd, htr, _⟩ := (hg.edges e ed hed).ends
  rw [hsrc, hhr] at hhs; injection hhs with hhs; subst hhs
  obtain ⟨⟨pr', hpr', hX⟩, hi'⟩ := hT.s.target_items _ _ _ p d htr hi
  rw [hpr] at hpr'; injection hpr' with hpr'; subst hpr'
  have hdl : d < len := by omega
  refine ⟨⟨hd, hhd, hi'⟩, by simp; omega, ?_⟩
  have hdrop : (pr.rhs.take len).drop d = env.t.symAt hr.state :: (pr.rhs.take len).drop (d+1) := by
    have hlt : d < (pr.rhs.take len).length := by simp; omega
    rw [List.drop_eq_getElem_cons hlt]
    congr 1
    have : (pr.rhs.take len)[d]? = some (env.t.symAt hr.state) := by
      rw [List.getElem?_take]; simp [hdl, hX]
    rw [List.getElem?_eq_getElem hlt] at this
    exact Option.some.inj this
  rw [hdrop]
  exact ⟨ed, hr, _, _, hed, by rw [hsrc]; exact hhr, rfl, rfl, rfl, by rw [hsrc]; exact hc⟩

theorem expandPaths_ok {env : Env} {g : Gss} {x : Option Nat} (hT : TableOk env) (hg : GInvX env g x) {p len : Nat} {pr : Prod}
    (hpr : env.g.prods[p]? = some pr) (hlen : len ≤ pr.rhs.length) {j : Nat} :
    ∀ (n d : Nat) (ps : List Path), (∀ q ∈ ps, PathOk env g p len pr j (d+n) q) →
      ∀ q ∈ expandPaths g n ps, PathOk env g p len pr j d q
  | 0, d, ps, h => by simpa [expandPaths] using h
  | n+1, d, ps, h => by
    simp only [expandPaths]
    apply expandPaths_ok hT hg hpr hlen n d
    intro q hq
    rw [List.mem_flatMap] at hq
    obtain ⟨q0, hq0, hq⟩ := hq
    have := h q0 hq0
    rw [show d + (n + 1) = (d + n) + 1 by omega] at this
    exact expandOne_ok hT hg hpr hlen this q hq

/-- all paths found for a pending reduction are complete chains over the production's right-hand side
    prefix, ending in a state that holds the initial item -/
theorem findReductionPaths_ok {env : Env} {g : Gss} {x : Option Nat} (hT : TableOk env) (hg : GInvX env g x) {F : Nat}
    {r : Reduction} (hr : RedOk env g F r) :
    ∃ pr, env.g.prods[r.prod]? = some pr ∧
      Sat A (fun paths => ∀ q ∈ paths, PathOk env g r.prod r.len pr F 0 q) (findReductionPaths g r) := by
  obtain ⟨sh, pr, hpr, hlen, hnul, haug, htok, hF, hitem, hstart⟩ := hr
  refine ⟨pr, hpr, ?_⟩
  unfold findReductionPaths
  cases hs : r.start with
  | node n =>
    rw [hs] at hstart
    obtain ⟨hsh, hz⟩ := hstart
    simp only
    intro q hq
    simp only [List.mem_singleton] at hq
    subst hq
    refine ⟨⟨sh, hsh, by rw [← hz]; exact hitem⟩, by simp [hz], ?_⟩
    simp only [hz, List.take_zero, List.drop_nil]
    exact ⟨rfl, sh, hsh, hF⟩
  | edge e =>
    rw [hs] at hstart
    obtain ⟨ed, hed, hsh, hpos⟩ := hstart
    simp only
    rw [edge_sat' g e ed hed]
    simp only [obind]
    show ∀ q ∈ expandPaths g (r.len - 1) [⟨[e], ed.dst⟩], _
    apply expandPaths_ok hT hg hpr hlen (r.len - 1) 0
    intro q hq
    simp only [List.mem_singleton] at hq
    subst hq
    -- one step back over the start edge
    have h0 : PathOk env g r.prod r.len pr F ((r.len - 1) + 1) ⟨[], ed.src⟩ := by
      refine ⟨⟨sh, hsh, by rw [show r.len - 1 + 1 = r.len by omega]; exact hitem⟩, by simp; omega, ?_⟩
      rw [show r.len - 1 + 1 = r.len by omega]
      simp only [List.drop_take_self]
      exact ⟨rfl, sh, hsh, hF⟩
    have := expandOne_ok hT hg hpr hlen h0 ⟨[e], ed.dst⟩ (by
      unfold expandOne
      rw [List.mem_filterMap]
      exact ⟨e, mem_backedges.mpr ⟨ed, hed, rfl⟩, by rw [hed]⟩)
    simpa using this

end Rustemo.Glr
