import Rustemo.Proofs.ViableCert
import Rustemo.Proofs.ViablePrefix
/-!
# Valid-prefix property, half 2: "no late error" — every stack of the automaton spells a viable prefix

If the stack is a path of a structurally certified automaton (`PathInv`), the top state holds an item
`[q: α.β]`; by the path lemma the top `|α|` entries spell `α`, below them sits a state with `[q: .αβ]`,
which (closure provenance, `Anch`) is demanded by an item `[r: γ.Aδ]` of that state, and so on down to
the augmented item in the start state below the empty stack.  Every symbol still to come (`β`, `δ`, …)
derives a terminal string (`Productive`).  Gluing the trees on the stack, the trees of the pending
symbols and the productions of the chain gives a derivation tree of the start symbol whose yield
begins with the yield of the stack (`viable_item`).  Hence the tokens shifted so far are always a
prefix of a sentence (`cinv_viable`): the parser never *shifts* a token that cannot continue a
sentence — merged LALR lookaheads can only delay the error by reductions.
-/
namespace Rustemo

theorem flatten_yields_append (l1 l2 : List Tree) :
    ((l1 ++ l2).map Tree.yield).flatten = (l1.map Tree.yield).flatten ++ (l2.map Tree.yield).flatten := by
  simp

theorem validList_of_drop (g : Grammar) (hP : Productive g) (p : Nat) (pr : Prod)
    (hp : g.prods[p]? = some pr) (d : Nat) : ∃ l : List Tree, ValidList g l (pr.rhs.drop d) :=
  validList_of_hasTree g _ (fun X hX => hP p pr hp X (List.mem_of_mem_drop hX))

/-- the stack below an entry cannot have the start state of an automaton on top of a non-empty stack -/
theorem stack_nil_of_top_start (g : Grammar) (t : Table) (autos : List Auto) (hs : Structural g t autos)
    (a : Auto) (ha : a ∈ autos) (start : Nat) (st : List (Nat × Tree)) (hp : PathInv g t start st)
    (htop : topOf start st = a.start) : st = [] := by
  cases st with
  | nil => rfl
  | cons e below =>
    obtain ⟨s1, tr⟩ := e
    obtain ⟨⟨X, _, htr⟩, _⟩ := hp
    simp only [topOf] at htop
    rw [htop] at htr
    exact absurd htr (hs.no_into_start a ha _ _)

/-- **Viable-prefix lemma.**  An item `[q: α.β]` in the top state of a stack that is a path of the
    automaton, together with derivation trees `ts` for `β`, extends to a derivation tree of the start
    symbol whose yield is `yield(stack) ++ yield(ts) ++ rest` for some `rest`. -/
theorem viable_item (g : Grammar) (t : Table) (autos : List Auto) (hs : Structural g t autos)
    (hA : Anchored g t autos) (hP : Productive g)
    (au : Auto) (hin : au ∈ autos) (start : Nat) (hstart : start = au.start)
    (haug : ∃ pr, g.prods[au.aug]? = some pr ∧ pr.rhs = [au.sym]) :
    ∀ (n : Nat) (st : List (Nat × Tree)), st.length = n → PathInv g t start st →
      ∀ q e, Anch g t autos (topOf start st) q e → t.hasItem (topOf start st) q e →
      ∀ prq, g.prods[q]? = some prq → ∀ ts : List Tree, ValidList g ts (prq.rhs.drop e) →
      ∃ (T : Tree) (rest : List Nat), T.Valid g au.sym ∧
        T.yield = yields st ++ (ts.map Tree.yield).flatten ++ rest := by
  intro n
  induction n using Nat.strongRecOn with
  | _ n ih =>
    intro st hlen hpath q e hanch
    induction hanch with
    | kernel q d hi0 =>
      intro hi prq hprq ts hts
      obtain ⟨hle, h0, pr, hpr, hvl, hdl⟩ :=
        path_lemma g t autos hs au hin start hstart (d+1) st q hpath hi
      have : pr = prq := by rw [hprq] at hpr; exact (Option.some.inj hpr).symm
      subst this
      have hlen' : (st.drop (d+1)).length < n := by simp only [List.length_drop]; omega
      have hvl' : ValidList g ((st.take (d+1)).reverse.map (·.2) ++ ts) (pr.rhs.drop 0) := by
        have := validList_append g _ _ _ _ hvl hts
        rwa [List.take_append_drop] at this
      obtain ⟨T, rest, hT, hy⟩ := ih _ hlen' (st.drop (d+1)) rfl (pathInv_drop g t start st (d+1) hpath)
        q 0 (hA _ q 0 h0) h0 pr hprq _ hvl'
      refine ⟨T, rest, hT, ?_⟩
      rw [hy, flatten_yields_append, yields_take_drop st (d+1)]
      simp [List.append_assoc]
    | aug a ha hsa hia =>
      intro _ prq hprq ts hts
      have hnil := stack_nil_of_top_start g t autos hs a ha start st hpath hsa
      subst hnil
      have hau : a = au := hs.distinct a ha au hin (by rw [← hsa, ← hstart]; rfl)
      subst hau
      obtain ⟨pr, hpr, hrhs⟩ := haug
      have : pr = prq := by rw [hprq] at hpr; exact (Option.some.inj hpr).symm
      subst this
      rw [hrhs] at hts
      simp only [List.drop_zero] at hts
      cases ts with
      | nil => simp [ValidList] at hts
      | cons T ts' =>
        obtain ⟨X, Xs', hX, hv, hl⟩ := hts
        injection hX with hX1 hX2
        subst hX1 hX2
        cases ts' with
        | nil => exact ⟨T, [], hv, by simp [yields]⟩
        | cons T2 ts'' =>
          obtain ⟨_, _, hX', _, _⟩ := hl
          simp at hX'
    | clos q e p prq pr _ hiq hprq hpr hrhs hip ihq =>
      intro _ prp hprp ts hts
      have : prp = pr := by rw [hpr] at hprp; exact (Option.some.inj hprp).symm
      subst this
      simp only [List.drop_zero] at hts
      obtain ⟨ts2, hts2⟩ := validList_of_drop g hP q prq hprq (e+1)
      have hTp : (Tree.mk p ts).Valid g prp.lhs := by
        simp only [Tree.mk, Tree.Valid]
        exact ⟨prp, hpr, rfl, validList_ofList g ts prp.rhs hts⟩
      have hdrop : prq.rhs.drop e = prp.lhs :: prq.rhs.drop (e+1) := by
        have hlt : e < prq.rhs.length := by
          rcases Nat.lt_or_ge e prq.rhs.length with h | h
          · exact h
          · simp [List.getElem?_eq_none h] at hrhs
        rw [List.drop_eq_getElem_cons hlt]
        congr 1
        rw [List.getElem?_eq_getElem hlt] at hrhs
        exact Option.some.inj hrhs
      have hvl : ValidList g (Tree.mk p ts :: ts2) (prq.rhs.drop e) := by
        rw [hdrop]; exact ⟨prp.lhs, _, rfl, hTp, hts2⟩
      obtain ⟨T, rest, hT, hy⟩ := ihq hiq prq hprq _ hvl
      refine ⟨T, (ts2.map Tree.yield).flatten ++ rest, hT, ?_⟩
      rw [hy]
      simp [Tree.mk, Tree.yield, yield_ofList, List.append_assoc]

/-- the top state of a path of the automaton has an item -/
theorem top_has_item (g : Grammar) (t : Table) (hN : NonEmptyTargets g t) (st : List (Nat × Tree))
    (hp : PathInv g t 0 st) : ∃ p d, t.hasItem (topOf 0 st) p d := by
  cases st with
  | nil => exact hN.start
  | cons e below =>
    obtain ⟨s1, tr⟩ := e
    obtain ⟨⟨X, _, htr⟩, _⟩ := hp
    exact hN.target _ X s1 htr

/-- **No late error**: the tokens shifted so far are a prefix of a sentence, in every configuration
    satisfying the soundness invariant (in particular in every configuration of every run). -/
theorem cinv_viable (g : Grammar) (t : Table) (autos : List Auto) (hs : Structural g t autos)
    (hA : Anchored g t autos) (hP : Productive g) (hN : NonEmptyTargets g t)
    (hin : (⟨0, 0, g.startIdx⟩ : Auto) ∈ autos)
    (haug : ∃ pr, g.prods[0]? = some pr ∧ pr.rhs = [g.startIdx])
    (c : CCfg) (hinv : CInv g t 0 c) : ViablePrefix g c.shifted.reverse := by
  obtain ⟨p, d, hi⟩ := top_has_item g t hN c.stack hinv.path
  obtain ⟨pr, hpr, _⟩ := hs.item_prod _ p d hi
  obtain ⟨ts, hts⟩ := validList_of_drop g hP p pr hpr d
  obtain ⟨T, rest, hT, hy⟩ := viable_item g t autos hs hA hP ⟨0, 0, g.startIdx⟩ hin 0 rfl haug
    c.stack.length c.stack rfl hinv.path p d (hA _ p d hi) hi pr hpr ts hts
  refine ⟨(ts.map Tree.yield).flatten ++ rest, T, hT, ?_⟩
  rw [hy, hinv.yld, List.append_assoc]

/-- every configuration reached from the initial one on input `w` has shifted a viable prefix of `w` -/
theorem reaches_viable (g : Grammar) (t : Table) (autos : List Auto) (hs : Structural g t autos)
    (hA : Anchored g t autos) (hP : Productive g) (hN : NonEmptyTargets g t)
    (hin : (⟨0, 0, g.startIdx⟩ : Auto) ∈ autos)
    (haug : ∃ pr, g.prods[0]? = some pr ∧ pr.rhs = [g.startIdx])
    (w : List Nat) (c : TCfg) (hr : Reaches g t ⟨⟨[], []⟩, w⟩ c) :
    c.c.shifted.reverse ++ c.rest = w ∧ ViablePrefix g c.c.shifted.reverse := by
  have hinv := reaches_tinv g t autos hs ⟨0, 0, g.startIdx⟩ hin rfl w hr (tinv_init g t w)
  exact ⟨hinv.split, cinv_viable g t autos hs hA hP hN hin haug c.c hinv.cinv⟩

end Rustemo
