import Rustemo.Proofs.GlrClosure12
/-!
# Composition of growth steps; the three stages of a new solution
-/
namespace Rustemo.Glr
open Rustemo

theorem Grow.trans {a b c : RState} {nh1 nh2 nh ne1 ne2 ne : Option Nat} {hA u0 : Nat}
    (h1 : Grow a b nh1 ne1 hA u0) (h2 : Grow b c nh2 ne2 hA u0)
    (hnh : (nh1 = nh ∧ nh2 = none) ∨ (nh1 = none ∧ nh2 = nh))
    (hne : (ne1 = ne ∧ ne2 = none) ∨ (ne1 = none ∧ ne2 = ne)) : Grow a c nh ne hA u0 := by
  constructor
  · intro i hd h; exact h2.heads_old i hd (h1.heads_old i hd h)
  · intro i hd h
    rcases h2.heads_new i hd h with k | k
    · rcases h1.heads_new i hd k with k' | k'
      · exact Or.inl k'
      · right
        rcases hnh with ⟨e1, _⟩ | ⟨e1, _⟩
        · rw [← e1]; exact k'
        · rw [e1] at k'; simp at k'
    · right
      rcases hnh with ⟨_, e2⟩ | ⟨_, e2⟩
      · rw [e2] at k; simp at k
      · rw [← e2]; exact k
  · intro e ed h
    obtain ⟨ed1, k1, k2, k3, k4⟩ := h1.edges_old e ed h
    obtain ⟨ed2, m1, m2, m3, m4⟩ := h2.edges_old e ed1 k1
    exact ⟨ed2, m1, by rw [m2, k2], by rw [m3, k3], fun n hn => m4 n (k4 n hn)⟩
  · intro e ed' h
    rcases h2.edges_new e ed' h with ⟨ed1, k1, k2, k3⟩ | ⟨k1, k2, k3⟩
    · rcases h1.edges_new e ed1 k1 with ⟨ed0, m1, m2, m3⟩ | ⟨m1, m2, m3⟩
      · exact Or.inl ⟨ed0, m1, by rw [m2, k2], by rw [m3, k3]⟩
      · right
        refine ⟨?_, by rw [← k2, m2], by rw [← k3, m3]⟩
        rcases hne with ⟨e1, _⟩ | ⟨e1, _⟩
        · rw [← e1]; exact m1
        · rw [e1] at m1; simp at m1
    · right
      refine ⟨?_, k2, k3⟩
      rcases hne with ⟨_, e2⟩ | ⟨_, e2⟩
      · rw [e2] at k1; simp at k1
      · rw [← e2]; exact k1
  · intro x h; exact h2.sub_old x (h1.sub_old x h)
  · intro x h
    rcases h2.sub_new x h with k | k
    · rcases h1.sub_new x k with k' | k'
      · exact Or.inl k'
      · right
        rcases hnh with ⟨e1, _⟩ | ⟨e1, _⟩
        · rw [← e1]; exact k'
        · rw [e1] at k'; simp at k'
    · right
      rcases hnh with ⟨_, e2⟩ | ⟨_, e2⟩
      · rw [e2] at k; simp at k
      · rw [← e2]; exact k
  · intro r h; exact h2.queue r (h1.queue r h)
  · intro i hi
    rcases hnh with ⟨e1, _⟩ | ⟨_, e2⟩
    · exact h1.nh_fresh i (by rw [e1]; exact hi)
    · have := h2.nh_fresh i (by rw [e2]; exact hi)
      cases hx : a.gss.heads[i]? with
      | none => rfl
      | some hd => rw [h1.heads_old i hd hx] at this; simp at this
  · intro e he
    rcases hne with ⟨e1, _⟩ | ⟨_, e2⟩
    · exact h1.ne_fresh e (by rw [e1]; exact he)
    · have := h2.ne_fresh e (by rw [e2]; exact he)
      cases hx : a.gss.edges[e]? with
      | none => rfl
      | some ed =>
        obtain ⟨ed1, k1, _⟩ := h1.edges_old e ed hx
        rw [k1] at this; simp at this

theorem Grow.refl (rs : RState) (hA u0 : Nat) : Grow rs rs none none hA u0 :=
  ⟨fun _ _ h => h, fun _ _ h => Or.inl h, fun _ ed h => ⟨ed, h, rfl, rfl, fun _ hn => hn⟩,
   fun _ ed h => Or.inl ⟨ed, h, rfl, rfl⟩, fun _ h => h, fun _ h => Or.inl h, fun _ h => h,
   fun _ h => by simp at h, fun _ h => by simp at h⟩

/-- stage 1: the head of the goto state, found or created -/
theorem grow_head {rs : RState} {sh : Head} {s' : Nat} {g1 : Gss} {sub1 : SubFrontier} {hA : Nat} {hc : Bool}
    (h : findOrCreateHead rs.gss rs.sub sh s' = .ok (g1, sub1, hA, hc)) (u0 : Nat) :
    Grow rs { rs with gss := g1, sub := sub1 } (if hc then some hA else none) none hA u0 ∧
    g1.edges = rs.gss.edges ∧ g1.nodes = rs.gss.nodes ∧
    (hc = false → g1 = rs.gss ∧ sub1 = rs.sub ∧ sfGet s' rs.sub = some hA) ∧
    (hc = true → sfGet s' rs.sub = none ∧ hA = rs.gss.heads.size ∧
      g1 = (rs.gss.addHead { sh with state := s' }).1 ∧ sub1 = sfInsert s' rs.gss.heads.size rs.sub) := by
  rcases findOrCreateHead_inv h with ⟨hget, heq⟩ | ⟨hget, heq⟩
  · simp only at hget
    injection heq with e1 e2
    injection e2 with e2 e3
    injection e3 with e3 e4
    subst e1 e2 e4
    refine ⟨by simpa using Grow.refl rs hA u0, rfl, rfl, fun _ => ⟨rfl, rfl, hget⟩, fun h => by simp at h⟩
  · injection heq with e1 e2
    injection e2 with e2 e3
    injection e3 with e3 e4
    subst e1 e2 e3 e4
    refine ⟨?_, rfl, rfl, fun h => by simp at h, fun _ => ⟨hget, rfl, rfl, rfl⟩⟩
    simp only [↓reduceIte]
    constructor
    · intro i hd hi
      simp only
      rw [addHead_heads]
      have := lt_of_getElem?_some hi
      have : ¬ i = rs.gss.heads.size := by omega
      simp [this, hi]
    · intro i hd hi
      simp only at hi
      rw [addHead_heads] at hi
      split at hi
      · rename_i heq; right; rw [heq]
      · exact Or.inl hi
    · intro e ed he; exact ⟨ed, he, rfl, rfl, fun _ hn => hn⟩
    · intro e ed he; exact Or.inl ⟨ed, he, rfl, rfl⟩
    · intro x hx
      simp only
      apply mem_sfInsert_of_mem hx
      intro heq
      have := sfGet_none hget x.2
      apply this
      rw [← heq]
      exact hx
    · intro x hx
      simp only at hx
      rcases mem_sfInsert hx with k | k
      · right; rw [k]
      · exact Or.inl k
    · intro r hr; exact hr
    · intro i hi
      injection hi with hi
      subst hi
      exact Array.getElem?_eq_none (Nat.le_refl _)
    · intro e he; simp at he

/-- stage 2: the edge down to the root, found or created -/
theorem grow_edge (rs1 : RState) (hA u0 : Nat) :
    Grow rs1 { rs1 with gss := (findOrCreateEdge rs1.gss hA u0).1 } none
      (if (findOrCreateEdge rs1.gss hA u0).2.2 then some (findOrCreateEdge rs1.gss hA u0).2.1 else none) hA u0 ∧
    (findOrCreateEdge rs1.gss hA u0).1.heads = rs1.gss.heads ∧
    (findOrCreateEdge rs1.gss hA u0).1.nodes = rs1.gss.nodes ∧
    ((findOrCreateEdge rs1.gss hA u0).2.2 = false →
      (findOrCreateEdge rs1.gss hA u0).1 = rs1.gss ∧ rs1.gss.edgeBetween hA u0 = some (findOrCreateEdge rs1.gss hA u0).2.1) ∧
    ((findOrCreateEdge rs1.gss hA u0).2.2 = true →
      rs1.gss.edgeBetween hA u0 = none ∧ (findOrCreateEdge rs1.gss hA u0).2.1 = rs1.gss.edges.size ∧
      (findOrCreateEdge rs1.gss hA u0).1 = (rs1.gss.addEdge hA u0 []).1) := by
  unfold findOrCreateEdge
  cases hb : rs1.gss.edgeBetween hA u0 with
  | some e =>
    refine ⟨by simpa using Grow.refl rs1 hA u0, rfl, rfl, fun _ => ⟨rfl, rfl⟩, fun h => by simp at h⟩
  | none =>
    refine ⟨?_, rfl, rfl, fun h => by simp at h, fun _ => ⟨rfl, rfl, rfl⟩⟩
    simp only [↓reduceIte]
    constructor
    · intro i hd hi; exact hi
    · intro i hd hi; exact Or.inl hi
    · intro e ed he
      simp only
      refine ⟨ed, ?_, rfl, rfl, fun _ hn => hn⟩
      rw [addEdge_edges]
      have := lt_of_getElem?_some he
      have : ¬ e = rs1.gss.edges.size := by omega
      simp [this, he]
    · intro e ed' he
      simp only at he
      rw [addEdge_edges] at he
      split at he
      · rename_i heq
        injection he with he; subst he
        exact Or.inr ⟨by rw [heq]; rfl, rfl, rfl⟩
      · exact Or.inl ⟨ed', he, rfl, rfl⟩
    · intro x hx; exact hx
    · intro x hx; exact Or.inl hx
    · intro r hr; exact hr
    · intro i hi; simp at hi
    · intro e he
      injection he with he
      rw [← he]
      exact Array.getElem?_eq_none (Nat.le_refl _)

/-- stage 3: the new node is packed, the actions are registered -/
theorem grow_push (rs2 rs' : RState) (e : Nat) (ed : Edge) (hed : rs2.gss.edges[e]? = some ed) (nd : SNode) (hA u0 : Nat)
    (hgss : rs'.gss = (rs2.gss.addNode nd).1.pushPoss e rs2.gss.nodes.size) (hsub : rs'.sub = rs2.sub)
    (hq : ∀ r ∈ rs2.queue, r ∈ rs'.queue) : Grow rs2 rs' none none hA u0 := by
  have hed' : (rs2.gss.addNode nd).1.edges[e]? = some ed := hed
  constructor
  · intro i hd hi; rw [hgss]; simpa using hi
  · intro i hd hi; left; rw [hgss] at hi; simpa using hi
  · intro e' ed' he'
    rw [hgss, pushPoss_edges _ e _ ed hed']
    by_cases h : e' = e
    · subst h
      rw [hed] at he'; injection he' with he'; subst he'
      exact ⟨{ ed with poss := ed.poss ++ [rs2.gss.nodes.size] }, by simp, rfl, rfl, fun n hn => by simp [hn]⟩
    · exact ⟨ed', by simp [h]; exact he', rfl, rfl, fun _ hn => hn⟩
  · intro e' ed' he'
    rw [hgss, pushPoss_edges _ e _ ed hed'] at he'
    left
    split at he'
    · rename_i heq; subst heq
      injection he' with he'; subst he'
      exact ⟨ed, hed, rfl, rfl⟩
    · exact ⟨ed', he', rfl, rfl⟩
  · intro x hx; rw [hsub]; exact hx
  · intro x hx; rw [hsub] at hx; exact Or.inl hx
  · exact hq
  · intro i hi; simp at hi
  · intro e' he'; simp at he'

end Rustemo.Glr
