import Rustemo.Proofs.GlrAll
/-!
# Trees of the SPPF graph: `InForest g n tr` (some unfolding depth has `tr` in its enumeration), its
composition rule, monotonicity in the depth, stabilisation without cut, and the link to `getTree`
-/
namespace Rustemo.Glr
open Rustemo

theorem mem_all_listToDN : ∀ (l : List DNode) (tr : Tree), tr ∈ (listToDN l).all ↔ ∃ d ∈ l, tr ∈ d.all
  | [], tr => by simp [listToDN, DNList.all]
  | d :: rest, tr => by
    simp only [listToDN, DNList.all, List.mem_append, mem_all_listToDN rest tr, List.mem_cons]
    constructor
    · rintro (h | ⟨d', hd', h⟩)
      · exact ⟨d, Or.inl rfl, h⟩
      · exact ⟨d', Or.inr hd', h⟩
    · rintro ⟨d', rfl | hd', h⟩
      · exact Or.inl h
      · exact Or.inr ⟨d', hd', h⟩

theorem mem_all_listToDP : ∀ (ps : List DParent) (ts : List Tree),
    ts ∈ (listToDP ps).all ↔ All2 (fun p t => t ∈ DParent.all p) ps ts
  | [], ts => by
    simp only [listToDP, DPList.all, List.mem_singleton]
    cases ts <;> simp [All2]
  | p :: rest, ts => by
    simp only [listToDP, DPList.all, List.mem_flatMap, List.mem_map]
    constructor
    · rintro ⟨t, ht, ts', hts', rfl⟩
      exact ⟨ht, (mem_all_listToDP rest ts').mp hts'⟩
    · intro h
      cases ts with
      | nil => exact h.elim
      | cons t ts' => exact ⟨t, h.1, ts', (mem_all_listToDP rest ts').mpr h.2, rfl⟩

theorem All2.imp {α β : Type} {R S : α → β → Prop} (h : ∀ a b, R a b → S a b) :
    ∀ {as : List α} {bs : List β}, All2 R as bs → All2 S as bs
  | [], [], _ => trivial
  | [], _ :: _, h' => h'.elim
  | _ :: _, [], h' => h'.elim
  | _ :: _, _ :: _, h' => ⟨h _ _ h'.1, All2.imp h h'.2⟩

theorem All2.map_left {α β γ : Type} {R : γ → β → Prop} (f : α → γ) :
    ∀ {as : List α} {bs : List β}, All2 R (as.map f) bs ↔ All2 (fun a b => R (f a) b) as bs
  | [], [] => by simp [All2]
  | [], _ :: _ => by simp [All2]
  | _ :: _, [] => by simp [All2]
  | a :: as, b :: bs => by simp only [List.map_cons, All2, All2.map_left f (as := as) (bs := bs)]

theorem unfoldNode_succ (g : Gss) (k n : Nat) : unfoldNode g (k+1) n =
    (match g.nodes[n]? with
     | some (.term tk _) => DNode.term tk
     | some (.nonterm p sp _ ch) =>
       DNode.nonterm p sp (listToDP (ch.map fun e => DParent.mk (listToDN ((possOf g e).map (unfoldNode g k)))))
     | none => DNode.cut) := rfl

/-- `tr` is a tree of node `n` unfolded to depth `k` -/
def InU (g : Gss) (k n : Nat) (tr : Tree) : Prop := tr ∈ (unfoldNode g k n).all

theorem inU_term {g : Gss} {k n : Nat} {tk : Tok} {sp : Span} (h : g.nodes[n]? = some (.term tk sp)) :
    InU g (k+1) n (.leaf tk.kind tk.span tk.val none) := by
  unfold InU; rw [unfoldNode_succ, h]; simp [DNode.all]

/-- composition: one tree per parent link of the children list -/
theorem inU_nonterm {g : Gss} {k n p : Nat} {sp : Span} {l : Option Slice} {ch : List Nat} {trs : List Tree}
    (h : g.nodes[n]? = some (.nonterm p sp l ch))
    (hc : All2 (fun e t => ∃ m ∈ possOf g e, InU g k m t) ch trs) :
    InU g (k+1) n (.node p sp none (TreeList.ofList trs)) := by
  unfold InU; rw [unfoldNode_succ, h]
  simp only [DNode.all, List.mem_map]
  refine ⟨trs, ?_, rfl⟩
  rw [mem_all_listToDP, All2.map_left]
  apply All2.imp _ hc
  rintro e t ⟨m, hm, hin⟩
  simp only [DParent.all]
  rw [mem_all_listToDN]
  exact ⟨unfoldNode g k m, List.mem_map.mpr ⟨m, hm, rfl⟩, hin⟩

/-- deeper unfoldings only add trees -/
theorem inU_mono {g : Gss} : ∀ (k n : Nat) (tr : Tree), InU g k n tr → InU g (k+1) n tr
  | 0, n, tr, h => by simp [InU, unfoldNode, DNode.all] at h
  | k+1, n, tr, h => by
    unfold InU at h ⊢
    rw [unfoldNode_succ] at h
    rw [unfoldNode_succ g (k+1) n]
    cases hnd : g.nodes[n]? with
    | none => rw [hnd] at h; simp [DNode.all] at h
    | some nd =>
      rw [hnd] at h
      cases nd with
      | term tk sp => exact h
      | nonterm p sp l ch =>
        simp only [DNode.all, List.mem_map] at h ⊢
        obtain ⟨ts, hts, rfl⟩ := h
        refine ⟨ts, ?_, rfl⟩
        rw [mem_all_listToDP, All2.map_left] at hts ⊢
        apply All2.imp _ hts
        intro e t ht
        simp only [DParent.all] at ht ⊢
        rw [mem_all_listToDN] at ht ⊢
        obtain ⟨d, hd, hin⟩ := ht
        rw [List.mem_map] at hd
        obtain ⟨m, hm, rfl⟩ := hd
        exact ⟨unfoldNode g (k+1) m, List.mem_map.mpr ⟨m, hm, rfl⟩, inU_mono k m t hin⟩

theorem inU_mono_le {g : Gss} {k k' n : Nat} {tr : Tree} (hle : k ≤ k') (h : InU g k n tr) : InU g k' n tr := by
  induction hle with
  | refl => exact h
  | step _ ih => exact inU_mono _ _ _ ih

/-! ## stabilisation -/

theorem hasCut_listToDN : ∀ (l : List DNode), (listToDN l).hasCut = l.any DNode.hasCut
  | [] => by simp [listToDN, DNList.hasCut]
  | d :: rest => by simp [listToDN, DNList.hasCut, hasCut_listToDN rest]

theorem hasCut_listToDP : ∀ (l : List DParent), (listToDP l).hasCut = l.any DParent.hasCut
  | [] => by simp [listToDP, DPList.hasCut]
  | d :: rest => by simp [listToDP, DPList.hasCut, hasCut_listToDP rest]

/-- an unfolding without cut does not change when unfolded deeper -/
theorem unfold_stable {g : Gss} : ∀ (k n : Nat), (unfoldNode g k n).hasCut = false →
    unfoldNode g (k+1) n = unfoldNode g k n
  | 0, n, h => by simp [unfoldNode, DNode.hasCut] at h
  | k+1, n, h => by
    rw [unfoldNode_succ] at h
    rw [unfoldNode_succ g (k+1) n, unfoldNode_succ g k n]
    cases hnd : g.nodes[n]? with
    | none => simp [hnd, DNode.hasCut] at h
    | some nd =>
      rw [hnd] at h
      cases nd with
      | term tk sp => rfl
      | nonterm p sp l ch =>
        simp only [DNode.hasCut, hasCut_listToDP, List.any_map, List.any_eq_false, Function.comp] at h
        simp only [DNode.nonterm.injEq, true_and]
        congr 1
        apply List.map_congr_left
        intro e he
        have he' := h e he
        simp only [DParent.hasCut, hasCut_listToDN, List.any_map, Function.comp, Bool.not_eq_true,
          List.any_eq_false] at he'
        congr 2
        apply List.map_congr_left
        intro m hm
        exact unfold_stable k m (by simpa using he' m hm)

theorem unfold_stable_le {g : Gss} {k k' n : Nat} (hle : k ≤ k') (h : (unfoldNode g k n).hasCut = false) :
    unfoldNode g k' n = unfoldNode g k n := by
  induction hle with
  | refl => rfl
  | step hle' ih =>
    rw [← ih]
    apply unfold_stable
    rw [ih]; exact h

/-- a tree of some depth is a tree of the fixed depth the forest uses, when that unfolding is not cut -/
theorem inU_fixed {g : Gss} {K k n : Nat} {tr : Tree} (hK : (unfoldNode g K n).hasCut = false) (h : InU g k n tr) :
    InU g K n tr := by
  rcases Nat.le_total k K with hle | hle
  · exact inU_mono_le hle h
  · unfold InU at h ⊢
    rw [unfold_stable_le hle hK] at h
    exact h

end Rustemo.Glr
