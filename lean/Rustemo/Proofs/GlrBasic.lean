import Rustemo.Model.Glr
/-!
# Plumbing for the proofs about the GLR engine model

`Sat A P o`: if the outcome `o` is `ok a` then `P a`, and if it is a panic then `A` (errors and fuel exhaustion
satisfy everything): a partial-correctness triple; with `A := False` it has "no panic" built in, with
`A := True` it is plain partial correctness.  Plus the lookup lemmas of the
graph primitives (`addHead`, `addEdge`, `addNode`, `pushPoss`, `setHead`, `backedges`, `edgeBetween`).
-/
namespace Rustemo.Glr
open Rustemo

def Sat {α : Type} (A : Prop) (P : α → Prop) : Outcome α → Prop
  | .ok a => P a
  | .panic _ => A
  | .err _ => True
  | .fuel => True

variable {A : Prop}

theorem Sat.ok {α : Type} {P : α → Prop} {a : α} (h : P a) : Sat A P (.ok a) := h

theorem Sat.bind {α β : Type} {P : α → Prop} {Q : β → Prop} {o : Outcome α} {f : α → Outcome β}
    (h : Sat A P o) (hf : ∀ a, P a → Sat A Q (f a)) : Sat A Q (obind o f) := by
  cases o with
  | ok a => exact hf a h
  | err e => trivial
  | panic s => exact h
  | fuel => trivial

theorem Sat.mono {α : Type} {P Q : α → Prop} {o : Outcome α} (h : Sat A P o) (hpq : ∀ a, P a → Q a) :
    Sat A Q o := by
  cases o with
  | ok a => exact hpq a h
  | err e => trivial
  | panic s => exact h
  | fuel => trivial

theorem Sat.of_ok {α : Type} {P : α → Prop} {o : Outcome α} {a : α} (h : Sat A P o) (ho : o = .ok a) : P a := by
  subst ho; exact h

theorem Sat.not_panic {α : Type} {P : α → Prop} {o : Outcome α} (h : Sat False P o) (s : String) : o ≠ .panic s := by
  intro ho; subst ho; exact h

theorem foldO_sat {α σ : Type} {I : σ → Prop} {f : σ → α → Outcome σ} :
    ∀ (l : List α) (s : σ), I s → (∀ s a, a ∈ l → I s → Sat A I (f s a)) → Sat A I (foldO f l s)
  | [], s, hs, _ => hs
  | a :: rest, s, hs, hf => by
    simp only [foldO]
    exact Sat.bind (hf s a (by simp) hs) fun s' hs' =>
      foldO_sat rest s' hs' (fun s a ha => hf s a (by simp [ha]))

/-! ## lookups -/

theorem head_sat (g : Gss) (h : Nat) (hlt : h < g.heads.size) :
    Sat A (fun hd => g.heads[h]? = some hd) (g.head h) := by
  unfold Gss.head
  rw [Array.getElem?_eq_getElem hlt]
  exact rfl

theorem head_sat' (g : Gss) (h : Nat) (hd : Head) (hh : g.heads[h]? = some hd) :
    g.head h = .ok hd := by
  unfold Gss.head; rw [hh]

theorem edge_sat' (g : Gss) (e : Nat) (ed : Edge) (he : g.edges[e]? = some ed) :
    g.edge e = .ok ed := by
  unfold Gss.edge; rw [he]

theorem node_sat' (g : Gss) (n : Nat) (nd : SNode) (hn : g.nodes[n]? = some nd) :
    g.node n = .ok nd := by
  unfold Gss.node; rw [hn]

theorem lt_of_getElem?_some {α : Type} {a : Array α} {i : Nat} {x : α} (h : a[i]? = some x) : i < a.size := by
  rcases Nat.lt_or_ge i a.size with h' | h'
  · exact h'
  · rw [Array.getElem?_eq_none h'] at h; simp at h

/-! ## primitives -/

@[simp] theorem addHead_heads (g : Gss) (hd : Head) (i : Nat) :
    (g.addHead hd).1.heads[i]? = if i = g.heads.size then some hd else g.heads[i]? := by
  simp [Gss.addHead, Array.getElem?_push]

@[simp] theorem addHead_edges (g : Gss) (hd : Head) : (g.addHead hd).1.edges = g.edges := rfl
@[simp] theorem addHead_nodes (g : Gss) (hd : Head) : (g.addHead hd).1.nodes = g.nodes := rfl
@[simp] theorem addHead_idx (g : Gss) (hd : Head) : (g.addHead hd).2 = g.heads.size := rfl
@[simp] theorem addHead_size (g : Gss) (hd : Head) : (g.addHead hd).1.heads.size = g.heads.size + 1 := by
  simp [Gss.addHead]

@[simp] theorem addEdge_edges (g : Gss) (s d : Nat) (ps : List Nat) (i : Nat) :
    (g.addEdge s d ps).1.edges[i]? = if i = g.edges.size then some ⟨s, d, ps⟩ else g.edges[i]? := by
  simp [Gss.addEdge, Array.getElem?_push]

@[simp] theorem addEdge_heads (g : Gss) (s d : Nat) (ps : List Nat) : (g.addEdge s d ps).1.heads = g.heads := rfl
@[simp] theorem addEdge_nodes (g : Gss) (s d : Nat) (ps : List Nat) : (g.addEdge s d ps).1.nodes = g.nodes := rfl
@[simp] theorem addEdge_idx (g : Gss) (s d : Nat) (ps : List Nat) : (g.addEdge s d ps).2 = g.edges.size := rfl
@[simp] theorem addEdge_size (g : Gss) (s d : Nat) (ps : List Nat) :
    (g.addEdge s d ps).1.edges.size = g.edges.size + 1 := by simp [Gss.addEdge]

@[simp] theorem addNode_nodes (g : Gss) (nd : SNode) (i : Nat) :
    (g.addNode nd).1.nodes[i]? = if i = g.nodes.size then some nd else g.nodes[i]? := by
  simp [Gss.addNode, Array.getElem?_push]

@[simp] theorem addNode_heads (g : Gss) (nd : SNode) : (g.addNode nd).1.heads = g.heads := rfl
@[simp] theorem addNode_edges (g : Gss) (nd : SNode) : (g.addNode nd).1.edges = g.edges := rfl
@[simp] theorem addNode_idx (g : Gss) (nd : SNode) : (g.addNode nd).2 = g.nodes.size := rfl

@[simp] theorem setHead_heads (g : Gss) (i : Nat) (hd : Head) (j : Nat) :
    (g.setHead i hd).heads[j]? = if i = j then (if i < g.heads.size then some hd else none) else g.heads[j]? := by
  simp [Gss.setHead, Array.getElem?_setIfInBounds]

@[simp] theorem setHead_edges (g : Gss) (i : Nat) (hd : Head) : (g.setHead i hd).edges = g.edges := rfl
@[simp] theorem setHead_nodes (g : Gss) (i : Nat) (hd : Head) : (g.setHead i hd).nodes = g.nodes := rfl
@[simp] theorem setHead_size (g : Gss) (i : Nat) (hd : Head) : (g.setHead i hd).heads.size = g.heads.size := by
  simp [Gss.setHead]

@[simp] theorem pushPoss_heads (g : Gss) (e n : Nat) : (g.pushPoss e n).heads = g.heads := by
  unfold Gss.pushPoss; split <;> rfl
@[simp] theorem pushPoss_nodes (g : Gss) (e n : Nat) : (g.pushPoss e n).nodes = g.nodes := by
  unfold Gss.pushPoss; split <;> rfl
@[simp] theorem pushPoss_size (g : Gss) (e n : Nat) : (g.pushPoss e n).edges.size = g.edges.size := by
  unfold Gss.pushPoss; split <;> simp

theorem pushPoss_edges (g : Gss) (e n : Nat) (ed : Edge) (he : g.edges[e]? = some ed) (i : Nat) :
    (g.pushPoss e n).edges[i]? = if i = e then some { ed with poss := ed.poss ++ [n] } else g.edges[i]? := by
  unfold Gss.pushPoss
  rw [he]
  simp only [Array.getElem?_setIfInBounds]
  have := lt_of_getElem?_some he
  by_cases h : e = i
  · subst h; simp [this]
  · have h' : ¬ i = e := fun x => h x.symm
    simp [h, h']

/-! ## `backedges`, `edgeBetween` -/

theorem mem_backedges {g : Gss} {h e : Nat} :
    e ∈ g.backedges h ↔ ∃ ed, g.edges[e]? = some ed ∧ ed.src = h := by
  unfold Gss.backedges
  simp only [List.mem_reverse, List.mem_filter, List.mem_range, edgeSrcIs]
  constructor
  · rintro ⟨hlt, hsrc⟩
    split at hsrc
    · rename_i ed hed; exact ⟨ed, hed, by simpa using hsrc⟩
    · simp at hsrc
  · rintro ⟨ed, hed, hsrc⟩
    exact ⟨lt_of_getElem?_some hed, by rw [hed]; simpa using hsrc⟩

theorem edgeBetween_some {g : Gss} {s d e : Nat} (h : g.edgeBetween s d = some e) :
    ∃ ed, g.edges[e]? = some ed ∧ ed.src = s ∧ ed.dst = d := by
  unfold Gss.edgeBetween at h
  have hm := List.mem_of_find?_eq_some h
  have hp := List.find?_some h
  obtain ⟨ed, hed, hsrc⟩ := mem_backedges.mp hm
  refine ⟨ed, hed, hsrc, ?_⟩
  unfold edgeDstIs at hp
  rw [hed] at hp
  simpa using hp

theorem edgeBetween_none {g : Gss} {s d : Nat} (h : g.edgeBetween s d = none) :
    ∀ (e : Nat) (ed : Edge), g.edges[e]? = some ed → ed.src = s → ed.dst ≠ d := by
  intro e ed hed hsrc hdst
  unfold Gss.edgeBetween at h
  rw [List.find?_eq_none] at h
  have := h e (mem_backedges.mpr ⟨ed, hed, hsrc⟩)
  unfold edgeDstIs at this
  rw [hed] at this
  simp [hdst] at this

theorem possOf_eq {g : Gss} {e : Nat} {ed : Edge} (h : g.edges[e]? = some ed) : possOf g e = ed.poss := by
  unfold possOf; rw [h]

end Rustemo.Glr
