import Rustemo.Proofs.LayoutRTScan
import Rustemo.Proofs.Roundtrip
/-!
# What the layout parser returns

For the layout sub-parse (string lexer without whitespace skipping, started in a context whose span
ends at its position): the spans on the parse stack tile the input from the start offset `P0` to the
current position (empty reductions are zero-width at the current position), the tokens shifted so
far are adjacent recognizer matches covering the same range, and `SliceBuilder`'s slice is the span
of the node on top of the stack.  Hence an accepted layout parse returns exactly the slice
`[ctx.pos, ctx'.pos)`, and that slice is the yield of a derivation tree of the Layout symbol.
-/
namespace Rustemo

/-- spans of stack items (top first) are adjacent and run from offset `a` to offset `b` -/
def TChain : List StackItem → Nat → Nat → Prop
  | [], a, b => a = b
  | it :: below, a, b => it.span.e.pos = b ∧ it.span.s.pos ≤ b ∧ TChain below a it.span.s.pos

/-- tokens (most recent first) are adjacent recognizer matches running from offset `a` to `b` -/
def HChain (env : Env) : List Tok → Nat → Nat → Prop
  | [], a, b => a = b
  | tk :: rest, a, b =>
    tk.val.1 + tk.val.2 = b ∧ env.recog tk.kind tk.val.1 = some tk.val.2 ∧ HChain env rest a tk.val.1

theorem TChain.le : ∀ {l : List StackItem} {a b : Nat}, TChain l a b → a ≤ b
  | [], a, b, h => by simp [TChain] at h; omega
  | it :: below, a, b, h => by
    obtain ⟨_, h2, h3⟩ := h
    have := TChain.le h3
    omega

theorem HChain.le (env : Env) : ∀ {l : List Tok} {a b : Nat}, HChain env l a b → a ≤ b
  | [], a, b, h => by simp [HChain] at h; omega
  | tk :: rest, a, b, h => by
    obtain ⟨h1, _, h3⟩ := h
    have := HChain.le env h3
    omega

theorem tchain_getLast : ∀ (n : Nat) (it : StackItem) (below : List StackItem) (a b : Nat),
    TChain (it :: below) a b → n ≤ below.length →
    ∃ first, (it :: below.take n).getLast? = some first ∧ first.span.s.pos ≤ b ∧
      TChain (below.drop n) a first.span.s.pos
  | 0, it, below, a, b, h, _ => by
    obtain ⟨_, h2, h3⟩ := h
    exact ⟨it, by simp, h2, by simpa using h3⟩
  | n+1, it, below, a, b, h, hn => by
    cases below with
    | nil => simp at hn
    | cons it2 below2 =>
      obtain ⟨_, h2, h3⟩ := h
      obtain ⟨first, hf, hle, hch⟩ := tchain_getLast n it2 below2 a _ h3 (by simpa using hn)
      refine ⟨first, ?_, by omega, by simpa using hch⟩
      simp only [List.take_succ_cons]
      rw [List.getLast?_cons_cons]
      exact hf

/-- the span of a reduction over a tiling stack -/
theorem reduceSpan_chain (items : List StackItem) (a b len : Nat) (ctxSpan : Span)
    (h : TChain items a b) (hE : ctxSpan.e.pos = b) (hlen : len ≤ items.length) :
    (reduceSpan (items.take len) ctxSpan).e.pos = b ∧
    (reduceSpan (items.take len) ctxSpan).s.pos ≤ b ∧
    TChain (items.drop len) a (reduceSpan (items.take len) ctxSpan).s.pos := by
  cases len with
  | zero =>
    simp only [List.take_zero, List.drop_zero, reduceSpan, List.getLast?_nil]
    exact ⟨hE, by omega, by rw [hE]; exact h⟩
  | succ n =>
    cases items with
    | nil => simp at hlen
    | cons it below =>
      obtain ⟨first, hf, hle, hch⟩ := tchain_getLast n it below a b h (by simpa using hlen)
      simp only [List.take_succ_cons, List.drop_succ_cons, reduceSpan, hf, List.head?_cons]
      exact ⟨h.1, hle, hch⟩

theorem tokenIterAux_recog (env : Env) (pos : Pos) :
    ∀ (exp : List (Nat × Bool)) (m : Bool) (tk : Tok), tk ∈ tokenIterAux env pos m exp →
      tk.val.1 = pos.pos ∧ env.recog tk.kind tk.val.1 = some tk.val.2
  | [], m, tk, h => by simp [tokenIterAux] at h
  | (k, fin) :: rest, m, tk, h => by
    unfold tokenIterAux at h
    split at h
    · rename_i l hl
      rcases List.mem_cons.mp h with h | h
      · subst h; exact ⟨rfl, hl⟩
      · split at h
        · simp at h
        · exact tokenIterAux_recog env pos rest true tk h
    · split at h
      · simp at h
      · exact tokenIterAux_recog env pos rest m tk h

def TokRec (env : Env) (ctx : Ctx) (tk : Tok) : Prop :=
  tk.kind = 0 ∨ (tk.val.1 = ctx.pos.pos ∧ env.recog tk.kind tk.val.1 = some tk.val.2)

/-- invariant of the layout sub-parse started at byte offset `P0` -/
structure LInv (env : Env) (P0 : Nat) (c : Cfg) : Prop where
  stack : ∃ items bottom, c.stack = items ++ [bottom] ∧ TChain items P0 c.ctx.pos.pos
  spanE : c.ctx.span.e.pos = c.ctx.pos.pos
  hist : HChain env c.hist P0 c.ctx.pos.pos
  tok : TokRec env c.ctx c.tok
  slice : ∀ it rest p sp l cs rres, c.stack = it :: rest → c.res = Tree.node p sp l cs :: rres →
      c.slice = some (it.span.s.pos, it.span.e.pos - it.span.s.pos)

theorem ntBase_tokRec (env : Env) (hc : env.custom = none) (hsk : env.skipWs = false)
    (ctx ctx' : Ctx) (tk : Tok) (h : nextTokenBase env true ctx = (ctx', .ok tk)) :
    TokRec env ctx tk := by
  unfold nextTokenBase lexNext at h
  rw [hc, hsk] at h
  simp only [Bool.false_eq_true, ↓reduceIte] at h
  split at h
  · rename_i tk' hpick
    injection h with _ h2
    injection h2 with h2
    subst h2
    exact Or.inr (tokenIterAux_recog env ctx.pos _ false tk' (pickToken_mem hpick))
  · unfold noToken at h
    simp only at h
    split at h
    · injection h with _ h2
      injection h2 with h2
      subst h2
      exact Or.inl rfl
    · split at h <;> (injection h with _ h2; simp at h2)

theorem step_linv (env : Env) (hc : env.custom = none) (hsk : env.skipWs = false) (hr : RecogOk env)
    (hns : NoShiftStop env.t) (P0 : Nat) (c c' : Cfg) (hinv : LInv env P0 c)
    (hstep : step env (nextTokenBase env true) c = .next c') : LInv env P0 c' := by
  obtain ⟨items, bottom, hstack, hchain⟩ := hinv.stack
  cases step_next_inv env _ c c' hstep with
  | shift state s' acts ctx1 tk htop hcell hnt1 hc' =>
    have hk : c.tok.kind ≠ 0 := by
      intro h0; apply hns state s'; rw [← h0, hcell]; simp
    obtain ⟨hv1, hrec⟩ : c.tok.val.1 = c.ctx.pos.pos ∧ env.recog c.tok.kind c.tok.val.1 = some c.tok.val.2 := by
      rcases hinv.tok with h | h
      · exact absurd h hk
      · exact h
    have hv2 := hr _ _ _ hrec
    have hctx1 := ntBase_ctx env hc hsk true _ _ _ hnt1
    subst hctx1
    have hnp : (shiftCtx env c s').pos.pos = c.ctx.pos.pos + c.tok.val.2 := by
      show (posAfter (sliceOf env.input c.tok.val) c.ctx.pos).pos = _
      rw [posAfter_pos]
      have : c.tok.val = (c.tok.val.1, c.tok.val.2) := rfl
      rw [this, sliceOf_length _ _ _ hv2]
    subst hc'
    refine ⟨⟨shiftItem env c s' :: items, bottom, by simp [hstack], ?_⟩, rfl, ?_,
      ntBase_tokRec env hc hsk _ _ tk hnt1, ?_⟩
    · exact ⟨rfl, by show c.ctx.pos.pos ≤ _; rw [hnp]; omega, hchain⟩
    · refine ⟨by rw [hnp, hv1], hrec, ?_⟩
      rw [hv1]; exact hinv.hist
    · intro it rest p sp l cs rres _ hres
      simp [shiftLeaf] at hres
  | reduce state p len fromState s' pr acts ctx1 tk htop hcell hlen hfrom hpr hgoto hrlen hnt1 hc' =>
    have hctx1 := ntBase_ctx env hc hsk true _ _ _ hnt1
    subst hctx1
    have hlen' : len ≤ items.length := by
      rcases Nat.lt_or_ge items.length len with h | h
      · exfalso
        have : c.stack.drop len = [] := by
          apply List.drop_eq_nil_of_le; rw [hstack]; simp; omega
        rw [this] at hfrom; simp [topState] at hfrom
      · exact h
    have htake : c.stack.take len = items.take len := by
      rw [hstack, List.take_append_of_le_length hlen']
    have hdrop : c.stack.drop len = items.drop len ++ [bottom] := by
      rw [hstack, List.drop_append_of_le_length hlen']
    obtain ⟨h1, h2, h3⟩ := reduceSpan_chain items P0 c.ctx.pos.pos len c.ctx.span hchain hinv.spanE hlen'
    subst hc'
    refine ⟨⟨⟨s', reduceSpan (c.stack.take len) c.ctx.span⟩ :: items.drop len, bottom, by simp [hdrop], ?_⟩,
      hinv.spanE, hinv.hist, ?_, ?_⟩
    · rw [htake]; exact ⟨h1, h2, h3⟩
    · have := ntBase_tokRec env hc hsk _ _ tk hnt1
      exact this
    · intro it rest p' sp l cs rres hst _
      simp only [List.cons.injEq] at hst
      obtain ⟨hit, _⟩ := hst
      subst hit
      rfl

/-- what an accepting layout sub-parse hands back -/
theorem runLoop_linv (env : Env) (hc : env.custom = none) (hsk : env.skipWs = false) (hr : RecogOk env)
    (hns : NoShiftStop env.t) (autos : List Auto) (hs : Structural env.g env.t autos) (au : Auto)
    (hin : au ∈ autos) (start : Nat) (hstart : start = au.start) (hsym : env.g.nterms ≤ au.sym)
    (P0 : Nat) :
    ∀ (fuel : Nat) (c : Cfg) (ctx : Ctx) (r : ParseResult),
      FInv start c → CInv env.g env.t start c.abs → LInv env P0 c →
      runLoop env (nextTokenBase env true) fuel c = (ctx, .ok r) →
      r.slice = some (P0, ctx.pos.pos - P0) ∧ P0 ≤ ctx.pos.pos ∧ HChain env r.hist P0 ctx.pos.pos := by
  intro fuel
  induction fuel with
  | zero => intro c ctx r _ _ _ h; simp [runLoop] at h
  | succ n ih =>
    intro c ctx r hf hci hl h
    unfold runLoop at h
    split at h
    · rename_i c' hstep
      obtain ⟨hf', leafOf, nodeOf, hd, hcs⟩ := step_refines env _ start c c' hf hstep
      have hc' := cstep_preserves env.g env.t autos hs au hin start hstart leafOf nodeOf hd c.abs c'.abs
        c.tok.kind hci hcs
      exact ih c' ctx r hf' hc' (step_linv env hc hsk hr hns P0 c c' hl hstep) h
    · rename_i ctx' r' hstep
      injection h with h1 h2
      injection h2 with h2
      subst h1 h2
      obtain ⟨state, acts, rest, htop, hcell, hctx, hres, hslice, hhist⟩ := step_done_inv env _ c ctx' r' hstep
      obtain ⟨hacc, _⟩ := step_done_refines env _ start c ctx' r' hf hstep
      obtain ⟨hv, _, hlen1⟩ := cstep_accept_sound env.g env.t autos hs au hin start hstart Tree.tok Tree.mk
        c.abs c.tok.kind r'.tree hci hacc
      have hrest : rest = [] := by
        have : c.abs.stack.length = c.res.length := by
          show (absStack c).length = c.res.length
          simp only [absStack, List.length_zip, List.length_map]
          have := hf.len; omega
        rw [this, hres] at hlen1
        simp at hlen1
        exact hlen1
      subst hrest
      -- the result is a node: its root symbol is a nonterminal
      obtain ⟨p, sp, l, cs, hnode⟩ : ∃ p sp l cs, r'.tree = Tree.node p sp l cs := by
        cases htr : r'.tree with
        | leaf a sp v l =>
          rw [htr] at hv
          simp only [Tree.Valid] at hv
          omega
        | node p sp l cs => exact ⟨p, sp, l, cs, rfl⟩
      obtain ⟨items, bottom, hstack, hchain⟩ := hl.stack
      have hlen2 : c.stack.length = 2 := by have := hf.len; rw [hres] at this; simpa using this
      -- exactly one item above the bottom
      obtain ⟨top, hitems⟩ : ∃ top, items = [top] := by
        rw [hstack] at hlen2
        simp at hlen2
        cases items with
        | nil => simp at hlen2
        | cons t ts =>
          cases ts with
          | nil => exact ⟨t, rfl⟩
          | cons _ _ => simp at hlen2
      subst hitems
      obtain ⟨he, hle, hs0⟩ := hchain
      simp only [TChain] at hs0
      have hsl := hl.slice top [bottom] p sp l cs [] (by simpa using hstack) (by rw [hres, hnode])
      have hP : top.span.s.pos = P0 := hs0.symm
      rw [hctx, hslice, hsl, hhist, hP, he]
      rw [hP] at hle
      exact ⟨rfl, hle, hl.hist⟩
    · rename_i ctx' o hstep
      injection h with _ h2
      subst h2
      exact absurd rfl (step_stop_not_ok env _ c ctx' _ hstep r)

/-- **An accepted layout parse returns exactly the input it consumed**, a chain of adjacent
    recognizer matches that is the yield of a derivation tree of the Layout symbol. -/
theorem layoutParse_slice (env : Env) (hc : env.custom = none) (hsk : env.skipWs = false)
    (hr : RecogOk env) (hns : NoShiftStop env.t) (autos : List Auto)
    (hs : Structural env.g env.t autos) (au : Auto) (hin : au ∈ autos) (ls : Nat)
    (hstart : ls = au.start) (hsym : env.g.nterms ≤ au.sym) (ctx : Ctx)
    (hE : ctx.span.e.pos = ctx.pos.pos) (fuel : Nat) (cx : Ctx) (pr : ParseResult)
    (h : layoutParse env ls ctx fuel = (cx, .ok pr)) :
    pr.slice = some (ctx.pos.pos, cx.pos.pos - ctx.pos.pos) ∧ ctx.pos.pos ≤ cx.pos.pos ∧
    HChain env pr.hist ctx.pos.pos cx.pos.pos ∧
    pr.tree.Valid env.g au.sym ∧ pr.tree.yield = (pr.hist.map (·.kind)).reverse := by
  have hsound := parseWith_sound env _ autos hs au hin ls hstart _ fuel cx pr h
  suffices h3 : pr.slice = some (ctx.pos.pos, cx.pos.pos - ctx.pos.pos) ∧ ctx.pos.pos ≤ cx.pos.pos ∧
      HChain env pr.hist ctx.pos.pos cx.pos.pos from ⟨h3.1, h3.2.1, h3.2.2, hsound.1, hsound.2⟩
  unfold layoutParse parseWith at h
  simp only at h
  split at h
  · rename_i ctx1 tk hnt1
    have hctx1 := ntBase_ctx env hc hsk true _ _ _ hnt1
    subst hctx1
    have := runLoop_linv env hc hsk hr hns autos hs au hin ls hstart hsym ctx.pos.pos fuel _ cx pr
      ⟨by simp, by simp⟩
      ⟨by simp [Cfg.abs, absStack, PathInv], by simp [Cfg.abs, absStack, yields]⟩
      ⟨⟨[], StackItem.mk ls ctx.span, by simp, by simp [TChain]⟩, hE, by simp [HChain],
        ntBase_tokRec env hc hsk _ _ tk hnt1,
        by intro it rest p sp l cs rres _ hres; simp at hres⟩ h
    exact this
  all_goals (injection h with _ h2; simp at h2)

end Rustemo
