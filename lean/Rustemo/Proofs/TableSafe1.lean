import Rustemo.Proofs.TableFirst
import Rustemo.Proofs.TableCalcInv2
/-!
# Table construction never panics, part 1: FIRST sets, right-nulled lengths, closure, merge, entries

`Safe r`: the outcome is `.ok _` or `.fuel` — no `.panic`, no `.err`.
-/
namespace Rustemo.Table

variable {g : Grammar} {fs : Array (List Nat)}

def Res.Safe {α} (r : Res α) : Prop := (∃ a, r = .ok a) ∨ r = .fuel

theorem Res.Safe.bind {α β} {r : Res α} {f : α → Res β} (h : r.Safe) (hf : ∀ a, r = .ok a → (f a).Safe) :
    (r.bind f).Safe := by
  rcases h with ⟨a, ha⟩ | h
  · subst ha; exact hf a rfl
  · subst h; exact .inr rfl

theorem Res.Safe.of_ok {α} {r : Res α} (h : ∃ a, r = .ok a) : r.Safe := .inl h

/-! ## FIRST sets -/

theorem rhs_lt (hg : GW g) (hw : FsWf g fs) {p : Nat} {pr : Prod} (hp : g.prods[p]? = some pr) :
    ∀ X ∈ pr.rhs, X < fs.size := by
  intro X hX
  rw [hw.size]
  exact ((hg.prod_ok p pr hp).2.2 X hX).2.1

theorem mem_prods (_hg : GW g) {pr : Prod} (h : pr ∈ g.prods.toList) : ∃ p : Nat, g.prods[p]? = some pr := by
  obtain ⟨i, hi, hget⟩ := List.getElem_of_mem h
  simp only [Array.length_toList] at hi
  refine ⟨i, ?_⟩
  rw [Array.getElem?_eq_getElem hi]
  simp only [Array.getElem_toList] at hget
  rw [hget]

theorem firstProds_ok (hg : GW g) : ∀ (l : List Prod) (fs : Array (List Nat)) (ch : Bool),
    (∀ pr ∈ l, ∃ p : Nat, g.prods[p]? = some pr) → FsWf g fs → ∃ r, firstProds g l fs ch = .ok r
  | [], fs, ch, _, _ => ⟨_, rfl⟩
  | pr :: rest, fs, ch, hl, hw => by
    obtain ⟨p, hp⟩ := hl pr List.mem_cons_self
    obtain ⟨r, hr⟩ := firstsOf_some (g := g) (rhs_lt hg hw hp)
    have hlhs : pr.lhs < fs.size := by rw [hw.size]; exact (hg.prod_ok p pr hp).2.1
    have hrest : ∀ q ∈ rest, ∃ p : Nat, g.prods[p]? = some q := fun q hq => hl q (List.mem_cons_of_mem _ hq)
    have hge : ∀ q ∈ [pr], g.nterms ≤ q.lhs := by
      intro q hq; simp only [List.mem_singleton] at hq; subst hq; exact (hg.prod_ok p q hp).1
    -- one step keeps the shape
    have hstep : firstProds g [pr] fs ch =
        .ok (fs.setIfInBounds pr.lhs (union fs[pr.lhs] r), ch || decide (fs[pr.lhs].length < (union fs[pr.lhs] r).length)) := by
      simp [firstProds, hr, Array.getElem?_eq_getElem hlhs]
    have hw' := firstProds_wf hg [pr] fs _ ch _ hge hw hstep
    obtain ⟨r2, hr2⟩ := firstProds_ok hg rest _ (ch || decide (fs[pr.lhs].length < (union fs[pr.lhs] r).length)) hrest hw'
    refine ⟨r2, ?_⟩
    unfold firstProds
    rw [hr]
    simp only [Array.getElem?_eq_getElem hlhs]
    exact hr2

theorem firstLoop_safe (hg : GW g) : ∀ (n : Nat) (fs : Array (List Nat)), FsWf g fs → (firstLoop g n fs).Safe := by
  intro n
  induction n with
  | zero => intro fs _; exact .inr rfl
  | succ n ih =>
    intro fs hw
    unfold firstLoop
    obtain ⟨r, hr⟩ := firstProds_ok hg g.prods.toList fs false (fun pr h => mem_prods hg h) hw
    have hge : ∀ pr ∈ g.prods.toList, g.nterms ≤ pr.lhs := by
      intro pr h
      obtain ⟨p, hp⟩ := mem_prods hg h
      exact (hg.prod_ok p pr hp).1
    obtain ⟨fs', b⟩ := r
    rw [hr]
    cases b with
    | true => exact ih fs' (firstProds_wf hg _ _ _ _ _ hge hw hr)
    | false => exact .inl ⟨fs', rfl⟩

theorem firstSets_safe (hg : GW g) (fuel : Nat) : (firstSets g fuel).Safe := by
  unfold firstSets
  obtain ⟨fs0, h0, hw⟩ := firstInit_wf hg
  rw [h0]
  exact firstLoop_safe hg fuel fs0 hw

theorem rnLenRev_some (hw : FsWf g fs) : ∀ (l : List Nat) (n : Nat), (∀ X ∈ l, X < fs.size) →
    ∃ r, rnLenRev g fs l n = some r
  | [], n, _ => ⟨n, rfl⟩
  | X :: rest, n, h => by
    unfold rnLenRev
    rw [Array.getElem?_eq_getElem (h X List.mem_cons_self)]
    simp only
    split
    · exact rnLenRev_some hw rest (n - 1) (fun Y hY => h Y (List.mem_cons_of_mem _ hY))
    · exact ⟨n, rfl⟩

theorem rnLensList_some (hg : GW g) (hw : FsWf g fs) : ∀ (l : List Prod), (∀ pr ∈ l, ∃ p : Nat, g.prods[p]? = some pr) →
    ∃ r, rnLensList g fs l = some r
  | [], _ => ⟨[], rfl⟩
  | pr :: rest, hl => by
    obtain ⟨p, hp⟩ := hl pr List.mem_cons_self
    obtain ⟨n, hn⟩ := rnLenRev_some hw pr.rhs.reverse pr.rhs.length
      (fun X hX => rhs_lt hg hw hp X (List.mem_reverse.mp hX))
    obtain ⟨r, hr⟩ := rnLensList_some hg hw rest (fun q hq => hl q (List.mem_cons_of_mem _ hq))
    refine ⟨n :: r, ?_⟩
    unfold rnLensList
    rw [hn, hr]

theorem rnOf_ok (hg : GW g) (hw : FsWf g fs) (s : Settings) : ∃ rn, rnOf g s fs = .ok rn := by
  unfold rnOf
  split
  · unfold prodRnLens
    obtain ⟨r, hr⟩ := rnLensList_some hg hw g.prods.toList (fun pr h => mem_prods hg h)
    rw [hr]
    exact ⟨_, rfl⟩
  · exact ⟨_, rfl⟩

/-! ## Closure -/

theorem itemDemands_ok (hg : GW g) (hw : FsWf g fs) {it : Item} (hok : ItemOk g it) :
    ∃ dsi, itemDemands g fs it = .ok dsi := by
  obtain ⟨pr, hp, _⟩ := hok
  unfold itemDemands
  rw [hp]
  simp only
  cases hB : pr.rhs[it.dot]? with
  | none => exact ⟨_, rfl⟩
  | some B =>
    simp only
    by_cases hBt : B < g.nterms
    · rw [if_pos hBt]; exact ⟨_, rfl⟩
    · rw [if_neg hBt]
      have hBr := ((hg.prod_ok it.prod pr hp).2.2 B (List.mem_of_getElem? hB)).2.1
      have hnf : ∃ nf, newFollow g fs pr it = some nf := by
        unfold newFollow
        split
        · obtain ⟨f, hf⟩ := firstsOf_some (g := g) (fs := fs) (syms := pr.rhs.drop (it.dot + 1))
            (fun X hX => rhs_lt hg hw hp X (List.mem_of_mem_drop hX))
          rw [hf]
          simp only
          split
          · exact ⟨_, rfl⟩
          · exact ⟨_, rfl⟩
        · exact ⟨_, rfl⟩
      obtain ⟨nf, hnf⟩ := hnf
      rw [hnf]
      simp only
      rw [if_pos (by omega)]
      exact ⟨_, rfl⟩

theorem gatherDemands_ok (hg : GW g) (hw : FsWf g fs) : ∀ (items : List Item) (acc : List (Nat × List Nat)),
    (∀ it ∈ items, ItemOk g it) → ∃ ds, gatherDemands g fs items acc = .ok ds
  | [], acc, _ => ⟨acc, rfl⟩
  | it :: rest, acc, h => by
    obtain ⟨dsi, hd⟩ := itemDemands_ok hg hw (h it List.mem_cons_self)
    unfold gatherDemands
    rw [hd]
    exact gatherDemands_ok hg hw rest _ (fun x hx => h x (List.mem_cons_of_mem _ hx))

theorem closureRound_ok' (hg : GW g) (hw : FsWf g fs) {items : List Item} (h : ∀ it ∈ items, ItemOk g it) :
    ∃ r, closureRound g fs items = .ok r := by
  unfold closureRound
  obtain ⟨ds, hd⟩ := gatherDemands_ok hg hw items [] h
  rw [hd]
  exact ⟨_, rfl⟩

theorem closureRound_itemOk {items : List Item} {r : List Item × Bool} (h : closureRound g fs items = .ok r)
    (hok : ∀ it ∈ items, ItemOk g it) : ∀ it ∈ r.1, ItemOk g it := by
  apply closureRound_induct (g := g) (fs := fs) (fun its => ∀ it ∈ its, ItemOk g it) (fun d => ClosureProd g d.1)
    _ _ h hok
  · intro its _ it _ dsi hdsi d hd
    exact itemDemands_closureProd hdsi d hd
  · intro its d hP hQ it' hit'
    rcases addDemand_back d its it' hit' with ⟨it1, h1, h2, _⟩ | h1
    · obtain ⟨pr, h3, h4⟩ := hP it1 h1
      simp only [core, _root_.Prod.mk.injEq] at h2
      exact ⟨pr, by rw [← h2.1]; exact h3, by rw [← h2.2]; exact h4⟩
    · subst h1
      obtain ⟨qr, _, _, h3, _⟩ := hQ
      exact ⟨qr, h3, Nat.zero_le _⟩

theorem closure_safe (hg : GW g) (hw : FsWf g fs) : ∀ (n : Nat) (items : List Item),
    (∀ it ∈ items, ItemOk g it) → (closure g fs n items).Safe := by
  intro n
  induction n with
  | zero => intro items _; exact .inr rfl
  | succ n ih =>
    intro items hok
    unfold closure
    obtain ⟨r, hr⟩ := closureRound_ok' hg hw hok
    have := closureRound_itemOk hr hok
    obtain ⟨its, b⟩ := r
    rw [hr]
    cases b with
    | true => exact ih its this
    | false => exact .inl ⟨its, rfl⟩

/-! ## Merge and entries -/

theorem itemPairs_some {new : List Item} : ∀ (ks : List Item), (∀ x ∈ ks, ∃ y ∈ new, sameCore y x = true) →
    ∃ pairs, itemPairs new ks = some pairs
  | [], _ => ⟨[], rfl⟩
  | x :: xs, h => by
    obtain ⟨y, hy, hxy⟩ := h x List.mem_cons_self
    obtain ⟨r, hr⟩ := itemPairs_some xs (fun z hz => h z (List.mem_cons_of_mem _ hz))
    unfold itemPairs
    rw [hr]
    cases hf : new.find? (fun i => sameCore i x) with
    | none =>
      have := List.find?_eq_none.mp hf y hy
      simp [hxy] at this
    | some y' => exact ⟨_, rfl⟩

theorem mergeState_ok (tt : String) (rn : Option (Array Nat)) (old new : List Item) :
    ∃ r, mergeState g tt rn old new = .ok r := by
  unfold mergeState
  by_cases he : stateEq old new = true
  · simp only [he, Bool.not_true, Bool.false_eq_true, if_false]
    have hc := coresEq_map (by unfold stateEq at he; exact he)
    obtain ⟨pairs, hp⟩ := itemPairs_some (new := new) (old.filter isKernel) (by
      intro x hx
      have : core x ∈ (new.filter isKernel).map core := by rw [← hc]; exact List.mem_map.mpr ⟨x, hx, rfl⟩
      obtain ⟨y, hy, hyx⟩ := List.mem_map.mp this
      exact ⟨y, (List.mem_filter.mp hy).1, sameCore_iff.mpr hyx⟩)
    rw [hp]
    simp only
    split
    · exact ⟨_, rfl⟩
    · exact ⟨_, rfl⟩
  · simp only [he, Bool.not_false, if_true]
    exact ⟨_, rfl⟩

theorem tryMerge_ok (tt : String) (rn : Option (Array Nat)) (sts : Array State) (new : List Item) :
    ∀ (order : List Nat), ∃ r, tryMerge g tt rn sts new order = .ok r
  | [] => ⟨none, rfl⟩
  | i :: rest => by
    unfold tryMerge
    cases hs : sts[i]? with
    | none => exact tryMerge_ok tt rn sts new rest
    | some st =>
      simp only
      obtain ⟨r, hr⟩ := mergeState_ok (g := g) tt rn st.items new
      rw [hr]
      cases r with
      | none => exact tryMerge_ok tt rn sts new rest
      | some items' => exact ⟨_, rfl⟩

theorem addTrans_ok' {st : State} (ha : st.actions.size = g.nterms) (hgo : st.gotos.size = g.nnonterms)
    {X : Nat} (hX : X < g.nterms + g.nnonterms) (tgt : Nat) : ∃ st', addTrans g st X tgt = .ok st' := by
  unfold addTrans
  by_cases h : g.nterms ≤ X
  · rw [if_pos h, if_pos (by omega)]; exact ⟨_, rfl⟩
  · rw [if_neg h, if_pos (by omega)]; exact ⟨_, rfl⟩

end Rustemo.Table
