import Rustemo.Model.AstGen
/-!
# C11: the checker `Skel.sized` is sound; full-length arms pass arguments of the parameters' types
-/
namespace Rustemo.Ast

/-- a knot: a non-empty set of declared names, each of which contains BY VALUE another member
(every containment cycle is one) -/
def Knot (G : Graph) (C : List String) : Prop :=
  C ≠ [] ∧ ∀ u ∈ C, ∃ es, (u, es) ∈ G ∧ ∃ t ∈ es, t ∈ C

theorem knot_peel {G : Graph} {C : List String} (h : Knot G C) : Knot (peel G) C := by
  refine ⟨h.1, ?_⟩
  intro u hu
  obtain ⟨es, hmem, t, ht, htc⟩ := h.2 u hu
  refine ⟨es, ?_, t, ht, htc⟩
  unfold peel
  rw [List.mem_filter]
  refine ⟨hmem, ?_⟩
  rw [List.any_eq_true]
  refine ⟨t, ht, ?_⟩
  obtain ⟨es', hmem', _⟩ := h.2 t htc
  rw [List.any_eq_true]
  exact ⟨(t, es'), hmem', by simp⟩

theorem knot_peelN {G : Graph} {C : List String} (h : Knot G C) : ∀ k, Knot (peelN k G) C
  | 0 => h
  | k + 1 => by
    simp only [peelN]
    exact knot_peelN (knot_peel h) k

theorem knot_nonempty {G : Graph} {C : List String} (h : Knot G C) : G ≠ [] := by
  obtain ⟨hne, hall⟩ := h
  cases C with
  | nil => exact absurd rfl hne
  | cons u _ =>
    obtain ⟨es, hmem, _⟩ := hall u (by simp)
    intro hG; rw [hG] at hmem; cases hmem

/-- soundness of the sizedness check: if `Skel.sized` answers `true`, no set of declared types is
tied into a by-value containment knot — every containment cycle passes through `Box` or `Vec`. -/
theorem sized_sound (s : Skel) (h : s.sized = true) : ¬ ∃ C, Knot s.contain C := by
  rintro ⟨C, hk⟩
  have := knot_nonempty (knot_peelN hk s.contain.length)
  unfold Skel.sized at h
  simp only [List.isEmpty_iff] at h
  exact this h

/-! ## arms -/

/-- a reduce arm that pops the whole right-hand side passes only bound parameters `p<k>` -/
theorem armArgs_full (fx : Fixes) (ts : List SymType) (len : Nat) :
    ∀ (cr : List (Nat × RSym)) (k : Nat), (∀ a ∈ cr, a.1 < len) →
      armArgs fx ts len k cr = (enumFrom k cr).map (fun ia => Arg.p ia.1 ia.2.2.name)
  | [], _, _ => by simp [armArgs, enumFrom]
  | a :: rest, k, h => by
    have ha : a.1 < len := h a (by simp)
    simp only [armArgs, ha, if_true, enumFrom, List.map_cons]
    rw [armArgs_full fx ts len rest (k + 1) (fun b hb => h b (List.mem_cons_of_mem _ hb))]

/-- bound parameters have exactly the type the action declares for that position -/
theorem argsOk_bound (s : Skel) : ∀ (l : List (Nat × (Nat × RSym))) (names : List String),
    names.length = l.length →
    argsOk s (l.map (fun ia => Arg.p ia.1 ia.2.2.name)) (List.zip names (l.map (fun ia => Ty.named ia.2.2.name))) = true
  | [], [], _ => by simp [argsOk]
  | [], _ :: _, h => by simp at h
  | _ :: _, [], h => by simp at h
  | a :: l, n :: names, h => by
    simp only [List.map_cons, List.zip_cons_cons, argsOk, Skel.argOk, beq_self_eq_true, Bool.true_and]
    exact argsOk_bound s l names (by simpa using h)

theorem contentRhs_lt (p : AProd) : ∀ a ∈ contentRhs p, a.1 < p.rhs.length := by
  have aux : ∀ (l : List RSym) (n : Nat) (x : Nat × RSym), x ∈ enumFrom n l → x.1 < n + l.length := by
    intro l
    induction l with
    | nil => intro n x h; simp [enumFrom] at h
    | cons b bs ih =>
      intro n x h
      simp only [enumFrom, List.mem_cons] at h
      rcases h with h | h
      · subst h; simp
      · have := ih (n + 1) x h
        simp only [List.length_cons]; omega
  intro a ha
  unfold contentRhs at ha
  have := aux p.rhs 0 a (List.mem_filter.mp ha).1
  simpa using this

end Rustemo.Ast

namespace Rustemo.Ast

theorem enumFrom_map_snd {α β} (f : α → β) : ∀ (l : List α) (n : Nat),
    (enumFrom n l).map (fun ia => f ia.2) = l.map f
  | [], _ => by simp [enumFrom]
  | a :: as, n => by simp [enumFrom, enumFrom_map_snd f as (n + 1)]

theorem enumFrom_length {α} : ∀ (l : List α) (n : Nat), (enumFrom n l).length = l.length
  | [], _ => by simp [enumFrom]
  | a :: as, n => by simp [enumFrom, enumFrom_length as (n + 1)]

/-- The arms of a production that is not right-nulled (every production of an LR table) type-check
against the action the call resolves to, when that action's parameters are the content symbols of
the production (which is how `get_action_args` builds them). -/
theorem calls_ok_of_full_length (fx : Fixes) (s : Skel) (ts : List SymType) (nt : String) (c : Choice) (p : AProd)
    (names : List String) (hrn : p.rnLen = p.rhs.length)
    (hsig : s.fnSig (actionName nt c) = some (List.zip names ((contentRhs p).map (fun a => Ty.named a.2.name))))
    (hlen : names.length = (contentRhs p).length) :
    ∀ call ∈ prodCalls fx ts nt c p, s.callOk call = true := by
  intro call hcall
  unfold prodCalls at hcall
  simp only at hcall
  split at hcall
  · -- EMPTY production
    rename_i h0
    simp only [List.mem_singleton] at hcall; subst hcall
    have hr : p.rhs = [] := by
      have : p.rhs.length = 0 := by simpa using h0
      exact List.eq_nil_of_length_eq_zero this
    have hcr : contentRhs p = [] := by simp [contentRhs, hr, enumFrom]
    simp [Skel.callOk, hsig, hcr, argsOk]
  · split at hcall
    · -- keyword-only production
      rename_i _ hce
      simp only [List.mem_singleton] at hcall; subst hcall
      have hcr : contentRhs p = [] := by simpa using hce
      simp [Skel.callOk, hsig, hcr, argsOk]
    · split at hcall
      · simp only [List.mem_singleton] at hcall; subst hcall
        simp only [Skel.callOk, hsig]
        rw [armArgs_full fx ts p.rhs.length (contentRhs p) 0 (contentRhs_lt p)]
        have e : (contentRhs p).map (fun a => Ty.named a.2.name)
            = (enumFrom 0 (contentRhs p)).map (fun ia => Ty.named ia.2.2.name) :=
          (enumFrom_map_snd (fun a : Nat × RSym => Ty.named a.2.name) (contentRhs p) 0).symm
        rw [e]
        exact argsOk_bound s (enumFrom 0 (contentRhs p)) names (by rw [enumFrom_length]; exact hlen)
      · rename_i hne
        exact absurd (by simp [hrn]) hne

end Rustemo.Ast
