import Rustemo.Model.Regen
/-!
# Lemmas about the regeneration model (`Model/Regen.lean`)

* `gen_eq_missing` — what the generator pushes is the specification `missing` (for `asIs` under
  group-closedness);
* `gen_fresh`, `gen_sublist` — pushed items are undefined before and form a subsequence of the
  pristine generation;
* `gen_regen_nil` — after one regeneration nothing is pushed any more.
-/
namespace Rustemo.Regen

theorem typeNames_append (a b : List Item) : typeNames (a ++ b) = typeNames a ++ typeNames b := by
  simp [typeNames]

theorem fnNames_append (a b : List Item) : fnNames (a ++ b) = fnNames a ++ fnNames b := by
  simp [fnNames]

theorem isFn_of_isType {k : Kind} (h : k.isType = true) : k.isFn = false := by
  cases k <;> simp_all [Kind.isType, Kind.isFn]

theorem isType_of_isFn {k : Kind} (h : k.isFn = true) : k.isType = false := by
  cases k <;> simp_all [Kind.isType, Kind.isFn]

theorem mem_typeNames {l : List Item} {s : String} :
    s ∈ typeNames l ↔ ∃ i ∈ l, i.kind.isType = true ∧ i.name = s := by
  simp [typeNames, and_assoc]

theorem mem_fnNames {l : List Item} {s : String} :
    s ∈ fnNames l ↔ ∃ i ∈ l, i.kind.isFn = true ∧ i.name = s := by
  simp [fnNames, and_assoc]

theorem typeNames_sublist {a b : List Item} (h : a.Sublist b) : (typeNames a).Sublist (typeNames b) :=
  (h.filter _).map _

theorem fnNames_sublist {a b : List Item} (h : a.Sublist b) : (fnNames a).Sublist (fnNames b) :=
  (h.filter _).map _

/-! ## one group: emit = specification -/

theorem spec_nt (tn fn : List String) (g : String) (is : List Item) :
    (((is.map (fun i => (⟨some g, i⟩ : Entry))).filter (Entry.isMissing tn fn)).map (·.item))
      = is.filter (fun i => Entry.isMissing tn fn ⟨some g, i⟩) := by
  induction is with
  | nil => rfl
  | cons a t ih =>
    simp only [List.map_cons, List.filter_cons]
    split <;> simp [ih]

/-- the hypothesis `Variant.Pre` per group -/
def Variant.PreG (v : Variant) (tn : List String) (g : Group) : Prop :=
  v = .asIs → g.closed tn = true

theorem emit_eq_spec (v : Variant) (tn fn : List String) (g : Group) (hok : g.ok = true)
    (hpre : v.PreG tn g) :
    g.emit v tn fn = ((g.entries).filter (Entry.isMissing tn fn)).map (·.item) := by
  cases g with
  | ty i =>
    have hf := isFn_of_isType (k := i.kind) (by simpa [Group.ok] using hok)
    have ht : i.kind.isType = true := by simpa [Group.ok] using hok
    by_cases h : i.name ∈ tn <;>
      simp [Group.emit, Group.entries, Entry.isMissing, Item.definedIn, guardFree, h, hf, ht]
  | act i =>
    have hf : i.kind.isFn = true := by simpa [Group.ok] using hok
    have ht := isType_of_isFn hf
    by_cases h : i.name ∈ fn <;>
      simp [Group.emit, Group.entries, Entry.isMissing, Item.definedIn, guardFree, h, hf, ht]
  | nt g is =>
    simp only [Group.entries, spec_nt]
    have hall : ∀ i ∈ is, i.kind.isType = true := by
      have := hok
      simp only [Group.ok, Bool.and_eq_true, List.all_eq_true] at this
      exact this.1
    by_cases hg : g ∈ tn
    · simp [Group.emit, hg, Entry.isMissing, guardFree]
    · simp only [Group.emit, hg, if_false]
      cases v with
      | asIs =>
        have hc := hpre rfl
        simp only [Group.closed, hg, decide_false, Bool.false_or, List.all_eq_true] at hc
        simp only [ownFilter]
        symm
        apply List.filter_eq_self.mpr
        intro i hi
        have h1 := hc i hi
        have h2 := hall i hi
        simp only [Bool.not_eq_true', decide_eq_false_iff_not] at h1
        simp [Entry.isMissing, Item.definedIn, guardFree, hg, h1, h2, isFn_of_isType h2]
      | fixed =>
        simp only [ownFilter]
        apply List.filter_congr
        intro i hi
        have h2 := hall i hi
        simp [Entry.isMissing, Item.definedIn, guardFree, hg, h2, isFn_of_isType h2]

/-! ## the whole generation -/

theorem gen_eq_missing' (v : Variant) (tn fn : List String) (n : List Group)
    (hok : NeededOk n) (hpre : ∀ g ∈ n, v.PreG tn g) :
    gen v tn fn n = ((n.flatMap Group.entries).filter (Entry.isMissing tn fn)).map (·.item) := by
  induction n with
  | nil => rfl
  | cons g t ih =>
    have h1 := emit_eq_spec v tn fn g (hok g (by simp)) (hpre g (by simp))
    have h2 := ih (fun x hx => hok x (by simp [hx])) (fun x hx => hpre x (by simp [hx]))
    simp only [gen] at h2
    simp only [gen, List.flatMap_cons, List.filter_append, List.map_append, h1, h2]

theorem preG_of_pre {v : Variant} {e : List Item} {n : List Group} (h : v.Pre e n) :
    ∀ g ∈ n, v.PreG (typeNames e) g := by
  intro g hg hv
  subst hv
  exact h g hg

theorem gen_eq_missing (v : Variant) (e : List Item) (n : List Group)
    (hok : NeededOk n) (hpre : v.Pre e n) :
    gen v (typeNames e) (fnNames e) n = missing e n :=
  gen_eq_missing' v _ _ n hok (preG_of_pre hpre)

/-- every pushed item was undefined in the starting file -/
theorem gen_fresh (v : Variant) (e : List Item) (n : List Group)
    (hok : NeededOk n) (hpre : v.Pre e n) :
    ∀ x ∈ gen v (typeNames e) (fnNames e) n, x.definedIn (typeNames e) (fnNames e) = false := by
  intro x hx
  rw [gen_eq_missing v e n hok hpre] at hx
  simp only [missing, List.mem_map, List.mem_filter] at hx
  obtain ⟨en, ⟨_, hm⟩, rfl⟩ := hx
  simp only [Entry.isMissing, Bool.and_eq_true, Bool.not_eq_true'] at hm
  exact hm.1

theorem flatMap_sublist {α β : Type} (f h : α → List β) (l : List α)
    (hs : ∀ a, (f a).Sublist (h a)) : (l.flatMap f).Sublist (l.flatMap h) := by
  induction l with
  | nil => simp
  | cons a t ih =>
    simp only [List.flatMap_cons]
    exact (hs a).append ih

theorem emit_sublist (v : Variant) (tn fn : List String) (g : Group) :
    (g.emit v tn fn).Sublist g.items := by
  cases g with
  | ty i => simp only [Group.emit, Group.items]; split <;> simp
  | act i => simp only [Group.emit, Group.items]; split <;> simp
  | nt g is =>
    simp only [Group.emit, Group.items]
    split
    · simp
    · cases v with
      | asIs => simp [ownFilter]
      | fixed => simp only [ownFilter]; exact List.filter_sublist

/-- pushed items are a subsequence of the pristine generation (generation order is kept) -/
theorem gen_sublist (v : Variant) (tn fn : List String) (n : List Group) :
    (gen v tn fn n).Sublist (allItems n) :=
  flatMap_sublist _ _ n (emit_sublist v tn fn)

/-! ## no duplicates -/

theorem regen_nodup (v : Variant) (e : List Item) (n : List Group)
    (hok : NeededOk n) (hpre : v.Pre e n) (hn : NoDupNames (allItems n)) (he : NoDupNames e) :
    NoDupNames (regen v e n) := by
  have hfresh := gen_fresh v e n hok hpre
  have hsub := gen_sublist v (typeNames e) (fnNames e) n
  constructor
  · rw [regen, typeNames_append, List.nodup_append]
    refine ⟨he.1, (typeNames_sublist hsub).nodup hn.1, ?_⟩
    intro a ha b hb hab
    subst hab
    obtain ⟨x, hx, hxt, hxn⟩ := mem_typeNames.mp hb
    have := hfresh x hx
    subst hxn
    simp [Item.definedIn, hxt, ha] at this
  · rw [regen, fnNames_append, List.nodup_append]
    refine ⟨he.2, (fnNames_sublist hsub).nodup hn.2, ?_⟩
    intro a ha b hb hab
    subst hab
    obtain ⟨x, hx, hxt, hxn⟩ := mem_fnNames.mp hb
    have := hfresh x hx
    subst hxn
    simp [Item.definedIn, hxt, ha] at this

/-! ## idempotence -/

theorem emit_nil_after (v : Variant) (tn fn : List String) (n : List Group) (g : Group)
    (hg : g ∈ n) (hok : g.ok = true) :
    g.emit v (tn ++ typeNames (gen v tn fn n)) (fn ++ fnNames (gen v tn fn n)) = [] := by
  have hsub : ∀ x ∈ g.emit v tn fn, x ∈ gen v tn fn n := by
    intro x hx
    exact List.mem_flatMap.mpr ⟨g, hg, hx⟩
  cases g with
  | ty i =>
    have ht : i.kind.isType = true := by simpa [Group.ok] using hok
    by_cases h : i.name ∈ tn
    · simp [Group.emit, h]
    · have hi : i ∈ gen v tn fn n := hsub i (by simp [Group.emit, h])
      have : i.name ∈ typeNames (gen v tn fn n) := mem_typeNames.mpr ⟨i, hi, ht, rfl⟩
      simp [Group.emit, this]
  | act i =>
    have ht : i.kind.isFn = true := by simpa [Group.ok] using hok
    by_cases h : i.name ∈ fn
    · simp [Group.emit, h]
    · have hi : i ∈ gen v tn fn n := hsub i (by simp [Group.emit, h])
      have : i.name ∈ fnNames (gen v tn fn n) := mem_fnNames.mpr ⟨i, hi, ht, rfl⟩
      simp [Group.emit, this]
  | nt g is =>
    by_cases h : g ∈ tn
    · simp [Group.emit, h]
    · have hok' := hok
      simp only [Group.ok, Bool.and_eq_true, List.all_eq_true, decide_eq_true_eq,
        List.mem_map] at hok'
      obtain ⟨hall, i, hi, hname⟩ := hok'
      have hit := hall i hi
      have hmem : i ∈ (Group.nt g is).emit v tn fn := by
        simp only [Group.emit, h, if_false]
        cases v with
        | asIs => simpa [ownFilter] using hi
        | fixed =>
          simp only [ownFilter, List.mem_filter]
          refine ⟨hi, ?_⟩
          simp [hname, h]
      have : g ∈ typeNames (gen v tn fn n) := mem_typeNames.mpr ⟨i, hsub i hmem, hit, hname⟩
      simp [Group.emit, this]

/-- after one regeneration, nothing is missing any more -/
theorem gen_regen_nil (v : Variant) (e : List Item) (n : List Group) (hok : NeededOk n) :
    gen v (typeNames (regen v e n)) (fnNames (regen v e n)) n = [] := by
  simp only [regen, typeNames_append, fnNames_append]
  generalize htn : typeNames e = tn
  generalize hfn : fnNames e = fn
  simp only [gen]
  apply List.flatMap_eq_nil_iff.mpr
  intro g hg
  exact emit_nil_after v tn fn n g hg (hok g hg)

theorem regen_idem (v : Variant) (e : List Item) (n : List Group) (hok : NeededOk n) :
    regen v (regen v e n) n = regen v e n := by
  have h := gen_regen_nil v e n hok
  generalize regen v e n = r at h
  simp [regen, h]

/-! ## settings -/

theorem cfgOf_append (a b : List SetOp) : cfgOf (a ++ b) = b.foldl SetOp.apply (cfgOf a) := by
  simp [cfgOf, List.foldl_append]

def SetOp.isForce : SetOp → Bool
  | .force _ => true
  | _ => false

/-- an explicit `force` is never overridden by later non-`force` calls -/
theorem foldl_keeps_explicit (ops : List SetOp) (c : Cfg) (hc : c.forceExplicit = true)
    (hops : ∀ op ∈ ops, op.isForce = false) :
    (ops.foldl SetOp.apply c).force = c.force ∧ (ops.foldl SetOp.apply c).forceExplicit = true := by
  induction ops generalizing c with
  | nil => exact ⟨rfl, hc⟩
  | cons op t ih =>
    have hop := hops op (by simp)
    have ht : ∀ o ∈ t, o.isForce = false := fun o ho => hops o (by simp [ho])
    cases op with
    | force b => simp [SetOp.isForce] at hop
    | actionsInSourceTree =>
      have : SetOp.apply c .actionsInSourceTree = c := by simp [SetOp.apply, hc]
      simpa [List.foldl_cons, this] using ih c hc ht
    | inSourceTree =>
      have : SetOp.apply c .inSourceTree = c := by simp [SetOp.apply, hc]
      simpa [List.foldl_cons, this] using ih c hc ht
    | actions b =>
      have := ih (SetOp.apply c (.actions b)) (by simpa [SetOp.apply] using hc) ht
      simpa [List.foldl_cons, SetOp.apply] using this

/-- without an explicit `force`, `forceExplicit` stays false -/
theorem foldl_no_force (ops : List SetOp) (c : Cfg) (hc : c.forceExplicit = false)
    (hops : ∀ op ∈ ops, op.isForce = false) :
    (ops.foldl SetOp.apply c).forceExplicit = false := by
  induction ops generalizing c with
  | nil => exact hc
  | cons op t ih =>
    have hop := hops op (by simp)
    have ht : ∀ o ∈ t, o.isForce = false := fun o ho => hops o (by simp [ho])
    cases op with
    | force b => simp [SetOp.isForce] at hop
    | actionsInSourceTree => exact ih _ (by simp [SetOp.apply, hc]) ht
    | inSourceTree => exact ih _ (by simp [SetOp.apply, hc]) ht
    | actions b => exact ih _ (by simpa [SetOp.apply] using hc) ht

/-- non-`force` calls never turn overwriting on -/
theorem foldl_force_stays_false (ops : List SetOp) (c : Cfg) (hc : c.force = false)
    (hops : ∀ op ∈ ops, op.isForce = false) :
    (ops.foldl SetOp.apply c).force = false := by
  induction ops generalizing c with
  | nil => exact hc
  | cons op t ih =>
    have hop := hops op (by simp)
    have ht : ∀ o ∈ t, o.isForce = false := fun o ho => hops o (by simp [ho])
    cases op with
    | force b => simp [SetOp.isForce] at hop
    | actionsInSourceTree => exact ih _ (by simp only [SetOp.apply]; split <;> simp [hc]) ht
    | inSourceTree => exact ih _ (by simp only [SetOp.apply]; split <;> simp [hc]) ht
    | actions b => exact ih _ (by simpa [SetOp.apply] using hc) ht

/-! ## the pristine file -/

theorem entries_items (g : Group) : g.entries.map (·.item) = g.items := by
  cases g <;> simp [Group.entries, Group.items, Function.comp_def]

theorem entries_allItems (n : List Group) : (n.flatMap Group.entries).map (·.item) = allItems n := by
  induction n with
  | nil => rfl
  | cons g t ih => simp [allItems, List.flatMap_cons, entries_items] at *; exact ih

/-- every entry's guard is the name of a type item of the same needed list -/
theorem guard_is_item_name (n : List Group) (hok : NeededOk n) :
    ∀ x ∈ n.flatMap Group.entries, ∀ g, x.guard = some g →
      ∃ i ∈ allItems n, i.kind.isType = true ∧ i.name = g := by
  intro x hx g hg
  obtain ⟨grp, hgrp, hxg⟩ := List.mem_flatMap.mp hx
  cases grp with
  | ty i => simp [Group.entries] at hxg; subst hxg; simp at hg
  | act i => simp [Group.entries] at hxg; subst hxg; simp at hg
  | nt g' is =>
    simp only [Group.entries, List.mem_map] at hxg
    obtain ⟨i0, _, rfl⟩ := hxg
    simp only [Option.some.injEq] at hg
    subst hg
    have h := hok _ hgrp
    simp only [Group.ok, Bool.and_eq_true, List.all_eq_true, decide_eq_true_eq, List.mem_map] at h
    obtain ⟨hall, i, hi, hn⟩ := h
    exact ⟨i, List.mem_flatMap.mpr ⟨_, hgrp, by simpa [Group.items] using hi⟩, hall i hi, hn⟩

/-- if nothing the generator produces is defined in `e`, everything is missing -/
theorem missing_all (e : List Item) (n : List Group) (hok : NeededOk n)
    (hfree : ∀ x ∈ allItems n, x.definedIn (typeNames e) (fnNames e) = false) :
    missing e n = allItems n := by
  rw [← entries_allItems, missing]
  congr 1
  apply List.filter_eq_self.mpr
  intro x hx
  have hxi : x.item ∈ allItems n := by
    rw [← entries_allItems]; exact List.mem_map.mpr ⟨x, hx, rfl⟩
  simp only [Entry.isMissing, hfree _ hxi, Bool.not_false, Bool.true_and]
  cases hgd : x.guard with
  | none => rfl
  | some g =>
    obtain ⟨i, hi, hit, hin⟩ := guard_is_item_name n hok x hx g hgd
    have := hfree i hi
    simp only [Item.definedIn, hit, Bool.true_and, isFn_of_isType hit, Bool.false_and,
      Bool.or_false, decide_eq_false_iff_not] at this
    simp [guardFree, ← hin, this]

theorem closed_of_free (e : List Item) (n : List Group) (hok : NeededOk n)
    (hfree : ∀ x ∈ allItems n, x.definedIn (typeNames e) (fnNames e) = false) :
    GroupClosed e n := by
  intro g hg
  cases g with
  | ty i => rfl
  | act i => rfl
  | nt g is =>
    have h := hok _ hg
    simp only [Group.ok, Bool.and_eq_true, List.all_eq_true] at h
    simp only [Group.closed, Bool.or_eq_true, List.all_eq_true]
    right
    intro i hi
    have hit := h.1 i hi
    have := hfree i (List.mem_flatMap.mpr ⟨_, hg, by simpa [Group.items] using hi⟩)
    simpa [Item.definedIn, hit, isFn_of_isType hit] using this

theorem pre_of_free (v : Variant) (e : List Item) (n : List Group) (hok : NeededOk n)
    (hfree : ∀ x ∈ allItems n, x.definedIn (typeNames e) (fnNames e) = false) : v.Pre e n := by
  cases v with
  | asIs => exact closed_of_free e n hok hfree
  | fixed => trivial

end Rustemo.Regen
