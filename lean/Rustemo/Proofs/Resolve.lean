import Rustemo.Model.Resolve
/-!
# Lemmas about `Resolve.addReduce` for the pairwise theorems of C05
-/
set_option linter.unusedSimpArgs false
namespace Rustemo.Resolve
open Rustemo

@[simp] theorem isShiftLike_shift (s : Nat) : isShiftLike (.shift s) = true := rfl
@[simp] theorem isShiftLike_accept : isShiftLike .accept = true := rfl
@[simp] theorem isShiftLike_reduce (p l : Nat) : isShiftLike (.reduce p l) = false := rfl
@[simp] theorem isReduce_shift (s : Nat) : isReduce (.shift s) = false := rfl
@[simp] theorem isReduce_accept : isReduce .accept = false := rfl
@[simp] theorem isReduce_reduce (p l : Nat) : isReduce (.reduce p l) = true := rfl
@[simp] theorem isEmptyReduce_shift (s : Nat) : isEmptyReduce (.shift s) = false := rfl
@[simp] theorem isEmptyReduce_accept : isEmptyReduce .accept = false := rfl
@[simp] theorem isEmptyReduce_reduce (p l : Nat) : isEmptyReduce (.reduce p l) = (l == 0) := rfl

/-- `SR` decision forgetting which arm overrode -/
def SR.toKeep : SR → Keep
  | .keepShift => .shift
  | .override _ => .reduce
  | .both => .both

theorem srDecide_fixed (fx : Fixes) (h : fx.termAssoc = true) (cfg : Cfg) (i : PInfo) (ta : Assoc)
    (shp : Nat) :
    (srDecide fx cfg i ta (compare i.prio shp)).toKeep = docSR cfg i ta shp := by
  unfold docSR
  generalize compare i.prio shp = o
  obtain ⟨prio, pa, len, nops, nopse⟩ := i
  obtain ⟨glr, ps, pse⟩ := cfg
  simp only [srDecide, assocArms, h, if_true, Doc.resolveSR]
  cases o <;> cases pa <;> cases ta <;> try rfl
  simp only [assocArmsFixed, srOfAssoc, preferShift]
  rcases Bool.eq_false_or_eq_true (len == 0) with he | he <;> simp only [he] <;>
    cases ps <;> cases pse <;> cases nops <;> cases nopse <;> rfl

theorem srDecide_today (fx : Fixes) (h : fx.termAssoc = false) (cfg : Cfg) (i : PInfo) (ta : Assoc)
    (shp : Nat) (hdom : ta = .none ∨ compare i.prio shp ≠ .eq) :
    (srDecide fx cfg i ta (compare i.prio shp)).toKeep = docSR cfg i ta shp := by
  unfold docSR
  revert hdom
  generalize compare i.prio shp = o
  obtain ⟨prio, pa, len, nops, nopse⟩ := i
  obtain ⟨glr, ps, pse⟩ := cfg
  simp only [srDecide, assocArms, h, Doc.resolveSR]
  intro hdom
  cases o
  · cases pa <;> cases ta <;> rfl
  · cases ta
    · cases pa <;> try rfl
      simp only [assocArmsToday, srOfAssoc, preferShift]
      rcases Bool.eq_false_or_eq_true (len == 0) with he | he <;> simp only [he] <;>
    cases ps <;> cases pse <;> cases nops <;> cases nopse <;> rfl
    · rcases hdom with h | h <;> simp at h
    · rcases hdom with h | h <;> simp at h
  · cases pa <;> cases ta <;> rfl

/-- a cell holding just one shift-like action: the SHIFT/REDUCE part decides alone -/
theorem applySR_single (fx : Fixes) (cfg : Cfg) (info : Nat → PInfo) (r : Red) (sh : Action)
    (hsh : isShiftLike sh = true) (d : SR) :
    applySR fx cfg info r [] [sh] d = .ok (keepSR sh (.reduce r.prod r.pos) d.toKeep) := by
  cases d with
  | keepShift => rfl
  | both => simp [applySR, rrStep, keepSR, SR.toKeep]
  | override b =>
    cases hn : fx.noAssert <;>
      simp [applySR, overrideShift, hn, afterOverride, rrStep, keepSR, SR.toKeep, hsh]

theorem addReduce_single_shift (fx : Fixes) (cfg : Cfg) (info : Nat → PInfo) (ta : Assoc) (sp : Nat)
    (r : Red) (s : Nat) :
    addReduce fx cfg info ta (some sp) r [.shift s] =
      .ok (keepSR (.shift s) (.reduce r.prod r.pos)
        (srDecide fx cfg (info r.prod) ta (compare (info r.prod).prio sp)).toKeep) := by
  simp only [addReduce, onShift, withShift, shiftPrio, List.filter, isShiftLike_shift,
    List.isEmpty_cons, Bool.false_eq_true, if_false, List.length_cons, List.length_nil,
    Bool.not_true, List.all_nil, List.head?_cons, Nat.lt_irrefl, Bool.not_true, gt_iff_lt,
    Nat.zero_add]
  exact applySR_single fx cfg info r _ rfl _

theorem addReduce_single_accept (fx : Fixes) (cfg : Cfg) (info : Nat → PInfo) (ta : Assoc)
    (sp : Option Nat) (r : Red) :
    addReduce fx cfg info ta sp r [.accept] =
      .ok (keepSR .accept (.reduce r.prod r.pos)
        (srDecide fx cfg (info r.prod) ta (compare (info r.prod).prio 10)).toKeep) := by
  simp only [addReduce, onShift, withShift, shiftPrio, List.filter, isShiftLike_accept,
    List.isEmpty_cons, Bool.false_eq_true, if_false, List.length_cons, List.length_nil,
    Bool.not_true, List.all_nil, List.head?_cons, Nat.lt_irrefl, Bool.not_true, gt_iff_lt,
    Nat.zero_add]
  exact applySR_single fx cfg info r _ rfl _

end Rustemo.Resolve

namespace Rustemo.Resolve
open Rustemo

theorem addReduce_single_reduce (fx : Fixes) (cfg : Cfg) (info : Nat → PInfo) (ta : Assoc)
    (sp : Option Nat) (r : Red) (p1 l1 : Nat) :
    addReduce fx cfg info ta sp r [.reduce p1 l1] =
      .ok (rrStep fx cfg info r [.reduce p1 l1] [.reduce p1 l1]) := by
  simp [addReduce, onShift, List.filter]

theorem rrStep_single_fixed (fx : Fixes) (h : fx.emptyRR = true) (cfg : Cfg) (info : Nat → PInfo)
    (r : Red) (p1 l1 : Nat) :
    rrStep fx cfg info r [.reduce p1 l1] [.reduce p1 l1] =
      keepRR (.reduce p1 l1) (.reduce r.prod r.pos) (docRR cfg info p1 l1 r) := by
  unfold docRR
  rcases Nat.lt_trichotomy (info p1).prio (info r.prod).prio with hlt | heq | hgt
  · have hc : compare (info p1).prio (info r.prod).prio = .lt := Nat.compare_eq_lt.mpr hlt
    have h1 : ¬ (info r.prod).prio < (info p1).prio := by omega
    simp [rrStep, actPrio, hc, Doc.resolveRR, keepRR, h1, hlt, List.filter]
  · have hc : compare (info p1).prio (info r.prod).prio = .eq := Nat.compare_eq_eq.mpr heq
    simp only [rrStep, actPrio, hc, Doc.resolveRR, heq, List.isEmpty_cons, Bool.false_eq_true,
      if_false, List.map_cons, List.map_nil, List.all_cons, List.all_nil, Bool.and_true,
      Nat.lt_irrefl, decide_false, gt_iff_lt]
    cases hg : cfg.glr
    · simp only [Bool.false_eq_true, if_false, rrLR, h, if_true]
      rcases Bool.eq_false_or_eq_true (l1 == 0) with h1 | h1 <;>
        rcases Nat.eq_zero_or_pos (info r.prod).len with h2 | h2 <;>
        simp [h1, h2, keepRR, List.filter, Nat.pos_iff_ne_zero.mp, Nat.ne_of_gt]
    · simp [keepRR]
  · have hc : compare (info p1).prio (info r.prod).prio = .gt := Nat.compare_eq_gt.mpr hgt
    simp [rrStep, actPrio, hc, Doc.resolveRR, keepRR, hgt]

theorem rrStep_single_today (fx : Fixes) (h : fx.emptyRR = false) (cfg : Cfg) (info : Nat → PInfo)
    (r : Red) (p1 l1 : Nat)
    (hdom : ¬ (cfg.glr = false ∧ (info p1).prio = (info r.prod).prio ∧ l1 = 0 ∧ (info r.prod).len = 0)) :
    rrStep fx cfg info r [.reduce p1 l1] [.reduce p1 l1] =
      keepRR (.reduce p1 l1) (.reduce r.prod r.pos) (docRR cfg info p1 l1 r) := by
  unfold docRR
  rcases Nat.lt_trichotomy (info p1).prio (info r.prod).prio with hlt | heq | hgt
  · have hc : compare (info p1).prio (info r.prod).prio = .lt := Nat.compare_eq_lt.mpr hlt
    have h1 : ¬ (info r.prod).prio < (info p1).prio := by omega
    simp [rrStep, actPrio, hc, Doc.resolveRR, keepRR, h1, hlt, List.filter]
  · have hc : compare (info p1).prio (info r.prod).prio = .eq := Nat.compare_eq_eq.mpr heq
    simp only [rrStep, actPrio, hc, Doc.resolveRR, heq, List.isEmpty_cons, Bool.false_eq_true,
      if_false, List.map_cons, List.map_nil, List.all_cons, List.all_nil, Bool.and_true,
      Nat.lt_irrefl, decide_false, gt_iff_lt]
    cases hg : cfg.glr
    · simp only [Bool.false_eq_true, if_false, rrLR, h]
      rcases Bool.eq_false_or_eq_true (l1 == 0) with h1 | h1 <;>
        rcases Nat.eq_zero_or_pos (info r.prod).len with h2 | h2
      · exfalso; exact hdom ⟨hg, heq, by simpa using h1, h2⟩
      · simp [h1, h2, keepRR, List.filter, Nat.ne_of_gt]
      · simp [h1, h2, keepRR, List.filter]
      · simp [h1, h2, keepRR, List.filter, Nat.ne_of_gt]
    · simp [keepRR]
  · have hc : compare (info p1).prio (info r.prod).prio = .gt := Nat.compare_eq_gt.mpr hgt
    simp [rrStep, actPrio, hc, Doc.resolveRR, keepRR, hgt]

end Rustemo.Resolve

namespace Rustemo.Resolve
open Rustemo

/-- the documented REDUCE/REDUCE rule is symmetric: swapping the two reductions gives the same
    cell up to order -/
theorem keepRR_swap (a b : Action) (glr : Bool) (p q : Nat) (e1 e2 : Bool) :
    (keepRR a b (Doc.resolveRR glr (compare p q) e1 e2)).Perm
      (keepRR b a (Doc.resolveRR glr (compare q p) e2 e1)) := by
  rcases Nat.lt_trichotomy p q with h | h | h
  · rw [Nat.compare_eq_lt.mpr h, Nat.compare_eq_gt.mpr h]; exact List.Perm.refl _
  · subst h
    rw [Nat.compare_eq_eq.mpr rfl]
    cases glr <;> cases e1 <;> cases e2 <;>
      first | exact List.Perm.refl _ | exact List.Perm.swap _ _ _
  · rw [Nat.compare_eq_gt.mpr h, Nat.compare_eq_lt.mpr h]; exact List.Perm.refl _

end Rustemo.Resolve
