import Rustemo.Proofs.TableClosure
import Rustemo.Proofs.TableGroup
import Rustemo.Proofs.TableSkel
/-!
# Table construction: the structural invariant of the array of states

`GW g` is `gwf g` as a proposition.  `Inv g autos sts`: every state is well shaped (`StOk`), start states
hold only dot-0 items, an augmented production's initial item sits in its own start state only, every
recorded transition `s --X--> s'` leads to an existing non-start state all of whose dot>0 items are
`X`-successors of items of `s` (`TgtOk`).  `Grown old new`: same cores in the same order, lookaheads grew.
-/
namespace Rustemo.Table

/-! ## The grammar hypothesis -/

structure GW (g : Grammar) : Prop where
  nterms_pos : 0 < g.nterms
  terms_size : g.terms.size = g.nterms
  empty_ge : g.nterms ≤ g.emptyIdx
  empty_lt : g.emptyIdx < g.nterms + g.nnonterms
  aug_ge : g.nterms ≤ g.augIdx
  aug_lt : g.augIdx < g.nterms + g.nnonterms
  prod_ok : ∀ (p : Nat) (pr : Prod), g.prods[p]? = some pr → g.nterms ≤ pr.lhs ∧ pr.lhs < g.nterms + g.nnonterms ∧
    ∀ X ∈ pr.rhs, 0 < X ∧ X < g.nterms + g.nnonterms ∧ X ≠ g.augIdx ∧ some X ≠ g.auglIdx ∧ X ≠ g.emptyIdx
  aug0 : ∃ pr0, g.prods[0]? = some pr0 ∧ pr0.lhs = g.augIdx ∧ pr0.rhs = [g.startIdx]
  aug_prods : Canon.prodsOf g g.augIdx = [0]
  augl : ∀ l, g.auglIdx = some l → g.nterms ≤ l ∧ l < g.nterms + g.nnonterms ∧ l ≠ g.augIdx ∧
    ∃ (p : Nat) (pr : Prod), Canon.prodsOf g l = [p] ∧ g.prods[p]? = some pr ∧ pr.rhs.length = 1

theorem mem_toList_of_getElem? {α} {a : Array α} {i : Nat} {x : α} (h : a[i]? = some x) : x ∈ a.toList := by
  have hi : i < a.size := by
    rcases Nat.lt_or_ge i a.size with h' | h'
    · exact h'
    · rw [Array.getElem?_eq_none h'] at h; simp at h
  rw [Array.getElem?_eq_getElem hi] at h
  simp only [Option.some.injEq] at h
  subst h
  simp

theorem GW.of_gwf {g : Grammar} (h : gwf g = true) : GW g := by
  unfold gwf at h
  simp only [Bool.and_eq_true, decide_eq_true_eq, beq_iff_eq, List.all_eq_true] at h
  obtain ⟨⟨⟨⟨⟨⟨⟨⟨⟨h1, h2⟩, h3⟩, h4⟩, h5⟩, h6⟩, h7⟩, h8⟩, h9⟩, h10⟩ := h
  refine ⟨h1, h2, h3, h4, h5, h6, ?_, ?_, h9, ?_⟩
  · intro p pr hp
    have := h7 pr (mem_toList_of_getElem? hp)
    unfold prodOk at this
    simp only [Bool.and_eq_true, decide_eq_true_eq, List.all_eq_true] at this
    refine ⟨this.1.1, this.1.2, ?_⟩
    intro X hX
    have hx := this.2 X hX
    unfold symOk at hx
    simp only [Bool.and_eq_true, decide_eq_true_eq, bne_iff_ne, ne_eq] at hx
    exact ⟨hx.1.1.1.1, hx.1.1.1.2, hx.1.1.2, hx.1.2, hx.2⟩
  · split at h8
    · rename_i pr hpr
      simp only [Bool.and_eq_true, beq_iff_eq] at h8
      exact ⟨pr, hpr, h8.1, h8.2⟩
    · simp at h8
  · intro l hl
    unfold auglOk at h10
    rw [hl] at h10
    simp only [Bool.and_eq_true, decide_eq_true_eq, bne_iff_ne, ne_eq] at h10
    obtain ⟨⟨⟨a1, a2⟩, a3⟩, a4⟩ := h10
    refine ⟨a1, a2, a3, ?_⟩
    split at a4
    · rename_i p hp
      split at a4
      · rename_i pr hpr
        simp only [beq_iff_eq] at a4
        exact ⟨p, pr, hp, hpr, a4⟩
      · simp at a4
    · simp at a4

/-! ## Items, transitions -/

def ItemOk (g : Grammar) (it : Item) : Prop :=
  ∃ pr, g.prods[it.prod]? = some pr ∧ it.dot ≤ pr.rhs.length

/-- an augmented production: its left-hand side is AUG or AUGL -/
def AugProd (g : Grammar) (p : Nat) : Prop :=
  ∃ pr, g.prods[p]? = some pr ∧ (pr.lhs = g.augIdx ∨ some pr.lhs = g.auglIdx)

/-- a production whose left-hand side occurs in a right-hand side (what a closure can add) -/
def ClosureProd (g : Grammar) (q : Nat) : Prop :=
  ∃ (qr : Prod) (p : Nat) (pr : Prod), g.prods[q]? = some qr ∧ g.prods[p]? = some pr ∧ qr.lhs ∈ pr.rhs

theorem ClosureProd.not_aug {g : Grammar} (hg : GW g) {q : Nat} (h : ClosureProd g q) : ¬AugProd g q := by
  obtain ⟨qr, p, pr, h1, h2, h3⟩ := h
  rintro ⟨qr', h4, h5⟩
  rw [h1] at h4
  simp only [Option.some.injEq] at h4
  subst h4
  have := (hg.prod_ok p pr h2).2.2 qr.lhs h3
  rcases h5 with h5 | h5
  · exact this.2.2.1 h5
  · exact this.2.2.2.1 h5

/-- the transition `st --X--> s'` is recorded in `st` (SHIFT entry resp. GOTO) -/
def HasTrans (g : Grammar) (st : State) (X s' : Nat) : Prop :=
  (X < g.nterms ∧ Action.shift s' ∈ st.actions.getD X []) ∨
  (g.nterms ≤ X ∧ st.gotos.getD (X - g.nterms) none = some s')

/-- every item of the target with the dot after a symbol is an `X`-successor of an item of `st` -/
def TgtOk (g : Grammar) (sts : Array State) (st : State) (X s' : Nat) : Prop :=
  ∀ st', sts[s']? = some st' → ∀ it ∈ st'.items, it.dot ≠ 0 →
    g.rhsAt it.prod (it.dot - 1) = some X ∧ (it.prod, it.dot - 1) ∈ st.items.map core

structure StOk (g : Grammar) (st : State) : Prop where
  asize : st.actions.size = g.nterms
  gsize : st.gotos.size = g.nnonterms
  items : ∀ it ∈ st.items, ItemOk g it
  nodup : (st.items.map core).Nodup
  cells : ∀ a act, act ∈ st.actions.getD a [] → ∃ s', act = Action.shift s'

structure Inv (g : Grammar) (autos : List (Nat × Nat)) (sts : Array State) : Prop where
  st : ∀ (i : Nat) (st : State), sts[i]? = some st → StOk g st
  starts : ∀ a ∈ autos, ∃ st, sts[a.1]? = some st ∧ (∀ it ∈ st.items, it.dot = 0) ∧
    ∃ it ∈ st.items, core it = (a.2, 0) ∧ 0 ∈ it.la
  augs : ∀ (i : Nat) (st : State), sts[i]? = some st → ∀ it ∈ st.items, it.dot = 0 → AugProd g it.prod → (i, it.prod) ∈ autos
  trans : ∀ (i : Nat) (st : State), sts[i]? = some st → ∀ X s', HasTrans g st X s' →
    s' < sts.size ∧ (∀ a ∈ autos, s' ≠ a.1) ∧ TgtOk g sts st X s'

/-! ## `Grown` -/

/-- same cores in the same order, lookaheads only grew -/
inductive Grown : List Item → List Item → Prop where
  | nil : Grown [] []
  | cons {a b : Item} {l1 l2 : List Item} (h : core a = core b ∧ Sub a.la b.la) (t : Grown l1 l2) :
      Grown (a :: l1) (b :: l2)

theorem Grown.refl : ∀ (l : List Item), Grown l l
  | [] => .nil
  | _ :: xs => .cons ⟨rfl, Sub.refl _⟩ (Grown.refl xs)

theorem Grown.cores {old new : List Item} (h : Grown old new) : new.map core = old.map core := by
  induction h with
  | nil => rfl
  | cons h1 _ ih => simp [ih, h1.1]

theorem Grown.mono {old new : List Item} (h : Grown old new) :
    ∀ it ∈ old, ∃ it' ∈ new, core it' = core it ∧ Sub it.la it'.la := by
  induction h with
  | nil => intro it h; simp at h
  | @cons a b l1 l2 h1 _ ih =>
    intro it hit
    rcases List.mem_cons.mp hit with h | h
    · subst h; exact ⟨b, List.mem_cons_self, h1.1.symm, h1.2⟩
    · obtain ⟨it', h2, h3⟩ := ih it h
      exact ⟨it', List.mem_cons_of_mem _ h2, h3⟩

theorem Grown.back {old new : List Item} (h : Grown old new) :
    ∀ it' ∈ new, ∃ it ∈ old, core it = core it' ∧ Sub it.la it'.la := by
  induction h with
  | nil => intro it h; simp at h
  | @cons a b l1 l2 h1 _ ih =>
    intro it hit
    rcases List.mem_cons.mp hit with h | h
    · subst h; exact ⟨a, List.mem_cons_self, h1.1, h1.2⟩
    · obtain ⟨it', h2, h3⟩ := ih it h
      exact ⟨it', List.mem_cons_of_mem _ h2, h3⟩

theorem Grown.trans {a b c : List Item} (h1 : Grown a b) (h2 : Grown b c) : Grown a c := by
  induction h1 generalizing c with
  | nil => cases h2; exact .nil
  | cons h _ ih =>
    cases h2 with
    | cons h' t' => exact .cons ⟨h.1.trans h'.1, h.2.trans h'.2⟩ (ih t')

theorem Grown.append {a b c d : List Item} (h1 : Grown a b) (h2 : Grown c d) : Grown (a ++ c) (b ++ d) := by
  induction h1 with
  | nil => exact h2
  | cons h _ ih => exact .cons h ih

/-! ## Array access -/

theorem getElem?_setItems {sts : Array State} {i j : Nat} {items : List Item} :
    (setItems sts i items)[j]? = if i = j then (sts[j]?).map (fun st => { st with items := items }) else sts[j]? := by
  unfold setItems
  rw [Array.getElem?_modify]

theorem lt_size_of_getElem? {α} {a : Array α} {i : Nat} {x : α} (h : a[i]? = some x) : i < a.size := by
  rcases Nat.lt_or_ge i a.size with h' | h'
  · exact h'
  · rw [Array.getElem?_eq_none h'] at h; simp at h

end Rustemo.Table
