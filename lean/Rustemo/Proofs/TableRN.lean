import Rustemo.Proofs.TableStructural2
import Rustemo.Proofs.GlrCert
/-!
# Table construction: right-nulled tables pass the right-nulled structural certificate

`rnNul g fs`: the symbols (other than EMPTY itself) whose rustemo FIRST set contains EMPTY.  Every member
derives the empty string (`rnNul_nullable`: soundness of `first_sets` for nullability), and every
`Reduce(p, len)` of a table the construction returns has `len ≤ |rhs p|` with all symbols from `len` on
in `rnNul` (`production_rn_lengths`, `LRItem::is_reducing`).
-/
namespace Rustemo.Table

variable {g : Grammar}

def rnNul (g : Grammar) (fs : Array (List Nat)) : List Nat :=
  (List.range (g.nterms + g.nnonterms)).filter fun Y => Y != g.emptyIdx && (fs.getD Y []).contains g.emptyIdx

/-! ## EMPTY in a FIRST set means: derives the empty string -/

def NulS (g : Grammar) (fs : Array (List Nat)) : Prop :=
  ∀ (X : Nat) (l : List Nat), fs[X]? = some l → g.emptyIdx ∈ l → X = g.emptyIdx ∨ Nullable g X

theorem nullable_of_rhs {p : Nat} {pr : Prod} (hp : g.prods[p]? = some pr) (h : ∀ Y ∈ pr.rhs, Nullable g Y) :
    Nullable g pr.lhs := by
  obtain ⟨cs, hcs, hy⟩ := validList_nil_yield g pr.rhs h
  refine ⟨.node p default none cs, ?_, ?_⟩
  · simp only [Tree.Valid]
    exact ⟨pr, hp, rfl, hcs⟩
  · simp only [Tree.yield]; exact hy

theorem firstProds_nul (hg : GW g) : ∀ (l : List Prod) (fs fs' : Array (List Nat)) (ch ch' : Bool),
    (∀ pr ∈ l, ∃ p : Nat, g.prods[p]? = some pr) → NulS g fs → firstProds g l fs ch = .ok (fs', ch') → NulS g fs'
  | [], fs, fs', ch, ch', _, hn, h => by
    simp only [firstProds, Res.ok.injEq, _root_.Prod.mk.injEq] at h
    rw [← h.1]; exact hn
  | pr :: rest, fs, fs', ch, ch', hl, hn, h => by
    unfold firstProds at h
    split at h
    · simp at h
    · rename_i r hr
      split at h
      · simp at h
      · rename_i old hold
        apply firstProds_nul hg rest _ fs' _ ch' (fun q hq => hl q (List.mem_cons_of_mem _ hq)) _ h
        obtain ⟨p, hp⟩ := hl pr List.mem_cons_self
        intro X l' hl' he
        rw [Array.getElem?_setIfInBounds] at hl'
        by_cases hx : pr.lhs = X
        · rw [if_pos hx] at hl'
          split at hl'
          · simp only [Option.some.injEq] at hl'
            subst hl'
            rcases mem_union.mp he with h' | h'
            · rw [← hx]; exact hn pr.lhs old hold h'
            · right
              rw [← hx]
              apply nullable_of_rhs hp
              intro Y hY
              obtain ⟨l2, h2, h3⟩ := firstsOf_empty hr h' Y hY
              rcases hn Y l2 h2 h3 with h4 | h4
              · exact absurd h4 ((hg.prod_ok p pr hp).2.2 Y hY).2.2.2.2
              · exact h4
          · simp at hl'
        · rw [if_neg hx] at hl'
          exact hn X l' hl' he

theorem firstLoop_nul (hg : GW g) : ∀ (n : Nat) (fs0 fs : Array (List Nat)), NulS g fs0 →
    firstLoop g n fs0 = .ok fs → NulS g fs := by
  intro n
  induction n with
  | zero => intro fs0 fs _ h; simp [firstLoop] at h
  | succ n ih =>
    intro fs0 fs hn h
    unfold firstLoop at h
    have hmem : ∀ pr ∈ g.prods.toList, ∃ p : Nat, g.prods[p]? = some pr := by
      intro pr hpr
      obtain ⟨i, hi, hget⟩ := List.getElem_of_mem hpr
      simp only [Array.length_toList] at hi
      refine ⟨i, ?_⟩
      rw [Array.getElem?_eq_getElem hi]
      simp only [Array.getElem_toList] at hget
      rw [hget]
    split at h
    · rename_i fs1 hp
      exact ih fs1 fs (firstProds_nul hg _ _ _ _ _ hmem hn hp) h
    · rename_i fs1 hp
      simp only [Res.ok.injEq] at h
      subst h
      exact firstProds_nul hg _ _ _ _ _ hmem hn hp
    · simp at h
    · simp at h
    · simp at h

theorem firstSets_nul (hg : GW g) {fuel : Nat} {fs : Array (List Nat)} (h : firstSets g fuel = .ok fs) : NulS g fs := by
  unfold firstSets at h
  obtain ⟨fs0, h0, hw⟩ := firstInit_wf hg
  rw [h0] at h
  apply firstLoop_nul hg fuel fs0 fs _ h
  -- initially only EMPTY's own set contains EMPTY
  intro X l hl he
  unfold firstInit at h0
  dsimp only at h0
  split at h0
  · rename_i s0 hs0
    simp only [Option.some.injEq] at h0
    subst h0
    rw [Array.getElem?_setIfInBounds] at hl
    by_cases hx : g.emptyIdx = X
    · exact .inl hx.symm
    · rw [if_neg hx] at hl
      simp only [List.getElem?_toArray] at hl
      by_cases hxt : X < g.nterms
      · rw [List.getElem?_append_left (by simpa using hxt)] at hl
        simp only [List.getElem?_map, List.getElem?_range hxt, Option.map_some, Option.some.injEq] at hl
        subst hl
        simp only [List.mem_singleton] at he
        exact .inl he.symm
      · rw [List.getElem?_append_right (by simpa using hxt)] at hl
        rw [List.getElem?_replicate] at hl
        split at hl
        · simp only [Option.some.injEq] at hl
          subst hl; simp at he
        · simp at hl
  · simp at h0

theorem rnNul_nullable (hg : GW g) {fuel : Nat} {fs : Array (List Nat)} (h : firstSets g fuel = .ok fs) :
    ∀ X ∈ rnNul g fs, Nullable g X := by
  intro X hX
  unfold rnNul at hX
  obtain ⟨h1, h2⟩ := List.mem_filter.mp hX
  simp only [Bool.and_eq_true, bne_iff_ne, ne_eq, List.contains_iff_mem] at h2
  have hw := (firstSets_spec hg h).1
  have hlt : X < fs.size := by rw [hw.size]; exact List.mem_range.mp h1
  have hget : fs[X]? = some fs[X] := Array.getElem?_eq_getElem hlt
  have := firstSets_nul hg h X _ hget (by
    have := h2.2
    rw [Array.getD_eq_getD_getElem?, hget] at this
    exact this)
  rcases this with h' | h'
  · exact absurd h' h2.1
  · exact h'

/-! ## `production_rn_lengths` -/

theorem rnLenRev_spec {fs : Array (List Nat)} : ∀ (l : List Nat) (n r : Nat), l.length = n →
    rnLenRev g fs l n = some r → r ≤ n ∧ ∀ Y ∈ l.take (n - r), g.emptyIdx ∈ fs.getD Y []
  | [], n, r, hl, h => by
    simp only [rnLenRev, Option.some.injEq] at h
    subst h; simp
  | X :: rest, n, r, hl, h => by
    unfold rnLenRev at h
    split at h
    · simp at h
    · rename_i fx hfx
      simp only [List.length_cons] at hl
      split at h
      · rename_i hc
        obtain ⟨i1, i2⟩ := rnLenRev_spec rest (n - 1) r (by omega) h
        refine ⟨by omega, ?_⟩
        intro Y hY
        have hn : n - r = (n - 1 - r) + 1 := by omega
        rw [hn, List.take_succ_cons] at hY
        rcases List.mem_cons.mp hY with h' | h'
        · subst h'
          rw [Array.getD_eq_getD_getElem?, hfx]
          simpa using hc
        · exact i2 Y h'
      · simp only [Option.some.injEq] at h
        subst h
        simp

theorem rnLensList_spec {fs : Array (List Nat)} : ∀ (l : List Prod) (r : List Nat), rnLensList g fs l = some r →
    r.length = l.length ∧ ∀ (k : Nat) (pr : Prod), l[k]? = some pr → ∃ n, r[k]? = some n ∧
      n ≤ pr.rhs.length ∧ ∀ Y ∈ pr.rhs.drop n, g.emptyIdx ∈ fs.getD Y []
  | [], r, h => by
    simp only [rnLensList, Option.some.injEq] at h
    subst h; simp
  | pr :: rest, r, h => by
    unfold rnLensList at h
    split at h
    · rename_i n r' hn hr'
      simp only [Option.some.injEq] at h
      subst h
      obtain ⟨i1, i2⟩ := rnLensList_spec rest r' hr'
      refine ⟨by simp [i1], ?_⟩
      intro k pr' hk
      cases k with
      | zero =>
        simp only [List.getElem?_cons_zero, Option.some.injEq] at hk
        subst hk
        obtain ⟨s1, s2⟩ := rnLenRev_spec pr.rhs.reverse pr.rhs.length n (by simp) hn
        refine ⟨n, by simp, s1, ?_⟩
        intro Y hY
        apply s2 Y
        -- the last `|rhs| - n` symbols are the first ones of the reversed list
        have : pr.rhs.drop n = (pr.rhs.reverse.take (pr.rhs.length - n)).reverse := by
          rw [List.take_reverse]
          simp only [List.reverse_reverse]
          congr 1
          omega
        rw [this] at hY
        exact List.mem_reverse.mp hY
      | succ k =>
        simp only [List.getElem?_cons_succ] at hk ⊢
        exact i2 k pr' hk
    · simp at h

/-- **construction_structural, right-nulled form** (all three table types): `Reduce(p, len)` needs the
    item `(p, len)`, `len ≤ |rhs p|` and every symbol of `rhs p` from `len` on nullable -/
theorem build_structuralRN (hg : gwf g = true) {s : Settings} {fuel : Nat} {t : Table}
    (h : build g s fuel = .ok t) : Cert.structuralRN g t (autosOf g t) (rnNul g t.firsts) = true := by
  have hG := GW.of_gwf hg
  have hb := build_ok h
  obtain ⟨sts, autos, hF⟩ := built_final hG hb
  have hfacts := final_facts hG hF
  apply structuralRN_of_facts hfacts
  rintro st p len ⟨it, h1, ⟨pr, hp, hdl⟩, h2, h3, h4, _⟩
  refine ⟨hasItemB_intro (List.mem_map.mpr ⟨it, h1, by simp [core, h2, h3]⟩), ?_⟩
  rw [← h2, hp]
  simp only [Bool.and_eq_true, decide_eq_true_eq, List.all_eq_true]
  refine ⟨by omega, ?_⟩
  intro Y hY
  have hYr := (hG.prod_ok it.prod pr hp).2.2 Y (List.mem_of_mem_drop hY)
  -- from `len` on every symbol has EMPTY in its FIRST set
  have hemp : g.emptyIdx ∈ t.firsts.getD Y [] := by
    unfold Resolve.isReducing Resolve.infoOf at h4
    rw [hp] at h4
    simp only [Bool.or_eq_true, beq_iff_eq] at h4
    rcases h4 with h4 | h4
    · rw [← h3, h4] at hY
      simp at hY
    · -- the right-nulled length of the production
      obtain ⟨fs, rn, _, _, _, _, _, e2, _, _, _, _, _, _, e9, e10⟩ := hb.ex
      rw [e10] at h4
      cases hrn : rn with
      | none => rw [hrn] at h4; simp at h4
      | some a =>
        rw [hrn] at h4
        simp only at h4
        split at h4
        · rename_i l hl
          simp only [decide_eq_true_eq] at h4
          -- `a` is `production_rn_lengths`
          unfold rnOf at e2
          split at e2
          · split at e2
            · rename_i a' ha'
              simp only [Res.ok.injEq] at e2
              rw [hrn] at e2
              simp only [Option.some.injEq] at e2
              subst e2
              unfold prodRnLens at ha'
              cases hll : rnLensList g fs g.prods.toList with
              | none => rw [hll] at ha'; simp at ha'
              | some r =>
                rw [hll] at ha'
                simp only [Option.map_some, Option.some.injEq] at ha'
                subst ha'
                obtain ⟨_, s2⟩ := rnLensList_spec _ _ hll
                have hk : g.prods.toList[it.prod]? = some pr := by simpa using hp
                obtain ⟨n, n1, _, n3⟩ := s2 it.prod pr hk
                have : n = l := by
                  have : r.toArray[it.prod]? = some n := by simpa using n1
                  rw [this] at hl
                  simpa using hl
                subst this
                rw [e9]
                apply n3 Y
                have hd : pr.rhs.drop len = (pr.rhs.drop n).drop (len - n) := by
                  rw [List.drop_drop]; congr 1; omega
                rw [hd] at hY
                exact List.mem_of_mem_drop hY
            · simp at e2
          · simp only [Res.ok.injEq] at e2
            rw [hrn] at e2; simp at e2
        · simp at h4
  unfold rnNul
  simp only [List.contains_iff_mem, List.mem_filter, List.mem_range, Bool.and_eq_true, bne_iff_ne, ne_eq]
  exact ⟨hYr.2.1, hYr.2.2.2.2, hemp⟩

/-- … as the proposition the GLR theory uses -/
theorem build_structuralRN_prop (hg : gwf g = true) {s : Settings} {fuel : Nat} {t : Table}
    (h : build g s fuel = .ok t) : StructuralRN g t (autosOf g t) := by
  have hG := GW.of_gwf hg
  obtain ⟨_, _, hF⟩ := built_final hG (build_ok h)
  obtain ⟨fuel0, hfs⟩ := hF.first
  exact Cert.structuralRN_sound g t _ _ (rnNul_nullable hG hfs) (build_structuralRN hg h)

end Rustemo.Table
