/-!
# C17 model: `Settings`, its builder methods, the `rcomp` command line, choice-name de-duplication

Mirrors (read from the sources, not from the documentation):

* `rustemo-compiler/src/settings.rs` — `struct Settings`, `Default for Settings` (reads the
  environment variables `OUT_DIR` and `CARGO_MANIFEST_DIR`), every builder method, the two builder
  panics (`lexical_disamb_grammar_order(false)` in LR mode, `actions_in_source_tree` with a non-default
  builder), `trace` (reads / sets `RUSTEMO_TRACE`), and the `expect("'root_dir' must be set!")` of
  `process_grammar`;
* `rustemo-compiler/src/main.rs` — `struct Cli` (every clap field), the clap argument syntax as far
  as the derive attributes determine it (`Cli.parse`), and `main` call by call **in the same order**
  (`Cli.toSettings`, `Cli.plan`);
* `rustemo-compiler/src/grammar/types/mod.rs` — `choice_name` and `Choice::make_choices_name_unique`
  with the `HashMap` iteration order as an explicit parameter (`Types.makeUnique`).

The *documented* meaning of the command line is written separately and declaratively as
`Doc.settingsOf` (one equation per setting). Import-free (core only): the driver links natively.
-/
namespace Rustemo.Cfg

/-! ## Enumerations (`settings.rs:14-55`, `table/mod.rs:42-53`) -/

inductive TableType where
  | lalr | lalrPager | lalrRn
deriving DecidableEq, Repr, Inhabited

inductive ParserAlgo where
  | lr | glr
deriving DecidableEq, Repr, Inhabited

inductive LexerType where
  | dflt | custom
deriving DecidableEq, Repr, Inhabited

inductive BuilderType where
  | dflt | generic | custom
deriving DecidableEq, Repr, Inhabited

inductive GenTableType where
  | arrays | functions
deriving DecidableEq, Repr, Inhabited

/-- Panics reachable from the builder API / the command line. -/
inductive PanicSite where
  /-- `settings.rs:303` "Can't disable grammar order strategy for LR." -/
  | grammarOrderLR
  /-- `settings.rs:201` "Settings 'actions_in_source_tree' is only available for the default builder type!" -/
  | actionsInSourceTreeNonDefault
  /-- `settings.rs:410` `.expect("'root_dir' must be set!")` in `process_grammar` -/
  | rootDirUnset
deriving DecidableEq, Repr, Inhabited

inductive Res (α : Type) where
  | ok (a : α)
  | panic (site : PanicSite)
deriving Repr, DecidableEq

def Res.bind {α β : Type} : Res α → (α → Res β) → Res β
  | .ok a, f => f a
  | .panic s, _ => .panic s

/-- The ambient process state `Settings` reads (Tie C inventory: exactly these three). -/
structure Env where
  outDir : Option String := none          -- OUT_DIR
  manifestDir : Option String := none     -- CARGO_MANIFEST_DIR
  rustemoTrace : Bool := false            -- RUSTEMO_TRACE is set
deriving DecidableEq, Repr, Inhabited

/-! ## `struct Settings` (`settings.rs:81-113`) -/

structure Settings where
  outDirRoot : Option String
  outDirActionsRoot : Option String
  rootDir : Option String
  preferShifts : Bool
  preferShiftsOverEmpty : Bool
  tableType : TableType
  parserAlgo : ParserAlgo
  printTable : Bool
  exclude : List String
  actions : Bool
  trace : Bool
  lexerType : LexerType
  builderType : BuilderType
  builderLocInfo : Bool
  generatorTableType : GenTableType
  inputType : String
  mostSpecific : Bool
  longestMatch : Bool
  grammarOrder : Bool
  partialParse : Bool
  skipWs : Bool
  force : Bool
  forceExplicit : Bool
  dot : Bool
  fancyRegex : Bool
deriving DecidableEq, Repr, Inhabited

namespace Settings

/-- `impl Default for Settings` (`settings.rs:115-153`) = `Settings::new()`. -/
def new (env : Env) : Settings :=
  { outDirRoot := env.outDir
    outDirActionsRoot := env.outDir
    rootDir := env.manifestDir
    preferShifts := false
    preferShiftsOverEmpty := true
    tableType := .lalrPager
    parserAlgo := .lr
    printTable := false
    exclude := []
    actions := true
    trace := false
    lexerType := .dflt
    builderType := .dflt
    builderLocInfo := false
    generatorTableType := .functions
    inputType := "str"
    mostSpecific := true
    longestMatch := true
    grammarOrder := true
    partialParse := false
    skipWs := true
    force := true
    forceExplicit := false
    dot := false
    fancyRegex := false }

def setRootDir (s : Settings) (d : String) : Settings := { s with rootDir := some d }
def setOutDirRoot (s : Settings) (d : String) : Settings := { s with outDirRoot := some d }
def setOutDirActionsRoot (s : Settings) (d : String) : Settings := { s with outDirActionsRoot := some d }

/-- `actions_in_source_tree` (`settings.rs:199-208`). -/
def actionsInSourceTree (s : Settings) : Res Settings :=
  if s.builderType ≠ .dflt then .panic .actionsInSourceTreeNonDefault
  else .ok { s with outDirActionsRoot := none, force := if s.forceExplicit then s.force else false }

/-- `in_source_tree` (`settings.rs:188-195`). -/
def inSourceTree (s : Settings) : Res Settings :=
  let s := { s with outDirRoot := none }
  if s.builderType = .dflt then s.actionsInSourceTree else .ok s

def setExclude (s : Settings) (e : List String) : Settings := { s with exclude := e }
def setPreferShifts (s : Settings) (b : Bool) : Settings := { s with preferShifts := b }
def setPreferShiftsOverEmpty (s : Settings) (b : Bool) : Settings := { s with preferShiftsOverEmpty := b }
def setTableType (s : Settings) (t : TableType) : Settings := { s with tableType := t }

/-- `parser_algo` (`settings.rs:238-253`): GLR overrides four other settings. -/
def setParserAlgo (s : Settings) (a : ParserAlgo) : Settings :=
  match a with
  | .lr => { s with parserAlgo := .lr }
  | .glr => { s with tableType := .lalrRn, preferShifts := false, preferShiftsOverEmpty := false,
                     grammarOrder := false, parserAlgo := .glr }

def setLexerType (s : Settings) (t : LexerType) : Settings := { s with lexerType := t }
def setBuilderType (s : Settings) (t : BuilderType) : Settings := { s with builderType := t }
def setBuilderLocInfo (s : Settings) (b : Bool) : Settings := { s with builderLocInfo := b }
def setGeneratorTableType (s : Settings) (t : GenTableType) : Settings := { s with generatorTableType := t }
def setInputType (s : Settings) (t : String) : Settings := { s with inputType := t }
def setMostSpecific (s : Settings) (b : Bool) : Settings := { s with mostSpecific := b }
def setLongestMatch (s : Settings) (b : Bool) : Settings := { s with longestMatch := b }

/-- `lexical_disamb_grammar_order` (`settings.rs:300-308`): panics for `false` in LR mode. -/
def setGrammarOrder (s : Settings) (b : Bool) : Res Settings :=
  if s.parserAlgo = .lr ∧ b = false then .panic .grammarOrderLR
  else .ok { s with grammarOrder := b }

def setFancyRegex (s : Settings) (b : Bool) : Settings := { s with fancyRegex := b }
def setPrintTable (s : Settings) (b : Bool) : Settings := { s with printTable := b }
def setPartialParse (s : Settings) (b : Bool) : Settings := { s with partialParse := b }
def setSkipWs (s : Settings) (b : Bool) : Settings := { s with skipWs := b }
def setActions (s : Settings) (b : Bool) : Settings := { s with actions := b }

/-- `trace` (`settings.rs:347-357`): `false` still yields `true` when `RUSTEMO_TRACE` is set. -/
def setTrace (env : Env) (s : Settings) (b : Bool) : Settings :=
  { s with trace := if b then true else env.rustemoTrace }

/-- the write half of `trace`: `set_var("RUSTEMO_TRACE", "1")`. -/
def envAfterTrace (env : Env) (b : Bool) : Env :=
  if b then { env with rustemoTrace := true } else env

/-- `force` (`settings.rs:360-364`). -/
def setForce (s : Settings) (b : Bool) : Settings := { s with force := b, forceExplicit := true }
def setDot (s : Settings) (b : Bool) : Settings := { s with dot := b }

end Settings

/-! ## `struct Cli` (`main.rs:19-120`) -/

structure Cli where
  force : Bool := false
  dot : Bool := false
  noactions : Bool := false
  trace : Bool := false
  grammarFileOrDir : String := ""
  outdirRoot : Option String := none
  outdirActionsRoot : Option String := none
  preferShifts : Bool := false
  noShiftsOverEmpty : Bool := false
  tableType : TableType := .lalrPager
  parserAlgo : ParserAlgo := .lr
  generatorTableType : GenTableType := .functions
  lexerType : LexerType := .dflt
  inputType : String := "str"
  builderType : BuilderType := .dflt
  builderLocInfo : Bool := false
  lexMostSpecific : Option Bool := none
  lexLongestMatch : Option Bool := none
  lexGrammarOrder : Option Bool := none
  fancyRegex : Bool := false
  partialParse : Bool := false
  noSkipWs : Bool := false
  printTable : Bool := false
  exclude : List String := []
  verbosity : Nat := 0
deriving DecidableEq, Repr, Inhabited

/-- `if let Some(x) = opt { settings = settings.f(x) }` -/
def applyOpt {α : Type} (f : Settings → α → Settings) (o : Option α) (s : Settings) : Settings :=
  match o with
  | some a => f s a
  | none => s

def applyOptRes {α : Type} (f : Settings → α → Res Settings) (o : Option α) (s : Settings) : Res Settings :=
  match o with
  | some a => f s a
  | none => .ok s

/-- `main` (`main.rs:125-160`), call by call in source order. -/
def Cli.toSettings (env : Env) (cli : Cli) : Res Settings :=
  let s := Settings.new env
  let s := s.setForce cli.force
  let s := s.setDot cli.dot
  let s := s.setActions (!cli.noactions)
  let s := Settings.setTrace env s cli.trace
  let s := s.setExclude cli.exclude
  let s := s.setPreferShifts cli.preferShifts
  let s := s.setPreferShiftsOverEmpty (!cli.noShiftsOverEmpty)
  let s := s.setFancyRegex cli.fancyRegex
  let s := s.setPartialParse cli.partialParse
  let s := s.setSkipWs (!cli.noSkipWs)
  let s := s.setTableType cli.tableType
  let s := s.setPrintTable cli.printTable
  let s := s.setParserAlgo cli.parserAlgo
  let s := s.setGeneratorTableType cli.generatorTableType
  let s := s.setLexerType cli.lexerType
  let s := s.setBuilderType cli.builderType
  let s := s.setBuilderLocInfo cli.builderLocInfo
  let s := s.setInputType cli.inputType
  let s := applyOpt Settings.setMostSpecific cli.lexMostSpecific s
  let s := applyOpt Settings.setLongestMatch cli.lexLongestMatch s
  (applyOptRes Settings.setGrammarOrder cli.lexGrammarOrder s).bind fun s =>
  let s := applyOpt Settings.setOutDirRoot cli.outdirRoot s
  let s := applyOpt Settings.setOutDirActionsRoot cli.outdirActionsRoot s
  .ok s

/-- The process environment after `main` configured the settings (`--trace` sets `RUSTEMO_TRACE`). -/
def Cli.envAfter (env : Env) (cli : Cli) : Env := Settings.envAfterTrace env cli.trace

/-- What `main` finally does with the settings (`main.rs:162-166`). -/
inductive Mode where
  | file   -- `settings.process_grammar(path)`
  | dir    -- `settings.root_dir(path).process_dir()`
deriving DecidableEq, Repr, Inhabited

structure Plan where
  settings : Settings
  mode : Mode
deriving DecidableEq, Repr, Inhabited

/-- `process_grammar`'s `relative_outdir` is evaluated iff an output root is set, and then unwraps
`root_dir` (`settings.rs:403-425`). -/
def Settings.processGrammarPanics (s : Settings) : Bool :=
  (s.outDirRoot.isSome || s.outDirActionsRoot.isSome) && s.rootDir.isNone

/-- `main` after argument parsing. `targetIsFile` is `cli.grammar_file_or_dir.is_file()`.
In directory mode `root_dir` is the argument, so the `expect` cannot fail. -/
def Cli.plan (env : Env) (cli : Cli) (targetIsFile : Bool) : Res Plan :=
  (cli.toSettings env).bind fun s =>
    if targetIsFile then
      if s.processGrammarPanics then .panic .rootDirUnset else .ok { settings := s, mode := .file }
    else .ok { settings := s.setRootDir cli.grammarFileOrDir, mode := .dir }

/-! ## The documented meaning of the command line

One equation per setting, from the `///` help texts of `Cli`, the doc comments of the `Settings`
builders, `docs/src/cli.md`, `docs/src/configuration.md` and the strategy table of
`docs/src/lexers.md` ("Gram. order: default LR yes, default GLR no, can be disabled in LR: no").
-/
namespace Doc

def isGlr (cli : Cli) : Bool := cli.parserAlgo = .glr

/-- The settings an `rcomp` invocation denotes. -/
def settings (env : Env) (cli : Cli) : Settings :=
  { -- "-o: Output root directory for the parser"; default: `OUT_DIR` if run by cargo, else next to the grammar
    outDirRoot := match cli.outdirRoot with | some d => some d | none => env.outDir
    -- "-a: Output directory for actions"
    outDirActionsRoot := match cli.outdirActionsRoot with | some d => some d | none => env.outDir
    -- "By default root dir is the root of the cargo project"
    rootDir := env.manifestDir
    -- "--prefer-shifts"; "For GLR we should not favour shifts at all"
    preferShifts := !isGlr cli && cli.preferShifts
    -- "--no-shifts-over-empty: Do not prefer shifts over empty reductions" (negated flag)
    preferShiftsOverEmpty := !isGlr cli && !cli.noShiftsOverEmpty
    -- "-t: The type of LR table"; "For GLR we are using RN tables"
    tableType := if isGlr cli then .lalrRn else cli.tableType
    parserAlgo := cli.parserAlgo
    printTable := cli.printTable
    exclude := cli.exclude
    -- "-n, --noactions: Do not generate actions" (negated flag)
    actions := !cli.noactions
    -- "--trace"; "Can also be set by RUSTEMO_TRACE=1 env variable"
    trace := cli.trace || env.rustemoTrace
    lexerType := cli.lexerType
    builderType := cli.builderType
    builderLocInfo := cli.builderLocInfo
    generatorTableType := cli.generatorTableType
    inputType := cli.inputType
    -- the three lexical strategies: given value, else the default (on; grammar order off for GLR)
    mostSpecific := cli.lexMostSpecific.getD true
    longestMatch := cli.lexLongestMatch.getD true
    grammarOrder := cli.lexGrammarOrder.getD (!isGlr cli)
    partialParse := cli.partialParse
    -- "--no-skip-ws" (negated flag)
    skipWs := !cli.noSkipWs
    -- "-f: Regenerate output actions file even if exists": on the command line the absence of the
    -- flag means "do not overwrite", and that choice is explicit
    force := cli.force
    forceExplicit := true
    dot := cli.dot
    fancyRegex := cli.fancyRegex }

/-- "Grammar order … can be disabled in LR: no" — the one command line that has no meaning. -/
def rejected (cli : Cli) : Bool := !isGlr cli && cli.lexGrammarOrder == some false

/-- Documented meaning including the rejected combination (which the code turns into a panic). -/
def settingsOf (env : Env) (cli : Cli) : Res Settings :=
  if rejected cli then .panic .grammarOrderLR else .ok (settings env cli)

end Doc

/-! ## The clap argument syntax of `Cli`

Only what the derive attributes of `main.rs:19-120` determine: long name = field name with `_`→`-`,
the listed short names, `SetTrue` flags cannot repeat, single-valued options cannot repeat, value
enums are matched case-sensitively on their kebab-case names, `Option<bool>` flags have
`require_equals` (and since `num_args` stays 1 a bare `--lexical-disamb-…` is an error — the
`default_missing_value` attribute is dead), `exclude` is `Append`, `verbosity` is `Count`, one
required positional. Processing is left to right with the first error / `--help` / `--version` winning.
-/

inductive ParseRes where
  | ok (cli : Cli)
  | usage        -- clap error, exit code 2
  | help         -- exit code 0, nothing done
  | version
deriving DecidableEq, Repr

inductive BoolFlag where
  | force | dot | noactions | trace | preferShifts | noShiftsOverEmpty | builderLocInfo
  | fancyRegex | partialParse | noSkipWs | printTable
deriving DecidableEq, Repr

inductive ValOpt where
  | outdirRoot | outdirActionsRoot | tableType | parserAlgo | generatorTableType | lexerType
  | inputType | builderType | exclude
deriving DecidableEq, Repr

inductive LexOpt where
  | mostSpecific | longestMatch | grammarOrder
deriving DecidableEq, Repr

inductive ArgKind where
  | flag (f : BoolFlag)
  | val (o : ValOpt)
  | lex (o : LexOpt)
  | count          -- verbosity
  | help
  | version
deriving DecidableEq, Repr

def longArg (name : String) : Option ArgKind :=
  match name with
  | "force" => some (.flag .force)
  | "dot" => some (.flag .dot)
  | "noactions" => some (.flag .noactions)
  | "trace" => some (.flag .trace)
  | "outdir-root" => some (.val .outdirRoot)
  | "outdir-actions-root" => some (.val .outdirActionsRoot)
  | "prefer-shifts" => some (.flag .preferShifts)
  | "no-shifts-over-empty" => some (.flag .noShiftsOverEmpty)
  | "table-type" => some (.val .tableType)
  | "parser-algo" => some (.val .parserAlgo)
  | "generator-table-type" => some (.val .generatorTableType)
  | "lexer-type" => some (.val .lexerType)
  | "input-type" => some (.val .inputType)
  | "builder-type" => some (.val .builderType)
  | "builder-loc-info" => some (.flag .builderLocInfo)
  | "lexical-disamb-most-specific" => some (.lex .mostSpecific)
  | "lexical-disamb-longest-match" => some (.lex .longestMatch)
  | "lexical-disamb-grammar-order" => some (.lex .grammarOrder)
  | "fancy-regex" => some (.flag .fancyRegex)
  | "partial-parse" => some (.flag .partialParse)
  | "no-skip-ws" => some (.flag .noSkipWs)
  | "print-table" => some (.flag .printTable)
  | "exclude" => some (.val .exclude)
  | "verbosity" => some .count
  | "help" => some .help
  | "version" => some .version
  | _ => none

def shortArg (c : Char) : Option ArgKind :=
  match c with
  | 'f' => some (.flag .force)
  | 'n' => some (.flag .noactions)
  | 'o' => some (.val .outdirRoot)
  | 'a' => some (.val .outdirActionsRoot)
  | 't' => some (.val .tableType)
  | 'p' => some (.val .parserAlgo)
  | 'g' => some (.val .generatorTableType)
  | 'l' => some (.val .lexerType)
  | 'i' => some (.val .inputType)
  | 'b' => some (.val .builderType)
  | 'e' => some (.val .exclude)
  | 'v' => some .count
  | 'h' => some .help
  | 'V' => some .version
  | _ => none

/-- parser state: the record being filled, which non-repeatable arguments were seen, the positional -/
structure PState where
  cli : Cli := {}
  seenFlags : List BoolFlag := []
  seenVals : List ValOpt := []
  seenLex : List LexOpt := []
  positional : Option String := none
deriving Repr

def PState.setFlag (st : PState) (f : BoolFlag) : Option PState :=
  if st.seenFlags.contains f then none else
  let c := st.cli
  let c := match f with
    | .force => { c with force := true }
    | .dot => { c with dot := true }
    | .noactions => { c with noactions := true }
    | .trace => { c with trace := true }
    | .preferShifts => { c with preferShifts := true }
    | .noShiftsOverEmpty => { c with noShiftsOverEmpty := true }
    | .builderLocInfo => { c with builderLocInfo := true }
    | .fancyRegex => { c with fancyRegex := true }
    | .partialParse => { c with partialParse := true }
    | .noSkipWs => { c with noSkipWs := true }
    | .printTable => { c with printTable := true }
  some { st with cli := c, seenFlags := f :: st.seenFlags }

def tableTypeOf : String → Option TableType
  | "lalr" => some .lalr | "lalr-pager" => some .lalrPager | "lalr-rn" => some .lalrRn | _ => none
def parserAlgoOf : String → Option ParserAlgo
  | "lr" => some .lr | "glr" => some .glr | _ => none
def genTableTypeOf : String → Option GenTableType
  | "arrays" => some .arrays | "functions" => some .functions | _ => none
def lexerTypeOf : String → Option LexerType
  | "default" => some .dflt | "custom" => some .custom | _ => none
def builderTypeOf : String → Option BuilderType
  | "default" => some .dflt | "generic" => some .generic | "custom" => some .custom | _ => none
def boolOfStr : String → Option Bool
  | "true" => some true | "false" => some false | _ => none

def PState.setVal (st : PState) (o : ValOpt) (v : String) : Option PState :=
  if o ≠ .exclude ∧ st.seenVals.contains o then none else
  let c := st.cli
  let c? : Option Cli := match o with
    | .outdirRoot => if v.isEmpty then none else some { c with outdirRoot := some v }
    | .outdirActionsRoot => if v.isEmpty then none else some { c with outdirActionsRoot := some v }
    | .tableType => (tableTypeOf v).map fun t => { c with tableType := t }
    | .parserAlgo => (parserAlgoOf v).map fun t => { c with parserAlgo := t }
    | .generatorTableType => (genTableTypeOf v).map fun t => { c with generatorTableType := t }
    | .lexerType => (lexerTypeOf v).map fun t => { c with lexerType := t }
    | .inputType => some { c with inputType := v }
    | .builderType => (builderTypeOf v).map fun t => { c with builderType := t }
    | .exclude => some { c with exclude := c.exclude ++ [v] }
  c?.map fun c => { st with cli := c, seenVals := o :: st.seenVals }

def PState.setLex (st : PState) (o : LexOpt) (v : String) : Option PState :=
  if st.seenLex.contains o then none else
  match boolOfStr v with
  | none => none
  | some b =>
    let c := st.cli
    let c := match o with
      | .mostSpecific => { c with lexMostSpecific := some b }
      | .longestMatch => { c with lexLongestMatch := some b }
      | .grammarOrder => { c with lexGrammarOrder := some b }
    some { st with cli := c, seenLex := o :: st.seenLex }

/-- a following argument can serve as an option value unless it looks like a flag -/
def usableAsValue (tok : String) : Bool :=
  match tok.toList with
  | ['-'] => true
  | '-' :: _ => false
  | _ => true

/-- split `name=value` at the first `=` -/
def splitEq : List Char → List Char × Option (List Char)
  | [] => ([], none)
  | '=' :: v => ([], some v)
  | c :: cs => let (n, v) := splitEq cs; (c :: n, v)

inductive Step where
  | cont (st : PState) (rest : List String)
  | stop (r : ParseRes)

def ofOpt (o : Option PState) (rest : List String) : Step :=
  match o with
  | some st => .cont st rest
  | none => .stop .usage

/-- the value of a valued option that has no attached value: the next argument -/
def takeNext (st : PState) (o : ValOpt) (rest : List String) : Step :=
  match rest with
  | v :: rest' => if usableAsValue v then ofOpt (st.setVal o v) rest' else .stop .usage
  | [] => .stop .usage

/-- one `--long[=value]` argument (without the leading dashes) -/
def stepLong (st : PState) (body : List Char) (rest : List String) : Step :=
  let (nm, att) := splitEq body
  let attached : Option String := att.map String.ofList
  match longArg (String.ofList nm) with
  | none => .stop .usage
  | some .help => .stop .help
  | some .version => .stop .version
  | some (.flag f) => if attached.isSome then .stop .usage else ofOpt (st.setFlag f) rest
  | some .count =>
    if attached.isSome then .stop .usage
    else .cont { st with cli := { st.cli with verbosity := st.cli.verbosity + 1 } } rest
  | some (.lex o) =>
    match attached with
    | none => .stop .usage              -- "equal sign is needed when assigning values"
    | some v => ofOpt (st.setLex o v) rest
  | some (.val o) =>
    match attached with
    | some v => ofOpt (st.setVal o v) rest
    | none => takeNext st o rest

/-- a cluster of short arguments `-abc` (chars after the dash) -/
def stepShort (st : PState) : List Char → List String → Step
  | [], rest => .cont st rest
  | c :: cs, rest =>
    match shortArg c with
    | none => .stop .usage
    | some .help => .stop .help
    | some .version => .stop .version
    | some (.flag f) =>
      match st.setFlag f with
      | some st' => stepShort st' cs rest
      | none => .stop .usage
    | some .count => stepShort { st with cli := { st.cli with verbosity := st.cli.verbosity + 1 } } cs rest
    | some (.lex _) => .stop .usage     -- no short names
    | some (.val o) =>
      match cs with
      | [] => takeNext st o rest
      | '=' :: v => ofOpt (st.setVal o (String.ofList v)) rest
      | v => ofOpt (st.setVal o (String.ofList v)) rest

def stepPositional (st : PState) (tok : String) (rest : List String) : Step :=
  match st.positional with
  | some _ => .stop .usage
  | none => .cont { st with positional := some tok, cli := { st.cli with grammarFileOrDir := tok } } rest

def finish (st : PState) : ParseRes :=
  match st.positional with
  | some _ => .ok st.cli
  | none => .usage

/-- after `--` everything is positional -/
def parseTrailing (st : PState) : List String → ParseRes
  | [] => finish st
  | tok :: rest =>
    match stepPositional st tok rest with
    | .cont st' _ => parseTrailing st' rest
    | .stop r => r

def stepTok (st : PState) (tok : String) (rest : List String) : Step :=
  match tok.toList with
  | '-' :: '-' :: body => stepLong st body rest
  | '-' :: c :: cs => stepShort st (c :: cs) rest
  | _ => stepPositional st tok rest

def parseLoop (fuel : Nat) (st : PState) (args : List String) : ParseRes :=
  match fuel with
  | 0 => .usage
  | fuel + 1 =>
    match args with
    | [] => finish st
    | tok :: rest =>
      if tok = "--" then parseTrailing st rest else
      match stepTok st tok rest with
      | .cont st' rest' => parseLoop fuel st' rest'
      | .stop r => r

/-- `Cli::parse()` on `argv[1..]`. -/
def Cli.parse (args : List String) : ParseRes := parseLoop (args.length + 1) {} args

/-- what one `rcomp` invocation does before any grammar is read -/
inductive RunRes where
  | plan (p : Plan)
  | panic (site : PanicSite)
  | usage
  | help
  | version
deriving DecidableEq, Repr

/-- `main` from `argv[1..]`; `targetIsFile` answers `is_file()` for the positional argument. -/
def Cli.run (env : Env) (args : List String) (targetIsFile : Bool) : RunRes :=
  match Cli.parse args with
  | .ok cli =>
    match cli.plan env targetIsFile with
    | .ok p => .plan p
    | .panic s => .panic s
  | .usage => .usage
  | .help => .help
  | .version => .version

end Rustemo.Cfg

/-! ## Choice names of an inferred enum type (`grammar/types/mod.rs`) -/
namespace Rustemo.Types

/-- What `choice_name` looks at (`types/mod.rs:38-48` and its three call sites `:90-165`):
the production kind, whether the rhs is empty, its `ntidx`, and — when the production has exactly
one right-hand side symbol and it carries no content, or exactly one content reference and that
reference is unnamed — the name of that symbol. -/
structure ProdInfo where
  kind : Option String
  rhsLen : Nat
  ntidx : Nat
  /-- names of all rhs symbols -/
  rhsNames : List String
  /-- content-carrying rhs assignments: (symbol name, has an explicit name) -/
  content : List (String × Bool)
deriving Repr, Inhabited

def choiceNameOf (kind : Option String) (refType : Option String) (rhsEmpty : Bool) (ntidx : Nat) : String :=
  match kind with
  | some k => k
  | none =>
    match refType with
    | some r => r
    | none => if rhsEmpty then "Empty" else "C" ++ toString (ntidx + 1)

/-- the `match rhs.len()` of `symbol_types` reduced to the name it produces; second component:
the choice is `ChoiceKind::Empty` (no enum variant is generated for it). -/
def ProdInfo.choice (p : ProdInfo) : String × Bool :=
  match p.content with
  | [] =>
    if p.rhsLen = 0 then (choiceNameOf p.kind none true p.ntidx, true)
    else if p.rhsLen = 1 then (choiceNameOf p.kind p.rhsNames.head? false p.ntidx, false)
    else (choiceNameOf p.kind none false p.ntidx, false)
  | [(sym, named)] =>
    if named then (choiceNameOf p.kind none (p.rhsLen = 0) p.ntidx, false)
    else (choiceNameOf p.kind (some sym) false p.ntidx, false)
  | _ => (choiceNameOf p.kind none (p.rhsLen = 0) p.ntidx, false)

/-- inner loop of `make_choices_name_unique` for one key `n`:
`choices.iter_mut().filter(|c| c.name == *name).enumerate().for_each(|(idx, c)| c.name.push_str(idx+1))`.
`k` = number of matching choices already passed. -/
def renameAux (n : String) : Nat → List String → List String
  | _, [] => []
  | k, c :: cs =>
    if c = n then (c ++ toString (k + 1)) :: renameAux n (k + 1) cs
    else c :: renameAux n k cs

def renameGroup (n : String) (cs : List String) : List String := renameAux n 0 cs

/-- `Choice::make_choices_name_unique` (`types/mod.rs:450-473`). `order` is the order in which
`name_counts.iter()` yields the keys — in Rust decided by the per-process random hash seed.
The counts are those of the ORIGINAL names (the map is filled before anything is renamed); the
comparison `c.name == *name` sees the CURRENT names. -/
def makeUnique (order : List String) (cs : List String) : List String :=
  (order.filter fun n => decide (1 < cs.count n)).foldl (fun acc n => renameGroup n acc) cs

/-- `order` enumerates the keys of `name_counts`: every distinct name exactly once. -/
def KeyOrder (order cs : List String) : Prop :=
  order.Nodup ∧ (∀ n ∈ order, n ∈ cs) ∧ (∀ n ∈ cs, n ∈ order)

instance (order cs : List String) : Decidable (KeyOrder order cs) := by unfold KeyOrder; infer_instance

/-- The renaming every reader of the code expects (and the proposed fix computes): a duplicated name
gets its 1-based occurrence index appended, once. -/
def closedAux (all : List String) : List String → List String → List String
  | _, [] => []
  | seen, c :: cs =>
    (if 1 < all.count c then c ++ toString (seen.count c + 1) else c) :: closedAux all (c :: seen) cs

def closedForm (cs : List String) : List String := closedAux cs [] cs

/-- A duplicated name with an index appended collides with another duplicated name. Exactly the
situation in which the hash order leaks into the generated code. -/
def clash (cs : List String) : Bool :=
  cs.any fun n => decide (1 < cs.count n) &&
    (List.range (cs.count n)).any fun k => decide (1 < cs.count (n ++ toString (k + 1)))

end Rustemo.Types
