import Rustemo.Model.Basic
/-!
# The table-bearing part of the generated parser (property C08)

Abstract syntax of exactly those items of the generated `<grammar>.rs` that encode the LR table,
the two generators that write them, and evaluators that transcribe the constant
`impl ParserDefinition` text.

Mirrors (rustemo-compiler/src/generator):
* `mod.rs:249-296`   `prod_kind`, `term_kind_ident`, `nonterm_kind_ident`, `state_kind_ident`,
                     `action_to_syntax`
* `base.rs:159-336`  `types`: enums `TokenKind`, `ProdKind`, `NonTermKind`, `State` (variants in table
                     order, `Grammar::productions()` skips the AUG/AUGL productions),
                     `impl From<ProdKind> for NonTermKind`, `State::default_layout`
* `arrays.rs`        `ArrayPartGenerator::{parser_header, parser_definition}`
* `functions.rs`     `FunctionPartGenerator::{parser_header, parser_definition}`
* `table/mod.rs:1096-1111` `max_actions`, `max_recognizers`

Identifiers are kept as *names* (strings), exactly as the generated code refers to enum variants by
path (`State::AS3`, `TK::Num`, `PK::EP1`).  A value of one of the four enums is its discriminant,
i.e. the index of its variant in the declaration (`as usize`); `resolve` is that name → index step.
A path that does not resolve or a `match` that is not exhaustive is a compile error of the generated
file: outcome `.ill`.  `unwrap()` on `None`, `panic!` and indexing out of bounds are `.panic`.
-/
namespace Rustemo
namespace Gen

/-! ## Identifier functions (`generator/mod.rs:249-279`) -/

/-- `grammar.terminals[i].name` -/
def termName (g : Grammar) (i : Nat) : String :=
  match g.terms[i]? with
  | some tm => tm.name
  | none => ""

/-- `grammar.nonterminals[i].name` -/
def ntName (g : Grammar) (i : Nat) : String := g.ntNames.getD i ""

/-- `Grammar::symbol_name` (grammar/mod.rs:365) -/
def symbolName (g : Grammar) (sym : Nat) : String :=
  if sym < g.nterms then termName g sym else ntName g (sym - g.nterms)

def stateSymbol (t : Table) (s : Nat) : Nat :=
  match t.states[s]? with
  | some st => st.symbol
  | none => 0

/-- `state_kind_ident`: `format_ident!("{}S{}", symbol_name(states[state].symbol), state.0)` -/
def stateIdent (g : Grammar) (t : Table) (s : Nat) : String :=
  symbolName g (stateSymbol t s) ++ "S" ++ toString s

/-- nonterminal *index* of the left-hand side of production `p` (`prod.nonterminal`) -/
def prodNt (g : Grammar) (p : Nat) : Nat :=
  match g.prods[p]? with
  | some pr => pr.lhs - g.nterms
  | none => 0

def prodKindSuffix (pr : Prod) : String :=
  match pr.kind with
  | some k => k
  | none => "P" ++ toString (pr.ntidx + 1)

/-- `prod_kind`: nonterminal name followed by the `{Kind}` meta-datum or `P<ntidx+1>` -/
def prodKindName (g : Grammar) (p : Nat) : String :=
  match g.prods[p]? with
  | some pr => ntName g (pr.lhs - g.nterms) ++ prodKindSuffix pr
  | none => ""

/-- the productions `Grammar::productions()` leaves out (grammar/mod.rs:483-491): those of the
    augmented nonterminals AUG and AUGL -/
def skipped (g : Grammar) (p : Nat) : Bool :=
  match g.prods[p]? with
  | some pr => pr.lhs == g.augIdx || g.auglIdx == some pr.lhs
  | none => true

/-- `Grammar::productions()` as production indices, in production order -/
def userProds (g : Grammar) : List Nat :=
  (List.range g.prods.size).filter (fun p => !skipped g p)

/-! ## The enums (`base.rs:159-299`) -/

structure Enums where
  states : List String
  tokens : List String
  prods : List String
  nonterms : List String
  /-- arms `ProdKind::a => NonTermKind::b` of `impl From<ProdKind> for NonTermKind` -/
  fromArms : List (String × String)
  /-- `State::default_layout()` -/
  layout : Option String
deriving Repr, DecidableEq, Inhabited

def enums (g : Grammar) (t : Table) : Enums :=
  { states := (List.range t.states.size).map (stateIdent g t)
    tokens := g.terms.toList.map (·.name)
    prods := (userProds g).map (prodKindName g)
    nonterms := g.ntNames.toList
    fromArms := (userProds g).map (fun p => (prodKindName g p, ntName g (prodNt g p)))
    layout := t.layoutState.map (stateIdent g t) }

/-! ## Action expressions (`action_to_syntax`, mod.rs:281-296) -/

inductive AExpr where
  | shift (state : String)              -- `Shift(State::<state>)`
  | reduce (pk : String) (len : Nat)    -- `Reduce(PK::<pk>, <len>usize)`
  | accept                              -- `Accept`
  | error                               -- `Error`
deriving Repr, DecidableEq, Inhabited

def actionToSyntax (g : Grammar) (t : Table) : Option Action → AExpr
  | some (.shift s) => .shift (stateIdent g t s)
  | some (.reduce p l) => .reduce (prodKindName g p) l
  | some .accept => .accept
  | none => .error

/-! ## `max_actions`, `max_recognizers` (table/mod.rs:1096-1111)

`iter().max()` of a list of `usize` is `foldr max 0` when the list is non-empty; the outer
`.max().unwrap()` panics on a table without states (see `defined`). -/

def listMax (l : List Nat) : Nat := l.foldr max 0

def maxActions (t : Table) : Nat :=
  listMax (t.states.toList.map (fun st => listMax (st.actions.toList.map List.length)))

def maxRecognizers (t : Table) : Nat :=
  listMax (t.states.toList.map (fun st => (st.actions.toList.filter (fun c => !c.isEmpty)).length))

/-- the `token_kinds` row of a state, shared by both layouts (arrays.rs:106-135, functions.rs:132-162):
    the sorted terminals, then `None` up to MAX_RECOGNIZERS -/
def tokenKindsRow (g : Grammar) (mr : Nat) (st : State) : List (Option (String × Bool)) :=
  st.sorted.map (fun tf => some (termName g tf.1, tf.2)) ++ List.replicate (mr - st.sorted.length) none

/-! ## Nested-arrays layout (`arrays.rs`) -/

structure ArrCode where
  terminalCount : Nat
  nonterminalCount : Nat
  stateCount : Nat
  maxActions : Nat
  maxRecognizers : Nat
  actions : List (List (List AExpr))                 -- [[[Action; MAX_ACTIONS]; TERMINAL_COUNT]; STATE_COUNT]
  gotos : List (List (Option String))                -- [[Option<State>; NONTERMINAL_COUNT]; STATE_COUNT]
  tokenKinds : List (List (Option (String × Bool)))  -- [[Option<(TokenKind, bool)>; MAX_RECOGNIZERS]; STATE_COUNT]
deriving Repr, DecidableEq, Inhabited

/-- one cell: the actions, then `Error` up to MAX_ACTIONS (arrays.rs:61-75) -/
def arrCell (g : Grammar) (t : Table) (ma : Nat) (cell : List Action) : List AExpr :=
  (cell.map some ++ List.replicate (ma - cell.length) none).map (actionToSyntax g t)

def arrGotoEntry (g : Grammar) (t : Table) : Option Nat → Option String
  | some s => some (stateIdent g t s)
  | none => none

def arraysCore (g : Grammar) (t : Table) : ArrCode :=
  { terminalCount := g.nterms
    nonterminalCount := g.nnonterms
    stateCount := t.states.size
    maxActions := maxActions t
    maxRecognizers := maxRecognizers t
    actions := t.states.toList.map (fun st => st.actions.toList.map (arrCell g t (maxActions t)))
    gotos := t.states.toList.map (fun st => st.gotos.toList.map (arrGotoEntry g t))
    tokenKinds := t.states.toList.map (tokenKindsRow g (maxRecognizers t)) }

/-! ## Per-state-functions layout (`functions.rs`) -/

/-- `fn action_<sym>_s<i>(token_kind: TokenKind) -> Vec<Action<State, ProdKind>> { match token_kind {…} }` -/
structure ActionFn where
  arms : List (String × List AExpr)   -- `TK::<name> => Vec::from(&[…])`
  catchAll : Bool                     -- a last arm `_ => vec![]`
deriving Repr, DecidableEq, Inhabited

/-- `fn goto_<sym>_s<i>(nonterm_kind: NonTermKind) -> State { match nonterm_kind {…, _ => panic!(…)} }` -/
structure GotoFn where
  arms : List (String × String)       -- `NonTermKind::<nt> => State::<state>`
deriving Repr, DecidableEq, Inhabited

structure FnCode where
  stateCount : Nat
  maxRecognizers : Nat
  terminalCount : Nat
  /-- `PARSER_DEFINITION.actions[i]`, the function item it names -/
  actionFns : List ActionFn
  /-- `PARSER_DEFINITION.gotos[i]`, the function item it names; `none` = `goto_invalid` -/
  gotoFns : List (Option GotoFn)
  tokenKinds : List (List (Option (String × Bool)))
deriving Repr, DecidableEq, Inhabited

def cellNonEmpty (ci : List Action × Nat) : Bool := !ci.1.isEmpty

def actionArm (g : Grammar) (t : Table) (ci : List Action × Nat) : String × List AExpr :=
  (termName g ci.2, ci.1.map (fun a => actionToSyntax g t (some a)))

/-- functions.rs:63-98: arms for the non-empty cells in terminal order; `_ => vec![]` iff there are
    fewer arms than terminals -/
def actionFn (g : Grammar) (t : Table) (st : State) : ActionFn :=
  let arms := (st.actions.toList.zipIdx.filter cellNonEmpty).map (actionArm g t)
  { arms := arms, catchAll := decide (arms.length < g.nterms) }

def gotoIsSome (gi : Option Nat × Nat) : Bool := gi.1.isSome

def gotoArm (g : Grammar) (t : Table) (gi : Option Nat × Nat) : String × String :=
  (ntName g gi.2, stateIdent g t (gi.1.getD 0))

/-- functions.rs:100-130 and 170-182: a goto function for a state with at least one goto, else the
    shared `goto_invalid` -/
def gotoFn (g : Grammar) (t : Table) (st : State) : Option GotoFn :=
  if st.gotos.toList.any (·.isSome) then
    some { arms := (st.gotos.toList.zipIdx.filter gotoIsSome).map (gotoArm g t) }
  else none

def functionsCore (g : Grammar) (t : Table) : FnCode :=
  { stateCount := t.states.size
    maxRecognizers := maxRecognizers t
    terminalCount := g.nterms
    actionFns := t.states.toList.map (actionFn g t)
    gotoFns := t.states.toList.map (gotoFn g t)
    tokenKinds := t.states.toList.map (tokenKindsRow g (maxRecognizers t)) }

/-! ## Where the generators panic

Every index / `unwrap` / `usize` subtraction the anchored generator code performs:
`max().unwrap()` (no state), `symbol_name` / `table.states[s]` / `grammar.productions[p]` /
`nonterminals[prod.nonterminal]` / `term_by_index` (index), `max_recognizers - sorted_terminals.len()`
(underflow: `max_recognizers` counts non-empty cells, not `sorted_terminals`).  `max_actions - l`
cannot underflow (`le_maxActions`). -/

def symOk (g : Grammar) (sym : Nat) : Bool := sym < g.nterms + g.nnonterms

def prodOk (g : Grammar) (p : Nat) : Bool :=
  match g.prods[p]? with
  | some pr => decide (g.nterms ≤ pr.lhs) && decide (pr.lhs - g.nterms < g.nnonterms)
  | none => false

def actOk (g : Grammar) (t : Table) : Action → Bool
  | .shift s => decide (s < t.states.size)
  | .reduce p _ => prodOk g p && !skipped g p
  | .accept => true

def gotoOk (t : Table) : Option Nat → Bool
  | some s => decide (s < t.states.size)
  | none => true

def stateOk (g : Grammar) (t : Table) (st : State) : Bool :=
  symOk g st.symbol
  && st.actions.size == g.nterms
  && st.gotos.size == g.nnonterms
  && st.actions.toList.all (fun cell => cell.all (actOk g t))
  && st.gotos.toList.all (gotoOk t)
  && st.sorted.all (fun tf => decide (tf.1 < g.nterms))
  && decide (st.sorted.length ≤ maxRecognizers t)

def layoutOk (t : Table) : Bool :=
  match t.layoutState with
  | some s => decide (s < t.states.size)
  | none => true

/-- The generator runs to completion (no index / `unwrap` / subtraction panics) and every row has the
    declared width (the array types of the Arrays layout demand it); no cell reduces by an AUG/AUGL
    production (such a production has no `ProdKind` variant). -/
def genOk (g : Grammar) (t : Table) : Bool :=
  g.terms.size == g.nterms
  && g.ntNames.size == g.nnonterms
  && !t.states.isEmpty
  && t.states.toList.all (stateOk g t)
  && (userProds g).all (prodOk g)
  && layoutOk t

/-- The variant names of each generated enum are pairwise different (Rust rejects the enum
    otherwise, E0428: finding F13 of property C11). -/
def namesOk (g : Grammar) (t : Table) : Bool :=
  decide (enums g t).states.Nodup
  && decide (enums g t).tokens.Nodup
  && decide (enums g t).prods.Nodup
  && decide (enums g t).nonterms.Nodup

/-- Well-formedness of a (grammar, table) pair: decidable, checked on every real dump by the driver. -/
def WF (g : Grammar) (t : Table) : Bool := genOk g t && namesOk g t

/-- `none`: the generator panics before writing the file, or (a Reduce by an AUG/AUGL production,
    rows of the wrong width) writes a file that cannot compile -/
def arrays (g : Grammar) (t : Table) : Option ArrCode :=
  if genOk g t then some (arraysCore g t) else none

def functions (g : Grammar) (t : Table) : Option FnCode :=
  if genOk g t then some (functionsCore g t) else none

/-! ## Evaluation of the generated code

Values of `Action<State, ProdKind>` with enum values as discriminants. -/

inductive CAct where
  | shift (s : Nat)
  | reduce (pk : Nat) (len : Nat)
  | accept
  | error
deriving Repr, DecidableEq, Inhabited

inductive Res (α : Type) where
  | ok (a : α)
  | panic (site : String)
  | ill (why : String)       -- the generated file would not compile
deriving Repr, DecidableEq, Inhabited

/-- path `Enum::name` → discriminant -/
def resolve (names : List String) (n : String) : Option Nat :=
  if names.idxOf n < names.length then some (names.idxOf n) else none

def evalExpr (e : Enums) : AExpr → Option CAct
  | .shift st => (resolve e.states st).map CAct.shift
  | .reduce pk l => (resolve e.prods pk).map (fun k => CAct.reduce k l)
  | .accept => some .accept
  | .error => some .error

def allSome {α : Type} : List (Option α) → Option (List α)
  | [] => some []
  | none :: _ => none
  | some a :: rest => (allSome rest).map (fun r => a :: r)

def evalCell (e : Enums) (cell : List AExpr) : Option (List CAct) :=
  allSome (cell.map (evalExpr e))

def CAct.notError : CAct → Bool
  | .error => false
  | _ => true

/-- `Iterator::map_while(|t| *t)` -/
def mapWhileSome {α : Type} : List (Option α) → List α
  | some a :: rest => a :: mapWhileSome rest
  | _ => []

def evalKind (e : Enums) : Option (String × Bool) → Option (Option (Nat × Bool))
  | some (n, f) => (resolve e.tokens n).map (fun k => some (k, f))
  | none => some none

/-- `PARSER_DEFINITION.token_kinds[state as usize].iter().map_while(|t| *t).collect()`
    (the same text in both layouts) -/
def expectedOf (e : Enums) (rows : List (List (Option (String × Bool)))) (s : Nat) :
    Res (List (Nat × Bool)) :=
  match rows[s]? with
  | none => .panic "token_kinds[state]"
  | some row =>
    match allSome (row.map (evalKind e)) with
    | none => .ill "unresolved TokenKind path"
    | some r => .ok (mapWhileSome r)

/-- The constant text the Arrays evaluators transcribe (token text of the generated items, as
    printed by `harness/gen`, items separated by `##`; `DEF` = the parser definition type,
    `@LM@`/`@GO@` = the two settings, compared separately). -/
def arraysImplText : String :=
  "use rustemo :: Action :: { self , Shift , Reduce , Accept } ; ## use rustemo :: Action :: Error ; ## pub struct DEF { actions : [[[Action < State , ProdKind > ; MAX_ACTIONS] ; TERMINAL_COUNT] ; STATE_COUNT] , gotos : [[Option < State > ; NONTERMINAL_COUNT] ; STATE_COUNT] , token_kinds : [[Option < (TokenKind , bool) > ; MAX_RECOGNIZERS] ; STATE_COUNT] , } ## impl ParserDefinition < State , ProdKind , TokenKind , NonTermKind > for DEF { fn actions (& self , state : State , token : TokenKind) -> Vec < Action < State , ProdKind > > { PARSER_DEFINITION . actions [state as usize] [token as usize] . iter () . copied () . take_while (| a | ! matches ! (a , Action :: Error)) . collect () } fn goto (& self , state : State , nonterm : NonTermKind) -> State { PARSER_DEFINITION . gotos [state as usize] [nonterm as usize] . unwrap () } fn expected_token_kinds (& self , state : State) -> Vec < (TokenKind , bool) > { PARSER_DEFINITION . token_kinds [state as usize] . iter () . map_while (| t | * t) . collect () } fn longest_match () -> bool { @LM@ } fn grammar_order () -> bool { @GO@ } }"

/-- `PARSER_DEFINITION.actions[state as usize][token as usize].iter().copied()
      .take_while(|a| !matches!(a, Action::Error)).collect()` -/
def ArrCode.actionsQ (c : ArrCode) (e : Enums) (s a : Nat) : Res (List CAct) :=
  match c.actions[s]? with
  | none => .panic "actions[state]"
  | some row =>
    match row[a]? with
    | none => .panic "actions[state][token]"
    | some cell =>
      match evalCell e cell with
      | none => .ill "unresolved path in action"
      | some vs => .ok (vs.takeWhile CAct.notError)

/-- `PARSER_DEFINITION.gotos[state as usize][nonterm as usize].unwrap()` -/
def ArrCode.gotoQ (c : ArrCode) (e : Enums) (s n : Nat) : Res Nat :=
  match c.gotos[s]? with
  | none => .panic "gotos[state]"
  | some row =>
    match row[n]? with
    | none => .panic "gotos[state][nonterm]"
    | some none => .panic "called `Option::unwrap()` on a `None` value"
    | some (some st) =>
      match resolve e.states st with
      | none => .ill "unresolved State path"
      | some i => .ok i

def ArrCode.expectedQ (c : ArrCode) (e : Enums) (s : Nat) : Res (List (Nat × Bool)) :=
  expectedOf e c.tokenKinds s

/-- The constant text the Functions evaluators transcribe. -/
def functionsImplText : String :=
  "use rustemo :: Action :: { self , Shift , Reduce , Accept } ; ## type ActionFn = fn (token : TokenKind) -> Vec < Action < State , ProdKind > > ; ## pub struct DEF { actions : [ActionFn ; STATE_COUNT] , gotos : [fn (nonterm : NonTermKind) -> State ; STATE_COUNT] , token_kinds : [[Option < (TokenKind , bool) > ; MAX_RECOGNIZERS] ; STATE_COUNT] , } ## fn goto_invalid (_nonterm_kind : NonTermKind) -> State { panic ! (\"Invalid GOTO entry!\") ; } ## impl ParserDefinition < State , ProdKind , TokenKind , NonTermKind > for DEF { fn actions (& self , state : State , token : TokenKind) -> Vec < Action < State , ProdKind > > { PARSER_DEFINITION . actions [state as usize] (token) } fn goto (& self , state : State , nonterm : NonTermKind) -> State { PARSER_DEFINITION . gotos [state as usize] (nonterm) } fn expected_token_kinds (& self , state : State) -> Vec < (TokenKind , bool) > { PARSER_DEFINITION . token_kinds [state as usize] . iter () . map_while (| t | * t) . collect () } fn longest_match () -> bool { @LM@ } fn grammar_order () -> bool { @GO@ } }"

def armUnresolved {β : Type} (names : List String) (arm : String × β) : Bool :=
  (resolve names arm.1).isNone

def armMatches {β : Type} (names : List String) (v : Nat) (arm : String × β) : Bool :=
  resolve names arm.1 == some v

/-- `PARSER_DEFINITION.actions[state as usize](token)`: the `match` of the state's action function.
    No arm for the token and no catch-all: the match is not exhaustive (compile error). -/
def FnCode.actionsQ (c : FnCode) (e : Enums) (s a : Nat) : Res (List CAct) :=
  match c.actionFns[s]? with
  | none => .panic "actions[state]"
  | some f =>
    if f.arms.any (armUnresolved e.tokens) then .ill "unresolved TokenKind pattern" else
    match f.arms.find? (armMatches e.tokens a) with
    | some arm =>
      match evalCell e arm.2 with
      | none => .ill "unresolved path in action"
      | some vs => .ok vs
    | none => if f.catchAll then .ok [] else .ill "non-exhaustive match"

/-- `PARSER_DEFINITION.gotos[state as usize](nonterm)` -/
def FnCode.gotoQ (c : FnCode) (e : Enums) (s n : Nat) : Res Nat :=
  match c.gotoFns[s]? with
  | none => .panic "gotos[state]"
  | some none => .panic "Invalid GOTO entry!"
  | some (some f) =>
    if f.arms.any (armUnresolved e.nonterms) then .ill "unresolved NonTermKind pattern" else
    match f.arms.find? (armMatches e.nonterms n) with
    | some arm =>
      match resolve e.states arm.2 with
      | none => .ill "unresolved State path"
      | some i => .ok i
    | none => .panic "Invalid terminal kind for GOTO state"

def FnCode.expectedQ (c : FnCode) (e : Enums) (s : Nat) : Res (List (Nat × Bool)) :=
  expectedOf e c.tokenKinds s

/-- `NonTermKind::from(prod)`: the arm of the `From` impl for the ProdKind value `k` -/
def Enums.fromQ (e : Enums) (k : Nat) : Res Nat :=
  if e.fromArms.any (armUnresolved e.prods) then .ill "unresolved ProdKind pattern" else
  match e.fromArms.find? (armMatches e.prods k) with
  | some arm =>
    match resolve e.nonterms arm.2 with
    | none => .ill "unresolved NonTermKind path"
    | some i => .ok i
  | none => .ill "non-exhaustive match"

def Enums.layoutQ (e : Enums) : Res (Option Nat) :=
  match e.layout with
  | none => .ok none
  | some st =>
    match resolve e.states st with
    | none => .ill "unresolved State path"
    | some i => .ok (some i)

/-! ## What the table says, in the vocabulary of the generated code -/

/-- discriminant of the `ProdKind` variant generated for production `p` -/
def kindIdx (g : Grammar) (p : Nat) : Nat := (userProds g).idxOf p

def encode (g : Grammar) : Action → CAct
  | .shift s => .shift s
  | .reduce p l => .reduce (kindIdx g p) l
  | .accept => .accept

/-- two results agree: equal values, or both panic (the panic messages of the two layouts differ) -/
def Res.agree {α : Type} : Res α → Res α → Prop
  | .ok a, .ok b => a = b
  | .panic _, .panic _ => True
  | _, _ => False

def Res.isPanic {α : Type} : Res α → Bool
  | .panic _ => true
  | _ => false

end Gen
end Rustemo
