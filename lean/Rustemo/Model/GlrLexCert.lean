import Rustemo.Model.LexTok
/-!
# Executable hypotheses of the byte-level GLR theorems (`Proofs/GlrLexDet.lean`, `Props/C03Bytes.lean`)

Beyond `Cert.singleCharLexer` (table / grammar) and `charEnvOk` (recognizer matrix, lexer configuration) the GLR
lexer hypothesis `LexDet` needs two more facts, both decidable; nothing here mirrors Rust code.

* `knownBytes g input`: every input byte is the character of a terminal.  (`LexDet.terms` asks every token kind to
  be a terminal; an unrecognisable byte — on which the lexer offers nothing in ANY state — is outside `LexDet`,
  see the header of Props/C12Glr.lean.  A sentence has no such byte, so the theorems about sentences do not need
  this check.)
* `lexUniqueOk env`: `find_lookaheads` keeps ONE token: either the grammar-order filter is on (`take 1`), or no
  state lists a terminal twice in its `sorted_terminals` (`Cert.sortedNodup`; `State.sortedIsCells` of
  `Cert.singleCharLexer` says which terminals are listed, not how often — a terminal listed twice is tried and
  offered twice by `TokenIterator`, and without the grammar-order filter GLR would split the head).
-/
namespace Rustemo

/-- every input byte is the character of a terminal (no "unknown" token kind `g.nterms`) -/
def knownBytes (g : Grammar) (input : List Nat) : Bool := input.all fun b => decide (charToTerm g b < g.nterms)

/-- no repetition in a list of terminal indices -/
def nodupB : List Nat → Bool
  | [] => true
  | x :: xs => !xs.contains x && nodupB xs

/-- no state lists a terminal twice in `sorted_terminals` -/
def Cert.sortedNodup (t : Table) : Bool := t.forStates fun _ st => nodupB (st.sorted.map (·.1))

/-- the lookahead filters of `find_lookaheads` leave one token: grammar order on, or no terminal tried twice -/
def lexUniqueOk (env : Env) : Bool := env.grammarOrder || Cert.sortedNodup env.t

/-- `charEnvOk` + the two extra checks of the GLR byte-level theorems -/
def glrCharEnvOk (env : Env) : Bool := charEnvOk env && knownBytes env.g env.input && lexUniqueOk env

/-! ## inputs with whitespace to skip

`charEnvOk` asks for "whitespace skipping off, or no whitespace byte in the input".  The GLR theorems also hold with
whitespace between the tokens: the token string is then the terminals of the bytes the lexer stops at. -/

/-- `charEnvOk` without the clause about whitespace -/
def charEnvWsOk (env : Env) : Bool :=
  ((List.range env.g.nterms).all fun k => (List.range (env.input.length + 1)).all fun pos =>
      env.recog k pos == charRecog env.g env.input k pos) &&
  env.custom.isNone

/-- number of bytes `StringLexer::skip` skips at byte offset `p` -/
def skipLen (skipWs : Bool) (input : List Nat) (p : Nat) : Nat :=
  if skipWs then min (wsPrefixLen (input.drop p).length (input.drop p)) (input.length - p) else 0

/-- tokens from byte offset `p` on: skip whitespace, one token per byte the lexer stops at -/
def tokensFromWs (g : Grammar) (skipWs : Bool) (input : List Nat) : Nat → Nat → List Nat
  | 0, _ => []
  | fuel+1, p =>
    let q := p + skipLen skipWs input p
    if input.length ≤ q then [] else charToTerm g (input.getD q 0) :: tokensFromWs g skipWs input fuel (q + 1)

/-- the tokens of an input under whitespace skipping (`tokensOf` if there is nothing to skip) -/
def tokensOfWs (g : Grammar) (skipWs : Bool) (input : List Nat) : List Nat :=
  tokensFromWs g skipWs input (input.length + 1) 0

/-- every token is a terminal (no byte the lexer stops at is unknown) -/
def knownToks (g : Grammar) (skipWs : Bool) (input : List Nat) : Bool :=
  (tokensOfWs g skipWs input).all fun a => decide (a < g.nterms)

def glrCharEnvWsOk (env : Env) : Bool :=
  charEnvWsOk env && knownToks env.g env.skipWs env.input && lexUniqueOk env

end Rustemo
