import Rustemo.Model.Core
/-!
# Operator grammars and the conventional precedence-climbing parser (reference for C05)

`Ops.grammar ops`: `E: E op_1 E {p_1, a_1} | … | E op_n E {p_n, a_n} | '(' E ')' | Num`.
Terminals: 0 STOP, `k` (1 ≤ k ≤ n) the k-th operator, n+1 `(`, n+2 `)`, n+3 `Num`.
Productions: 0 `AUG → E`, `k` the k-th operator, n+1 parentheses, n+2 `Num`.
`Ops.parse` is the textbook precedence-climbing parser producing undecorated trees
(`Tree.mk` / `Tree.tok`) of that grammar.
-/
namespace Rustemo.Ops

structure Op where
  prio : Nat
  right : Bool        -- right associative (`right`/`shift`), else left (`left`/`reduce`)
deriving Repr, DecidableEq

/-- operators of equal priority have the same associativity (a conventional operator table) -/
def Consistent (ops : List Op) : Prop :=
  ∀ a ∈ ops, ∀ b ∈ ops, a.prio = b.prio → a.right = b.right

def grammar (ops : List Op) : Grammar :=
  let n := ops.length
  let nt := n + 4
  let e := nt + 2
  { nterms := nt, nnonterms := 3,
    prods := (#[{ lhs := nt + 1, rhs := [e] }] ++
      ((List.range n).map fun k =>
        let o := ops.getD k ⟨10, false⟩
        ({ lhs := e, rhs := [e, k + 1, e], prio := o.prio,
           assoc := if o.right then .right else .left } : Prod)).toArray ++
      #[{ lhs := e, rhs := [n + 1, e, n + 2] }, { lhs := e, rhs := [n + 3] }]),
    emptyIdx := nt, augIdx := nt + 1, startIdx := e }

mutual
/-- operand: number or parenthesised expression -/
def atom (ops : List Op) : Nat → List Nat → Option (Tree × List Nat)
  | 0, _ => none
  | fuel + 1, ts =>
    let n := ops.length
    match ts with
    | [] => none
    | t :: rest =>
      if t = n + 3 then some (Tree.mk (n + 2) [Tree.tok t], rest)
      else if t = n + 1 then
        match expr ops fuel 0 rest with
        | some (e, t' :: rest') =>
          if t' = n + 2 then some (Tree.mk (n + 1) [Tree.tok t, e, Tree.tok t'], rest') else none
        | _ => none
      else none
/-- expression whose operators all have priority ≥ `minp` -/
def expr (ops : List Op) : Nat → Nat → List Nat → Option (Tree × List Nat)
  | 0, _, _ => none
  | fuel + 1, minp, ts =>
    match atom ops fuel ts with
    | some (lhs, rest) => climb ops fuel minp lhs rest
    | none => none
/-- the loop of precedence climbing: extend `lhs` while the next operator binds at least `minp` -/
def climb (ops : List Op) : Nat → Nat → Tree → List Nat → Option (Tree × List Nat)
  | 0, _, _, _ => none
  | fuel + 1, minp, lhs, ts =>
    match ts with
    | [] => some (lhs, [])
    | t :: rest =>
      if 1 ≤ t ∧ t ≤ ops.length then
        let o := ops.getD (t - 1) ⟨10, false⟩
        if minp ≤ o.prio then
          match expr ops fuel (if o.right then o.prio else o.prio + 1) rest with
          | some (rhs, rest') => climb ops fuel minp (Tree.mk t [lhs, Tree.tok t, rhs]) rest'
          | none => none
        else some (lhs, ts)
      else some (lhs, ts)
end

/-- whole input -/
def parse (ops : List Op) (fuel : Nat) (w : List Nat) : Option Tree :=
  match expr ops fuel 0 w with
  | some (t, []) => some t
  | _ => none

end Rustemo.Ops
