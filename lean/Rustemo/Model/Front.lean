import Rustemo.Model.Front.Ast
import Rustemo.Model.Front.Build
import Rustemo.Model.Front.Wf
import Rustemo.Model.Front.Doc
