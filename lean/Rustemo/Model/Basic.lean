/-!
# Basic data: grammar, table, positions, trees

Mirrors the plain data of `rustemo-compiler/src/grammar/mod.rs` (Grammar, Production,
Terminal) and `table/mod.rs` (LRState, LRItem, Action) as dumped by the `verif` hook.
Symbols are indices exactly as in rustemo: terminals `0 .. nterms-1` (0 = STOP), then
nonterminals `nterms + ntidx` (ntidx 0 = EMPTY, 1 = AUG, then [AUGL], user rules).
Import-free (core only) so the driver links as a native executable.
-/
namespace Rustemo

inductive Assoc where
  | none | left | right
deriving Repr, DecidableEq, Inhabited

/-- Recognizer of a terminal as declared in the grammar. -/
inductive Recog where
  | str (s : String)
  | regex (s : String)
deriving Repr, DecidableEq, Inhabited

structure Terminal where
  name : String
  prio : Nat
  assoc : Assoc
  recog : Option Recog
  hasContent : Bool
  reachable : Bool
deriving Repr, Inhabited

structure Prod where
  lhs : Nat                -- symbol index of the left-hand side nonterminal
  rhs : List Nat           -- symbol indices
  prio : Nat := 10
  assoc : Assoc := .none
  nops : Bool := false
  nopse : Bool := false
  ntidx : Nat := 0
  kind : Option String := none
deriving Repr, Inhabited

structure Grammar where
  nterms : Nat                     -- number of terminals; symbols < nterms are terminals
  nnonterms : Nat
  prods : Array Prod               -- prods[0] = AUG → start
  terms : Array Terminal := #[]
  ntNames : Array String := #[]
  emptyIdx : Nat := 0
  augIdx : Nat := 0
  auglIdx : Option Nat := none
  startIdx : Nat := 0
deriving Repr, Inhabited

def Grammar.isTerm (g : Grammar) (s : Nat) : Bool := s < g.nterms

inductive Action where
  | shift (s : Nat)
  | reduce (p : Nat) (len : Nat)
  | accept
deriving Repr, DecidableEq, Inhabited

structure Item where
  prod : Nat
  dot  : Nat
  la   : List Nat
deriving Repr, DecidableEq, Inhabited

structure State where
  symbol  : Nat
  items   : List Item
  actions : Array (List Action)     -- indexed by terminal
  gotos   : Array (Option Nat)      -- indexed by nonterminal index (symbol - nterms)
  sorted  : List (Nat × Bool)       -- sorted_terminals: (terminal, finish flag)
  maxPrio : List (Nat × Nat) := []
deriving Repr, Inhabited

structure Settings where
  glr : Bool := false
  tableType : String := "LALR_PAGER"
  preferShifts : Bool := false
  preferShiftsOverEmpty : Bool := true
  mostSpecific : Bool := true
  longestMatch : Bool := true
  grammarOrder : Bool := true
  partialParse : Bool := false
  skipWs : Bool := true
deriving Repr, Inhabited

structure Table where
  states : Array State
  layoutState : Option Nat := none
  firsts : Array (List Nat) := #[]
  rnLens : Option (Array Nat) := none
deriving Repr, Inhabited

/-- one automaton inside the table: start state, augmented production, its start symbol
    (the main automaton, and the layout automaton when the grammar has a Layout rule) -/
structure Auto where
  start : Nat
  aug : Nat
  sym : Nat
deriving DecidableEq, Repr

def Table.cell (t : Table) (s a : Nat) : List Action :=
  match t.states[s]? with
  | some st => st.actions.getD a []
  | none => []

def Table.gotoNt (t : Table) (s nt : Nat) : Option Nat :=
  match t.states[s]? with
  | some st => st.gotos.getD nt none
  | none => none

/-- goto on a nonterminal *symbol* index -/
def Table.goto (t : Table) (g : Grammar) (s A : Nat) : Option Nat :=
  if g.nterms ≤ A then t.gotoNt s (A - g.nterms) else none

def Table.sorted (t : Table) (s : Nat) : List (Nat × Bool) :=
  match t.states[s]? with
  | some st => st.sorted
  | none => []

/-! ## Positions and spans (`rustemo/src/position.rs`, `input.rs`) -/

structure Pos where
  pos : Nat
  line : Nat
  col : Nat
deriving Repr, DecidableEq, Inhabited

def Pos.start : Pos := ⟨0, 1, 0⟩

structure Span where
  s : Pos
  e : Pos
deriving Repr, DecidableEq, Inhabited

/-- A slice of the input buffer: offset and length in bytes. -/
abbrev Slice := Nat × Nat

/-! ## Trees (generic tree of `lr/builder.rs::TreeNode`) -/

mutual
inductive Tree where
  | leaf (kind : Nat) (span : Span) (val : Slice) (lay : Option Slice) : Tree
  | node (prod : Nat) (span : Span) (lay : Option Slice) (cs : TreeList) : Tree
inductive TreeList where
  | nil : TreeList
  | cons (t : Tree) (ts : TreeList) : TreeList
end

instance : Inhabited Tree := ⟨.leaf 0 default (0, 0) none⟩

def TreeList.ofList : List Tree → TreeList
  | [] => .nil
  | t :: ts => .cons t (ofList ts)

def TreeList.toList : TreeList → List Tree
  | .nil => []
  | .cons t ts => t :: ts.toList

mutual
/-- token kinds at the leaves, left to right -/
def Tree.yield : Tree → List Nat
  | .leaf a _ _ _ => [a]
  | .node _ _ _ cs => cs.yield
def TreeList.yield : TreeList → List Nat
  | .nil => []
  | .cons t ts => t.yield ++ ts.yield
end

mutual
/-- `t.Valid g X`: `t` is a derivation tree of grammar `g` with root symbol `X`. -/
def Tree.Valid (g : Grammar) : Tree → Nat → Prop
  | .leaf a _ _ _, X => a = X ∧ a < g.nterms
  | .node p _ _ cs, X => ∃ pr, g.prods[p]? = some pr ∧ pr.lhs = X ∧ TreeList.Valid g cs pr.rhs
def TreeList.Valid (g : Grammar) : TreeList → List Nat → Prop
  | .nil, Xs => Xs = []
  | .cons t ts, Xs => ∃ X Xs', Xs = X :: Xs' ∧ Tree.Valid g t X ∧ TreeList.Valid g ts Xs'
end

mutual
/-- executable validity check (used by the driver as an oracle on implementation output) -/
def Tree.validB (g : Grammar) : Tree → Nat → Bool
  | .leaf a _ _ _, X => a == X && decide (a < g.nterms)
  | .node p _ _ cs, X =>
    match g.prods[p]? with
    | some pr => pr.lhs == X && TreeList.validB g cs pr.rhs
    | none => false
def TreeList.validB (g : Grammar) : TreeList → List Nat → Bool
  | .nil, Xs => Xs.isEmpty
  | .cons t ts, Xs =>
    match Xs with
    | [] => false
    | X :: Xs' => Tree.validB g t X && TreeList.validB g ts Xs'
end

/-! ## Outcomes: `unwrap`/index/`panic!` are an explicit third result -/

inductive PErr where
  | expected (pos : Pos) (kinds : List Nat)
  | noAction
deriving Repr, DecidableEq, Inhabited

inductive Outcome (α : Type) where
  | ok (a : α)
  | err (e : PErr)
  | panic (site : String)
  | fuel
deriving Repr, Inhabited

end Rustemo
