import Rustemo.Model.Basic
/-!
# The LR core: the stack machine without lexing and bookkeeping

`cstep` is the shift/reduce/accept logic of `LRParser::parse_with_context` with the lookahead
token kind given from outside (whatever a lexer produced).  The byte-level model `LR.step`
refines it (`Proofs/Refine.lean`); the LR theory (soundness, completeness) is proved here once.
`TLR` is the same machine fed from a token list, lexed the way rustemo's context-aware lexer
lexes when terminals cannot be confused with each other: the next input token is offered only
if the current state has an action for it.
-/
namespace Rustemo

/-- a leaf without decorations -/
def Tree.tok (a : Nat) : Tree := .leaf a default (0, 0) none
/-- a node without decorations -/
def Tree.mk (p : Nat) (cs : List Tree) : Tree := .node p default none (TreeList.ofList cs)

structure CCfg where
  stack : List (Nat × Tree)    -- (state, tree of the symbol that led to it), top first;
                               -- the start state below the bottom entry is implicit
  shifted : List Nat           -- token kinds shifted so far, most recent first

inductive CStep where
  | shift (c : CCfg)
  | reduce (c : CCfg)
  | accept (tr : Tree)
  | panic (site : String)

def topOf (start : Nat) (st : List (Nat × Tree)) : Nat :=
  match st with
  | [] => start
  | (s, _) :: _ => s

/-- one action with lookahead kind `a`; `leafOf`/`nodeOf` build the (decorated) trees -/
def cstepWith (g : Grammar) (t : Table) (start : Nat)
    (leafOf : Nat → Tree) (nodeOf : Nat → List Tree → Tree) (c : CCfg) (a : Nat) : CStep :=
  match t.cell (topOf start c.stack) a with
  | [] => .panic "actions[0]"
  | act :: _ =>
    match act with
    | .shift s' => .shift ⟨(s', leafOf a) :: c.stack, a :: c.shifted⟩
    | .reduce p len =>
      if c.stack.length < len then .panic "split_off"
      else
        match g.prods[p]? with
        | none => .panic "prod.into()"
        | some pr =>
          match t.goto g (topOf start (c.stack.drop len)) pr.lhs with
          | none => .panic "goto"
          | some s' =>
            .reduce ⟨(s', nodeOf p ((c.stack.take len).reverse.map (·.2))) :: c.stack.drop len, c.shifted⟩
    | .accept =>
      match c.stack with
      | [] => .panic "res_stack.pop().unwrap()"
      | (_, tr) :: _ => .accept tr

def cstep (g : Grammar) (t : Table) (start : Nat) (c : CCfg) (a : Nat) : CStep :=
  cstepWith g t start Tree.tok Tree.mk c a

/-! ## Token-level LR parser -/

structure TCfg where
  c : CCfg
  rest : List Nat             -- remaining token kinds (without STOP)

def lookahead (rest : List Nat) : Nat := rest.headD 0

inductive TStep where
  | next (c : TCfg)
  | accept (tr : Tree)
  | error (tokenIndexFromEnd : Nat) (state : Nat)   -- nothing expected matches
  | panic (site : String)

/-- lex-then-act: the token is found only if the state has an action for it (context-aware lexing) -/
def tstep (g : Grammar) (t : Table) (c : TCfg) : TStep :=
  let a := lookahead c.rest
  let s := topOf 0 c.c.stack
  if t.cell s a = [] then .error c.rest.length s
  else
    match cstep g t 0 c.c a with
    | .reduce c' => .next ⟨c', c.rest⟩
    | .shift c' =>
      match c.rest with
      | [] => .panic "shift STOP"
      | _ :: rest' => .next ⟨c', rest'⟩
    | .accept tr => .accept tr
    | .panic s => .panic s

inductive TResult where
  | accept (tr : Tree)
  | error (tokenIndexFromEnd : Nat) (state : Nat)
  | panic (site : String)
  | fuel
deriving Inhabited

def trun (g : Grammar) (t : Table) : Nat → TCfg → TResult
  | 0, _ => .fuel
  | n+1, c =>
    match tstep g t c with
    | .next c' => trun g t n c'
    | .accept tr => .accept tr
    | .error k s => .error k s
    | .panic s => .panic s

def tparse (g : Grammar) (t : Table) (w : List Nat) (fuel : Nat) : TResult :=
  trun g t fuel ⟨⟨[], []⟩, w⟩

end Rustemo
