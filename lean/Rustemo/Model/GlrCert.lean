import Rustemo.Model.Cert
import Rustemo.Model.Canon
import Rustemo.Model.CertComplete
/-!
# Certificates for tables driven by the GLR engine (right-nulled tables included)

Executable validators in the style of `Model/Cert.lean`, run by the driver on the table the real
compiler produced.  Nothing here mirrors Rust code.

* `Cert.structuralRN` is `Cert.structural` with the reduce clause relaxed: `Reduce(p, len)` needs the item
  `(p, len)` in the state, `len ≤ |rhs p|` and every symbol of `rhs p` from `len` on in the list `nul`
  (right-nulled reduction, `LRItem::is_reducing` in table/mod.rs).
* `Cert.nulOk g nul`: `nul` is a *ranked* list of nullable symbols: every member has a production whose
  right-hand side consists of later members only (so every member derives the empty string —
  `Proofs/GlrCert.lean`).  The list is computed by `Canon.nullable`; only the check is trusted.
* `Cert.symbolsOk`: every state is entered on one symbol only, the `symbol` the compiler recorded.
-/
namespace Rustemo

def Table.symAt (t : Table) (s : Nat) : Nat :=
  match t.states[s]? with
  | some st => st.symbol
  | none => 0

def Cert.symbolsOk (g : Grammar) (t : Table) : Bool :=
  t.forStates fun _ st =>
    (st.forCells fun a act =>
      match act with
      | .shift s' => t.symAt s' == a
      | _ => true) &&
    (st.forGotos fun j s' => t.symAt s' == g.nterms + j)

def Cert.nulOk (g : Grammar) : List Nat → Bool
  | [] => true
  | X :: rest =>
    (g.prods.toList.any fun pr => pr.lhs == X && pr.rhs.all (fun Y => rest.contains Y)) && Cert.nulOk g rest

def Cert.structuralRN (g : Grammar) (t : Table) (autos : List Auto) (nul : List Nat) : Bool :=
  -- item_prod
  (t.forStates fun _ st => st.items.all fun it =>
      match g.prods[it.prod]? with
      | some pr => it.dot ≤ pr.rhs.length
      | none => false) &&
  -- start_items, aug_start_only
  (t.forStates fun i st => st.items.all fun it => autos.all fun a =>
      (i != a.start || it.dot == 0) && (i == a.start || !(it.prod == a.aug && it.dot == 0))) &&
  -- no_into_start, shift_term, target_items (terminals), reduce_item (right-nulled), accept_item
  (t.forStates fun _ st =>
      decide (st.actions.size ≤ g.nterms) &&
      st.forCells fun a act =>
        match act with
        | .shift s' => (autos.all fun au => s' != au.start) && t.targetOk g st a s'
        | .reduce p len =>
          st.hasItemB p len &&
          (match g.prods[p]? with
           | some pr => decide (len ≤ pr.rhs.length) && (pr.rhs.drop len).all (fun Y => nul.contains Y)
           | none => false)
        | .accept =>
          autos.any fun au =>
            (match g.prods[au.aug]? with
             | some pr => pr.rhs == [au.sym]
             | none => false) && st.hasItemB au.aug 1) &&
  -- gotos: no_into_start, target_items (nonterminals)
  (t.forStates fun _ st => st.forGotos fun j s' =>
      (autos.all fun au => s' != au.start) && t.targetOk g st (g.nterms + j) s') &&
  -- distinct start states
  (autos.all fun a => autos.all fun b => a.start != b.start || decide (a = b))

/-- everything the GLR soundness / no-panic theorems ask of a real table -/
def Cert.glr (g : Grammar) (t : Table) : Bool :=
  let nul := Canon.nullable g
  Cert.nulOk g nul && Cert.structuralRN g t (autosOf g t) nul && Cert.symbolsOk g t && Cert.total g t 0

/-- the layout automaton (if any) is covered by the structural certificate and passes `Cert.total`: with
    `Cert.glr` this makes the nested LR layout parser panic free (`Proofs/GlrLayout.lean`) -/
def Cert.glrLayout (g : Grammar) (t : Table) : Bool :=
  match t.layoutState with
  | none => true
  | some ls => (autosOf g t).any (fun au => au.start == ls) && Cert.total g t ls

/-! ## completeness side: every right-nulled reduction is in the table, transitions are functions -/

/-- every item whose rest is nullable has its (right-nulled) reduce entry for each of its lookaheads; a
    completed augmented item has Accept on STOP -/
def Cert.reduceRNOk (g : Grammar) (t : Table) (nul : List Nat) : Bool :=
  t.forStates fun i st => st.items.all fun it =>
    match g.prods[it.prod]? with
    | none => false
    | some pr =>
      !((pr.rhs.drop it.dot).all fun Y => nul.contains Y) ||
      (if g.isAug it.prod then (it.dot != pr.rhs.length || (t.cell i 0).contains .accept)
       else it.la.all fun a => (t.cell i a).contains (.reduce it.prod it.dot))

def isShift : Action → Bool
  | .shift _ => true
  | _ => false

/-- at most one shift per cell -/
def Cert.shiftDetOk (t : Table) : Bool :=
  t.forStates fun _ st => (List.range st.actions.size).all fun a =>
    decide (((st.actions.getD a []).filter isShift).length ≤ 1)

/-- the augmented layout symbol (if any) occurs in no right-hand side -/
def Cert.auglOk (g : Grammar) : Bool :=
  match g.auglIdx with
  | none => true
  | some x => g.prods.toList.all fun pr => !pr.rhs.contains x

/-- the completeness certificate for GLR tables: `Cert.complete` without "at most one action per cell", with
    the right-nulled reduce entries demanded, shifts deterministic, augmented symbols in no right-hand side, STOP
    never shifted, accept only on STOP -/
def Cert.completeRN (g : Grammar) (t : Table) : Bool :=
  let c := Canon.mkCtx g
  Cert.firstOk g c && Cert.closureOk g c t && Cert.transOk g t && Cert.reduceRNOk g t c.nul &&
  Cert.grammarOk g t && Cert.shiftDetOk t && Cert.auglOk g && Cert.noShiftStop t && Cert.acceptStop t

end Rustemo
