import Rustemo.Model.LR
/-! Canonical text rendering shared with the Rust harness (`harness/dyn/src/run.rs`). -/
namespace Rustemo

def Pos.render (p : Pos) : String := s!"{p.pos}:{p.line}:{p.col}"
def Span.render (s : Span) : String := s!"{s.s.render}-{s.e.render}"
def renderLay : Option Slice → String
  | some (o, l) => s!"{o}+{l}"
  | none => "-"

mutual
def Tree.render : Tree → String
  | .leaf k sp v l => s!"(T {k} {sp.render} {v.1}+{v.2} {renderLay l})"
  | .node p sp l cs => s!"(N {p} {sp.render} {renderLay l}{TreeList.render cs})"
def TreeList.render : TreeList → String
  | .nil => ""
  | .cons t ts => " " ++ t.render ++ ts.render
end

def renderKinds (ks : List Nat) : String := ",".intercalate (ks.map toString)

def renderOutcome : Outcome ParseResult → String
  | .ok r => "ok " ++ r.tree.render
  | .err (.expected p ks) => s!"err expected {p.render}-{p.render} {renderKinds ks}"
  | .err .noAction => "err noaction -"
  | .panic s => "panic " ++ s
  | .fuel => "timeout"

/-- parse the sparse match matrix ` t@p=l ...` into a lookup function -/
def parseMatrix (s : String) : Nat → Nat → Option Nat :=
  let entries : List (Nat × Nat × Nat) := (s.splitOn " ").filterMap fun e =>
    match e.splitOn "@" with
    | [t, rest] =>
      match rest.splitOn "=" with
      | [p, l] => some (t.toNat?.getD 0, p.toNat?.getD 0, l.toNat?.getD 0)
      | _ => none
    | _ => none
  fun t p => (entries.find? (fun e => e.1 == t && e.2.1 == p)).map (·.2.2)

end Rustemo
