import Rustemo.Model.LR
/-!
# The LR loop as it was before the repairs of C14-N1 and C14-N2 (repo HEAD 8db9d03)

Frozen copies of the four functions of `Model/LR.lean` that the two repairs changed, kept ONLY so that
the findings stay checked statements (`Props/C14.lean`: `C14_counterexample_relex_layout_discarded`,
`C14_counterexample_failed_layout_advances`).  Nothing else depends on this file and it is no longer
tied to the code by the correspondence check (the code it mirrors is gone); it was, on every run of
`./check C14`, up to the commit that repaired the findings.

* `liftTokOld` / `stepOld`: after a reduce the layout ahead saved before the re-lex is put back over
  whatever the re-lex produced (`lr/parser.rs` Reduce arm: `context.set_layout_ahead(layout)`).
* `nextTokenMainOld`: state and span are restored after the nested layout parse, the position is not.
-/
namespace Rustemo

def liftTokOld (hist : List Tok) (stack : List StackItem) (res : List Tree) (slice : Option Slice)
    (r : Ctx × Outcome Tok) (keepLay : Option (Option Slice)) : StepOut :=
  match r with
  | (ctx, .ok tk) =>
    let ctx := match keepLay with
      | some l => { ctx with lay := l }
      | none => ctx
    .next ⟨stack, res, slice, ctx, tk, hist⟩
  | (ctx, .err e) => .stop ctx (.err e)
  | (ctx, .panic s) => .stop ctx (.panic s)
  | (ctx, .fuel) => .stop ctx .fuel

def stepOld (env : Env) (nt : Ctx → Ctx × Outcome Tok) (c : Cfg) : StepOut :=
  match topState c.stack with
  | none => .stop c.ctx (.panic "stack.last().unwrap()")
  | some state =>
  match env.t.cell state c.tok.kind with
  | [] => .stop c.ctx (.err .noAction)
  | act :: _ =>
    match act with
    | .shift s' =>
      let newPos := posAfter (sliceOf env.input c.tok.val) c.ctx.pos
      let sp : Span := ⟨c.ctx.pos, newPos⟩
      let ctx := { c.ctx with span := sp, pos := newPos, state := s' }
      let stack := ⟨s', sp⟩ :: c.stack
      let res := Tree.leaf c.tok.kind c.tok.span c.tok.val ctx.lay :: c.res
      liftTokOld (c.tok :: c.hist) stack res c.slice (nt { ctx with lay := none }) none
    | .reduce p len =>
      if c.stack.length < len then .stop c.ctx (.panic "split_off")
      else
      let removed := c.stack.take len
      let below := c.stack.drop len
      match topState below with
      | none => .stop c.ctx (.panic "stack.last().unwrap()")
      | some fromState =>
      let sp : Span := reduceSpan removed c.ctx.span
      match env.g.prods[p]? with
      | none => .stop c.ctx (.panic "prod.into()")
      | some pr =>
      match env.t.goto env.g fromState pr.lhs with
      | none => .stop c.ctx (.panic "goto")
      | some s' =>
      let ctxSpan := c.ctx.span
      let stack := ⟨s', sp⟩ :: below
      if c.res.length < len then .stop c.ctx (.panic "res_stack.split_off")
      else
      let children := (c.res.take len).reverse
      let lay := childrenLay children
      let res := Tree.node p sp lay (TreeList.ofList children) :: c.res.drop len
      let slice : Option Slice := some (sp.s.pos, sp.e.pos - sp.s.pos)
      let ctx := { c.ctx with span := ctxSpan, state := s' }
      liftTokOld c.hist stack res slice (nt ctx) (some c.ctx.lay)
    | .accept =>
      match c.res with
      | [] => .stop c.ctx (.panic "res_stack.pop().unwrap()")
      | tr :: _ => .done c.ctx ⟨tr, c.slice, c.hist⟩

def runLoopOld (env : Env) (nt : Ctx → Ctx × Outcome Tok) : Nat → Cfg → Ctx × Outcome ParseResult
  | 0, c => (c.ctx, .fuel)
  | fuel+1, c =>
    match stepOld env nt c with
    | .next c' => runLoopOld env nt fuel c'
    | .done ctx r => (ctx, .ok r)
    | .stop ctx o => (ctx, o)

def parseWithOld (env : Env) (nt : Ctx → Ctx × Outcome Tok) (start : Nat) (ctx : Ctx) (fuel : Nat) :
    Ctx × Outcome ParseResult :=
  let stack := [StackItem.mk start ctx.span]
  match nt ctx with
  | (ctx, .ok tk) => runLoopOld env nt fuel ⟨stack, [], none, ctx, tk, []⟩
  | (ctx, .err e) => (ctx, .err e)
  | (ctx, .panic s) => (ctx, .panic s)
  | (ctx, .fuel) => (ctx, .fuel)

def layoutParseOld (env : Env) (ls : Nat) (ctx : Ctx) (fuel : Nat) : Ctx × Outcome ParseResult :=
  parseWithOld env (nextTokenBase env true) ls { ctx with state := ls } fuel

def nextTokenMainOld (env : Env) (partialParse : Bool) (fuel : Nat) (ctx : Ctx) : Ctx × Outcome Tok :=
  let (ctx, toks) := lexNext env ctx (env.t.sorted ctx.state)
  match pickToken env.longest toks with
  | some tk => (ctx, .ok tk)
  | none =>
    match env.t.layoutState with
    | none => noToken env partialParse ctx
    | some ls =>
      let cur := ctx.state
      let sp := ctx.span
      let (ctx, r) := layoutParseOld env ls ctx fuel
      let ctx := { ctx with state := cur, span := sp }
      match r with
      | .ok pr =>
        match pr.slice with
        | some (off, len) =>
          if len > 0 then nextTokenBase env partialParse { ctx with lay := some (off, len) }
          else noToken env partialParse ctx
        | none => noToken env partialParse ctx
      | .err _ => noToken env partialParse ctx
      | .panic s => (ctx, .panic s)
      | .fuel => (ctx, .fuel)

/-- `LRParser::parse` as it was at 8db9d03 -/
def parseOld (env : Env) (partialParse : Bool) (fuel : Nat) : Ctx × Outcome ParseResult :=
  parseWithOld env (nextTokenMainOld env partialParse fuel) 0 {} fuel

end Rustemo
