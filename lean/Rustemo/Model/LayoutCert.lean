import Rustemo.Model.LR
import Rustemo.Model.Cert
/-!
# Executable conditions around the Layout-rule round trip (C14)

Nothing here mirrors Rust code.

`autoOk g t ls` — the layout automaton is one of the table's automata and its symbol is a nonterminal —
is the only hypothesis of `C14_roundtrip_layout` besides the table certificates.

The rest describes the inputs on which the loop BEFORE the repairs of the findings C14-N1 / C14-N2
(`Model/LROld.lean`) was lossless; it is used by the counterexample theorems about that loop and, as
coverage information, by the driver command `layoutcert` (which inputs exercise the repaired paths).
`scan` is the layout parser of `Model/LR.lean` (`layoutParse`: partial parse from the layout state,
string lexer without whitespace skipping) with positions, spans, trees and the context erased: a
stack of states, a byte offset and the token ahead.  `Proofs/LayoutRTScan.lean` proves that
`layoutParse` refines it, so the outcome of a layout parse depends on the byte offset only.
`check env ls fuel` evaluates, at every byte offset of the input:

* `notToken`   — where the layout parser succeeds and consumes something, no state of the main
                  automaton finds a token (else: layout parsed on re-lexing after a reduce; C14-N1);
* `idempotent` — where a layout parse ended, a second one consumes nothing (else: the same);
* `failStays`  — a layout parse that fails has not advanced (else: C14-N2).
-/
namespace Rustemo
namespace LayoutCert

/-- the `Position` of a byte offset (`= posOf` of `Proofs/Pos.lean`) -/
def posAt (input : List Nat) (off : Nat) : Pos := posAfter (input.take off) Pos.start

inductive STok where
  | ok (kind len : Nat)
  | err
  | other
deriving DecidableEq, Repr

/-- what `noToken env true` answers, without the context -/
def scanNoToken (env : Env) (state : Nat) : STok :=
  let exp := (env.t.sorted state).map (·.1)
  if exp.contains 0 then .ok 0 0
  else
    match exp with
    | [] => .other
    | _ => .err

def scanPick (env : Env) (state : Nat) (o : Option Tok) : STok :=
  match o with
  | some tk => .ok tk.kind tk.val.2
  | none => scanNoToken env state

/-- `nextTokenBase env true` of the string lexer without whitespace skipping, at byte offset `p` -/
def scanTok (env : Env) (state p : Nat) : STok :=
  scanPick env state (pickToken env.longest (tokenIter env (posAt env.input p) (env.t.sorted state)))

structure SCfg where
  stack : List Nat      -- states, top first
  pos : Nat
  kind : Nat
  len : Nat
deriving Repr

inductive SRes where
  | ok (pos : Nat)      -- accepted, final byte offset
  | fail (pos : Nat)    -- error result, byte offset of the context handed back
  | other               -- panic or out of fuel
deriving DecidableEq, Repr

inductive SStep where
  | next (c : SCfg)
  | fin (r : SRes)

def sLift (stack : List Nat) (pos : Nat) (t : STok) : SStep :=
  match t with
  | .ok k l => .next ⟨stack, pos, k, l⟩
  | .err => .fin (.fail pos)
  | .other => .fin .other

def sstep (env : Env) (c : SCfg) : SStep :=
  match c.stack.head? with
  | none => .fin .other
  | some state =>
  match env.t.cell state c.kind with
  | [] => .fin (.fail c.pos)
  | act :: _ =>
    match act with
    | .shift s' => sLift (s' :: c.stack) (c.pos + c.len) (scanTok env s' (c.pos + c.len))
    | .reduce p len =>
      if c.stack.length < len then .fin .other
      else
      match (c.stack.drop len).head? with
      | none => .fin .other
      | some fromState =>
      match env.g.prods[p]? with
      | none => .fin .other
      | some pr =>
      match env.t.goto env.g fromState pr.lhs with
      | none => .fin .other
      | some s' => sLift (s' :: c.stack.drop len) c.pos (scanTok env s' c.pos)
    | .accept => if c.stack.length < 2 then .fin .other else .fin (.ok c.pos)

def srun (env : Env) : Nat → SCfg → SRes
  | 0, _ => .other
  | fuel+1, c =>
    match sstep env c with
    | .next c' => srun env fuel c'
    | .fin r => r

def scanStart (env : Env) (ls fuel p : Nat) (t : STok) : SRes :=
  match t with
  | .ok k l => srun env fuel ⟨[ls], p, k, l⟩
  | .err => .fail p
  | .other => .other

/-- the layout parser started at byte offset `p` -/
def scan (env : Env) (ls fuel p : Nat) : SRes := scanStart env ls fuel p (scanTok env ls p)

/-! ## The states of the main automaton -/

def shiftTarget : Action → Option Nat
  | .shift s' => some s'
  | _ => none

def succs (t : Table) (s : Nat) : List Nat :=
  match t.states[s]? with
  | none => []
  | some st => (st.actions.toList.flatMap fun acts => acts.filterMap shiftTarget) ++ st.gotos.toList.filterMap id

def reach (t : Table) : Nat → List Nat → List Nat
  | 0, ms => ms
  | n+1, ms => reach t n (ms ++ ((ms.flatMap (succs t)).filter fun s => !ms.contains s).eraseDups)

/-- states reachable from state 0 -/
def mainStates (t : Table) : List Nat := reach t t.states.size [0]

/-- `ms` contains the start state and is closed under shift and goto -/
def closed (t : Table) (ms : List Nat) : Bool :=
  ms.contains 0 && ms.all fun s => (succs t s).all fun s' => ms.contains s'

/-! ## The conditions, per byte offset -/

/-- the layout parser succeeds at `p` and consumes something -/
def consumes (env : Env) (ls fuel p : Nat) : Bool :=
  match scan env ls fuel p with
  | .ok q => (q != p)
  | _ => false

/-- some state of `ms` finds a token at `p` -/
def tokenAt (env : Env) (ms : List Nat) (p : Nat) : Bool :=
  ms.any fun s => (pickToken env.longest (tokenIter env (posAt env.input p) (env.t.sorted s))).isSome

def notTokenAt (env : Env) (ls fuel : Nat) (ms : List Nat) (p : Nat) : Bool :=
  !(consumes env ls fuel p && tokenAt env ms p)

def idempotentAt (env : Env) (ls fuel p : Nat) : Bool :=
  match scan env ls fuel p with
  | .ok q => !((q != p) && consumes env ls fuel q)
  | _ => true

def failStaysAt (env : Env) (ls fuel p : Nat) : Bool :=
  match scan env ls fuel p with
  | .fail q => q == p
  | _ => true

def offsets (env : Env) : List Nat := List.range (env.input.length + 1)

def notToken (env : Env) (ls fuel : Nat) : Bool :=
  (offsets env).all (notTokenAt env ls fuel (mainStates env.t))
def idempotent (env : Env) (ls fuel : Nat) : Bool := (offsets env).all (idempotentAt env ls fuel)
def failStays (env : Env) (ls fuel : Nat) : Bool := (offsets env).all (failStaysAt env ls fuel)

/-- the layout automaton is one of the table's automata and its start symbol is a nonterminal -/
def autoOk (g : Grammar) (t : Table) (ls : Nat) : Bool :=
  (autosOf g t).any fun au => au.start == ls && decide (g.nterms ≤ au.sym)

/-- grammar/table part (independent of the input) -/
def static (env : Env) (ls : Nat) : Bool :=
  closed env.t (mainStates env.t) && autoOk env.g env.t ls

/-- the inputs on which the loop before the repairs of C14-N1/N2 was lossless as well -/
def check (env : Env) (ls fuel : Nat) : Bool :=
  static env ls && notToken env ls fuel && idempotent env ls fuel && failStays env ls fuel

end LayoutCert
end Rustemo
