import Rustemo.Model.Basic
import Rustemo.Model.Resolve
import Rustemo.Model.Lex
import Rustemo.Model.Canon
/-!
# The table construction: `LRTable::new` (rustemo-compiler/src/table/mod.rs)

Executable transcription of the construction of the LR table from the grammar and the settings, in the
same state numbering, item order, lookahead sets (ascending, as `BTreeSet` iterates), action order
inside a cell and sorted-terminal order as the real code, for the three table types
(`LALR`, `LALR_PAGER`, `LALR_RN`) and both parser algorithms:

* `firstSets`            — `first_sets` + `firsts`                        (table/mod.rs:1385-1458)
* `prodRnLens`           — `production_rn_lengths`                        (:1286-1303)
* `emptyFirst`           — `check_empty_sets`                             (:1000-1014)
* `closure`              — `LRState::closure`                             (:199-272)
* `perNextSymbol`, `maxPrioOf` — `LRState::group_per_next_symbol`        (:276-294)
* `newStates`            — `create_new_states`                            (:976-995)
* `stateEq`, `mergeState`— `LRState::eq`, `merge_state` (LALR union, Pager/Menhir weak compatibility) (:105-111, 620-694)
* `calcStates`           — `calc_states` (state queue, merge-or-push, GOTO / SHIFT entries) (:528-613)
* `propagate`            — `propagate_follows` (closure refresh + in-place inter-state propagation) (:701-751)
* `finishState`          — `calculate_reductions` through `Resolve.cell` (Model/Resolve.lean: not redone here)
                           and `sort_terminals` through `Lex.sortTerms` / `Lex.withFlags` (Model/Lex.lean)
* `build`                — `LRTable::new`                                  (:477-523)

The queue `state_queue`, the finished `self.states` and the state being processed are ONE array
indexed by `LRState::idx` (`self.states ++ [state] ++ state_queue` is in index order at every moment:
new states get the next index and are pushed to the back, states are popped from the front and
appended to `self.states`).  The order in which `calc_states` looks for a state to merge with —
finished states, then the queue, then the state being processed — is `searchOrder`.

Every `unwrap`, index, `assert!` and checked arithmetic of this code is an explicit `.panic site`;
`Err(..)` of `check_empty_sets` is `.err symbol`; every `loop`/`while` takes `fuel` rounds
(`.fuel` when exhausted).  Sets (`BTreeSet<SymbolIndex>`) are ascending duplicate-free lists.
-/
namespace Rustemo.Table

/-- outcome of the construction -/
inductive Res (α : Type) where
  | ok (a : α)
  | err (sym : Nat)          -- `Err`: "First set empty for grammar symbol …"
  | panic (site : String)
  | fuel
deriving Repr, Inhabited

def Res.bind {α β} : Res α → (α → Res β) → Res β
  | .ok a, f => f a
  | .err s, _ => .err s
  | .panic s, _ => .panic s
  | .fuel, _ => .fuel

def siteFirstIdx : String := "first_sets[symbol]"
def siteNonterm : String := "nonterminals[symbol_to_nonterm_index(symbol)]"
def siteAugOne : String := "assert_eq!(prods.len(), 1)"
def siteActions : String := "state.actions[term]"
def siteGotos : String := "state.gotos[nonterm]"
def siteMergeUnwrap : String := "merge_state: find(..).unwrap()"
def sitePosUnderflow : String := "target_item.position - 1"
def siteStates : String := "self.states[target_state]"
def siteTerm : String := "terminals[term]"
def siteResolveOther : String := "resolve: unexpected outcome"

/-! ## `BTreeSet<SymbolIndex>` -/

/-- `BTreeSet::insert` -/
def ins (x : Nat) : List Nat → List Nat
  | [] => [x]
  | y :: ys => if x < y then x :: y :: ys else if x = y then y :: ys else y :: ins x ys

/-- `a.extend(b)` -/
def union (a b : List Nat) : List Nat := b.foldl (fun acc x => ins x acc) a

/-! ## FIRST sets -/

/-- `firsts(grammar, first_sets, symbols)`; `none` = index out of bounds -/
def firstsOf (g : Grammar) (fs : Array (List Nat)) : List Nat → Option (List Nat)
  | [] => some [g.emptyIdx]
  | X :: rest =>
    match fs[X]? with
    | none => none
    | some fx =>
      if fx.contains g.emptyIdx then
        match firstsOf g fs rest with
        | some r => some (union (fx.filter (· != g.emptyIdx)) r)
        | none => none
      else some (fx.filter (· != g.emptyIdx))

def firstInit (g : Grammar) : Option (Array (List Nat)) :=
  let a := ((List.range g.nterms).map (fun i => [i]) ++ List.replicate g.nnonterms []).toArray
  match a[g.emptyIdx]? with
  | some s => some (a.setIfInBounds g.emptyIdx (ins g.emptyIdx s))
  | none => none

/-- one pass of the `for production in &grammar.productions` loop; the flag is `additions` -/
def firstProds (g : Grammar) : List Prod → Array (List Nat) → Bool → Res (Array (List Nat) × Bool)
  | [], fs, ch => .ok (fs, ch)
  | pr :: rest, fs, ch =>
    match firstsOf g fs pr.rhs with
    | none => .panic siteFirstIdx
    | some r =>
      match fs[pr.lhs]? with
      | none => .panic siteFirstIdx
      | some old =>
        let new := union old r
        firstProds g rest (fs.setIfInBounds pr.lhs new) (ch || decide (old.length < new.length))

def firstLoop (g : Grammar) : Nat → Array (List Nat) → Res (Array (List Nat))
  | 0, _ => .fuel
  | n+1, fs =>
    match firstProds g g.prods.toList fs false with
    | .ok (fs', true) => firstLoop g n fs'
    | .ok (fs', false) => .ok fs'
    | .err s => .err s
    | .panic s => .panic s
    | .fuel => .fuel

def firstSets (g : Grammar) (fuel : Nat) : Res (Array (List Nat)) :=
  match firstInit g with
  | none => .panic siteFirstIdx
  | some fs => firstLoop g fuel fs

/-- `production_rn_lengths` for one production: right-hand side reversed, current length -/
def rnLenRev (g : Grammar) (fs : Array (List Nat)) : List Nat → Nat → Option Nat
  | [], n => some n
  | X :: rest, n =>
    match fs[X]? with
    | none => none
    | some fx => if fx.contains g.emptyIdx then rnLenRev g fs rest (n - 1) else some n

def rnLensList (g : Grammar) (fs : Array (List Nat)) : List Prod → Option (List Nat)
  | [] => some []
  | pr :: rest =>
    match rnLenRev g fs pr.rhs.reverse pr.rhs.length, rnLensList g fs rest with
    | some n, some r => some (n :: r)
    | _, _ => none

def prodRnLens (g : Grammar) (fs : Array (List Nat)) : Option (Array Nat) :=
  (rnLensList g fs g.prods.toList).map (·.toArray)

/-- `check_empty_sets`: the first symbol with an empty FIRST set -/
def emptyFirst (fs : Array (List Nat)) : Option Nat :=
  (List.range fs.size).find? fun i => (fs.getD i []).isEmpty

/-! ## Closure -/

/-- the follow set handed to the items of the nonterminal right of the dot (table/mod.rs:209-230) -/
def newFollow (g : Grammar) (fs : Array (List Nat)) (pr : Prod) (it : Item) : Option (List Nat) :=
  if it.dot + 1 < pr.rhs.length then
    match firstsOf g fs (pr.rhs.drop (it.dot + 1)) with
    | none => none
    | some f =>
      if f.contains g.emptyIdx then some (union (f.filter (· != g.emptyIdx)) it.la) else some f
  else some it.la

/-- the items `(production, follow)` one item asks for -/
def itemDemands (g : Grammar) (fs : Array (List Nat)) (it : Item) : Res (List (Nat × List Nat)) :=
  match g.prods[it.prod]? with
  | none => .ok []
  | some pr =>
    match pr.rhs[it.dot]? with
    | none => .ok []
    | some B =>
      if B < g.nterms then .ok []
      else
        match newFollow g fs pr it with
        | none => .panic siteFirstIdx
        | some nf =>
          if B - g.nterms < g.nnonterms then .ok ((Canon.prodsOf g B).map fun q => (q, nf))
          else .panic siteNonterm

/-- derived `Ord` of `BTreeSet<SymbolIndex>`: lexicographic -/
def cmpLA : List Nat → List Nat → Ordering
  | [], [] => .eq
  | [], _ :: _ => .lt
  | _ :: _, [] => .gt
  | a :: as, b :: bs => if a < b then .lt else if b < a then .gt else cmpLA as bs

/-- derived `Ord` of `LRItem` on position-0 items: production, then follow (`prod_len`, `rn_len` are
    functions of the production) -/
def cmpDemand (x y : Nat × List Nat) : Ordering :=
  if x.1 < y.1 then .lt else if y.1 < x.1 then .gt else cmpLA x.2 y.2

/-- `new_items.insert(..)` on the `BTreeSet<LRItem>` -/
def insDemand (x : Nat × List Nat) : List (Nat × List Nat) → List (Nat × List Nat)
  | [] => [x]
  | y :: ys =>
    match cmpDemand x y with
    | .lt => x :: y :: ys
    | .eq => y :: ys
    | .gt => y :: insDemand x ys

def insDemands (ds acc : List (Nat × List Nat)) : List (Nat × List Nat) :=
  ds.foldl (fun a d => insDemand d a) acc

def gatherDemands (g : Grammar) (fs : Array (List Nat)) :
    List Item → List (Nat × List Nat) → Res (List (Nat × List Nat))
  | [], acc => .ok acc
  | it :: rest, acc =>
    match itemDemands g fs it with
    | .ok ds => gatherDemands g fs rest (insDemands ds acc)
    | .err s => .err s
    | .panic s => .panic s
    | .fuel => .fuel

/-- one `new_item` of the second loop of `closure`: update the follow of the existing item or push -/
def addDemand (d : Nat × List Nat) : List Item → List Item × Bool
  | [] => ([⟨d.1, 0, d.2⟩], true)
  | x :: xs =>
    if x.prod == d.1 && x.dot == 0 then
      ({ x with la := union x.la d.2 } :: xs, decide (x.la.length < (union x.la d.2).length))
    else ((addDemand d xs).1.cons x, (addDemand d xs).2)

def applyDemands : List (Nat × List Nat) → List Item → Bool → List Item × Bool
  | [], items, ch => (items, ch)
  | d :: ds, items, ch => applyDemands ds (addDemand d items).1 (ch || (addDemand d items).2)

def closureRound (g : Grammar) (fs : Array (List Nat)) (items : List Item) : Res (List Item × Bool) :=
  match gatherDemands g fs items [] with
  | .ok ds => .ok (applyDemands ds items false)
  | .err s => .err s
  | .panic s => .panic s
  | .fuel => .fuel

/-- `LRState::closure` -/
def closure (g : Grammar) (fs : Array (List Nat)) : Nat → List Item → Res (List Item)
  | 0, _ => .fuel
  | n+1, items =>
    match closureRound g fs items with
    | .ok (items', true) => closure g fs n items'
    | .ok (items', false) => .ok items'
    | .err s => .err s
    | .panic s => .panic s
    | .fuel => .fuel

/-! ## States -/

/-- `LRItem::is_kernel` -/
def isKernel (it : Item) : Bool := decide (0 < it.dot) || it.prod == 0

/-- `LRItem::eq` -/
def sameCore (a b : Item) : Bool := a.prod == b.prod && a.dot == b.dot

def coresEq : List Item → List Item → Bool
  | [], [] => true
  | x :: xs, y :: ys => sameCore x y && coresEq xs ys
  | _, _ => false

/-- `LRState::eq`: equal ordered kernels -/
def stateEq (a b : List Item) : Bool := coresEq (a.filter isKernel) (b.filter isKernel)

def groupIns (X : Nat) (it : Item) : List (Nat × List Item) → List (Nat × List Item)
  | [] => [(X, [it])]
  | (Y, l) :: rest =>
    if X < Y then (X, [it]) :: (Y, l) :: rest
    else if X = Y then (Y, l ++ [it]) :: rest
    else (Y, l) :: groupIns X it rest

def groupStep (g : Grammar) (acc : List (Nat × List Item)) (it : Item) : List (Nat × List Item) :=
  match Resolve.nextSym g it with
  | some X => groupIns X it acc
  | none => acc

/-- the `BTreeMap<SymbolIndex, Vec<ItemIndex>>` of `group_per_next_symbol` (items instead of indices) -/
def perNextSymbol (g : Grammar) (items : List Item) : List (Nat × List Item) :=
  items.foldl (groupStep g) []

/-- `max_prior_for_term` as a key-ordered association list -/
def maxPrioOf (g : Grammar) (items : List Item) : List (Nat × Nat) :=
  (List.range g.nterms).filterMap fun t => (Resolve.maxPrior g items t).map fun p => (t, p)

def advance (it : Item) : Item := { it with dot := it.dot + 1 }

/-- `create_new_states`: symbol and kernel of every successor -/
def newStates (g : Grammar) (items : List Item) : List (Nat × List Item) :=
  (perNextSymbol g items).map fun (X, its) => (X, its.map advance)

def freshState (g : Grammar) (X : Nat) (items : List Item) : State :=
  { symbol := X, items := items, actions := Array.replicate g.nterms [],
    gotos := Array.replicate g.nnonterms none, sorted := [] }

/-- `new_state.items.iter().find(|&i| *i == x).unwrap()` for every kernel item `x` of the old state -/
def itemPairs (new : List Item) : List Item → Option (List (Item × Item))
  | [] => some []
  | x :: xs =>
    match new.find? (fun i => sameCore i x), itemPairs new xs with
    | some y, some r => some ((x, y) :: r)
    | _, _ => none

def inter (a b : List Nat) : List Nat := a.filter (b.contains ·)

/-- a terminal of `K1 ∩ K2'` or `K2 ∩ K1'` that is neither in `K1 ∩ K2` nor in `K1' ∩ K2'` -/
def pagerBad (old new oldIn newIn : Item) : Bool :=
  (inter old.la newIn.la ++ inter oldIn.la new.la).any fun t =>
    !(inter old.la oldIn.la).contains t && !(inter new.la newIn.la).contains t

/-- the weak-compatibility test refuses the merge -/
def pagerRefuses (g : Grammar) (rn : Option (Array Nat)) (pairs : List (Item × Item)) : Bool :=
  pairs.any fun on =>
    Resolve.isReducing g rn on.1 &&
      pairs.any fun oin => !sameCore on.1 oin.1 && pagerBad on.1 on.2 oin.1 oin.2

/-- "Do the merge by updating old items follow sets": the pairs are in kernel order -/
def mergeItems : List Item → List (Item × Item) → List Item
  | [], _ => []
  | x :: xs, ps =>
    if isKernel x then
      match ps with
      | p :: ps' => { x with la := union x.la p.2.la } :: mergeItems xs ps'
      | [] => x :: xs
    else x :: mergeItems xs ps

/-- `merge_state`: `none` = not merged -/
def mergeState (g : Grammar) (tt : String) (rn : Option (Array Nat)) (old new : List Item) :
    Res (Option (List Item)) :=
  if !stateEq old new then .ok none
  else
    match itemPairs new (old.filter isKernel) with
    | none => .panic siteMergeUnwrap
    | some pairs =>
      if tt != "LALR" && pagerRefuses g rn pairs then .ok none
      else .ok (some (mergeItems old pairs))

/-- `self.states.iter_mut().chain(state_queue.iter_mut()).chain(iter::once(&mut state))` -/
def searchOrder (n cur : Nat) : List Nat := (List.range n).filter (· != cur) ++ [cur]

def setItems (sts : Array State) (i : Nat) (items : List Item) : Array State :=
  sts.modify i fun st => { st with items := items }

/-- the first state, in search order, that is equal to the new state and accepts the merge -/
def tryMerge (g : Grammar) (tt : String) (rn : Option (Array Nat)) (sts : Array State)
    (new : List Item) : List Nat → Res (Option (Nat × Array State))
  | [] => .ok none
  | i :: rest =>
    match sts[i]? with
    | none => tryMerge g tt rn sts new rest
    | some st =>
      match mergeState g tt rn st.items new with
      | .ok (some items') => .ok (some (i, setItems sts i items'))
      | .ok none => tryMerge g tt rn sts new rest
      | .err s => .err s
      | .panic s => .panic s
      | .fuel => .fuel

/-- "Create GOTO for non-terminal or Shift Action for terminal." -/
def addTrans (g : Grammar) (st : State) (X tgt : Nat) : Res State :=
  if g.nterms ≤ X then
    if X - g.nterms < st.gotos.size then
      .ok { st with gotos := st.gotos.setIfInBounds (X - g.nterms) (some tgt) }
    else .panic siteGotos
  else
    if X < st.actions.size then .ok { st with actions := st.actions.modify X (· ++ [Action.shift tgt]) }
    else .panic siteActions

def linkTo (g : Grammar) (cur X tgt : Nat) (sts : Array State) : Res (Array State) :=
  match sts[cur]? with
  | none => .ok sts
  | some st =>
    match addTrans g st X tgt with
    | .ok st' => .ok (sts.setIfInBounds cur st')
    | .err s => .err s
    | .panic s => .panic s
    | .fuel => .fuel

/-- the `for mut new_state in new_states` loop of `calc_states` for the state `cur` -/
def linkStates (g : Grammar) (tt : String) (rn : Option (Array Nat)) (cur : Nat) :
    List (Nat × List Item) → Array State → Res (Array State)
  | [], sts => .ok sts
  | (X, items) :: rest, sts =>
    match tryMerge g tt rn sts items (searchOrder sts.size cur) with
    | .ok (some (tgt, sts')) => (linkTo g cur X tgt sts').bind (linkStates g tt rn cur rest)
    | .ok none =>
      (linkTo g cur X sts.size (sts.push (freshState g X items))).bind (linkStates g tt rn cur rest)
    | .err s => .err s
    | .panic s => .panic s
    | .fuel => .fuel

/-- "Create accept action if possible." -/
def acceptInit (st : State) (per : List (Nat × List Item)) : Res State :=
  if per.any (fun e => e.1 == 0) then
    if 0 < st.actions.size then .ok { st with actions := st.actions.setIfInBounds 0 [Action.accept] }
    else .panic siteActions
  else .ok st

/-- one iteration of `while let Some(mut state) = state_queue.pop_front()` -/
def stepState (g : Grammar) (fs : Array (List Nat)) (tt : String) (rn : Option (Array Nat))
    (fuel cur : Nat) (sts : Array State) : Res (Array State) :=
  match sts[cur]? with
  | none => .ok sts
  | some st =>
    (closure g fs fuel st.items).bind fun items =>
      (acceptInit { st with items := items, maxPrio := maxPrioOf g items } (perNextSymbol g items)).bind fun st' =>
        linkStates g tt rn cur (newStates g items) (sts.setIfInBounds cur st')

def calcLoop (g : Grammar) (fs : Array (List Nat)) (tt : String) (rn : Option (Array Nat)) (fuel : Nat) :
    Nat → Nat → Array State → Res (Array State)
  | 0, cur, sts => if cur < sts.size then .fuel else .ok sts
  | n+1, cur, sts =>
    if cur < sts.size then (stepState g fs tt rn fuel cur sts).bind (calcLoop g fs tt rn fuel n (cur + 1))
    else .ok sts

/-- `calc_states(start_symbol)` appending to the states built so far -/
def calcStates (g : Grammar) (fs : Array (List Nat)) (tt : String) (rn : Option (Array Nat)) (fuel : Nat)
    (startSym : Nat) (sts : Array State) : Res (Array State) :=
  if startSym < g.nterms || g.nnonterms ≤ startSym - g.nterms then .panic siteNonterm
  else
    match Canon.prodsOf g startSym with
    | [p] => calcLoop g fs tt rn fuel fuel sts.size (sts.push (freshState g startSym [⟨p, 0, [0]⟩]))
    | _ => .panic siteAugOne

/-! ## `propagate_follows` -/

def shiftTgt : Action → Option Nat
  | .shift s => some s
  | _ => none

/-- GOTO targets in nonterminal order, then SHIFT targets in terminal order -/
def targetsOf (st : State) : List Nat :=
  st.gotos.toList.filterMap id ++ st.actions.toList.flatMap fun c => c.filterMap shiftTgt

/-- one kernel item of the target state -/
def propItem (src : List Item) (tit : Item) : Res (Item × Bool) :=
  if tit.dot = 0 then .panic sitePosUnderflow
  else
    match src.find? (fun x => x.prod == tit.prod && x.dot == tit.dot - 1) with
    | some s => .ok ({ tit with la := union tit.la s.la }, decide (tit.la.length < (union tit.la s.la).length))
    | none => .ok (tit, false)

/-- the kernel items of the target state in order; `fixed = none`: source and target are the same
    state, every lookup sees the updates made so far -/
def propItems (fixed : Option (List Item)) : List Item → List Item → Bool → Res (List Item × Bool)
  | done, [], ch => .ok (done, ch)
  | done, it :: todo, ch =>
    if isKernel it then
      match propItem (fixed.getD (done ++ it :: todo)) it with
      | .ok (it', c) => propItems fixed (done ++ [it']) todo (ch || c)
      | .err s => .err s
      | .panic s => .panic s
      | .fuel => .fuel
    else propItems fixed (done ++ [it]) todo ch

def propEdge (sts : Array State) (i j : Nat) : Res (Array State × Bool) :=
  match sts[i]?, sts[j]? with
  | some si, some sj =>
    match propItems (if i = j then none else some si.items) [] sj.items false with
    | .ok (items, ch) => .ok (setItems sts j items, ch)
    | .err s => .err s
    | .panic s => .panic s
    | .fuel => .fuel
  | _, none => .panic siteStates
  | none, _ => .ok (sts, false)

def propTargets (i : Nat) : List Nat → Array State → Bool → Res (Array State × Bool)
  | [], sts, ch => .ok (sts, ch)
  | j :: rest, sts, ch =>
    match propEdge sts i j with
    | .ok (sts', c) => propTargets i rest sts' (ch || c)
    | .err s => .err s
    | .panic s => .panic s
    | .fuel => .fuel

def propStates : List Nat → Array State → Bool → Res (Array State × Bool)
  | [], sts, ch => .ok (sts, ch)
  | i :: rest, sts, ch =>
    match propTargets i (targetsOf (sts.getD i default)) sts false with
    | .ok (sts', c) => propStates rest sts' (ch || c)
    | .err s => .err s
    | .panic s => .panic s
    | .fuel => .fuel

/-- "Refresh closure to propagate follows from kernel items to non-kernel of the same state" -/
def refreshStates (g : Grammar) (fs : Array (List Nat)) (fuel : Nat) : List Nat → Array State → Res (Array State)
  | [], sts => .ok sts
  | i :: rest, sts =>
    match closure g fs fuel (sts.getD i default).items with
    | .ok items => refreshStates g fs fuel rest (setItems sts i items)
    | .err s => .err s
    | .panic s => .panic s
    | .fuel => .fuel

def propRound (g : Grammar) (fs : Array (List Nat)) (fuel : Nat) (sts : Array State) : Res (Array State × Bool) :=
  (refreshStates g fs fuel (List.range sts.size) sts).bind fun sts' =>
    propStates (List.range sts'.size) sts' false

def propagate (g : Grammar) (fs : Array (List Nat)) (fuel : Nat) : Nat → Array State → Res (Array State)
  | 0, _ => .fuel
  | n+1, sts =>
    match propRound g fs fuel sts with
    | .ok (sts', true) => propagate g fs fuel n sts'
    | .ok (sts', false) => .ok sts'
    | .err s => .err s
    | .panic s => .panic s
    | .fuel => .fuel

/-! ## `calculate_reductions` and `sort_terminals` -/

def cfgOf (s : Settings) : Resolve.Cfg := ⟨s.glr, s.preferShifts, s.preferShiftsOverEmpty⟩

/-- `state.max_prior_for_term[&t]` -/
def lookupPrio (mp : List (Nat × Nat)) (t : Nat) : Option Nat :=
  (mp.find? fun e => e.1 == t).map (·.2)

def ofOutcome {α} : Outcome α → Res α
  | .ok a => .ok a
  | .panic s => .panic s
  | .err _ => .panic siteResolveOther
  | .fuel => .fuel

/-- the final content of the cell of terminal `t`: what `calc_states` left there, then the reducing
    items in item order (`Resolve.cell`, the model of the body of `calculate_reductions`) -/
def finishCell (g : Grammar) (s : Settings) (rn : Option (Array Nat)) (st : State) (t : Nat) :
    Res (List Action) :=
  ofOutcome (Resolve.cell Resolve.Fixes.current (cfgOf s) (Resolve.infoOf g) (Resolve.termAssoc g t)
    (lookupPrio st.maxPrio t) (st.actions.getD t []) (Resolve.events g rn st.items t))

def finishCells (g : Grammar) (s : Settings) (rn : Option (Array Nat)) (st : State) :
    List Nat → Res (List (List Action))
  | [] => .ok []
  | t :: rest =>
    (finishCell g s rn st t).bind fun c => (finishCells g s rn st rest).bind fun r => .ok (c :: r)

/-- `grammar.symbol_to_term(*follow_symbol)` / `state.actions[TermIndex(0)]` are in bounds -/
def followsInRange (g : Grammar) (rn : Option (Array Nat)) (st : State) : Bool :=
  st.items.all fun it =>
    !Resolve.isReducing g rn it ||
      (if Resolve.isAugProd g it.prod then it.dot != (Resolve.infoOf g it.prod).len || decide (0 < g.nterms)
       else it.la.all fun a => decide (a < g.nterms))

def termDesc (g : Grammar) (t : Nat) : Option Lex.TermDesc :=
  match g.terms[t]? with
  | some tm =>
    some ⟨t, tm.prio, match tm.recog with
      | some (.str s) => some s.utf8ByteSize
      | _ => none⟩
  | none => none

def termDescs (g : Grammar) : List Nat → Option (List Lex.TermDesc)
  | [] => some []
  | t :: rest =>
    match termDesc g t, termDescs g rest with
    | some d, some r => some (d :: r)
    | _, _ => none

/-- `sort_terminals` for one state given its final cells -/
def sortedOf (g : Grammar) (s : Settings) (cells : List (List Action)) : Res (List (Nat × Bool)) :=
  let ts := (List.range cells.length).filter fun t => !(cells.getD t []).isEmpty
  match termDescs g ts with
  | none => .panic siteTerm
  | some descs =>
    .ok ((Lex.withFlags s.mostSpecific (Lex.sortTerms s.mostSpecific descs)).map fun e => (e.1.idx, e.2))

def finishState (g : Grammar) (s : Settings) (rn : Option (Array Nat)) (st : State) : Res State :=
  if !followsInRange g rn st then .panic siteTerm
  else
    (finishCells g s rn st (List.range g.nterms)).bind fun cells =>
      (sortedOf g s cells).bind fun sorted =>
        .ok { st with actions := cells.toArray, sorted := sorted }

def finishStates (g : Grammar) (s : Settings) (rn : Option (Array Nat)) : List State → Res (List State)
  | [] => .ok []
  | st :: rest =>
    (finishState g s rn st).bind fun st' => (finishStates g s rn rest).bind fun r => .ok (st' :: r)

/-! ## `LRTable::new` -/

def rnOf (g : Grammar) (s : Settings) (fs : Array (List Nat)) : Res (Option (Array Nat)) :=
  if s.tableType == "LALR_RN" then
    match prodRnLens g fs with
    | some a => .ok (some a)
    | none => .panic siteFirstIdx
  else .ok none

def layoutStates (g : Grammar) (fs : Array (List Nat)) (tt : String) (rn : Option (Array Nat)) (fuel : Nat)
    (sts : Array State) : Res (Option Nat × Array State) :=
  match g.auglIdx with
  | some l => (calcStates g fs tt rn fuel l sts).bind fun sts' => .ok (some sts.size, sts')
  | none => .ok (none, sts)

/-- **`LRTable::new(grammar, settings)`** -/
def build (g : Grammar) (s : Settings) (fuel : Nat) : Res Table :=
  (firstSets g fuel).bind fun fs =>
  (rnOf g s fs).bind fun rn =>
  match emptyFirst fs with
  | some X => .err X
  | none =>
    (calcStates g fs s.tableType rn fuel g.augIdx #[]).bind fun sts0 =>
    (layoutStates g fs s.tableType rn fuel sts0).bind fun ls =>
    (propagate g fs fuel fuel ls.2).bind fun sts =>
    (finishStates g s rn sts.toList).bind fun fin =>
      .ok { states := fin.toArray, layoutState := ls.1, firsts := fs, rnLens := rn }

/-- number of cells with more than one action (what the hook dumps as `conflicts`) -/
def conflictCells (t : Table) : Nat :=
  t.states.toList.foldl (fun n st => n + (st.actions.toList.filter fun c => decide (1 < c.length)).length) 0

/-! ## Well-formedness of the grammar (what `GrammarBuilder` guarantees; decidable, checked by the driver on every dump) -/

def symOk (g : Grammar) (X : Nat) : Bool :=
  decide (0 < X) && decide (X < g.nterms + g.nnonterms) && X != g.augIdx && some X != g.auglIdx &&
    X != g.emptyIdx

def prodOk (g : Grammar) (pr : Prod) : Bool :=
  decide (g.nterms ≤ pr.lhs) && decide (pr.lhs < g.nterms + g.nnonterms) && pr.rhs.all (symOk g)

def auglOk (g : Grammar) : Bool :=
  match g.auglIdx with
  | none => true
  | some l =>
    decide (g.nterms ≤ l) && decide (l < g.nterms + g.nnonterms) && l != g.augIdx &&
      (match Canon.prodsOf g l with
       | [p] =>
         (match g.prods[p]? with
          | some pr => pr.rhs.length == 1
          | none => false)
       | _ => false)

/-- STOP is terminal 0 and occurs in no production, nor does EMPTY; symbols are in range; left-hand sides are
    nonterminals; production 0 is the only production of AUG and is `AUG: start`; AUG and AUGL occur in
    no right-hand side; AUGL (if any) has exactly one production, with one symbol.  (No condition on the
    terminals: the sort key of `sort_terminals` is the pair `(prio, string length)`, no arithmetic.) -/
def gwf (g : Grammar) : Bool :=
  decide (0 < g.nterms) && g.terms.size == g.nterms &&
  decide (g.nterms ≤ g.emptyIdx) && decide (g.emptyIdx < g.nterms + g.nnonterms) &&
  decide (g.nterms ≤ g.augIdx) && decide (g.augIdx < g.nterms + g.nnonterms) &&
  g.prods.toList.all (prodOk g) &&
  (match g.prods[0]? with
   | some pr => pr.lhs == g.augIdx && pr.rhs == [g.startIdx]
   | none => false) &&
  Canon.prodsOf g g.augIdx == [0] &&
  auglOk g

end Rustemo.Table
