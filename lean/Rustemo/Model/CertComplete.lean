import Rustemo.Model.Canon
/-!
# The completeness certificate (lookahead post-fixpoint), executable

In the style of Jourdan–Pottier–Leroy: nullable/FIRST are a post-fixpoint of the grammar equations
(`firstOk`); every item demands its closure items with `FIRST(β a)` lookaheads (`closureOk`); every
item with a symbol after the dot has its transition and the advanced item keeps the lookaheads
(`transOk`); every completed item has its reduce (accept for the augmented production) in the cell of
each lookahead (`reduceOk`); every cell has at most one action (`detOk`).
nullable/FIRST are computed by `Canon.mkCtx` — not trusted: only the post-fixpoint check matters.
-/
namespace Rustemo

def Cert.firstOk (g : Grammar) (c : Canon.Ctx) : Bool :=
  g.prods.toList.all fun pr =>
    (!(pr.rhs.all fun X => c.nul.contains X) || c.nul.contains pr.lhs) &&
    ((Canon.firstOfSeq g c.nul c.first pr.rhs).all fun b => (c.first pr.lhs).contains b)

/-- FIRST(β a) as a plain list -/
def firstBetaList (g : Grammar) (c : Canon.Ctx) (β : List Nat) (a : Nat) : List Nat :=
  Canon.firstOfSeq g c.nul c.first β ++ (if β.all (fun X => c.nul.contains X) then [a] else [])

def State.hasItemLAB (st : State) (p d a : Nat) : Bool :=
  st.items.any fun it => it.prod == p && it.dot == d && it.la.contains a

def Cert.closureOk (g : Grammar) (c : Canon.Ctx) (t : Table) : Bool :=
  t.forStates fun _ st => st.items.all fun it =>
    match g.prods[it.prod]? with
    | none => false
    | some pr =>
      match pr.rhs[it.dot]? with
      | none => true
      | some B =>
        B < g.nterms ||
        ((Canon.prodsOf g B).all fun q => it.la.all fun a =>
          (firstBetaList g c (pr.rhs.drop (it.dot + 1)) a).all fun b => st.hasItemLAB q 0 b)

def shiftTarget : Action → Option Nat
  | .shift s => some s
  | _ => none

/-- target of the transition of state `s` on `X` -/
def Table.transTarget (t : Table) (g : Grammar) (s X : Nat) : Option Nat :=
  if X < g.nterms then (t.cell s X).findSome? shiftTarget else t.goto g s X

def Cert.transOk (g : Grammar) (t : Table) : Bool :=
  t.forStates fun i st => st.items.all fun it =>
    match g.rhsAt it.prod it.dot with
    | none => true
    | some X =>
      match t.transTarget g i X with
      | none => false
      | some s' =>
        match t.states[s']? with
        | none => false
        | some st' => it.la.all fun a => st'.hasItemLAB it.prod (it.dot + 1) a

def Cert.reduceOk (g : Grammar) (t : Table) : Bool :=
  t.forStates fun i st => st.items.all fun it =>
    match g.prods[it.prod]? with
    | none => false
    | some pr =>
      it.dot != pr.rhs.length ||
      (if it.prod == 0 then (t.cell i 0).contains .accept
       else it.la.all fun a => (t.cell i a).contains (.reduce it.prod it.dot))

def Cert.detOk (t : Table) : Bool :=
  t.forStates fun _ st => (List.range st.actions.size).all fun a => (st.actions.getD a []).length ≤ 1

/-- grammar well-formedness used by the completeness argument: left-hand sides are nonterminals, the
    augmented symbol occurs in no right-hand side and only production 0 has it on the left, and the
    start item is in state 0 -/
def Cert.grammarOk (g : Grammar) (t : Table) : Bool :=
  (g.prods.toList.all fun pr => decide (g.nterms ≤ pr.lhs) && !pr.rhs.contains g.augIdx) &&
  (match g.prods[0]? with
   | some pr => pr.lhs == g.augIdx && pr.rhs == [g.startIdx]
   | none => false) &&
  ((List.range g.prods.size).all fun p =>
    p == 0 || (match g.prods[p]? with
               | some pr => pr.lhs != g.augIdx
               | none => true)) &&
  (match t.states[0]? with
   | some st => st.hasItemLAB 0 0 0
   | none => false)

def Cert.complete (g : Grammar) (t : Table) : Bool :=
  let c := Canon.mkCtx g
  Cert.firstOk g c && Cert.closureOk g c t && Cert.transOk g t && Cert.reduceOk g t &&
  Cert.detOk t && Cert.grammarOk g t

end Rustemo

namespace Rustemo

/-- Accept only ever sits in the STOP column -/
def Cert.acceptStop (t : Table) : Bool :=
  t.forStates fun _ st => st.forCells fun a act =>
    match act with
    | .accept => a == 0
    | _ => true

end Rustemo
