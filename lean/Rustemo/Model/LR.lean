import Rustemo.Model.Basic
/-!
# The LR runtime (`rustemo/src/lr/parser.rs`, `lexer.rs`, `lr/builder.rs`, `lr/context.rs`, `input.rs`)

Byte-level executable model of `LRParser::parse_with_context`, `LRParser::next_token`,
`ParseStack`, `StringLexer::{skip,next_tokens}`, `TokenIterator`, `TreeBuilder`, `SliceBuilder`
and `str::position_after`.  `&mut Context` becomes a `Ctx` value threaded through; every
`unwrap`/index that can fail is an explicit `.panic site`; loops take fuel and report `.fuel`.

The regex/string recognizers are a parameter `recog : terminal → byte offset → Option length`
(the harness supplies the matrix computed with the real recognizers).
-/
namespace Rustemo

/-! ## `str::position_after` (input.rs:105-125) -/

/-- index of the last newline byte (`rposition(|c| c == b'\n')`) -/
def lastNl : List Nat → Option Nat
  | [] => none
  | b :: rest =>
    match lastNl rest with
    | some i => some (i + 1)
    | none => if b = 10 then some 0 else none

def posAfter (bytes : List Nat) (p : Pos) : Pos :=
  let line := p.line + bytes.count 10
  let col := match lastNl bytes with
    | some i => bytes.length - i - 1
    | none => p.col + bytes.length
  ⟨p.pos + bytes.length, line, col⟩

def sliceOf (input : List Nat) (s : Slice) : List Nat := (input.drop s.1).take s.2

/-! ## Whitespace skipping (`StringLexer::skip`, lexer.rs:81-96)

`char::is_whitespace` on the UTF-8 bytes: U+0009–U+000D, U+0020, U+0085, U+00A0, U+1680,
U+2000–U+200A, U+2028, U+2029, U+202F, U+205F, U+3000. -/

/-- byte length of a whitespace character at the head of `bs`, 0 if there is none -/
def wsCharLen (bs : List Nat) : Nat :=
  match bs with
  | [] => 0
  | b :: rest =>
    if (9 ≤ b ∧ b ≤ 13) ∨ b = 32 then 1
    else if b = 0xC2 then
      match rest with
      | c :: _ => if c = 0x85 ∨ c = 0xA0 then 2 else 0
      | [] => 0
    else if b = 0xE1 then
      match rest with
      | 0x9A :: 0x80 :: _ => 3
      | _ => 0
    else if b = 0xE2 then
      match rest with
      | 0x80 :: c :: _ => if (0x80 ≤ c ∧ c ≤ 0x8A) ∨ c = 0xA8 ∨ c = 0xA9 ∨ c = 0xAF then 3 else 0
      | 0x81 :: 0x9F :: _ => 3
      | _ => 0
    else if b = 0xE3 then
      match rest with
      | 0x80 :: 0x80 :: _ => 3
      | _ => 0
    else 0

/-- total byte length of the leading whitespace characters (fuel = number of bytes) -/
def wsPrefixLen : Nat → List Nat → Nat
  | 0, _ => 0
  | fuel+1, bs =>
    let n := wsCharLen bs
    if n = 0 then 0 else n + wsPrefixLen fuel (bs.drop n)

structure Tok where
  kind : Nat
  val : Slice
  span : Span
deriving Repr, Inhabited, DecidableEq

/-- `LRContext` -/
structure Ctx where
  state : Nat := 0
  pos : Pos := Pos.start
  span : Span := ⟨Pos.start, Pos.start⟩
  lay : Option Slice := none
deriving Repr, Inhabited

structure Env where
  g : Grammar
  t : Table
  input : List Nat
  recog : Nat → Nat → Option Nat
  skipWs : Bool := true
  longest : Bool := true
  grammarOrder : Bool := true
  custom : Option (Nat × Nat) := none   -- adversarial user lexer (mode, seed) instead of StringLexer

def skip (env : Env) (ctx : Ctx) : Ctx :=
  let rest := env.input.drop ctx.pos.pos
  let n := wsPrefixLen rest.length rest
  if n > 0 then
    { ctx with lay := some (ctx.pos.pos, n), pos := posAfter (rest.take n) ctx.pos }
  else
    { ctx with lay := none }

/-- `TokenIterator` (lexer.rs:99-155): try recognizers in order; stop after a matched token flagged
    finish, and at a flagged terminal that does not match if anything matched before it (the flag
    also marks the end of a priority group) -/
def tokenIterAux (env : Env) (pos : Pos) : Bool → List (Nat × Bool) → List Tok
  | _, [] => []
  | matched, (k, fin) :: rest =>
    match env.recog k pos.pos with
    | some l =>
      let tk : Tok := ⟨k, (pos.pos, l), ⟨pos, posAfter (sliceOf env.input (pos.pos, l)) pos⟩⟩
      tk :: (if fin then [] else tokenIterAux env pos true rest)
    | none => if fin && matched then [] else tokenIterAux env pos matched rest

def tokenIter (env : Env) (pos : Pos) (expected : List (Nat × Bool)) : List Tok :=
  tokenIterAux env pos false expected

/-- byte length of the UTF-8 character starting with byte `b` -/
def utf8Len (b : Nat) : Nat :=
  if b < 0x80 then 1 else if b < 0xE0 then 2 else if b < 0xF0 then 3 else 4

def mkTok (env : Env) (kind : Nat) (pos : Pos) (len : Nat) : Tok :=
  ⟨kind, (pos.pos, len), ⟨pos, posAfter (sliceOf env.input (pos.pos, len)) pos⟩⟩

/-- the adversarial user lexers of `harness/dyn/src/run.rs` (they ignore the expected set) -/
def customTokens (env : Env) (mode seed : Nat) (pos : Pos) : List Tok :=
  if mode = 0 then [mkTok env 0 pos 0]
  else
    match env.input.drop pos.pos with
    | [] => if mode = 1 then [mkTok env 0 pos 0] else []
    | b :: _ =>
      let kind := if env.g.nterms > 1 then 1 + ((pos.pos * 7 + seed) % (env.g.nterms - 1)) else 0
      -- mode 3: the whole rest of the input as ONE token (long tokens reach the `{:?}` of the error message)
      [mkTok env kind pos (if mode = 3 then env.input.length - pos.pos else utf8Len b)]

/-- `Lexer::next_tokens`: `StringLexer` or a user lexer -/
def lexNext (env : Env) (ctx : Ctx) (expected : List (Nat × Bool)) : Ctx × List Tok :=
  match env.custom with
  | some (mode, seed) => (ctx, customTokens env mode seed ctx.pos)
  | none =>
    let ctx := if env.skipWs then skip env ctx else ctx
    (ctx, tokenIter env ctx.pos expected)

def maxLen (toks : List Tok) : Nat := toks.foldl (fun m t => max m t.val.2) 0

/-- longest-match filter + "first token" of `LRParser::next_token` (parser.rs:218-240) -/
def pickToken (longest : Bool) (toks : List Tok) : Option Tok :=
  if longest then (toks.filter (fun t => t.val.2 == maxLen toks)).head?
  else toks.head?

/-- the tail of `next_token`: nothing recognised (parser.rs:269-290) -/
def noToken (env : Env) (partialParse : Bool) (ctx : Ctx) : Ctx × Outcome Tok :=
  let exp := (env.t.sorted ctx.state).map (·.1)
  if partialParse && exp.contains 0 then
    (ctx, .ok ⟨0, (ctx.pos.pos, 0), ctx.span⟩)
  else
    match exp with
    | [] => (ctx, .panic "error_expected:expected[0]")
    | _ => (ctx, .err (.expected ctx.pos exp))

/-- `next_token` of a parser without a layout parser (the layout parser itself) -/
def nextTokenBase (env : Env) (partialParse : Bool) (ctx : Ctx) : Ctx × Outcome Tok :=
  let (ctx, toks) := lexNext env ctx (env.t.sorted ctx.state)
  match pickToken env.longest toks with
  | some tk => (ctx, .ok tk)
  | none => noToken env partialParse ctx

structure StackItem where
  state : Nat
  span : Span
deriving Repr, Inhabited

/-- parser configuration: `ParseStack`, builder stacks, context, token ahead -/
structure Cfg where
  stack : List StackItem      -- top first
  res : List Tree             -- `TreeBuilder.res_stack`, top first
  slice : Option Slice        -- `SliceBuilder.slice`
  ctx : Ctx
  tok : Tok
  hist : List Tok := []       -- ghost: tokens shifted so far, most recent first
deriving Inhabited

structure ParseResult where
  tree : Tree
  slice : Option Slice
  hist : List Tok := []
deriving Inhabited

inductive StepOut where
  | next (c : Cfg)
  | done (ctx : Ctx) (r : ParseResult)
  | stop (ctx : Ctx) (o : Outcome ParseResult)   -- err / panic / fuel
deriving Inhabited

def topState (st : List StackItem) : Option Nat := st.head?.map (·.state)

def layLen : Option Slice → Nat
  | some (_, l) => l
  | none => 0

/-- the layout ahead after the lexer was re-run following a reduce (parser.rs Reduce arm): `old` was
    the layout ahead and `oldPos` the position before the re-lex.  If the re-lex skipped more layout
    (`newPos > oldPos`) the layout kept so far and the new one, adjacent in the input, are merged
    (`start = oldPos.saturating_sub(old.len())`); otherwise the old one is put back. -/
def mergeLay (old : Option Slice) (oldPos newPos : Nat) : Option Slice :=
  if newPos > oldPos then some (oldPos - layLen old, newPos - (oldPos - layLen old)) else old

def liftTok (hist : List Tok) (stack : List StackItem) (res : List Tree) (slice : Option Slice)
    (r : Ctx × Outcome Tok) (keepLay : Option (Option Slice × Nat)) : StepOut :=
  match r with
  | (ctx, .ok tk) =>
    let ctx := match keepLay with
      | some (l, p) => { ctx with lay := mergeLay l p ctx.pos.pos }
      | none => ctx
    .next ⟨stack, res, slice, ctx, tk, hist⟩
  | (ctx, .err e) => .stop ctx (.err e)
  | (ctx, .panic s) => .stop ctx (.panic s)
  | (ctx, .fuel) => .stop ctx .fuel

def firstLay : Tree → Option Slice
  | .leaf _ _ _ l => l
  | .node _ _ l _ => l

/-- span of a reduction (`ParseStack::pop_states`, parser.rs:95-112): `removed` top first -/
def reduceSpan (removed : List StackItem) (ctxSpan : Span) : Span :=
  match removed.getLast?, removed.head? with
  | some first, some last => ⟨first.span.s, last.span.e⟩
  | _, _ => ⟨ctxSpan.e, ctxSpan.e⟩

/-- layout of a nonterminal node = layout of its first child (`TreeBuilder::reduce_action`) -/
def childrenLay (children : List Tree) : Option Slice :=
  match children.head? with
  | some ch => firstLay ch
  | none => none

/-- one iteration of the loop in `parse_with_context` (parser.rs:342-417) -/
def step (env : Env) (nt : Ctx → Ctx × Outcome Tok) (c : Cfg) : StepOut :=
  match topState c.stack with
  | none => .stop c.ctx (.panic "stack.last().unwrap()")
  | some state =>
  match env.t.cell state c.tok.kind with
  | [] => .stop c.ctx (.err .noAction)
  | act :: _ =>
    match act with
    | .shift s' =>
      let newPos := posAfter (sliceOf env.input c.tok.val) c.ctx.pos
      let sp : Span := ⟨c.ctx.pos, newPos⟩
      let ctx := { c.ctx with span := sp, pos := newPos, state := s' }
      let stack := ⟨s', sp⟩ :: c.stack
      let res := Tree.leaf c.tok.kind c.tok.span c.tok.val ctx.lay :: c.res
      liftTok (c.tok :: c.hist) stack res c.slice (nt { ctx with lay := none }) none
    | .reduce p len =>
      if c.stack.length < len then .stop c.ctx (.panic "split_off")
      else
      let removed := c.stack.take len
      let below := c.stack.drop len
      match topState below with
      | none => .stop c.ctx (.panic "stack.last().unwrap()")
      | some fromState =>
      let sp : Span := reduceSpan removed c.ctx.span
      match env.g.prods[p]? with
      | none => .stop c.ctx (.panic "prod.into()")
      | some pr =>
      match env.t.goto env.g fromState pr.lhs with
      | none => .stop c.ctx (.panic "goto")
      | some s' =>
      let ctxSpan := c.ctx.span
      let stack := ⟨s', sp⟩ :: below
      if c.res.length < len then .stop c.ctx (.panic "res_stack.split_off")
      else
      let children := (c.res.take len).reverse
      let lay := childrenLay children
      let res := Tree.node p sp lay (TreeList.ofList children) :: c.res.drop len
      let slice : Option Slice := some (sp.s.pos, sp.e.pos - sp.s.pos)
      let ctx := { c.ctx with span := ctxSpan, state := s' }
      liftTok c.hist stack res slice (nt ctx) (some (c.ctx.lay, c.ctx.pos.pos))
    | .accept =>
      match c.res with
      | [] => .stop c.ctx (.panic "res_stack.pop().unwrap()")
      | tr :: _ => .done c.ctx ⟨tr, c.slice, c.hist⟩

def runLoop (env : Env) (nt : Ctx → Ctx × Outcome Tok) : Nat → Cfg → Ctx × Outcome ParseResult
  | 0, c => (c.ctx, .fuel)
  | fuel+1, c =>
    match step env nt c with
    | .next c' => runLoop env nt fuel c'
    | .done ctx r => (ctx, .ok r)
    | .stop ctx o => (ctx, o)

/-- `parse_with_context` -/
def parseWith (env : Env) (nt : Ctx → Ctx × Outcome Tok) (start : Nat) (ctx : Ctx) (fuel : Nat) :
    Ctx × Outcome ParseResult :=
  let stack := [StackItem.mk start ctx.span]
  match nt ctx with
  | (ctx, .ok tk) => runLoop env nt fuel ⟨stack, [], none, ctx, tk, []⟩
  | (ctx, .err e) => (ctx, .err e)
  | (ctx, .panic s) => (ctx, .panic s)
  | (ctx, .fuel) => (ctx, .fuel)

/-- the layout parser: partial parse from the layout state, no layout of its own -/
def layoutParse (env : Env) (ls : Nat) (ctx : Ctx) (fuel : Nat) : Ctx × Outcome ParseResult :=
  parseWith env (nextTokenBase env true) ls { ctx with state := ls } fuel

/-- `next_token` of the main parser (parser.rs:199-295): lex; if nothing matches run the layout
    parser once and lex again (`layout_parsing` flag); otherwise partial-parse STOP or error.
    State and span of the context are restored after the layout parse; the position too unless the
    layout parser returned a non-empty layout (a failed or empty layout parse skips nothing). -/
def nextTokenMain (env : Env) (partialParse : Bool) (fuel : Nat) (ctx : Ctx) : Ctx × Outcome Tok :=
  let (ctx, toks) := lexNext env ctx (env.t.sorted ctx.state)
  match pickToken env.longest toks with
  | some tk => (ctx, .ok tk)
  | none =>
    match env.t.layoutState with
    | none => noToken env partialParse ctx
    | some ls =>
      let cur := ctx.state
      let sp := ctx.span      -- the layout parser shifts through this context: keep the content span
      let p0 := ctx.pos       -- … and, when it finds no layout, the position
      let (ctx, r) := layoutParse env ls ctx fuel
      let ctx := { ctx with state := cur, span := sp }
      let back := { ctx with pos := p0 }
      match r with
      | .ok pr =>
        match pr.slice with
        | some (off, len) =>
          if len > 0 then nextTokenBase env partialParse { ctx with lay := some (off, len) }
          else noToken env partialParse back
        | none => noToken env partialParse back
      | .err _ => noToken env partialParse back
      | .panic s => (ctx, .panic s)
      | .fuel => (ctx, .fuel)

/-- `LRParser::parse` -/
def parse (env : Env) (partialParse : Bool) (fuel : Nat) : Ctx × Outcome ParseResult :=
  parseWith env (nextTokenMain env partialParse fuel) 0 {} fuel

end Rustemo
