import Rustemo.Model.LR
import Rustemo.Model.Cert
/-!
# Single-character terminals: bytes ↔ tokens (the lexer side of C01)

For a grammar all of whose terminals (except STOP) are string recognizers of exactly one ASCII
character, pairwise distinct, an input byte *is* a token: `charToTerm` maps a byte to the terminal
whose character it is, and to the out-of-range kind `g.nterms` ("unknown", no cell accepts it) if there
is none.  `charRecog` is the recognizer matrix such a grammar induces on an input — the semantics of
the generated `TokenRecognizer` (generator/base.rs: `starts_with` for string recognizers, STOP matches
the empty string at the end of the input; the harness computes the same, harness/dyn/src/tab.rs:135).
`Cert.singleCharLexer` is the executable hypothesis of the simulation theorem in
`Proofs/LexTok*.lean`; nothing else here mirrors Rust code.
-/
namespace Rustemo

/-- the byte of terminal `k` if its recognizer is a string of exactly one ASCII character -/
def Grammar.termByte (g : Grammar) (k : Nat) : Option Nat :=
  match g.terms[k]? with
  | some tm =>
    match tm.recog with
    | some (.str s) =>
      match s.toUTF8.data.toList.map UInt8.toNat with
      | [b] => if b < 128 then some b else none
      | _ => none
    | _ => none
  | none => none

/-- `k` is a terminal other than STOP whose character is `b` -/
def Grammar.isCharOf (g : Grammar) (b k : Nat) : Bool := k != 0 && g.termByte k == some b

/-- token kind of an input byte: the terminal whose character it is, `g.nterms` ("unknown") if none -/
def charToTerm (g : Grammar) (b : Nat) : Nat :=
  match (List.range g.nterms).find? (g.isCharOf b) with
  | some k => k
  | none => g.nterms

/-- the recognizers on `input`: terminal → byte offset → matched length -/
def charRecog (g : Grammar) (input : List Nat) (k pos : Nat) : Option Nat :=
  if k = 0 then (if input.length ≤ pos then some 0 else none)
  else
    match g.termByte k with
    | some b => if input[pos]? = some b then some 1 else none
    | none => none

/-- the state's `sorted_terminals` list names exactly the terminals with a non-empty cell -/
def State.sortedIsCells (st : State) : Bool :=
  (st.sorted.all fun e => !(st.actions.getD e.1 []).isEmpty) &&
  ((List.range st.actions.size).all fun a =>
    (st.actions.getD a []).isEmpty || (st.sorted.map (·.1)).contains a)

/-- Executable hypothesis of the byte/token simulation: no Layout rule; every terminal but STOP is a
    one-ASCII-character string, pairwise distinct; every state offers at least one token, its
    `sorted_terminals` are exactly the terminals with actions, no cell beyond the terminals; STOP is
    never shifted; state 0 and every shift / goto target exist. -/
def Cert.singleCharLexer (g : Grammar) (t : Table) : Bool :=
  t.layoutState.isNone &&
  decide (1 ≤ g.nterms) &&
  ((List.range g.nterms).all fun k => k == 0 || (g.termByte k).isSome) &&
  ((List.range g.nterms).all fun k => (List.range g.nterms).all fun j =>
      k == 0 || j == 0 || k == j || g.termByte k != g.termByte j) &&
  (t.forStates fun _ st =>
      decide (st.actions.size ≤ g.nterms) && !st.sorted.isEmpty && st.sortedIsCells) &&
  Cert.noShiftStop t &&
  decide (0 < t.states.size) &&
  (t.forStates fun _ st =>
    (st.forCells fun _ act =>
      match act with
      | .shift s' => decide (s' < t.states.size)
      | _ => true) &&
    (st.forGotos fun _ s' => decide (s' < t.states.size)))

/-- a byte that starts a whitespace character (`char::is_whitespace`, see `wsCharLen`) -/
def wsStart (b : Nat) : Bool :=
  (decide (9 ≤ b) && decide (b ≤ 13)) || b == 32 || b == 0xC2 || b == 0xE1 || b == 0xE2 || b == 0xE3

/-- no byte of the input starts a whitespace character: whitespace skipping has nothing to skip -/
def noWsBytes (input : List Nat) : Bool := input.all fun b => !wsStart b

/-- executable form of the hypothesis `CharEnv` of the simulation theorem for a concrete recognizer
    function (the match matrix the harness computed with the real recognizers): it agrees with
    `charRecog` on every terminal and every offset up to the end of the input, no user lexer, and
    whitespace skipping is off or has nothing to skip -/
def charEnvOk (env : Env) : Bool :=
  ((List.range env.g.nterms).all fun k => (List.range (env.input.length + 1)).all fun pos =>
      env.recog k pos == charRecog env.g env.input k pos) &&
  env.custom.isNone && (!env.skipWs || noWsBytes env.input)

end Rustemo
