import Rustemo.Model.AstGen
/-!
# What the default builder computes: values, shapes, `DefaultBuilder.eval`

* `Val` — the value language of the generated AST types as `{:?}` shows them (Box is transparent),
* `PShape` / `Shapes` — per production: which rhs positions carry content, the right-nulled length,
  and the action body by TYPE KIND (`Act`): plain variant / struct (optionally inside an enum variant) /
  reference / `None` / `vec![]` / `vec![x]` / `a.push(b)` with the vector first (left recursion) or
  second (right recursion),
* `eval` — model of the generated `shift_action` / `reduce_action` arms (`generator/base.rs`) composed
  with the generated action bodies (`generator/actions/production.rs`), run over a parse tree in the
  order `Tree::build` / the LR parser call the builder (children first, left to right),
* `shapesOf` — the shapes the generator derives from the inferred types.

`Shapes.fixed` (= `Fixes.vecRight`) switches the one definition that differs between the code before the
repair of F7 (`false`: `a.push(b)` also when the vector is the RIGHT operand) and /repo as it is now
(`true`: `a.insert(0, b)` there).
-/
namespace Rustemo.Ast

inductive Val
  | str (s : String)
  | none
  | some (v : Val)
  | vec (vs : List Val)
  | node (name : String) (labels : List String) (kids : List Val)   -- struct (labels = fields) or variant (labels = [])
  | span (v : Val)                                                    -- ValSpan { value, span }
  deriving Repr, Inhabited

inductive PTree
  | leaf (term : Nat) (text : String)
  | node (prod : Nat) (kids : List PTree)
  deriving Repr, Inhabited

mutual
/-- string leaves in field / element order -/
def Val.tokens : Val → List String
  | .str s => [s]
  | .none => []
  | .some v => v.tokens
  | .vec vs => Val.tokensL vs
  | .node _ _ ks => Val.tokensL ks
  | .span v => v.tokens
def Val.tokensL : List Val → List String
  | [] => []
  | v :: vs => v.tokens ++ Val.tokensL vs
end

inductive Act
  | plain (variant : String)
  | mkStruct (sname : String) (fields : List String) (wrap : Option String)
  | ref (wrap : Option String)
  | empty
  | vecEmpty
  | vecOne
  | vecPush (vecFirst : Bool)
  | bad                                   -- `unreachable!()` of the generator
  deriving Repr, DecidableEq, Inhabited

structure PShape where
  content : List Bool
  rnLen : Nat
  act : Act
  optional : Bool
  reachable : Bool
  deriving Repr, DecidableEq, Inhabited

structure Shapes where
  loc : Bool
  fixed : Bool
  terms : List (Bool × Bool)      -- by TokenKind index (0 = STOP): has content, reachable
  prods : List PShape             -- by ProdKind index
  deriving Repr, Inhabited

inductive Err
  | panic (site : String)
  | stack                          -- the arm pops a constant number of entries ≠ prod_len: stack corrupted
  | illTyped (why : String)        -- would not have compiled
  deriving Repr, DecidableEq, Inhabited

def wrapSome (opt : Bool) (v : Val) : Val := if opt then .some v else v

def wrapVariant (w : Option String) (v : Val) : Val :=
  match w with
  | some n => .node n [] [v]
  | none => v

def mkStructVal (loc : Bool) (sn : String) (fs : List String) (ps : List Val) : Val :=
  if loc then .span (.node (sn ++ "Base") fs ps) else .node sn fs ps

/-- `a.push(b); a` — and what the repair does when the vector is the right operand -/
def pushRight (fixed : Bool) (b : Val) (as : List Val) : List Val := if fixed then b :: as else as ++ [b]

/-- the generated action bodies, by kind -/
def applyAct (loc fixed opt : Bool) : Act → List Val → Except Err Val
  | .plain v, [] => .ok (wrapSome opt (.node v [] []))
  | .mkStruct sn fs w, ps =>
    if fs.length == ps.length then .ok (wrapSome opt (wrapVariant w (mkStructVal loc sn fs ps)))
    else .error (.illTyped "struct arity")
  | .ref w, [x] => .ok (wrapSome opt (wrapVariant w x))
  | .empty, [] => .ok .none
  | .vecEmpty, [] => .ok (.vec [])
  | .vecOne, [x] => .ok (.vec [x])
  | .vecPush true, [.vec as, b] => .ok (.vec (as ++ [b]))
  | .vecPush false, [b, .vec as] => .ok (.vec (pushRight fixed b as))
  | _, _ => .error (.illTyped "action arguments")

/-- content parameters in rhs order; right-nulled content positions get `None` -/
def params : List Bool → List (Option Val) → Except Err (List Val)
  | [], _ => .ok []
  | c :: cs, [] =>
    match params cs [] with
    | .error e => .error e
    | .ok ps => .ok (if c then Val.none :: ps else ps)
  | c :: cs, r :: rs =>
    match params cs rs with
    | .error e => .error e
    | .ok ps =>
      if c then
        match r with
        | some v => .ok (v :: ps)
        | none => .error (.panic "Invalid symbol parse stack data.")
      else .ok ps

/-- which `prod_len` the arm of the production handles -/
def lenCheck (p : PShape) (len : Nat) : Except Err Unit :=
  let rhsLen := p.content.length
  if rhsLen == 0 || !p.content.any id || p.rnLen == rhsLen then
    (if len == rhsLen then .ok () else .error .stack)
  else if p.rnLen ≤ len && len ≤ rhsLen then .ok ()
  else .error (.panic "Invalid reduction size!")

/-- one `reduce_action` arm followed by the action -/
def reduce (sh : Shapes) (p : PShape) (rs : List (Option Val)) : Except Err Val :=
  if !p.reachable then .error (.panic "Reduce of unreachable nonterminal!")
  else match lenCheck p rs.length with
    | .error e => .error e
    | .ok _ =>
      match params p.content rs with
      | .error e => .error e
      | .ok ps => applyAct sh.loc sh.fixed p.optional p.act ps

/-- `shift_action` -/
def evalLeaf (sh : Shapes) (t : Nat) (text : String) : Except Err (Option Val) :=
  if t == 0 then .error (.panic "Cannot shift STOP token!")
  else match sh.terms[t]? with
    | none => .error (.panic "unknown token kind")
    | some (content, reach) =>
      if !reach then .error (.panic "Shift of unreachable terminal!")
      else if content then .ok (some (if sh.loc then .span (.str text) else .str text))
      else .ok none

mutual
/-- the value pushed for a subtree (`none`: a keyword terminal, pushed without value) -/
def eval (sh : Shapes) : PTree → Except Err (Option Val)
  | .leaf t text => evalLeaf sh t text
  | .node p kids =>
    match evalList sh kids with
    | .error e => .error e
    | .ok rs =>
      match sh.prods[p]? with
      | none => .error (.panic "unknown production")
      | some ps =>
        match reduce sh ps rs with
        | .error e => .error e
        | .ok v => .ok (some v)
def evalList (sh : Shapes) : List PTree → Except Err (List (Option Val))
  | [] => .ok []
  | t :: ts =>
    match eval sh t with
    | .error e => .error e
    | .ok r =>
      match evalList sh ts with
      | .error e => .error e
      | .ok rs => .ok (r :: rs)
end

def termContent (sh : Shapes) (t : Nat) : Bool :=
  match sh.terms[t]? with
  | some (c, _) => c
  | none => false

mutual
/-- texts of the content (regex-matched) tokens of the tree, in input order -/
def PTree.contentTokens (sh : Shapes) : PTree → List String
  | .leaf t text => if termContent sh t then [text] else []
  | .node _ kids => PTree.contentTokensL sh kids
def PTree.contentTokensL (sh : Shapes) : List PTree → List String
  | [] => []
  | t :: ts => t.contentTokens sh ++ PTree.contentTokensL sh ts
end

/-! ## shapes derived from the inferred types -/

def actOf (nt : String) (t : SymType) (c : Choice) : Act :=
  match t.kind with
  | .vec _ _ =>
    (match c.kind with
     | .empty => .vecEmpty
     | .struct _ [_, b] => .vecPush (!(b.refType == nt))
     | .struct _ [_] => .vecOne
     | .ref _ _ => .vecOne
     | _ => .bad)
  | .enum _ =>
    (match c.kind with
     | .plain => .plain c.name
     | .struct st fs => .mkStruct st (fs.map (·.name)) (some c.name)
     | .ref _ _ => .ref (some c.name)
     | .empty => .empty)
  | .struct sn =>
    (match c.kind with
     | .struct _ fs => .mkStruct sn (fs.map (·.name)) none
     | .empty => .empty
     | _ => .bad)
  | .ref _ _ =>
    (match c.kind with
     | .ref _ _ => .ref none
     | .empty => .empty
     | _ => .bad)
  | .terminal => .bad

def isVecKind (t : SymType) : Bool := match t.kind with | .vec _ _ => true | _ => false

def shapeOfProd (g : AGrammar) (ts : List SymType) (i : Nat) (p : AProd) : PShape :=
  match typeOf ts p.nt, choiceOfProd g ts i p with
  | some t, some c =>
    { content := p.rhs.map (·.content), rnLen := p.rnLen, act := actOf p.nt t c,
      optional := t.optional && !isVecKind t, reachable := ntReach g p.nt }
  | _, _ => { content := p.rhs.map (·.content), rnLen := p.rnLen, act := .bad, optional := false, reachable := false }

def shapesOf (g : AGrammar) (ts : List SymType) (fixed : Bool) : Shapes :=
  { loc := g.loc, fixed := fixed,
    terms := (false, false) :: g.terms.map (fun t => (t.content, t.reach)),
    prods := (enumFrom 0 g.prods).map (fun ip => shapeOfProd g ts ip.1 ip.2) }

/-- the shapes of a variant of the generator (`Shapes.fixed` = `fx.vecRight`) -/
def shapesFor (fx : Fixes) (g : AGrammar) (ts : List SymType) : Shapes := shapesOf g ts fx.vecRight

end Rustemo.Ast

namespace Rustemo.Ast

/-! ## the builder as the stack machine it is

`DefaultBuilder { res_stack }`: the parser (LR) or `Tree::build_inner` (GLR replay) calls
`shift_action` for every token and `reduce_action(prod, prod_len)` after the children of a node, in
post-order; an arm first does `res_stack.split_off(res_stack.len() - n)` with `n` the CONSTANT rhs
length for productions without right-nulled arms and `prod_len` otherwise (`0`: EMPTY productions pop
nothing). `run` is that machine; `Proofs/AstStack.lean` shows it computes `eval`. -/

inductive Ev
  | shift (t : Nat) (text : String)
  | reduce (p : Nat) (len : Nat)
  deriving Repr, DecidableEq, Inhabited

mutual
/-- the builder calls for a tree -/
def PTree.events : PTree → List Ev
  | .leaf t text => [.shift t text]
  | .node p kids => PTree.eventsL kids ++ [.reduce p kids.length]
def PTree.eventsL : List PTree → List Ev
  | [] => []
  | t :: ts => t.events ++ PTree.eventsL ts
end

/-- how many stack entries the arm of the production splits off when called with `prod_len = len` -/
def popCount (p : PShape) (len : Nat) : Nat :=
  let rhsLen := p.content.length
  if rhsLen == 0 || !p.content.any id || p.rnLen == rhsLen then rhsLen else len

/-- one builder call on the result stack (top of the stack = head of the list) -/
def stepEv (sh : Shapes) (stack : List (Option Val)) : Ev → Except Err (List (Option Val))
  | .shift t text =>
    match evalLeaf sh t text with
    | .error e => .error e
    | .ok r => .ok (r :: stack)
  | .reduce p len =>
    match sh.prods[p]? with
    | none => .error (.panic "unknown production")
    | some ps =>
      if !ps.reachable then .error (.panic "Reduce of unreachable nonterminal!")
      else
        let n := popCount ps len
        if n ≠ len then .error .stack               -- entries of another node would be consumed / left over
        else if stack.length < n then .error (.panic "split_off out of range")
        else match reduce sh ps (stack.take n).reverse with
          | .error e => .error e
          | .ok v => .ok (some v :: stack.drop n)

def run (sh : Shapes) : List Ev → List (Option Val) → Except Err (List (Option Val))
  | [], stack => .ok stack
  | e :: es, stack =>
    match stepEv sh stack e with
    | .error err => .error err
    | .ok stack' => run sh es stack'

/-- `Builder::get_result`: pop the top of the stack -/
def getResult : List (Option Val) → Except Err Val
  | some v :: _ => .ok v
  | _ => .error (.panic "Invalid result on the parse stack!")

end Rustemo.Ast
