import Rustemo.Model.LR
import Rustemo.Model.Lex
import Rustemo.Model.Forest
/-!
# The GLR engine (`rustemo/src/glr/parser.rs`, `rustemo/src/glr/gss.rs`)

Executable transcription of `GlrParser::parse` (parser.rs:959-1062): the graph structured stack
(`GssGraph`: petgraph nodes = `GssHead`, edges = `Rc<Parent>` with the SPPF possibilities), the
per-(position, token kind) sub-frontiers (`BTreeMap` order), `find_lookaheads` (lexer, layout parser,
longest-match / grammar-order filters, partial-parse STOP), `initial_process_frontier`, the FIFO queue
of pending reductions, `find_reduction_paths` (breadth first, most recent edge first — the order in
which petgraph's `edges_directed` yields edges), right-nulled reductions `Reduce(prod, len)` with
`len` below the production length, the fold of a solution into an existing one ("extending
right-nulled children"), the LIFO shifter, `create_forest` and `make_error`.

`Rc` identity is modelled by indices: heads, edges (one `Parent` per edge, created with the edge) and
SPPF nodes live in arrays that only grow; a `Parent`'s `possibilities` are node ids, a node's
`children` are edge ids.  The forest handed to the enumeration model (`Model/Forest.lean`) is the
unfolding of that graph from the root possibilities.

Every `unwrap` / `expect` / index of the two Rust files is an explicit `.panic site`; loops that are
not structurally bounded take fuel and end in `.fuel`.  The regex engines are the parameter
`env.recog` (match matrix).
-/
namespace Rustemo.Glr
open Rustemo

/-! ## Outcome plumbing -/

def obind {α β : Type} (o : Outcome α) (f : α → Outcome β) : Outcome β :=
  match o with
  | .ok a => f a
  | .err e => .err e
  | .panic s => .panic s
  | .fuel => .fuel

/-- `for x in l { s = f(s, x)? }` -/
def foldO {α σ : Type} (f : σ → α → Outcome σ) : List α → σ → Outcome σ
  | [], s => .ok s
  | a :: rest, s => obind (f s a) (foldO f rest)

/-! ## The graph structured stack (gss.rs:19-119) -/

/-- `GssHead` (gss.rs:129-153) -/
structure Head where
  state : Nat
  frontier : Nat
  pos : Pos
  span : Span
  lay : Option Slice
  tok : Option Tok
deriving Repr, Inhabited

/-- `SPPFTree` (gss.rs:286-307); `children` are `Rc<Parent>`s = edge ids.  `SPPFTree::Empty` is never
    constructed by the parser. -/
inductive SNode where
  | term (tok : Tok) (span : Span)
  | nonterm (prod : Nat) (span : Span) (lay : Option Slice) (children : List Nat)
deriving Repr, Inhabited

/-- a GSS edge `src → dst` together with its `Parent` (head_node = src, root_node = dst) -/
structure Edge where
  src : Nat
  dst : Nat
  poss : List Nat          -- `Parent::possibilities`: SPPF node ids in push order
deriving Repr, Inhabited

structure Gss where
  heads : Array Head := #[]
  edges : Array Edge := #[]
  nodes : Array SNode := #[]
deriving Inhabited

def Gss.head (g : Gss) (h : Nat) : Outcome Head :=
  match g.heads[h]? with
  | some hd => .ok hd
  | none => .panic "Invalid Gss head index!"

def Gss.edge (g : Gss) (e : Nat) : Outcome Edge :=
  match g.edges[e]? with
  | some ed => .ok ed
  | none => .panic "Invalid Gss edge index!"

def Gss.node (g : Gss) (n : Nat) : Outcome SNode :=
  match g.nodes[n]? with
  | some nd => .ok nd
  | none => .panic "Invalid SPPF node"

def Gss.addHead (g : Gss) (h : Head) : Gss × Nat :=
  ({ g with heads := g.heads.push h }, g.heads.size)

def Gss.addEdge (g : Gss) (src dst : Nat) (poss : List Nat) : Gss × Nat :=
  ({ g with edges := g.edges.push ⟨src, dst, poss⟩ }, g.edges.size)

def Gss.addNode (g : Gss) (n : SNode) : Gss × Nat :=
  ({ g with nodes := g.nodes.push n }, g.nodes.size)

def Gss.setHead (g : Gss) (i : Nat) (h : Head) : Gss :=
  { g with heads := g.heads.setIfInBounds i h }

def edgeSrcIs (g : Gss) (h e : Nat) : Bool :=
  match g.edges[e]? with
  | some ed => ed.src == h
  | none => false

/-- `backedges` (gss.rs:95): `edges_directed(head, Outgoing)` yields the most recently added edge first -/
def Gss.backedges (g : Gss) (h : Nat) : List Nat :=
  ((List.range g.edges.size).filter (edgeSrcIs g h)).reverse

def edgeDstIs (g : Gss) (d e : Nat) : Bool :=
  match g.edges[e]? with
  | some ed => ed.dst == d
  | none => false

/-- `edge_between` = petgraph `find_edge`: the first outgoing edge with that target -/
def Gss.edgeBetween (g : Gss) (src dst : Nat) : Option Nat :=
  (g.backedges src).find? (edgeDstIs g dst)

/-- push a possibility onto the `Parent` of edge `e` -/
def Gss.pushPoss (g : Gss) (e n : Nat) : Gss :=
  match g.edges[e]? with
  | some ed => { g with edges := g.edges.setIfInBounds e { ed with poss := ed.poss ++ [n] } }
  | none => g

/-- `add_solution` (gss.rs:80-92) -/
def Gss.addSolution (g : Gss) (src dst n : Nat) : Gss :=
  match g.edgeBetween src dst with
  | some e => g.pushPoss e n
  | none => (g.addEdge src dst [n]).1

/-! ## Frontiers: `BTreeMap<(Position, TK), BTreeMap<S, NodeIndex>>` as sorted association lists -/

/-- derived `Ord` of `Position` (position.rs:15): byte offset, then line, then column -/
def posLt (a b : Pos) : Bool :=
  decide (a.pos < b.pos) || (a.pos == b.pos &&
    (decide (a.line < b.line) || (a.line == b.line && decide (a.col < b.col))))

abbrev SubFrontier := List (Nat × Nat)                 -- state ↦ head, ascending state
abbrev Frontier := List ((Pos × Nat) × SubFrontier)    -- (position, token kind) ↦ sub-frontier, ascending

/-- `BTreeMap::insert` (an existing entry is replaced) -/
def sfInsert (s h : Nat) : SubFrontier → SubFrontier
  | [] => [(s, h)]
  | (s', h') :: rest =>
    if s < s' then (s, h) :: (s', h') :: rest
    else if s = s' then (s, h) :: rest
    else (s', h') :: sfInsert s h rest

def sfGet (s : Nat) (sf : SubFrontier) : Option Nat := (sf.find? (fun e => e.1 == s)).map (·.2)

def keyLt (a b : Pos × Nat) : Bool := posLt a.1 b.1 || (a.1 == b.1 && decide (a.2 < b.2))

/-- `frontier.entry(key).or_default().insert(state, head)` -/
def frInsert (k : Pos × Nat) (s h : Nat) : Frontier → Frontier
  | [] => [(k, [(s, h)])]
  | (k', sf) :: rest =>
    if keyLt k k' then (k, [(s, h)]) :: (k', sf) :: rest
    else if k == k' then (k', sfInsert s h sf) :: rest
    else (k', sf) :: frInsert k s h rest

/-- the shifter's `frontier_base: BTreeMap<(S, Position), NodeIndex>` -/
abbrev BaseMap := List ((Nat × Pos) × Nat)

def baseKeyLt (a b : Nat × Pos) : Bool := decide (a.1 < b.1) || (a.1 == b.1 && posLt a.2 b.2)

def baseGet (k : Nat × Pos) (m : BaseMap) : Option Nat := (m.find? (fun e => e.1 == k)).map (·.2)

def baseInsert (k : Nat × Pos) (h : Nat) : BaseMap → BaseMap
  | [] => [(k, h)]
  | (k', h') :: rest =>
    if baseKeyLt k k' then (k, h) :: (k', h') :: rest
    else if k == k' then (k, h) :: rest
    else (k', h') :: baseInsert k h rest

/-! ## `find_lookaheads` (parser.rs:324-410) -/

def Head.toCtx (h : Head) : Ctx := { state := h.state, pos := h.pos, span := h.span, lay := h.lay }

def Head.withCtx (h : Head) (c : Ctx) : Head :=
  { h with state := c.state, pos := c.pos, span := c.span, lay := c.lay }

/-- the filters on more than one token: longest match, then grammar order (parser.rs:340-374) -/
def keepToks (longest grammarOrder : Bool) (toks : List Tok) : List Tok :=
  let l1 := if longest then toks.filter (fun t => t.val.2 == maxLen toks) else toks
  if grammarOrder then l1.take 1 else l1

/-- nothing recognised: STOP under partial parse if expected, otherwise no token (parser.rs:398-409) -/
def stopOrNone (partialParse : Bool) (expected : List (Nat × Bool)) (ctx : Ctx) : List Tok :=
  if partialParse && (expected.map (·.1)).contains 0 then [⟨0, (0, 0), ctx.span⟩] else []

def lexKeep (env : Env) (partialParse : Bool) (expected : List (Nat × Bool)) (ctx : Ctx) : Ctx × List Tok :=
  let r := lexNext env ctx expected
  if r.2.isEmpty then (r.1, stopOrNone partialParse expected r.1)
  else (r.1, keepToks env.longest env.grammarOrder r.2)

/-- what happens after the layout parser returned (parser.rs:389-401): a non-empty layout becomes the layout
    ahead and the lexer runs again; otherwise the head gets its position back (`curPos`) -/
def afterLayout (env : Env) (partialParse : Bool) (expected : List (Nat × Bool)) (curPos : Pos) (ctx : Ctx)
    (r : Outcome ParseResult) : Ctx × Outcome (List Tok) :=
  match r with
  | .ok pr =>
    match pr.slice with
    | some (off, len) =>
      if len > 0 then
        let r := lexKeep env partialParse expected { ctx with lay := some (off, len) }
        (r.1, .ok r.2)
      else ({ ctx with pos := curPos }, .ok (stopOrNone partialParse expected { ctx with pos := curPos }))
    | none => ({ ctx with pos := curPos }, .ok (stopOrNone partialParse expected { ctx with pos := curPos }))
  | .err _ => ({ ctx with pos := curPos }, .ok (stopOrNone partialParse expected { ctx with pos := curPos }))
  | .panic s => (ctx, .panic s)
  | .fuel => (ctx, .fuel)

/-- `find_lookaheads` on the context view of a head: lex; if nothing matches run the layout parser once
    (from the layout state; state and span of the head restored afterwards, the position too unless a
    non-empty layout was parsed) and lex again -/
def findLookaheadsCtx (env : Env) (partialParse : Bool) (fuel : Nat) (ctx : Ctx) : Ctx × Outcome (List Tok) :=
  let expected := env.t.sorted ctx.state
  let r := lexNext env ctx expected
  if !r.2.isEmpty then (r.1, .ok (keepToks env.longest env.grammarOrder r.2))
  else
    match env.t.layoutState with
    | none => (r.1, .ok (stopOrNone partialParse expected r.1))
    | some ls =>
      let cur := r.1.state
      let curSpan := r.1.span
      let lp := layoutParse env ls r.1 fuel
      afterLayout env partialParse expected r.1.pos { lp.1 with state := cur, span := curSpan } lp.2

/-! ## `create_frontier` (parser.rs:257-317) and `head_for_lookahead` (parser.rs:414-456) -/

def copyEdges (newHead : Nat) : List Edge → Gss → Gss
  | [], g => g
  | ed :: rest, g => copyEdges newHead rest (g.addEdge newHead ed.dst ed.poss).1

def edgesOf (g : Gss) (es : List Nat) : List Edge := es.filterMap (fun e => g.edges[e]?)

/-- a new head for one more lookahead token: copy of the head with that token, every parent link copied
    (new `Parent`, the same possibilities) in `backedges` order -/
def headForLookahead (g : Gss) (hd : Head) (headIdx : Nat) (tk : Tok) : Gss × Nat :=
  let r := g.addHead { hd with tok := some tk }
  (copyEdges r.2 (edgesOf g (g.backedges headIdx)) r.1, r.2)

def splitHeads (hd : Head) (headIdx : Nat) (position : Pos) : List Tok → Gss × Frontier → Gss × Frontier
  | [], acc => acc
  | tk :: rest, (g, fr) =>
    let r := headForLookahead g hd headIdx tk
    splitHeads hd headIdx position rest (r.1, frInsert (position, tk.kind) hd.state r.2 fr)

/-- the layout slice between the head position and the start of the first token (parser.rs:288-293) -/
def layoutBefore (env : Env) (hd : Head) (tk : Tok) : Outcome (Option Slice) :=
  if posLt hd.pos tk.span.s then
    if hd.pos.pos ≤ tk.span.s.pos && tk.span.s.pos ≤ env.input.length then
      .ok (some (hd.pos.pos, tk.span.s.pos - hd.pos.pos))
    else .panic "input.slice"
  else .ok hd.lay

/-- one head of the frontier base -/
def frontierHead (env : Env) (partialParse : Bool) (fuel : Nat) (acc : Gss × Frontier) (headIdx : Nat) :
    Outcome (Gss × Frontier) :=
  obind (acc.1.head headIdx) fun hd =>
  match hd.tok with
  | some tk => .ok (acc.1, frInsert (hd.pos, tk.kind) hd.state headIdx acc.2)
  | none =>
    let r := findLookaheadsCtx env partialParse fuel hd.toCtx
    let hd := hd.withCtx r.1
    obind r.2 fun toks =>
    match toks with
    | [] => .ok (acc.1.setHead headIdx hd, acc.2)
    | tk :: more =>
      obind (layoutBefore env hd tk) fun lay =>
      let hd' := { hd with lay := lay, tok := some tk }
      .ok (splitHeads hd' headIdx hd.pos more
            (acc.1.setHead headIdx hd', frInsert (hd.pos, tk.kind) hd.state headIdx acc.2))

def createFrontier (env : Env) (partialParse : Bool) (fuel : Nat) (g : Gss) (base : List Nat) :
    Outcome (Gss × Frontier) :=
  foldO (frontierHead env partialParse fuel) base (g, [])

/-! ## Pending reductions, `initial_process_frontier` (parser.rs:165-249) -/

inductive RStart where
  | edge (e : Nat)
  | node (n : Nat)
deriving Repr, Inhabited, DecidableEq

structure Reduction where
  start : RStart
  prod : Nat
  len : Nat
deriving Repr, Inhabited

/-- the engine state threaded through one frontier -/
structure St where
  gss : Gss
  shifts : List (Nat × Nat) := []     -- `pending_shifts`, most recently pushed first
  accepted : List Nat := []           -- `accepted_heads` in push order
deriving Inhabited

def tokKind (hd : Head) : Outcome Nat :=
  match hd.tok with
  | some tk => .ok tk.kind
  | none => .panic "token_ahead().unwrap()"

/-- the actions of one frontier head: reductions into the queue, shift and accept recorded -/
def initialActions (g : Gss) (head : Nat) : List Action → List Reduction × List (Nat × Nat) × List Nat →
    List Reduction × List (Nat × Nat) × List Nat
  | [], acc => acc
  | act :: rest, (q, sh, ac) =>
    match act with
    | .reduce p len =>
      if len = 0 then initialActions g head rest (q ++ [⟨.node head, p, 0⟩], sh, ac)
      else initialActions g head rest (q ++ (g.backedges head).map (fun e => ⟨.edge e, p, len⟩), sh, ac)
    | .shift s => initialActions g head rest (q, (head, s) :: sh, ac)
    | .accept => initialActions g head rest (q, sh, ac ++ [head])

def initialHead (env : Env) (g : Gss) (acc : List Reduction × List (Nat × Nat) × List Nat) (e : Nat × Nat) :
    Outcome (List Reduction × List (Nat × Nat) × List Nat) :=
  obind (g.head e.2) fun hd =>
  obind (tokKind hd) fun k =>
  .ok (initialActions g e.2 (env.t.cell e.1 k) acc)

/-- one sub-frontier: its queue of pending reductions -/
def initialSub (env : Env) (g : Gss) (acc : List (List Reduction) × List (Nat × Nat) × List Nat)
    (sf : (Pos × Nat) × SubFrontier) : Outcome (List (List Reduction) × List (Nat × Nat) × List Nat) :=
  obind (foldO (initialHead env g) sf.2 ([], acc.2.1, acc.2.2)) fun r =>
  .ok (acc.1 ++ [r.1], r.2.1, r.2.2)

def initialProcess (env : Env) (st : St) (fr : Frontier) : Outcome (List (List Reduction) × St) :=
  obind (foldO (initialSub env st.gss) fr ([], st.shifts, st.accepted)) fun r =>
  .ok (r.1, { st with shifts := r.2.1, accepted := r.2.2 })

/-! ## `find_reduction_paths` (parser.rs:798-876) -/

/-- a reduction path: parent links from the root side to the head side, and the root head -/
structure Path where
  parents : List Nat
  root : Nat
deriving Repr, Inhabited

/-- one breadth-first level: every pending path is extended by every back edge of its current root,
    most recent edge first (`push_front` of the parent) -/
def expandOne (g : Gss) (p : Path) : List Path :=
  (g.backedges p.root).filterMap fun e =>
    match g.edges[e]? with
    | some ed => some ⟨e :: p.parents, ed.dst⟩
    | none => none

def expandPaths (g : Gss) : Nat → List Path → List Path
  | 0, ps => ps
  | n+1, ps => expandPaths g n (ps.flatMap (expandOne g))

def findReductionPaths (g : Gss) (r : Reduction) : Outcome (List Path) :=
  match r.start with
  | .node h => .ok [⟨[], h⟩]
  | .edge e =>
    obind (g.edge e) fun ed =>
    .ok (expandPaths g (r.len - 1) [⟨[e], ed.dst⟩])

/-! ## `reducer` (parser.rs:461-723) -/

structure RState where
  gss : Gss
  queue : List Reduction              -- pending reductions of this sub-frontier, front first
  shifts : List (Nat × Nat)
  accepted : List Nat
  sub : SubFrontier
deriving Inhabited

/-- `a.iter().zip(b.iter()).all(|(a, b)| Rc::ptr_eq(a, b))` -/
def zipEq : List Nat → List Nat → Bool
  | a :: as, b :: bs => a == b && zipEq as bs
  | _, _ => true

/-- the closure of `is_new_solution` (parser.rs:577-593) on one possibility -/
def differs (prod : Nat) (parents : List Nat) (n : SNode) : Bool :=
  match n with
  | .term _ _ => false
  | .nonterm p _ _ ch => p != prod || parents.length == ch.length || !zipEq parents ch

/-- the test of the "Replace children" loop (parser.rs:610-616) -/
def extends? (prod : Nat) (parents : List Nat) (n : SNode) : Bool :=
  match n with
  | .term _ _ => false
  | .nonterm p _ _ ch => p == prod && decide (parents.length > ch.length) && zipEq parents ch

def setChildren (n : SNode) (ch : List Nat) : SNode :=
  match n with
  | .term t s => .term t s
  | .nonterm p s l _ => .nonterm p s l ch

/-- replace the children of the first possibility that the path extends -/
def replaceChildren (g : Gss) (prod : Nat) (parents : List Nat) : List Nat → Gss
  | [] => g
  | n :: rest =>
    match g.nodes[n]? with
    | some nd =>
      if extends? prod parents nd then { g with nodes := g.nodes.setIfInBounds n (setChildren nd parents) }
      else replaceChildren g prod parents rest
    | none => replaceChildren g prod parents rest

def nodeSpan : SNode → Span
  | .term _ s => s
  | .nonterm _ s _ _ => s

/-- span of the first possibility of a parent link (`possibilities.borrow()[0]`) -/
def firstSpan (g : Gss) (e : Nat) : Outcome Span :=
  obind (g.edge e) fun ed =>
  match ed.poss with
  | [] => .panic "possibilities[0]"
  | n :: _ => obind (g.node n) fun nd => .ok (nodeSpan nd)

/-- span of a new nonterminal node (parser.rs:635-650) -/
def solutionSpan (g : Gss) (rootHead : Head) (parents : List Nat) : Outcome Span :=
  match parents.head?, parents.getLast? with
  | some first, some last =>
    obind (firstSpan g first) fun s1 =>
    obind (firstSpan g last) fun s2 => .ok ⟨s1.s, s2.e⟩
  | _, _ => .ok ⟨rootHead.span.e, rootHead.span.e⟩

/-- register the actions of a head reached by a new solution (parser.rs:662-718) -/
def registerActions (head edge : Nat) (headCreated edgeCreated : Bool) :
    List Action → List Reduction × List (Nat × Nat) × List Nat → List Reduction × List (Nat × Nat) × List Nat
  | [], acc => acc
  | act :: rest, (q, sh, ac) =>
    match act with
    | .reduce p len =>
      if (edgeCreated && decide (len > 0)) || headCreated then
        registerActions head edge headCreated edgeCreated rest
          (q ++ [⟨if len > 0 then .edge edge else .node head, p, len⟩], sh, ac)
      else registerActions head edge headCreated edgeCreated rest (q, sh, ac)
    | .shift s =>
      registerActions head edge headCreated edgeCreated rest (q, if headCreated then (head, s) :: sh else sh, ac)
    | .accept =>
      registerActions head edge headCreated edgeCreated rest (q, sh, if headCreated then ac ++ [head] else ac)

def allDiffer (g : Gss) (prod : Nat) (parents : List Nat) (poss : List Nat) : Bool :=
  poss.all fun n =>
    match g.nodes[n]? with
    | some nd => differs prod parents nd
    | none => true

/-- head with the goto state in the sub-frontier, created if missing (parser.rs:516-541) -/
def findOrCreateHead (g : Gss) (sub : SubFrontier) (shead : Head) (nextState : Nat) :
    Outcome (Gss × SubFrontier × Nat × Bool) :=
  match sfGet nextState sub with
  | some h => .ok (g, sub, h, false)
  | none =>
    match shead.tok with
    | none => .panic "token_ahead().cloned().unwrap()"
    | some _ =>
      let r := g.addHead { shead with state := nextState }
      .ok (r.1, sfInsert nextState r.2 sub, r.2, true)

/-- edge between the head and the root of the path, created (without possibilities) if missing
    (parser.rs:545-571) -/
def findOrCreateEdge (g : Gss) (head root : Nat) : Gss × Nat × Bool :=
  match g.edgeBetween head root with
  | some e => (g, e, false)
  | none =>
    let r := g.addEdge head root []
    (r.1, r.2, true)

/-- nonterminal symbol of a production (`production.into()`) -/
def prodLhs (env : Env) (p : Nat) : Outcome Nat :=
  match env.g.prods[p]? with
  | some pr => .ok pr.lhs
  | none => .panic "prod.into()"

def gotoState (env : Env) (s A : Nat) : Outcome Nat :=
  match env.t.goto env.g s A with
  | some s' => .ok s'
  | none => .panic "Invalid GOTO"

/-- the body of `for path in find_reduction_paths(..)` (parser.rs:499-721) -/
def reducePath (env : Env) (prod : Nat) (startHead : Nat) (rs : RState) (path : Path) : Outcome RState :=
  obind (rs.gss.head startHead) fun shead =>
  obind (tokKind shead) fun kindAhead =>
  obind (rs.gss.head path.root) fun rootHead =>
  obind (prodLhs env prod) fun lhs =>
  obind (gotoState env rootHead.state lhs) fun nextState =>
  let actions := env.t.cell nextState kindAhead
  if actions.isEmpty then .ok rs
  else
    obind (findOrCreateHead rs.gss rs.sub shead nextState) fun r1 =>
    let head := r1.2.2.1
    let headCreated := r1.2.2.2
    let r2 := findOrCreateEdge r1.1 head path.root
    let edge := r2.2.1
    let edgeCreated := r2.2.2
    obind (r2.1.edge edge) fun ed =>
    let isNew := headCreated || edgeCreated || allDiffer r2.1 prod path.parents ed.poss
    if !isNew then
      .ok { rs with gss := replaceChildren r2.1 prod path.parents ed.poss, sub := r1.2.1 }
    else
      obind (solutionSpan r2.1 rootHead path.parents) fun span =>
      let r3 := r2.1.addNode (.nonterm prod span rootHead.lay path.parents)
      let g := r3.1.pushPoss edge r3.2
      let reg := registerActions head edge headCreated edgeCreated actions (rs.queue, rs.shifts, rs.accepted)
      .ok { gss := g, queue := reg.1, shifts := reg.2.1, accepted := reg.2.2, sub := r1.2.1 }

def startHeadOf (g : Gss) (r : Reduction) : Outcome Nat :=
  match r.start with
  | .edge e => obind (g.edge e) fun ed => .ok ed.src
  | .node n => .ok n

/-- one pending reduction: all its paths, found before any of them is reduced -/
def reduceOne (env : Env) (rs : RState) (r : Reduction) : Outcome RState :=
  obind (startHeadOf rs.gss r) fun startHead =>
  obind (findReductionPaths rs.gss r) fun paths =>
  foldO (reducePath env r.prod startHead) paths rs

/-- `while let Some(reduction) = pending_reductions.pop_front()` -/
def reducerLoop (env : Env) : Nat → RState → Outcome RState
  | 0, _ => .fuel
  | fuel+1, rs =>
    match rs.queue with
    | [] => .ok rs
    | r :: rest => obind (reduceOne env { rs with queue := rest } r) (reducerLoop env fuel)

/-- the sub-frontiers in `BTreeMap` order, each with its own queue (parser.rs:1022-1040) -/
def reduceAll (env : Env) (fuel : Nat) : List ((Pos × Nat) × SubFrontier) → List (List Reduction) → St → Outcome St
  | [], _, st => .ok st
  | sf :: rest, qs, st =>
    obind (reducerLoop env fuel ⟨st.gss, qs.headD [], st.shifts, st.accepted, sf.2⟩) fun rs =>
    reduceAll env fuel rest qs.tail { gss := rs.gss, shifts := rs.shifts, accepted := rs.accepted }

/-! ## `shifter` (parser.rs:726-794) -/

def tokOf (hd : Head) : Outcome Tok :=
  match hd.tok with
  | some tk => .ok tk
  | none => .panic "token_ahead().cloned().unwrap()"

def shiftOne (env : Env) (frontierIdx : Nat) (acc : Gss × BaseMap) (sh : Nat × Nat) : Outcome (Gss × BaseMap) :=
  obind (acc.1.head sh.1) fun hd =>
  obind (tokOf hd) fun tk =>
  let position := posAfter (sliceOf env.input tk.val) hd.pos
  match baseGet (sh.2, position) acc.2 with
  | some shifted =>
    obind (acc.1.head shifted) fun shd =>
    let r := acc.1.addNode (.term tk tk.span)
    .ok (r.1.addSolution shifted sh.1 r.2, acc.2)
  | none =>
    let r0 := acc.1.addHead ⟨sh.2, frontierIdx, position, tk.span, none, none⟩
    let r := r0.1.addNode (.term tk tk.span)
    .ok (r.1.addSolution r0.2 sh.1 r.2, baseInsert (sh.2, position) r0.2 acc.2)

/-- all pending shifts, last registered first; returns the next frontier base in `(state, position)` order -/
def shifter (env : Env) (frontierIdx : Nat) (st : St) : Outcome (St × List Nat) :=
  obind (foldO (shiftOne env frontierIdx) st.shifts (st.gss, [])) fun r =>
  .ok ({ st with gss := r.1, shifts := [] }, r.2.map (·.2))

/-! ## `create_forest`, `make_error`, the main loop (parser.rs:878-1062) -/

def possOf (g : Gss) (e : Nat) : List Nat :=
  match g.edges[e]? with
  | some ed => ed.poss
  | none => []

/-- root possibilities: for every accepted head, every parent link, every possibility -/
def forestRoots (g : Gss) (accepted : List Nat) : List Nat :=
  accepted.flatMap fun h => (g.backedges h).flatMap (possOf g)

/-- `clear_duplicates` (utils.rs:10-19): keep first occurrences -/
def dedup : List Nat → List Nat → List Nat
  | [], _ => []
  | x :: rest, seen => if seen.contains x then dedup rest seen else x :: dedup rest (seen ++ [x])

def expectedOf (env : Env) (g : Gss) : List Nat → Outcome (List Nat)
  | [] => .ok []
  | h :: rest =>
    obind (g.head h) fun hd =>
    obind (expectedOf env g rest) fun more => .ok ((env.t.sorted hd.state).map (·.1) ++ more)

structure GlrResult where
  gss : Gss
  roots : List Nat
deriving Inhabited

def makeError (env : Env) (g : Gss) (lastBase : List Nat) : Outcome GlrResult :=
  obind (expectedOf env g lastBase) fun ex =>
  match lastBase with
  | [] => .panic "There must be a head in the last frontier!"
  | h :: _ =>
    obind (g.head h) fun hd =>
    match dedup ex [] with
    | [] => .panic "error_expected:expected[0]"
    | ks => .err (.expected hd.pos ks)

/-- one iteration of `while !frontier_base.is_empty()` -/
def frontierStep (env : Env) (partialParse : Bool) (fuel : Nat) (frontierIdx : Nat) (st : St) (base : List Nat) :
    Outcome (St × List Nat) :=
  obind (createFrontier env partialParse fuel st.gss base) fun r =>
  obind (initialProcess env { st with gss := r.1 } r.2) fun ip =>
  obind (reduceAll env fuel r.2 ip.1 ip.2) fun st' =>
  shifter env (frontierIdx + 1) st'

def mainLoop (env : Env) (partialParse : Bool) (fuel : Nat) : Nat → Nat → St → List Nat → List Nat → Outcome GlrResult
  | 0, _, _, _, _ => .fuel
  | n+1, frontierIdx, st, base, lastBase =>
    match base with
    | [] =>
      if !st.accepted.isEmpty then .ok ⟨st.gss, forestRoots st.gss st.accepted⟩
      else makeError env st.gss lastBase
    | _ :: _ =>
      obind (frontierStep env partialParse fuel frontierIdx st base) fun r =>
      mainLoop env partialParse fuel n (frontierIdx + 1) r.1 r.2 (if r.2.isEmpty then base else lastBase)

/-- `GssHead::default()` with the start position -/
def startHead : Head := ⟨0, 0, Pos.start, ⟨Pos.start, Pos.start⟩, none, none⟩

/-- `GlrParser::parse`: `fuel` bounds the number of frontiers, the reducer loop of every sub-frontier and
    the layout parser -/
def parse (env : Env) (partialParse : Bool) (fuel : Nat) : Outcome GlrResult :=
  let r := ({} : Gss).addHead startHead
  mainLoop env partialParse fuel fuel 0 { gss := r.1 } [r.2] []

/-! ## The forest: unfolding the SPPF graph (decorated), its erasure to `Forest`, and `Tree::build` -/

mutual
inductive DNode where
  | term (tok : Tok) : DNode
  | nonterm (prod : Nat) (span : Span) (children : DPList) : DNode
  | cut : DNode                                  -- unfolding fuel exhausted / dangling id
inductive DParent where
  | mk (poss : DNList) : DParent
inductive DNList where
  | nil : DNList
  | cons (n : DNode) (ns : DNList) : DNList
inductive DPList where
  | nil : DPList
  | cons (p : DParent) (ps : DPList) : DPList
end

instance : Inhabited DNode := ⟨.cut⟩

def listToDN : List DNode → DNList
  | [] => .nil
  | n :: ns => .cons n (listToDN ns)
def listToDP : List DParent → DPList
  | [] => .nil
  | p :: ps => .cons p (listToDP ps)

/-- unfold node `id` of the graph to depth `fuel` -/
def unfoldNode (g : Gss) : Nat → Nat → DNode
  | 0, _ => .cut
  | fuel+1, id =>
    match g.nodes[id]? with
    | some (.term tk _) => .term tk
    | some (.nonterm p sp _ ch) =>
      .nonterm p sp (listToDP (ch.map fun e => DParent.mk (listToDN ((possOf g e).map (unfoldNode g fuel)))))
    | none => .cut

/- does the unfolding contain a cut (cyclic SPPF or too little fuel)? -/
mutual
def DNode.hasCut : DNode → Bool
  | .term _ => false
  | .nonterm _ _ cs => cs.hasCut
  | .cut => true
def DParent.hasCut : DParent → Bool
  | .mk ns => ns.hasCut
def DNList.hasCut : DNList → Bool
  | .nil => false
  | .cons n ns => n.hasCut || ns.hasCut
def DPList.hasCut : DPList → Bool
  | .nil => false
  | .cons p ps => p.hasCut || ps.hasCut
end

/- erasure to the SPPF of the enumeration model -/
mutual
def DNode.erase : DNode → Forest.SNode
  | .term tk => .term tk.kind tk.span.s.pos
  | .nonterm p _ cs => .nonterm p cs.erase
  | .cut => .empty
def DParent.erase : DParent → Forest.Parent
  | .mk ns => .mk ns.erase
def DNList.erase : DNList → Forest.NList
  | .nil => .nil
  | .cons n ns => .cons n.erase ns.erase
def DPList.erase : DPList → Forest.PList
  | .nil => .nil
  | .cons p ps => .cons p.erase ps.erase
end

/- `SPPFTree::solutions` / `Parent::solutions` on the decorated SPPF (= those of the erasure) -/
mutual
def DNode.solutions : DNode → Nat
  | .term _ => 1
  | .nonterm _ _ cs => cs.prod
  | .cut => 0
def DParent.solutions : DParent → Nat
  | .mk ns => ns.sum
def DNList.sum : DNList → Nat
  | .nil => 0
  | .cons n ns => n.solutions + ns.sum
def DPList.prod : DPList → Nat
  | .nil => 1
  | .cons p ps => p.solutions * ps.prod
end

/- `Tree::build` with `TreeBuilder` on the tree of index `i` (gss.rs:565-656): same index decoding as
    `Forest.SNode.get`, decorated.  Layouts are `None`: `build` runs on a default context. -/
mutual
def DNode.get : DNode → Nat → Option Tree
  | .term tk, _ => some (.leaf tk.kind tk.span tk.val none)
  | .nonterm p sp cs, i => (cs.get i).map fun ts => Tree.node p sp none (TreeList.ofList ts)
  | .cut, _ => none
def DParent.get : DParent → Nat → Option Tree
  | .mk ns, i => ns.get i
def DNList.get : DNList → Nat → Option Tree
  | .nil, _ => none
  | .cons n ns, i => if i < n.solutions then n.get i else ns.get (i - n.solutions)
def DPList.get : DPList → Nat → Option (List Tree)
  | .nil, _ => some []
  | .cons p ps, i =>
    let factor := ps.prod
    match p.get (i / factor), ps.get (i % factor) with
    | some t, some ts => some (t :: ts)
    | _, _ => none
end

/-- the decorated forest of a result -/
def GlrResult.droots (r : GlrResult) : DNList :=
  listToDN (r.roots.map (unfoldNode r.gss (r.gss.nodes.size + 1)))

/-- the `Forest` handed to the enumeration model -/
def GlrResult.forest (r : GlrResult) : Forest.Forest := ⟨r.droots.erase⟩

/-- `forest.get_tree(i)` built with `TreeBuilder` -/
def GlrResult.getTree (r : GlrResult) (i : Nat) : Option Tree := r.droots.get i

/-! ## The same enumeration computed on the graph (what the driver runs)

`unfoldNode` materialises shared sub-forests once per reference, which is exponential in memory.  The
tables below are computed by rounds: after `k` rounds entry `n` is the value on `unfoldNode g k n`
(`Proofs/GlrForest.lean`), and `fgetNode` decodes a tree index with the solution table instead of
recomputing `solutions()` at every level. -/

def listSum : List Nat → Nat
  | [] => 0
  | x :: xs => x + listSum xs

def listProd : List Nat → Nat
  | [] => 1
  | x :: xs => x * listProd xs

/-- `Parent::solutions` from a table of node solutions -/
def edgeSol (g : Gss) (sol : Array Nat) (e : Nat) : Nat := listSum ((possOf g e).map fun m => sol.getD m 0)

def solOfNode (g : Gss) (prev : Array Nat) : SNode → Nat
  | .term _ _ => 1
  | .nonterm _ _ _ ch => listProd (ch.map (edgeSol g prev))

def solRound (g : Gss) (prev : Array Nat) : Array Nat := g.nodes.map (solOfNode g prev)

def solIter (g : Gss) : Nat → Array Nat → Array Nat
  | 0, a => a
  | k+1, a =>
    let b := solRound g a
    if b == a then a else solIter g k b

def solTable (g : Gss) : Array Nat := solIter g (g.nodes.size + 1) (Array.replicate g.nodes.size 0)

/-- "the unfolding to depth k is cut below this node" -/
def cutOfNode (g : Gss) (prev : Array Bool) : SNode → Bool
  | .term _ _ => false
  | .nonterm _ _ _ ch => ch.any fun e => (possOf g e).any fun m => prev.getD m true

def cutRound (g : Gss) (prev : Array Bool) : Array Bool := g.nodes.map (cutOfNode g prev)

def cutIter (g : Gss) : Nat → Array Bool → Array Bool
  | 0, a => a
  | k+1, a =>
    let b := cutRound g a
    if b == a then a else cutIter g k b

def cutTable (g : Gss) : Array Bool := cutIter g (g.nodes.size + 1) (Array.replicate g.nodes.size true)

/-- `find_tree_root` over node ids -/
def fgetPoss (sol : Array Nat) (getN : Nat → Nat → Option Tree) : List Nat → Nat → Option Tree
  | [], _ => none
  | m :: ms, i => if i < sol.getD m 0 then getN m i else fgetPoss sol getN ms (i - sol.getD m 0)

/-- `Tree::children` over edge ids -/
def fgetChildren (g : Gss) (sol : Array Nat) (getN : Nat → Nat → Option Tree) : List Nat → Nat → Option (List Tree)
  | [], _ => some []
  | e :: es, i =>
    let factor := listProd (es.map (edgeSol g sol))
    match fgetPoss sol getN (possOf g e) (i / factor), fgetChildren g sol getN es (i % factor) with
    | some t, some ts => some (t :: ts)
    | _, _ => none

def fgetNode (g : Gss) (sol : Array Nat) : Nat → Nat → Nat → Option Tree
  | 0, _, _ => none
  | fuel+1, n, i =>
    match g.nodes[n]? with
    | some (.term tk _) => some (.leaf tk.kind tk.span tk.val none)
    | some (.nonterm p sp _ ch) =>
      (fgetChildren g sol (fgetNode g sol fuel) ch i).map fun ts => Tree.node p sp none (TreeList.ofList ts)
    | none => none

/-- `Forest::solutions` -/
def GlrResult.fastSolutions (r : GlrResult) (sol : Array Nat) : Nat := listSum (r.roots.map fun m => sol.getD m 0)

/-- `Forest::get_tree(i)` + `Tree::build` -/
def GlrResult.fastGet (r : GlrResult) (sol : Array Nat) (i : Nat) : Option Tree :=
  fgetPoss sol (fgetNode r.gss sol (r.gss.nodes.size + 1)) r.roots i

/-- is the unfolding from the roots cut (cyclic SPPF)? -/
def GlrResult.fastHasCut (r : GlrResult) (cut : Array Bool) : Bool := r.roots.any fun m => cut.getD m true

/- erasure of a built tree to the shape the enumeration model produces -/
mutual
def treeToF : Tree → Forest.FTree
  | .leaf k sp _ _ => .leaf k sp.s.pos
  | .node p _ _ cs => .node p (treesToF cs)
def treesToF : TreeList → List Forest.FTree
  | .nil => []
  | .cons t ts => treeToF t :: treesToF ts
end

end Rustemo.Glr
