import Rustemo.Model.Cert
/-!
# Canonical LR(1) automaton and the cover check (C04)

`Canon.build` is the textbook construction (dragon book Alg. 4.53: items `[A → α.β, a]`, CLOSURE,
GOTO, the collection of sets of items).  It **is** the definition of "canonical LR(1)" used by C04
and deliberately shares nothing with the model of rustemo's own construction: its own nullable /
FIRST computation, single-lookahead items, sets as sorted duplicate-free lists.

`Cover.check` relates it to a table dumped from the real compiler: it computes the relation
`R ⊆ canonical states × table states` reachable from the pair of start states by following equal
symbols in both automata and checks, for every table state, core equality, equal transition
symbols, lookahead sets equal to the union over the related canonical states, and cells equal to
what items and lookaheads prescribe (plus right-nulled reductions for RN tables).
-/
namespace Rustemo

abbrev LR1Item := Nat × Nat × Nat      -- production, dot, lookahead terminal

def insertSorted {α} [Ord α] (x : α) : List α → List α
  | [] => [x]
  | y :: ys =>
    match compare x y with
    | .lt => x :: y :: ys
    | .eq => y :: ys
    | .gt => y :: insertSorted x ys

def setOf {α} [Ord α] (l : List α) : List α := l.foldl (fun acc x => insertSorted x acc) []

instance : Ord LR1Item := ⟨fun a b =>
  match compare a.1 b.1 with
  | .eq => match compare a.2.1 b.2.1 with
    | .eq => compare a.2.2 b.2.2
    | o => o
  | o => o⟩

instance : Ord (Nat × Nat) := ⟨fun a b =>
  match compare a.1 b.1 with
  | .eq => compare a.2 b.2
  | o => o⟩

namespace Canon

/-- nullable symbols: least fixpoint, `fuel` rounds -/
def nullableStep (g : Grammar) (ns : List Nat) : List Nat :=
  g.prods.toList.foldl (fun acc pr =>
    if pr.rhs.all (fun s => acc.contains s) && !acc.contains pr.lhs then pr.lhs :: acc else acc) ns

def nullable (g : Grammar) : List Nat :=
  (List.range (g.prods.size + 1)).foldl (fun acc _ => nullableStep g acc) []

/-- FIRST sets (terminals only) as an association list symbol ↦ terminals -/
def firstOfSeq (g : Grammar) (nul : List Nat) (fs : Nat → List Nat) : List Nat → List Nat
  | [] => []
  | X :: rest =>
    let fx := if X < g.nterms then [X] else fs X
    if nul.contains X then fx ++ firstOfSeq g nul fs rest else fx

def lookup (tbl : List (Nat × List Nat)) (X : Nat) : List Nat :=
  ((tbl.find? (·.1 == X)).map (·.2)).getD []

def firstStep (g : Grammar) (nul : List Nat) (tbl : List (Nat × List Nat)) : List (Nat × List Nat) :=
  g.prods.toList.foldl (fun acc pr =>
    let add := firstOfSeq g nul (lookup acc) pr.rhs
    let new := setOf (lookup acc pr.lhs ++ add)
    (pr.lhs, new) :: acc.filter (·.1 != pr.lhs)) tbl

def firstTable (g : Grammar) : List (Nat × List Nat) :=
  let nul := nullable g
  (List.range (g.nnonterms * g.nterms + 2)).foldl (fun acc _ => firstStep g nul acc) []

structure Ctx where
  g : Grammar
  nul : List Nat
  first : Nat → List Nat

def mkCtx (g : Grammar) : Ctx :=
  let tbl := firstTable g
  { g := g, nul := nullable g, first := lookup tbl }

/-- FIRST(β a) -/
def firstBetaA (c : Ctx) (β : List Nat) (a : Nat) : List Nat :=
  let f := firstOfSeq c.g c.nul c.first β
  if β.all (fun s => c.nul.contains s) then setOf (a :: f) else setOf f

def prodsOf (g : Grammar) (A : Nat) : List Nat :=
  (List.range g.prods.size).filter fun p =>
    match g.prods[p]? with
    | some pr => pr.lhs == A
    | none => false

/-- one closure round: all items demanded by the given ones -/
def closureRound (c : Ctx) (items : List LR1Item) : List LR1Item :=
  items.foldl (fun acc (p, d, a) =>
    match c.g.prods[p]? with
    | none => acc
    | some pr =>
      match pr.rhs[d]? with
      | none => acc
      | some B =>
        if B < c.g.nterms then acc
        else
          let las := firstBetaA c (pr.rhs.drop (d + 1)) a
          (prodsOf c.g B).foldl (fun acc q => las.foldl (fun acc b => insertSorted (q, 0, b) acc) acc) acc) items

def closure (c : Ctx) : Nat → List LR1Item → List LR1Item
  | 0, items => items
  | fuel+1, items =>
    let next := closureRound c items
    if next.length == items.length then items else closure c fuel next

def closureFuel (c : Ctx) : Nat := c.g.prods.size * (c.g.nterms + 1) + 2

def gotoSet (c : Ctx) (items : List LR1Item) (X : Nat) : List LR1Item :=
  let moved := items.filterMap fun (p, d, a) =>
    if c.g.rhsAt p d == some X then some (p, d + 1, a) else none
  closure c (closureFuel c) (setOf moved)

def symbolsAfterDot (c : Ctx) (items : List LR1Item) : List Nat :=
  setOf (items.filterMap fun (p, d, _) => c.g.rhsAt p d)

structure Automaton where
  states : Array (List LR1Item)
  trans : List (Nat × Nat × Nat)       -- (from, symbol, to)
deriving Inhabited

/-- worklist construction of the collection of sets of LR(1) items -/
def buildLoop (c : Ctx) : Nat → Nat → Automaton → Automaton
  | 0, _, au => au
  | fuel+1, i, au =>
    match au.states[i]? with
    | none => au
    | some items =>
      let au := (symbolsAfterDot c items).foldl (fun (au : Automaton) X =>
        let tgt := gotoSet c items X
        match au.states.toList.findIdx? (· == tgt) with
        | some j => { au with trans := au.trans ++ [(i, X, j)] }
        | none => { states := au.states.push tgt, trans := au.trans ++ [(i, X, au.states.size)] }) au
      buildLoop c fuel (i + 1) au

/-- canonical LR(1) automaton started from `[aug → . rhs, STOP]` -/
def build (g : Grammar) (aug : Nat) (fuel : Nat) : Automaton :=
  let c := mkCtx g
  let start := closure c (closureFuel c) [(aug, 0, 0)]
  buildLoop c fuel 0 { states := #[start], trans := [] }

def Automaton.goto (au : Automaton) (q X : Nat) : Option Nat :=
  (au.trans.find? fun (f, s, _) => f == q && s == X).map (·.2.2)

end Canon

/-! ## Cover check -/

namespace Cover

def coreOf (items : List LR1Item) : List (Nat × Nat) := setOf (items.map fun (p, d, _) => (p, d))
def tableCore (st : State) : List (Nat × Nat) := setOf (st.items.map fun it => (it.prod, it.dot))

/-- transition of the table on symbol X (terminal: the unique shift in the cell; nonterminal: goto) -/
def tableTrans (g : Grammar) (t : Table) (s X : Nat) : Option Nat :=
  if X < g.nterms then
    (t.cell s X).findSome? fun a =>
      match a with
      | .shift s' => some s'
      | _ => none
  else t.goto g s X

def tableSymbols (g : Grammar) (t : Table) (s : Nat) : List Nat :=
  setOf ((List.range (g.nterms + g.nnonterms)).filter fun X => (tableTrans g t s X).isSome)

def canonSymbols (au : Canon.Automaton) (q : Nat) : List Nat :=
  setOf ((au.trans.filter fun (f, _, _) => f == q).map (·.2.1))

/-- pairs reachable from `(q0, s0)` following equal symbols; `none` if the two automata disagree on
    the symbols leaving a related pair or a transition is missing -/
def relLoop (g : Grammar) (t : Table) (au : Canon.Automaton) :
    Nat → List (Nat × Nat) → List (Nat × Nat) → Option (List (Nat × Nat))
  | 0, _, _ => none
  | _+1, [], done => some done
  | fuel+1, (q, s) :: todo, done =>
    if done.contains (q, s) then relLoop g t au fuel todo done
    else
      let syms := canonSymbols au q
      if syms != tableSymbols g t s then none
      else
        let next := syms.filterMap fun X =>
          match au.goto q X, tableTrans g t s X with
          | some q', some s' => some (q', s')
          | _, _ => none
        if next.length != syms.length then none
        else relLoop g t au fuel (todo ++ next) ((q, s) :: done)

def lookaheadsOf (items : List LR1Item) (p d : Nat) : List Nat :=
  setOf (items.filterMap fun (p', d', a) => if p' == p && d' == d then some a else none)

/-- expected cell content as a set, from items and lookaheads of the table state itself -/
def expectedCell (g : Grammar) (t : Table) (s : Nat) (st : State) (a : Nat) (rn : Bool) : List Action :=
  let shift := match tableTrans g t s a with
    | some s' => if st.items.any (fun it => g.rhsAt it.prod it.dot == some a) then [Action.shift s'] else []
    | none => []
  let nul := Canon.nullable g
  let reds := st.items.filterMap fun it =>
    if !it.la.contains a then none
    else if g.isAug it.prod then
      (if it.dot == g.prodLen it.prod && a == 0 then some Action.accept else none)
    else if it.dot == g.prodLen it.prod then some (Action.reduce it.prod it.dot)
    else if rn && (match g.prods[it.prod]? with
                   | some pr => (pr.rhs.drop it.dot).all (fun X => nul.contains X)
                   | none => false) then some (Action.reduce it.prod it.dot)
    else none
  shift ++ reds

def actionKey : Action → Nat × Nat × Nat
  | .shift s => (0, s, 0)
  | .reduce p l => (1, p, l)
  | .accept => (2, 0, 0)

def sameActions (a b : List Action) : Bool :=
  setOf (a.map actionKey) == setOf (b.map actionKey) && a.length == b.length

/-- `s` is related to some canonical state -/
def relStates (rel : List (Nat × Nat)) : List Nat := setOf (rel.map (·.2))

def pairOk (g : Grammar) (t : Table) (au : Canon.Automaton) (rel : List (Nat × Nat)) (q s : Nat) : Bool :=
  -- the two automata leave the pair on exactly the same symbols …
  (canonSymbols au q == tableSymbols g t s) &&
  -- … and every pair of targets is related again
  ((canonSymbols au q).all fun X =>
    match au.goto q X, tableTrans g t s X with
    | some q', some s' => rel.contains (q', s')
    | _, _ => false) &&
  -- equal item cores
  (match t.states[s]? with
   | some st => coreOf (au.states.getD q []) == tableCore st
   | none => false)

def stateOk (g : Grammar) (t : Table) (au : Canon.Automaton) (rel : List (Nat × Nat)) (rn : Bool) (s : Nat) : Bool :=
  match t.states[s]? with
  | none => false
  | some st =>
    let qs := (rel.filter (·.2 == s)).map (·.1)
    -- lookaheads: nothing lost, nothing invented
    (st.items.all fun it =>
      setOf it.la == setOf (qs.flatMap fun q => lookaheadsOf (au.states.getD q []) it.prod it.dot)) &&
    -- cells are exactly what items and lookaheads prescribe
    ((List.range g.nterms).all fun a => sameActions (t.cell s a) (expectedCell g t s st a rn))

/-- the certificate check proper: `rel` is a candidate relation (computed by `relLoop`, untrusted) -/
def verify (g : Grammar) (t : Table) (au : Canon.Automaton) (rel : List (Nat × Nat)) (s0 : Nat) (rn : Bool) : Bool :=
  rel.contains (0, s0) &&
  (rel.all fun (q, s) => pairOk g t au rel q s) &&
  ((relStates rel).all fun s => stateOk g t au rel rn s)

structure Report where
  ok : Bool
  why : String
  pairs : Nat := 0
  canonStates : Nat := 0
deriving Inhabited

/-- the whole check for the automaton started at table state `s0` with augmented production `aug` -/
def check (g : Grammar) (t : Table) (s0 aug : Nat) (rn : Bool) (fuel : Nat) : Report :=
  let au := Canon.build g aug fuel
  match relLoop g t au fuel [(0, s0)] [] with
  | none => { ok := false, why := "transition structure differs from canonical LR(1)", canonStates := au.states.size }
  | some rel =>
    let tableStates := setOf (rel.map (·.2))
    let bad := tableStates.findSome? fun s =>
      match t.states[s]? with
      | none => some s!"state {s} missing"
      | some st =>
        let qs := (rel.filter (·.2 == s)).map (·.1)
        let cores := qs.all fun q => Cover.coreOf (au.states.getD q []) == tableCore st
        if !cores then some s!"state {s}: item core differs from a canonical state it stands for"
        else
          let laBad := st.items.find? fun it =>
            let union := setOf (qs.flatMap fun q => lookaheadsOf (au.states.getD q []) it.prod it.dot)
            setOf it.la != union
          match laBad with
          | some it => some s!"state {s} item ({it.prod},{it.dot}): lookaheads {it.la} != union of canonical"
          | none =>
            let cellBad := (List.range g.nterms).find? fun a =>
              !sameActions (t.cell s a) (expectedCell g t s st a rn)
            match cellBad with
            | some a => some s!"state {s} terminal {a}: cell differs from what items and lookaheads prescribe"
            | none => none
    let v := verify g t au rel s0 rn
    match bad with
    | some w => { ok := false, why := w, pairs := rel.length, canonStates := au.states.size }
    | none => { ok := v, why := if v then "" else "Cover.verify fails", pairs := rel.length, canonStates := au.states.size }

end Cover
end Rustemo
