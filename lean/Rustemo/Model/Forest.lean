/-!
# The shared packed parse forest and its enumeration (`rustemo/src/glr/gss.rs:285-720`)

`SNode` = `SPPFTree` (Term / NonTerm with parent links / Empty), `Parent` = `Parent` (a packed list of
possibilities).  `solutions`, `get` transcribe `SPPFTree::solutions`, `Parent::solutions`,
`Forest::solutions`, `Tree::find_tree_root`, `Tree::children` (weighted mixed-radix decoding of the
tree index) and `Tree::build`; `all` is the specification: the canonical enumeration (possibilities in
order, children as a lexicographic product).  The SPPF is an inductive value, i.e. acyclic — the
scope "no cyclic derivations"; sharing is unfolded.
-/
namespace Rustemo.Forest

inductive FTree where
  | leaf (kind : Nat) (start : Nat) : FTree
  | node (prod : Nat) (cs : List FTree) : FTree
deriving Repr, Inhabited

mutual
inductive SNode where
  | term (kind : Nat) (start : Nat) : SNode
  | nonterm (prod : Nat) (children : PList) : SNode
  | empty : SNode
inductive Parent where
  | mk (poss : NList) : Parent
inductive NList where
  | nil : NList
  | cons (n : SNode) (ns : NList) : NList
inductive PList where
  | nil : PList
  | cons (p : Parent) (ps : PList) : PList
end

mutual
def SNode.solutions : SNode → Nat
  | .term _ _ => 1
  | .nonterm _ cs => cs.prod
  | .empty => 0
def Parent.solutions : Parent → Nat
  | .mk ns => ns.sum
def NList.sum : NList → Nat
  | .nil => 0
  | .cons n ns => n.solutions + ns.sum
def PList.prod : PList → Nat
  | .nil => 1
  | .cons p ps => p.solutions * ps.prod
end

/-! the specification: every tree of the forest, in canonical order -/
mutual
def SNode.all : SNode → List FTree
  | .term k s => [.leaf k s]
  | .nonterm p cs => cs.all.map (FTree.node p)
  | .empty => []
def Parent.all : Parent → List FTree
  | .mk ns => ns.all
def NList.all : NList → List FTree
  | .nil => []
  | .cons n ns => n.all ++ ns.all
def PList.all : PList → List (List FTree)
  | .nil => [[]]
  | .cons p ps => p.all.flatMap (fun t => ps.all.map (fun ts => t :: ts))
end

/-! `Tree::children` + `find_tree_root` + `build`; `none` = index out of range (at the root:
`get_tree` returns `None`; below the root: "Tree index must be valid." / division by zero) -/
mutual
def SNode.get : SNode → Nat → Option FTree
  | .term k s, _ => some (.leaf k s)
  | .nonterm p cs, i => (cs.get i).map (FTree.node p)
  | .empty, _ => none
def Parent.get : Parent → Nat → Option FTree
  | .mk ns, i => ns.get i
def NList.get : NList → Nat → Option FTree      -- find_tree_root: subtract solutions until the index fits
  | .nil, _ => none
  | .cons n ns, i => if i < n.solutions then n.get i else ns.get (i - n.solutions)
def PList.get : PList → Nat → Option (List FTree)   -- weighted numbering: factor = product of the weights to the right
  | .nil, _ => some []
  | .cons p ps, i =>
    let factor := ps.prod
    match p.get (i / factor), ps.get (i % factor) with
    | some t, some ts => some (t :: ts)
    | _, _ => none
end

/-- `Forest`: the root possibilities -/
structure Forest where
  roots : NList

def Forest.solutions (f : Forest) : Nat := f.roots.sum
def Forest.getTree (f : Forest) (i : Nat) : Option FTree := f.roots.get i
def Forest.allTrees (f : Forest) : List FTree := f.roots.all
/-- `Forest::iter`: `get_tree(0), get_tree(1), …` until `None` (fuel = number of steps allowed) -/
def Forest.iterate (f : Forest) : Nat → Nat → List FTree
  | 0, _ => []
  | fuel+1, i =>
    match f.getTree i with
    | some t => t :: f.iterate fuel (i + 1)
    | none => []

/-! ## rendering and reading the runtime hook's forest dump -/

partial def FTree.render : FTree → String
  | .leaf k s => s!"(T{k}@{s})"
  | .node p cs => "(N" ++ toString p ++ String.join (cs.map FTree.render) ++ ")"

inductive Rec where
  | term (kind start : Nat)
  | nonterm (prod : Nat) (parents : List Nat)
  | empty
deriving Inhabited

structure DumpF where
  roots : List Nat := []
  nodes : List (Nat × Rec) := []
  parents : List (Nat × List Nat) := []

def natOf' (s : String) : Nat := s.toNat?.getD 0

def parseDump (s : String) : DumpF :=
  (s.splitOn "|").foldl (fun d r =>
    match (r.splitOn " ").filter (· ≠ "") with
    | "roots" :: rs => { d with roots := rs.map natOf' }
    | "T" :: id :: kind :: start :: _ => { d with nodes := (natOf' id, .term (natOf' kind) (natOf' start)) :: d.nodes }
    | "N" :: id :: prod :: _ :: _ :: ps => { d with nodes := (natOf' id, .nonterm (natOf' prod) (ps.map natOf')) :: d.nodes }
    | "E" :: id :: _ => { d with nodes := (natOf' id, .empty) :: d.nodes }
    | "P" :: id :: ns => { d with parents := (natOf' id, ns.map natOf') :: d.parents }
    | _ => d) {}

def listToN : List SNode → NList
  | [] => .nil
  | n :: ns => .cons n (listToN ns)
def listToP : List Parent → PList
  | [] => .nil
  | p :: ps => .cons p (listToP ps)

/-- unfold the DAG into the inductive SPPF (fuel bounds the depth) -/
def buildNode (d : DumpF) : Nat → Nat → SNode
  | 0, _ => .empty
  | fuel+1, id =>
    match ((d.nodes.find? (·.1 == id)).map (·.2) : Option Rec) with
    | some (Rec.term k s) => .term k s
    | some (Rec.nonterm p ps) =>
      .nonterm p (listToP (ps.map fun pid =>
        match (d.parents.find? (·.1 == pid)).map (·.2) with
        | some ns => Parent.mk (listToN (ns.map (buildNode d fuel)))
        | none => Parent.mk .nil))
    | some Rec.empty => .empty
    | none => .empty

def buildForest (d : DumpF) : Forest :=
  ⟨listToN (d.roots.map (buildNode d (d.nodes.length + 2)))⟩

end Rustemo.Forest

namespace Rustemo.Forest

mutual
def SNode.wfB : SNode → Bool
  | .term _ _ => true
  | .nonterm _ cs => cs.wfB
  | .empty => true
def Parent.wfB : Parent → Bool
  | .mk ns => decide (0 < ns.sum) && ns.wfB
def NList.wfB : NList → Bool
  | .nil => true
  | .cons n ns => n.wfB && ns.wfB
def PList.wfB : PList → Bool
  | .nil => true
  | .cons p ps => p.wfB && ps.wfB
end

/-- driver: `forest <dump>` → `<solutions> wf=<b> trees <idx>=<tree> ; …` for the first 40 indexes and
    the two indexes from `solutions` on -/
def handleForest (args : String) : String :=
  let f := buildForest (parseDump args)
  let n := f.solutions
  let k := min n 40
  let idxs := (List.range k) ++ [n, n + 1]
  let body := idxs.map fun i =>
    match f.getTree i with
    | some t => s!" {i}={t.render} ;"
    | none => s!" {i}=none ;"
  let allOk := (f.allTrees.take k).map FTree.render == ((List.range k).filterMap f.getTree).map FTree.render
  s!"{n} wf={if f.roots.wfB then 1 else 0} all={if allOk then 1 else 0} trees" ++ String.join body

end Rustemo.Forest
