import Rustemo.Model.Basic
/-!
# Certificates: executable validators run on the table the real compiler produced (Tie B)

Nothing here mirrors Rust code; these are checkers in the style of Jourdan–Pottier–Leroy,
"Validating LR(1) parsers".  Their soundness is proved in `Proofs/Cert*.lean`.
-/
namespace Rustemo

def Grammar.rhsAt (g : Grammar) (p d : Nat) : Option Nat :=
  match g.prods[p]? with
  | some pr => pr.rhs[d]?
  | none => none

def Grammar.prodLen (g : Grammar) (p : Nat) : Nat :=
  match g.prods[p]? with
  | some pr => pr.rhs.length
  | none => 0

/-- augmented productions: AUG and AUGL (their completed items accept instead of reducing) -/
def Grammar.isAug (g : Grammar) (p : Nat) : Bool :=
  match g.prods[p]? with
  | some pr => pr.lhs == g.augIdx || some pr.lhs == g.auglIdx
  | none => false

/-- number of candidate actions of state `st` on terminal `a`, computed from the items and
    lookaheads alone (not from the resolved cells) -/
def State.rawCandidates (g : Grammar) (st : State) (a : Nat) : Nat :=
  let shift := if st.items.any (fun it => g.rhsAt it.prod it.dot == some a) then 1 else 0
  let reduces := (st.items.filter (fun it =>
      it.dot == g.prodLen it.prod && it.la.contains a)).length
  shift + reduces

/-- no cell ever had two candidates: no priority / associativity / prefer-shift choice exercised -/
def Table.rawDeterministic (g : Grammar) (t : Table) : Bool :=
  t.states.all fun st => (List.range g.nterms).all fun a => st.rawCandidates g a ≤ 1

end Rustemo

namespace Rustemo

/-! ## The structural certificate (no lookaheads involved) -/

def Table.forStates (t : Table) (f : Nat → State → Bool) : Bool :=
  (List.range t.states.size).all fun i =>
    match t.states[i]? with
    | some st => f i st
    | none => true

def State.forCells (st : State) (f : Nat → Action → Bool) : Bool :=
  (List.range st.actions.size).all fun a => (st.actions.getD a []).all (f a)

def State.forGotos (st : State) (f : Nat → Nat → Bool) : Bool :=
  (List.range st.gotos.size).all fun j =>
    match st.gotos.getD j none with
    | some s' => f j s'
    | none => true

def State.hasItemB (st : State) (p d : Nat) : Bool :=
  st.items.any fun it => it.prod == p && it.dot == d

/-- every item of the target state `s'` with the dot after a symbol comes from an item of `st`
    with the dot before `X`, and that symbol is `X` -/
def Table.targetOk (g : Grammar) (t : Table) (st : State) (X s' : Nat) : Bool :=
  match t.states[s']? with
  | none => true
  | some st' =>
    st'.items.all fun it =>
      it.dot == 0 || (g.rhsAt it.prod (it.dot - 1) == some X && st.hasItemB it.prod (it.dot - 1))

def Cert.structural (g : Grammar) (t : Table) (autos : List Auto) : Bool :=
  -- item_prod
  (t.forStates fun _ st => st.items.all fun it =>
      match g.prods[it.prod]? with
      | some pr => it.dot ≤ pr.rhs.length
      | none => false) &&
  -- start_items, aug_start_only
  (t.forStates fun i st => st.items.all fun it => autos.all fun a =>
      (i != a.start || it.dot == 0) && (i == a.start || !(it.prod == a.aug && it.dot == 0))) &&
  -- no_into_start, shift_term, target_items (terminals), reduce_item, accept_item
  (t.forStates fun _ st =>
      decide (st.actions.size ≤ g.nterms) &&
      st.forCells fun a act =>
        match act with
        | .shift s' => (autos.all fun au => s' != au.start) && t.targetOk g st a s'
        | .reduce p len =>
          st.hasItemB p len &&
          (match g.prods[p]? with
           | some pr => pr.rhs.length == len
           | none => false)
        | .accept =>
          autos.any fun au =>
            (match g.prods[au.aug]? with
             | some pr => pr.rhs == [au.sym]
             | none => false) && st.hasItemB au.aug 1) &&
  -- gotos: no_into_start, target_items (nonterminals)
  (t.forStates fun _ st => st.forGotos fun j s' =>
      (autos.all fun au => s' != au.start) && t.targetOk g st (g.nterms + j) s') &&
  -- distinct start states
  (autos.all fun a => autos.all fun b => a.start != b.start || decide (a = b))

end Rustemo

namespace Rustemo

/-- STOP is never shifted (it only ever appears as a lookahead) -/
def Cert.noShiftStop (t : Table) : Bool :=
  t.forStates fun _ st => (st.actions.getD 0 []).all fun a =>
    match a with
    | .shift _ => false
    | _ => true

end Rustemo

namespace Rustemo

/-- goto is defined wherever a reduction can land, no reduction by an augmented production, every
    state offers at least one token (so `error_expected` never sees an empty list), every shift /
    goto target and the start state exist -/
def Cert.total (g : Grammar) (t : Table) (start : Nat) : Bool :=
  decide (start < t.states.size) &&
  (t.forStates fun i st =>
    !st.sorted.isEmpty &&
    (st.items.all fun it =>
      it.dot != 0 || g.isAug it.prod ||
      (match g.prods[it.prod]? with
       | some pr => (t.goto g i pr.lhs).isSome
       | none => false)) &&
    (st.forCells fun _ act =>
      match act with
      | .shift s' => decide (s' < t.states.size)
      | .reduce p _ => !g.isAug p
      | .accept => true) &&
    (st.forGotos fun _ s' => decide (s' < t.states.size)))

end Rustemo

namespace Rustemo

/-- production index of the layout automaton's augmented production (`AUGL: Layout`) -/
def Grammar.auglProd (g : Grammar) : Option Nat :=
  (List.range g.prods.size).find? fun p =>
    match g.prods[p]? with
    | some pr => some pr.lhs == g.auglIdx
    | none => false

/-- the automata of a table: the main one, and the layout automaton if the grammar has a Layout rule -/
def autosOf (g : Grammar) (t : Table) : List Auto :=
  ⟨0, 0, g.startIdx⟩ ::
    (match t.layoutState, g.auglProd with
     | some ls, some augl =>
       (match g.prods[augl]? with
        | some pr =>
          (match pr.rhs with
           | [lsym] => [⟨ls, augl, lsym⟩]
           | _ => [])
        | none => [])
     | _, _ => [])

/-- everything the LR soundness / no-panic theorems ask of a real table -/
def Cert.lr (g : Grammar) (t : Table) : Bool :=
  Cert.structural g t (autosOf g t) && Cert.total g t 0 &&
  (match t.layoutState with
   | none => true
   | some ls => (autosOf g t).any (fun au => au.start == ls) && Cert.total g t ls)

end Rustemo
