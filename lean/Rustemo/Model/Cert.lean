import Rustemo.Model.Basic
/-!
# Certificates: executable validators run on the table the real compiler produced (Tie B)

Nothing here mirrors Rust code; these are checkers in the style of Jourdan–Pottier–Leroy,
"Validating LR(1) parsers".  Their soundness is proved in `Proofs/Cert*.lean`.
-/
namespace Rustemo

def Grammar.rhsAt (g : Grammar) (p d : Nat) : Option Nat :=
  match g.prods[p]? with
  | some pr => pr.rhs[d]?
  | none => none

def Grammar.prodLen (g : Grammar) (p : Nat) : Nat :=
  match g.prods[p]? with
  | some pr => pr.rhs.length
  | none => 0

/-- augmented productions: AUG and AUGL (their completed items accept instead of reducing) -/
def Grammar.isAug (g : Grammar) (p : Nat) : Bool :=
  match g.prods[p]? with
  | some pr => pr.lhs == g.augIdx || some pr.lhs == g.auglIdx
  | none => false

/-- number of candidate actions of state `st` on terminal `a`, computed from the items and
    lookaheads alone (not from the resolved cells) -/
def State.rawCandidates (g : Grammar) (st : State) (a : Nat) : Nat :=
  let shift := if st.items.any (fun it => g.rhsAt it.prod it.dot == some a) then 1 else 0
  let reduces := (st.items.filter (fun it =>
      it.dot == g.prodLen it.prod && it.la.contains a)).length
  shift + reduces

/-- no cell ever had two candidates: no priority / associativity / prefer-shift choice exercised -/
def Table.rawDeterministic (g : Grammar) (t : Table) : Bool :=
  t.states.all fun st => (List.range g.nterms).all fun a => st.rawCandidates g a ≤ 1

end Rustemo
