import Rustemo.Model.Glr
/-!
# Per-input certificate for "no duplicates" (executable part)

`possFactsB` is the Boolean form of `Glr.PossFacts` (`Proofs/GlrNoDup4.lean`, soundness `possFactsB_sound`): the three
facts about the possibility lists of a result graph that `C03_engine_no_duplicates_from_poss_facts` assumes.  It lives in
a model file (no proof imports) so that the native driver can evaluate it on the result of every parse (`glr nodup`).
-/
namespace Rustemo.Glr
open Rustemo

/-- executable `PossFacts` -/
def possFactsB (g : Gss) : Bool :=
  g.edges.toList.all fun ed =>
    decide ed.poss.Nodup &&
    ed.poss.all fun n => ed.poss.all fun n' =>
      n == n' ||
      (match g.nodes[n]?, g.nodes[n']? with
       | some (.term _ _), some (.term _ _) => false
       | some (.nonterm p _ _ C), some (.nonterm p' _ _ C') => p != p' || !(zipEq C C')
       | _, _ => true)

end Rustemo.Glr
