/-!
# Regen — model of `generate_parser_actions` (regeneration of `<grammar>_actions.rs`)

Mirrors `rustemo-compiler/src/generator/actions/mod.rs:61-202` and the `force` /
`actions_in_source_tree` / `in_source_tree` / `actions` builder methods of
`rustemo-compiler/src/settings.rs:188-208, 339-343, 359-364`.

An actions file is a list of top-level items.  Only three things of an item are visible to the
generator (`mod.rs:104-136`): whether it is an `enum`/`struct`/`type` (its identifier goes into
`type_names`), a `fn` (its identifier goes into `action_names`) or anything else (ignored), and its
identifier.  The token stream of the item is opaque (`tokens`).

What the generator wants to exist for a grammar (`needed`) is a list of *guarded groups*, exactly as
the Rust code guards its `push`es:

* `Group.ty i`   — the type alias of a terminal (`mod.rs:151-156`), pushed iff `i.name ∉ type_names`;
* `Group.act i`  — the action fn of a terminal (`mod.rs:158-163`) or of one production
                   (`mod.rs:182-189`), pushed iff `i.name ∉ action_names`;
* `Group.nt g is` — ALL types `nonterminal_types` returns for one nonterminal (`production.rs:163-313`;
                   several items for optional / enum-with-struct-variants / `builder_loc_info` shapes),
                   guarded by the single test `!type_names.contains(&nonterminal.name)` (`mod.rs:174`).

The name sets are computed once from the starting AST (`mod.rs:105-136`) and are not updated while
items are pushed.

`Variant.asIs` is the code as it is; `Variant.fixed` is the code after `notes/C18-fix-1.diff`
(inside the nonterminal guard every type item is additionally filtered by its own identifier).
`repoVariant` says which one `/repo` currently contains — the ONE definition to change when the fix
is committed.  Import-free (core only).
-/
namespace Rustemo.Regen

inductive Kind where
  | enum | struct | type | fn | other
deriving DecidableEq, Repr, Inhabited

def Kind.isType : Kind → Bool
  | .enum => true
  | .struct => true
  | .type => true
  | .fn => false
  | .other => false

def Kind.isFn : Kind → Bool
  | .fn => true
  | .enum => false
  | .struct => false
  | .type => false
  | .other => false

structure Item where
  kind : Kind
  name : String
  tokens : String
deriving DecidableEq, Repr, Inhabited

/-- `type_names` of `mod.rs:105-136` (a `BTreeSet`; only membership is ever used). -/
def typeNames (l : List Item) : List String :=
  (l.filter (fun i => i.kind.isType)).map (·.name)

/-- `action_names` of `mod.rs:106-127`. -/
def fnNames (l : List Item) : List String :=
  (l.filter (fun i => i.kind.isFn)).map (·.name)

inductive Group where
  | ty (item : Item)
  | act (item : Item)
  | nt (guard : String) (items : List Item)
deriving Repr, Inhabited

def Group.items : Group → List Item
  | .ty i => [i]
  | .act i => [i]
  | .nt _ is => is

/-- every item the generator can produce, in generation order -/
def allItems (n : List Group) : List Item := n.flatMap Group.items

inductive Variant where
  | asIs | fixed
deriving DecidableEq, Repr, Inhabited

/-- Which variant `/repo` contains now.  `asIs` = commit 4a75a47's `mod.rs`; switch to `fixed` when
    `notes/C18-fix-1.diff` is applied. -/
def repoVariant : Variant := .fixed

/-- the body of the `for ty in nonterminal_types(..)` loop (`mod.rs:176-178`) -/
def ownFilter (v : Variant) (tn : List String) (items : List Item) : List Item :=
  match v with
  | .asIs => items
  | .fixed => items.filter (fun i => !(i.kind.isType && decide (i.name ∈ tn)))

/-- what one guarded group pushes, given the name sets collected before generation -/
def Group.emit (v : Variant) (tn fn : List String) : Group → List Item
  | .ty i => if i.name ∈ tn then [] else [i]
  | .act i => if i.name ∈ fn then [] else [i]
  | .nt g is => if g ∈ tn then [] else ownFilter v tn is

/-- `mod.rs:143-190`: everything pushed after the starting AST -/
def gen (v : Variant) (tn fn : List String) (n : List Group) : List Item :=
  n.flatMap (Group.emit v tn fn)

/-- `mod.rs:104-190` on a starting AST -/
def regen (v : Variant) (ast : List Item) (n : List Group) : List Item :=
  ast ++ gen v (typeNames ast) (fnNames ast) n

/-- the actions file on disk before the run -/
inductive FileState where
  | absent
  | unparsable
  | parsed (items : List Item)
deriving Repr, Inhabited

/-- `mod.rs:71-102`: `none` = `syn::parse_file` failed (`?` returns the error, nothing is written);
    `hdr` is the freshly created file (uses, `Input`, `Ctx`, `Token`). -/
def start (hdr : List Item) (fs : FileState) (force : Bool) : Option (List Item) :=
  match fs, force with
  | .absent, _ => some hdr
  | _, true => some hdr
  | .unparsable, false => none
  | .parsed e, false => some e

inductive Result where
  | written (items : List Item)
  | untouched              -- `settings.actions == false`: `generate_parser_actions` is not called
  | parseError             -- `Err`, file untouched
deriving Repr, Inhabited

def finish (v : Variant) (n : List Group) : Option (List Item) → Result
  | none => .parseError
  | some ast => .written (regen v ast n)

/-- `base.rs:642-645` + `generate_parser_actions` -/
def run (v : Variant) (hdr : List Item) (fs : FileState) (n : List Group) (force actions : Bool) :
    Result :=
  if actions then finish v n (start hdr fs force) else .untouched

/-- the file on disk after the run -/
def Result.after (fs : FileState) : Result → FileState
  | .written l => .parsed l
  | .untouched => fs
  | .parseError => fs

def Result.isErr : Result → Bool
  | .parseError => true
  | _ => false

/-! ## Settings builder (default builder type) -/

inductive SetOp where
  | force (b : Bool)
  | actionsInSourceTree
  | inSourceTree
  | actions (b : Bool)
deriving DecidableEq, Repr, Inhabited

structure Cfg where
  force : Bool := true            -- `settings.rs:146` "Overwriting actions by default"
  forceExplicit : Bool := false
  actions : Bool := true
deriving DecidableEq, Repr, Inhabited

def SetOp.apply (c : Cfg) : SetOp → Cfg
  | .force b => { c with force := b, forceExplicit := true }
  | .actionsInSourceTree => if c.forceExplicit then c else { c with force := false }
  | .inSourceTree => if c.forceExplicit then c else { c with force := false }
  | .actions b => { c with actions := b }

def cfgOf (ops : List SetOp) : Cfg := ops.foldl SetOp.apply {}

/-- `Settings::new().<ops>.process_grammar(..)` as far as the actions file is concerned -/
def process (v : Variant) (ops : List SetOp) (hdr : List Item) (fs : FileState) (n : List Group) :
    Result :=
  run v hdr fs n (cfgOf ops).force (cfgOf ops).actions

/-! ## Specification vocabulary (used by the property theorems; independent of `emit`) -/

/-- a generated item together with the guard of its group (`none`: guarded by its own name) -/
structure Entry where
  guard : Option String
  item : Item
deriving Repr, Inhabited

def Group.entries : Group → List Entry
  | .ty i => [⟨none, i⟩]
  | .act i => [⟨none, i⟩]
  | .nt g is => is.map (fun i => ⟨some g, i⟩)

/-- the item's identifier is already defined in its namespace -/
def Item.definedIn (tn fn : List String) (i : Item) : Bool :=
  (i.kind.isType && decide (i.name ∈ tn)) || (i.kind.isFn && decide (i.name ∈ fn))

def guardFree (tn : List String) : Option String → Bool
  | none => true
  | some g => !decide (g ∈ tn)

/-- An entry is *missing*: its own identifier is not defined and (for the types of a nonterminal)
    the user has not defined a type with the nonterminal's name — a user who defines `A` himself has
    taken over the representation of `A` (the calculator tutorial replaces all types of `E` by
    `pub type E = f32;`). -/
def Entry.isMissing (tn fn : List String) (x : Entry) : Bool :=
  !(x.item.definedIn tn fn) && guardFree tn x.guard

/-- THE SPEC: the sequence of all generated items, in generation order, keeping exactly the missing ones -/
def missing (e : List Item) (n : List Group) : List Item :=
  ((n.flatMap Group.entries).filter (Entry.isMissing (typeNames e) (fnNames e))).map (·.item)

/-- no identifier is defined twice in a namespace -/
def NoDupNames (l : List Item) : Prop := (typeNames l).Nodup ∧ (fnNames l).Nodup

instance (l : List Item) : Decidable (NoDupNames l) := by unfold NoDupNames; infer_instance

/-- well-formedness of one group as the real generator produces it: terminal types are type items,
    actions are fns, the types of a nonterminal are type items one of which carries its name -/
def Group.ok : Group → Bool
  | .ty i => i.kind.isType
  | .act i => i.kind.isFn
  | .nt g is => is.all (fun i => i.kind.isType) && decide (g ∈ is.map (·.name))

def NeededOk (n : List Group) : Prop := ∀ g ∈ n, g.ok = true

instance (n : List Group) : Decidable (NeededOk n) := by unfold NeededOk; infer_instance

/-- for every nonterminal either its name is defined or none of its types' names is:
    the hypothesis the `asIs` theorems need, and the class predicate of finding F17 (its negation) -/
def Group.closed (tn : List String) : Group → Bool
  | .nt g is => decide (g ∈ tn) || is.all (fun i => !decide (i.name ∈ tn))
  | _ => true

def GroupClosed (e : List Item) (n : List Group) : Prop := ∀ g ∈ n, g.closed (typeNames e) = true

instance (e : List Item) (n : List Group) : Decidable (GroupClosed e n) := by
  unfold GroupClosed; infer_instance

/-- the precondition under which variant `v` meets the specification -/
def Variant.Pre : Variant → List Item → List Group → Prop
  | .asIs, e, n => GroupClosed e n
  | .fixed, _, _ => True

instance (v : Variant) (e : List Item) (n : List Group) : Decidable (v.Pre e n) := by
  cases v <;> unfold Variant.Pre <;> infer_instance

end Rustemo.Regen
