import Rustemo.Model.Basic
/-!
# Conflict resolution: `LRTable::calculate_reductions` and the documented rule

`Resolve.addReduce` transcribes the body of the innermost loop of
`rustemo-compiler/src/table/mod.rs::LRTable::calculate_reductions` (one reducing item, one
lookahead terminal, one ACTION cell), including its three `assert!`s, the `BTreeMap` index
`state.max_prior_for_term[..]` and the `panic!("This should not happen…")` as explicit `.panic`
outcomes.  `Resolve.cell` is the whole history of one cell: the Shift/Accept produced by
`calc_states`, then the reducing items of the state that carry the terminal as lookahead, in
item order.  `Resolve.state` regroups the Rust loop (items outside, lookaheads inside) per cell
and also recomputes `max_prior_for_term` (`LRState::group_per_next_symbol`).

`Fixes` switches on the repairs proposed in `/verif/notes/C05-fix-*.diff`; `Fixes.current` is the
code that exists in /repo today and is the ONE definition to change when a repair lands.

`Doc.*` is the documented rule (docs/src/grammar_language.md "Disambiguation rules",
docs/src/handling_errors/handling_errors.md "Resolving LR conflicts", property C05), written
declaratively and independently of the algorithm above.
Import-free apart from `Model.Basic`.
-/
namespace Rustemo.Resolve

/-- Which repairs are applied to the modelled code. -/
structure Fixes where
  /-- C05-fix-1: terminal-level `left`/`reduce` keeps the reduction, `right`/`shift` the shift -/
  termAssoc : Bool
  /-- C05-fix-2: overriding a SHIFT removes just the SHIFT/ACCEPT instead of asserting `len == 1` -/
  noAssert : Bool
  /-- C05-fix-3: LR, equal priority: an empty reduction no longer evicts other empty reductions -/
  emptyRR : Bool
deriving DecidableEq, Repr

def Fixes.none : Fixes := ⟨false, false, false⟩
def Fixes.all : Fixes := ⟨true, true, true⟩
/-- The code as it is in /repo now.  Flip fields here when the corresponding fix commit lands. -/
def Fixes.current : Fixes := Fixes.all

/-- the three settings `calculate_reductions` reads -/
structure Cfg where
  glr : Bool
  ps : Bool      -- prefer_shifts
  pse : Bool     -- prefer_shifts_over_empty
deriving DecidableEq, Repr

/-- what resolution reads of a production -/
structure PInfo where
  prio : Nat := 10
  assoc : Assoc := .none
  len : Nat := 0        -- rhs length (`item.prod_len`, `prod.rhs.is_empty()`)
  nops : Bool := false
  nopse : Bool := false
deriving DecidableEq, Repr, Inhabited

/-- a reducing item: `Action::Reduce(item.prod, item.position)` -/
structure Red where
  prod : Nat
  pos : Nat
deriving DecidableEq, Repr, Inhabited

def siteShifts : String := "assert!(shifts.len() <= 1)"
def siteLen1Assoc : String := "assert!(actions.len() == 1) [assoc]"
def siteLen1Prio : String := "assert!(actions.len() == 1) [prio]"
def siteMaxPrior : String := "max_prior_for_term[&follow_term.idx]"
def siteNotReduce : String := "panic!(This should not happen)"

/-- `matches!(x, Action::Shift(_) | Action::Accept)` -/
def isShiftLike : Action → Bool
  | .shift _ => true
  | .accept => true
  | .reduce _ _ => false

/-- `matches!(x, Action::Reduce(..))` -/
def isReduce : Action → Bool
  | .reduce _ _ => true
  | _ => false

/-- `matches!(x, Action::Reduce(_, len) if *len == 0)` -/
def isEmptyReduce : Action → Bool
  | .reduce _ len => len == 0
  | _ => false

/-- outcome of the SHIFT/REDUCE part for the new reduction -/
inductive SR where
  | keepShift                 -- `should_reduce = false`
  | override (byPrio : Bool)  -- `assert!(actions.len() == 1); actions.pop()`
  | both                      -- shift stays, reduction goes on to the REDUCE/REDUCE part
deriving DecidableEq, Repr

/-- the `match (&prod.assoc, &follow_term.assoc)` of table/mod.rs:814 as it is today:
    first arm `(Left, None) | (_, Right)`, second arm `(Right, None) | (_, Left)`. -/
def assocArmsToday (pa ta : Assoc) : Option SR :=
  match pa, ta with
  | .left, .none => some (.override false)
  | _, .right => some (.override false)
  | .right, .none => some .keepShift
  | _, .left => some .keepShift
  | .none, .none => none

/-- the same match with the terminal-level arms swapped (C05-fix-1) -/
def assocArmsFixed (pa ta : Assoc) : Option SR :=
  match pa, ta with
  | .left, .none => some (.override false)
  | _, .left => some (.override false)
  | .right, .none => some .keepShift
  | _, .right => some .keepShift
  | .none, .none => none

def assocArms (fx : Fixes) (pa ta : Assoc) : Option SR :=
  if fx.termAssoc then assocArmsFixed pa ta else assocArmsToday pa ta

/-- `prod_pse || prod_ps` -/
def preferShift (cfg : Cfg) (i : PInfo) : Bool :=
  let empty := i.len == 0
  (empty && cfg.pse && !i.nopse) || (!empty && cfg.ps && !i.nops)

def srOfAssoc (cfg : Cfg) (i : PInfo) : Option SR → SR
  | some d => d
  | none => if preferShift cfg i then .keepShift else .both

/-- `match prod.prio.cmp(&shift_prio)` -/
def srDecide (fx : Fixes) (cfg : Cfg) (i : PInfo) (ta : Assoc) (ord : Ordering) : SR :=
  match ord with
  | .lt => .keepShift
  | .eq => srOfAssoc cfg i (assocArms fx i.assoc ta)
  | .gt => .override true

/-- priority of an existing REDUCE (`self.grammar.productions[*prod].prio`) -/
def actPrio (info : Nat → PInfo) : Action → Nat
  | .reduce p _ => (info p).prio
  | _ => 0

/-- the LR-only "non-empty reductions are preferred over empty" branch -/
def rrLR (fx : Fixes) (prodLen : Nat) (new : Action) (reduces cell : List Action) : List Action :=
  if fx.emptyRR then
    if prodLen > 0 then cell.filter (fun a => !isEmptyReduce a) ++ [new]
    else if reduces.all isEmptyReduce then cell ++ [new]
    else cell
  else
    let c := cell.filter (fun a => !isEmptyReduce a)
    if prodLen > 0 || c.isEmpty then c ++ [new] else c

/-- the `if should_reduce { … }` part: REDUCE/REDUCE resolution. `reduces` was computed from
    the cell before a SHIFT was popped; `cell` is the current content. -/
def rrStep (fx : Fixes) (cfg : Cfg) (info : Nat → PInfo) (r : Red)
    (reduces cell : List Action) : List Action :=
  let new := Action.reduce r.prod r.pos
  let i := info r.prod
  if reduces.isEmpty then cell ++ [new]
  else
    let ps := reduces.map (actPrio info)
    if ps.all (fun x => i.prio < x) then cell
    else if ps.all (fun x => i.prio > x) then cell.filter (fun a => !isReduce a) ++ [new]
    else if cfg.glr then cell ++ [new]
    else rrLR fx i.len new reduces cell

/-- `match shift { Accept => DEFAULT_PRIORITY, _ => state.max_prior_for_term[..] }` -/
def shiftPrio (sp : Option Nat) : Action → Option Nat
  | .accept => some 10
  | _ => sp

/-- effect of "Override SHIFT with this REDUCE" on the cell -/
def overrideShift (fx : Fixes) (byPrio : Bool) (cell : List Action) : Outcome (List Action) :=
  if fx.noAssert then .ok (cell.filter (fun a => !isShiftLike a))
  else if cell.length == 1 then .ok cell.dropLast
  else .panic (if byPrio then siteLen1Prio else siteLen1Assoc)

def afterOverride (fx : Fixes) (cfg : Cfg) (info : Nat → PInfo) (r : Red)
    (reduces : List Action) : Outcome (List Action) → Outcome (List Action)
  | .ok c => .ok (rrStep fx cfg info r reduces c)
  | .panic s => .panic s
  | .err e => .err e
  | .fuel => .fuel

def applySR (fx : Fixes) (cfg : Cfg) (info : Nat → PInfo) (r : Red)
    (reduces cell : List Action) : SR → Outcome (List Action)
  | .keepShift => .ok cell
  | .both => .ok (rrStep fx cfg info r reduces cell)
  | .override byPrio => afterOverride fx cfg info r reduces (overrideShift fx byPrio cell)

def withShift (fx : Fixes) (cfg : Cfg) (info : Nat → PInfo) (ta : Assoc) (r : Red)
    (reduces cell : List Action) : Option Nat → Outcome (List Action)
  | none => .panic siteMaxPrior
  | some shp =>
    applySR fx cfg info r reduces cell (srDecide fx cfg (info r.prod) ta (compare (info r.prod).prio shp))

def onShift (fx : Fixes) (cfg : Cfg) (info : Nat → PInfo) (ta : Assoc) (sp : Option Nat) (r : Red)
    (reduces cell : List Action) : Option Action → Outcome (List Action)
  | none => .ok (rrStep fx cfg info r reduces cell)
  | some sh => withShift fx cfg info ta r reduces cell (shiftPrio sp sh)

/-- One reducing item `r` meets the cell of one of its lookahead terminals
    (table/mod.rs:777-901).  `ta` is the terminal's associativity, `sp` the state's
    `max_prior_for_term` entry of the terminal. -/
def addReduce (fx : Fixes) (cfg : Cfg) (info : Nat → PInfo) (ta : Assoc) (sp : Option Nat)
    (r : Red) (cell : List Action) : Outcome (List Action) :=
  if cell.isEmpty then .ok [.reduce r.prod r.pos]
  else
    let shifts := cell.filter isShiftLike
    let reduces := cell.filter (fun a => !isShiftLike a)
    if shifts.length > 1 then .panic siteShifts
    else if !reduces.all isReduce then .panic siteNotReduce
    else onShift fx cfg info ta sp r reduces cell shifts.head?

/-- what happens to a cell, in item order -/
inductive Ev where
  | accept              -- the completed augmented item: `actions.push(Action::Accept)`, no resolution
  | red (r : Red)
deriving DecidableEq, Repr

def step (fx : Fixes) (cfg : Cfg) (info : Nat → PInfo) (ta : Assoc) (sp : Option Nat)
    (cell : List Action) : Ev → Outcome (List Action)
  | .accept => .ok (cell ++ [.accept])
  | .red r => addReduce fx cfg info ta sp r cell

def bindO {α β} : Outcome α → (α → Outcome β) → Outcome β
  | .ok a, f => f a
  | .panic s, _ => .panic s
  | .err e, _ => .err e
  | .fuel, _ => .fuel

/-- history of one cell: `init` from `calc_states`, then the events in item order -/
def cell (fx : Fixes) (cfg : Cfg) (info : Nat → PInfo) (ta : Assoc) (sp : Option Nat) :
    List Action → List Ev → Outcome (List Action)
  | c, [] => .ok c
  | c, e :: es => bindO (step fx cfg info ta sp c e) (fun c' => cell fx cfg info ta sp c' es)

/-! ## State level: the inputs of `cell` computed from the items of a state -/

def infoOf (g : Grammar) (p : Nat) : PInfo :=
  match g.prods[p]? with
  | some pr => { prio := pr.prio, assoc := pr.assoc, len := pr.rhs.length, nops := pr.nops, nopse := pr.nopse }
  | none => {}

/-- `LRItem::symbol_at_position` -/
def nextSym (g : Grammar) (it : Item) : Option Nat :=
  match g.prods[it.prod]? with
  | some pr => pr.rhs[it.dot]?
  | none => none

/-- `LRItem::is_reducing` (`rn` = `production_rn_lengths`, `none` unless LALR_RN) -/
def isReducing (g : Grammar) (rn : Option (Array Nat)) (it : Item) : Bool :=
  it.dot == (infoOf g it.prod).len ||
    match rn with
    | some a => (match a[it.prod]? with | some l => decide (l ≤ it.dot) | none => false)
    | none => false

def isAugProd (g : Grammar) (p : Nat) : Bool :=
  match g.prods[p]? with
  | some pr => pr.lhs == g.augIdx ||
      (match g.auglIdx with | some l => pr.lhs == l | none => false)
  | none => false

def maxOpt (a : Option Nat) (b : Nat) : Option Nat :=
  match a with
  | some x => some (max x b)
  | none => some b

/-- `max_prior_for_term[t]` as `group_per_next_symbol` computes it: the maximum priority of the
    productions of the items that have terminal `t` right of the dot -/
def maxPrior (g : Grammar) (items : List Item) (t : Nat) : Option Nat :=
  items.foldl (fun acc it => if nextSym g it == some t then maxOpt acc (infoOf g it.prod).prio else acc) none

/-- the cell as `calc_states` leaves it (shift target not modelled: always 0) -/
def initCell (g : Grammar) (items : List Item) (t : Nat) : List Action :=
  if items.any (fun it => nextSym g it == some t) then
    (if t == 0 then [Action.accept] else []) ++ [Action.shift 0]
  else []

def evOf (g : Grammar) (rn : Option (Array Nat)) (t : Nat) (it : Item) : Option Ev :=
  if !isReducing g rn it then none
  else if isAugProd g it.prod then
    (if t == 0 && it.dot == (infoOf g it.prod).len then some .accept else none)
  else if it.la.contains t then some (.red ⟨it.prod, it.dot⟩)
  else none

def events (g : Grammar) (rn : Option (Array Nat)) (items : List Item) (t : Nat) : List Ev :=
  items.filterMap (evOf g rn t)

def termAssoc (g : Grammar) (t : Nat) : Assoc :=
  match g.terms[t]? with
  | some tm => tm.assoc
  | none => .none

/-- the resolved cell of terminal `t` in a state with the given items -/
def stateCell (fx : Fixes) (cfg : Cfg) (g : Grammar) (rn : Option (Array Nat)) (items : List Item)
    (t : Nat) : Outcome (List Action) :=
  cell fx cfg (infoOf g) (termAssoc g t) (maxPrior g items t) (initCell g items t) (events g rn items t)

/-! ## The documented rule -/

/-- what is kept of a SHIFT/REDUCE pair -/
inductive Keep where
  | shift | reduce | both
deriving DecidableEq, Repr

/-- what is kept of a REDUCE/REDUCE pair -/
inductive Keep2 where
  | first | second | both
deriving DecidableEq, Repr

end Rustemo.Resolve

namespace Rustemo.Doc
open Rustemo.Resolve

/-- **Documented SHIFT/REDUCE rule.** `cmp` compares the priority of the reduction's production
    with the priority of the shift; `pa`/`ta` are the production's and the terminal's
    associativity; `empty` says the production is `EMPTY`.  The higher priority wins; on equal
    priority associativity decides, the terminal's overriding the production's, `left`(=`reduce`)
    keeping the reduction and `right`(=`shift`) the shift; otherwise `prefer_shifts` (non-empty
    productions, unless `nops`) / `prefer_shifts_over_empty` (empty productions, unless `nopse`)
    keep the shift; otherwise both stay: the conflict is reported (LR) or explored (GLR). -/
def resolveSR (cmp : Ordering) (pa ta : Assoc) (empty ps pse nops nopse : Bool) : Keep :=
  match cmp with
  | .gt => .reduce
  | .lt => .shift
  | .eq =>
    match (if ta = .none then pa else ta) with
    | .left => .reduce
    | .right => .shift
    | .none => if (if empty then pse && !nopse else ps && !nops) then .shift else .both

/-- **Documented REDUCE/REDUCE rule.** The higher priority wins; on equal priority LR prefers a
    non-empty reduction to an empty one (table/mod.rs:879, not in the user documentation);
    otherwise both stay. -/
def resolveRR (glr : Bool) (cmp : Ordering) (empty1 empty2 : Bool) : Keep2 :=
  match cmp with
  | .gt => .first
  | .lt => .second
  | .eq =>
    if glr then .both
    else if empty1 && !empty2 then .second
    else if !empty1 && empty2 then .first
    else .both

/-- a reduction candidate as the documented rule sees it -/
structure Cand where
  act : Action          -- the `Reduce(prod, len)` it stands for
  prio : Nat
  assoc : Assoc
  empty : Bool
  nops : Bool
  nopse : Bool
deriving DecidableEq, Repr

def srOf (cfg : Cfg) (ta : Assoc) (shp : Nat) (c : Cand) : Keep :=
  resolveSR (compare c.prio shp) c.assoc ta c.empty cfg.ps cfg.pse c.nops c.nopse

/-- `a` beats `b` in a REDUCE/REDUCE pair -/
def rrBeats (cfg : Cfg) (a b : Cand) : Bool :=
  resolveRR cfg.glr (compare a.prio b.prio) a.empty b.empty == .first

/-- **Documented rule for a whole cell** (any number of candidates), in the conventional two
    phases: every reduction is first settled against the shift on its own (pairwise rule); the
    shift stays iff no reduction beat it; of the reductions that did not lose to the shift those
    stay that no other such reduction beats.  `shift` is the shift-like candidate (if any) with
    its priority.  Order of the result: shift first, reductions in candidate order. -/
def resolveCell (cfg : Cfg) (ta : Assoc) (shift : Option (Action × Nat)) (cands : List Cand) :
    List Action :=
  match shift with
  | none =>
    (cands.filter (fun c => cands.all (fun c' => !rrBeats cfg c' c))).map (·.act)
  | some (sh, shp) =>
    let surv := cands.filter (fun c => srOf cfg ta shp c != .shift)
    (if cands.all (fun c => srOf cfg ta shp c != .reduce) then [sh] else []) ++
      (surv.filter (fun c => surv.all (fun c' => !rrBeats cfg c' c))).map (·.act)

end Rustemo.Doc

/-! ## Vocabulary of the C05 theorems (definitions only) -/
namespace Rustemo.Resolve

/-- rendering of a documented SHIFT/REDUCE decision as a cell -/
def keepSR (sh rd : Action) : Keep → List Action
  | .shift => [sh]
  | .reduce => [rd]
  | .both => [sh, rd]

/-- rendering of a documented REDUCE/REDUCE decision as a cell -/
def keepRR (r1 r2 : Action) : Keep2 → List Action
  | .first => [r1]
  | .second => [r2]
  | .both => [r1, r2]

/-- the documented decision as seen from a production's data -/
def docSR (cfg : Cfg) (i : PInfo) (ta : Assoc) (shp : Nat) : Keep :=
  Doc.resolveSR (compare i.prio shp) i.assoc ta (i.len == 0) cfg.ps cfg.pse i.nops i.nopse

/-- the documented REDUCE/REDUCE decision for an existing `Reduce(p1, l1)` and a new item `r` -/
def docRR (cfg : Cfg) (info : Nat → PInfo) (p1 l1 : Nat) (r : Red) : Keep2 :=
  Doc.resolveRR cfg.glr (compare (info p1).prio (info r.prod).prio) (l1 == 0) ((info r.prod).len == 0)

/-- number of SHIFT/ACCEPT actions in a cell -/
def shiftLikes (c : List Action) : Nat := (c.filter isShiftLike).length

/-- what a step needs of its inputs not to hit the index `max_prior_for_term[..]` -/
def SpOk (sp : Option Nat) (cell : List Action) : Prop := sp ≠ none ∨ ∀ s, Action.shift s ∉ cell

/-- the overriding decision the SHIFT/REDUCE part takes for `r` on this cell, if any -/
def Overrides (fx : Fixes) (cfg : Cfg) (info : Nat → PInfo) (ta : Assoc) (sp : Option Nat) (r : Red)
    (cell : List Action) : Prop :=
  ∃ sh ∈ cell, isShiftLike sh = true ∧ ∃ shp, shiftPrio sp sh = some shp ∧
    ∃ b, srDecide fx cfg (info r.prod) ta (compare (info r.prod).prio shp) = .override b

def accepts (evs : List Ev) : Nat := (evs.filter (fun e => e == Ev.accept)).length

def Red.act (r : Red) : Action := .reduce r.prod r.pos

/-- a reducing item as the documented rule sees it -/
def candOf (info : Nat → PInfo) (r : Red) : Doc.Cand :=
  { act := r.act, prio := (info r.prod).prio, assoc := (info r.prod).assoc,
    empty := (info r.prod).len == 0, nops := (info r.prod).nops, nopse := (info r.prod).nopse }

/-- positions and lengths agree on emptiness (LALR / LALR_PAGER tables: a reducing item is a
    completed item) -/
def PosOk (info : Nat → PInfo) (S : List Red) : Prop :=
  ∀ x ∈ S, (x.pos == 0) = ((info x.prod).len == 0)

/-- the documented SHIFT/REDUCE decision for a reducing item against a shift of priority `shp` -/
def dSR (cfg : Cfg) (info : Nat → PInfo) (ta : Assoc) (shp : Nat) (r : Red) : Keep :=
  docSR cfg (info r.prod) ta shp

/-- a reduction that loses to the shift only ever does so by priority once some reduction beat
    the shift (the case in which the incremental algorithm no longer sees the shift) -/
def NoMixed (cfg : Cfg) (info : Nat → PInfo) (ta : Assoc) (shp : Nat) (reds : List Red) : Prop :=
  (∃ p ∈ reds, dSR cfg info ta shp p = .reduce) →
    ∀ r ∈ reds, dSR cfg info ta shp r = .shift → (info r.prod).prio < shp

end Rustemo.Resolve
