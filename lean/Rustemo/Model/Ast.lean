/-!
# Default-builder AST types: model of `rustemo-compiler/src/grammar/types/mod.rs`

Mirrors, on the grammar as dumped by the `verif` hook,

* `to_snake_case` / `to_pascal_case` (convert_case 0.5, ASCII identifiers only),
* `choice_name`, `SymbolTypes::symbol_types` (one `Choice` per production: Empty / Plain / Ref /
  Struct with its fields), `Choice::make_choices_name_unique`,
* `SymbolTypes::get_type_kind` (Vec / Ref / Struct / Enum detection, promotion, `…NoO` names),
* `SymbolTypes::find_recursions` — the DFS that decides which references are boxed
  (`dfs`/`edgeLoop` below work on the reference graph `refGraph`; `applyFlags` writes the marks back).

Nothing outside Lean core is imported (the driver links this file).
-/
namespace Rustemo.Ast

/-! ## identifiers: convert_case 0.5.0 restricted to ASCII -/

def isUp (c : Char) : Bool := 'A'.toNat ≤ c.toNat && c.toNat ≤ 'Z'.toNat
def isLow (c : Char) : Bool := 'a'.toNat ≤ c.toNat && c.toNat ≤ 'z'.toNat
def isDig (c : Char) : Bool := '0'.toNat ≤ c.toNat && c.toNat ≤ '9'.toNat
def toLow (c : Char) : Char := if isUp c then Char.ofNat (c.toNat + 32) else c
def toUp (c : Char) : Char := if isLow c then Char.ofNat (c.toNat - 32) else c

/-- identifiers the naming model is exact for -/
def asciiIdent (s : String) : Bool :=
  s.toList.all (fun c => isUp c || isLow c || isDig c || c == '_') && !s.isEmpty

/-- `segmentation::split` inside one word: cut after `c` when a two- or three-character boundary
starts at `c` (`cur` is the current word, reversed). -/
def splitAux (two : Char → Char → Bool) (three : Char → Char → Char → Bool) :
    List Char → List Char → List (List Char)
  | [], cur => [cur.reverse]
  | c :: rest, cur =>
    let cut := match rest with
      | d :: e :: _ => two c d || three c d e
      | [d] => two c d
      | [] => false
    if cut then (c :: cur).reverse :: splitAux two three rest [] else splitAux two three rest (c :: cur)

def lowerUpper (c d : Char) : Bool := isLow c && isUp d
def noThree (_ _ _ : Char) : Bool := false

def joinWith (sep : List Char) : List (List Char) → List Char
  | [] => []
  | [w] => w
  | w :: ws => w ++ sep ++ joinWith sep ws

/-- `s.with_boundaries(&[Boundary::LowerUpper]).to_case(Case::Snake)` -/
def toSnake (s : String) : String :=
  let ws := (splitAux lowerUpper noThree s.toList []).filter (· ≠ [])
  String.ofList (joinWith ['_'] (ws.map (·.map toLow)))

def defaultTwo (c d : Char) : Bool :=
  (isLow c && isUp d) || (isUp c && isDig d) || (isDig c && isUp d) || (isDig c && isLow d) || (isLow c && isDig d)
def acronym (c d e : Char) : Bool := isUp c && isUp d && isLow e

/-- split on the consumed delimiters `_`, `-`, ` ` -/
def splitDelims : List Char → List Char → List (List Char)
  | [], cur => [cur.reverse]
  | c :: rest, cur =>
    if c == '_' || c == '-' || c == ' ' then cur.reverse :: splitDelims rest [] else splitDelims rest (c :: cur)

def capital : List Char → List Char
  | [] => []
  | c :: cs => toUp c :: cs.map toLow

/-- `s.to_case(Case::Pascal)` (default boundaries) -/
def toPascal (s : String) : String :=
  let ws := ((splitDelims s.toList []).flatMap (fun w => splitAux defaultTwo acronym w [])).filter (· ≠ [])
  String.ofList (ws.flatMap capital)

/-- `has_empty_type_name` -/
def noOName (n : String) : String := toPascal (n ++ "NoO")

/-! ## variants of the modelled code

The five repairs of the generator that landed in /repo (`fix:` commits), each switchable so that the
counterexample theorems about the code as it WAS stay statements about a definition.
`Fixes.repo` is /repo as it is now. -/

structure Fixes where
  /-- "right-recursive @vec rule collects elements in input order" (F7): `insert(0, _)` when the vector is the right operand -/
  vecRight : Bool
  /-- "vec action of a single named element refers to the parameter by its declared name" (F23) -/
  vecLabel : Bool
  /-- "a rule with two different single-reference alternatives is not a vec pattern" (F22) -/
  vecAlt : Bool
  /-- "generated actions import the Context trait anonymously" (F13, rule named `C`) -/
  ctxAlias : Bool
  /-- "GLR default builder passes None, not a boxed None, for a right-nulled optional recursive reference" (F12 sub-case) -/
  optBox : Bool
  deriving Repr, DecidableEq, Inhabited

/-- /repo as it is now: all five repairs -/
def Fixes.repo : Fixes := ⟨true, true, true, true, true⟩
/-- the code before the repairs -/
def Fixes.asWas : Fixes := ⟨false, false, false, false, false⟩

/-! ## the grammar as the generator sees it -/

/-- one right-hand-side symbol (`Assignment`): referenced symbol, terminal?, `symbol_has_content`, name -/
structure RSym where
  name : String
  isTerm : Bool
  content : Bool
  label : Option String
  /-- `name?=X` (`Assignment.is_bool`): recorded by the front-end, read by NOTHING in types / actions / builder -/
  isBool : Bool := false
  deriving Repr, DecidableEq, Inhabited

/-- a production of `grammar.productions()`; `rnLen` = `production_rn_lengths[p]` (= `rhs.length`
when the table is not right-nulled) -/
structure AProd where
  nt : String
  kind : Option String
  rnLen : Nat
  rhs : List RSym
  deriving Repr, DecidableEq, Inhabited

/-- terminal of `grammar.terminals[1..]`: `has_content` (false exactly for string recognizers) -/
structure ATerm where
  name : String
  content : Bool
  reach : Bool
  deriving Repr, DecidableEq, Inhabited

/-- nonterminal of `grammar.nonterminals()`; `vec` = annotation `@vec` -/
structure ANt where
  name : String
  reach : Bool
  vec : Bool
  deriving Repr, DecidableEq, Inhabited

structure AGrammar where
  loc : Bool            -- builder_loc_info
  rn : Bool             -- production_rn_lengths is Some (GLR, LALR_RN)
  start : String
  terms : List ATerm
  nts : List ANt
  prods : List AProd
  deriving Repr, Inhabited

def AGrammar.prodsOf (g : AGrammar) (nt : String) : List AProd := g.prods.filter (·.nt == nt)

/-! ## `SymbolType` -/

structure Field where
  name : String
  refType : String
  recursive : Bool
  deriving Repr, DecidableEq, Inhabited

inductive ChoiceKind
  | empty
  | plain
  | ref (refType : String) (recursive : Bool)
  | struct (typeName : String) (fields : List Field)
  deriving Repr, DecidableEq, Inhabited

structure Choice where
  name : String
  kind : ChoiceKind
  deriving Repr, DecidableEq, Inhabited

inductive TypeKind
  | ref (refType : String) (recursive : Bool)
  | vec (refType : String) (recursive : Bool)
  | struct (typeName : String)
  | enum (typeName : String)
  | terminal
  deriving Repr, DecidableEq, Inhabited

structure SymType where
  name : String
  kind : TypeKind
  choices : List Choice
  optional : Bool
  deriving Repr, DecidableEq, Inhabited

/-- `choice_name` -/
def choiceName (p : AProd) (ntidx : Nat) (refType : Option String) : String :=
  match p.kind with
  | some k => k
  | none =>
    match refType with
    | some r => r
    | none => if p.rhs.isEmpty then "Empty" else s!"C{ntidx + 1}"

def enumFrom {α} : Nat → List α → List (Nat × α)
  | _, [] => []
  | i, a :: as => (i, a) :: enumFrom (i + 1) as

/-- the rhs positions with content, with their position (`rhs_with_content`, `Assignment.idx`) -/
def contentRhs (p : AProd) : List (Nat × RSym) := (enumFrom 0 p.rhs).filter (·.2.content)

def fieldOf (typeNames : List String) (a : Nat × RSym) : Field :=
  let refType := a.2.name
  let name := match a.2.label with
    | some l => l
    | none => toSnake refType ++ (if (typeNames.filter (· == refType)).length > 1 then s!"_{a.1 + 1}" else "")
  { name := name, refType := refType, recursive := false }

/-- the `Choice` of one production (body of the `choices.push(match rhs.len() …)` in `symbol_types`) -/
def mkChoice (ntName : String) (ntidx : Nat) (p : AProd) : Choice :=
  let rhs := contentRhs p
  match rhs with
  | [] =>
    if p.rhs.isEmpty then { name := choiceName p ntidx none, kind := .empty }
    else match p.rhs with
      | [s] => { name := choiceName p ntidx (some s.name), kind := .plain }
      | _ => { name := choiceName p ntidx none, kind := .plain }
  | a :: rest =>
    if rest.isEmpty && a.2.label.isNone then
      { name := choiceName p ntidx (some a.2.name), kind := .ref a.2.name false }
    else
      let typeNames := rhs.map (·.2.name)
      let cn := choiceName p ntidx none
      let st := if p.kind.isSome then cn else ntName ++ cn
      { name := cn, kind := .struct st (rhs.map (fieldOf typeNames)) }

def countName (cs : List Choice) (n : String) : Nat := (cs.filter (·.name == n)).length

/-- `Choice::make_choices_name_unique` (after the repair "choice names are made unique in grammar
order"): one pass in grammar order; a choice whose ORIGINAL name occurs more than once gets its 1-based
occurrence number among the original names appended. -/
def makeUniqueAux (orig : List Choice) : Nat → List Choice → List Choice
  | _, [] => []
  | i, c :: cs =>
    (if countName orig c.name > 1 then
       { c with name := c.name ++ toString (countName (orig.take i) c.name + 1) }
     else c) :: makeUniqueAux orig (i + 1) cs

def makeUnique (cs : List Choice) : List Choice := makeUniqueAux cs 0 cs

structure KindMatch where
  noMatch : Bool := false
  empty : Bool := false
  single : Option String := none
  recurse : Option String := none

def kindStep (fx : Fixes) (typeName : String) (m : KindMatch) (c : Choice) : KindMatch :=
  match c.kind with
  | .empty => { m with empty := true }
  | .struct _ [a] => if m.single.isNone then { m with single := some a.refType } else { m with noMatch := true }
  | .struct _ [a, b] =>
    if m.recurse.isNone then
      if a.refType == typeName && b.refType != typeName then { m with recurse := some b.refType }
      else if b.refType == typeName && a.refType != typeName then { m with recurse := some a.refType }
      else { m with noMatch := true }
    else { m with noMatch := true }
  | .struct _ _ => { m with noMatch := true }
  | .ref r _ =>
    -- before the repair `ChoiceKind::Ref` overwrote `single` unconditionally
    if fx.vecAlt && m.single.isSome then { m with noMatch := true } else { m with single := some r }
  | .plain => { m with noMatch := true }

def isEmptyChoice (c : Choice) : Bool := match c.kind with | .empty => true | _ => false

/-- `SymbolTypes::get_type_kind` -/
def typeKind (fx : Fixes) (nt : ANt) (choices : List Choice) : TypeKind :=
  let m := choices.foldl (kindStep fx nt.name) {}
  let noe := choices.filter (fun c => !isEmptyChoice c)
  let tn := if m.empty then noOName nt.name else nt.name
  match m.single, m.recurse with
  | some s, some r =>
    if !m.noMatch && s == r && nt.vec then .vec s false
    else match noe with
      | [c] => match c.kind with
        | .ref r _ => .ref r false
        | .struct _ _ => .struct tn
        | _ => .enum tn
      | _ => .enum tn
  | _, _ =>
    match noe with
    | [c] => match c.kind with
      | .ref r _ => .ref r false
      | .struct _ _ => .struct tn
      | _ => .enum tn
    | _ => .enum tn

def ntType (fx : Fixes) (g : AGrammar) (nt : ANt) : SymType :=
  let ps := g.prodsOf nt.name
  let choices := makeUnique ((enumFrom 0 ps).map (fun ip => mkChoice nt.name ip.1 ip.2))
  { name := nt.name, kind := typeKind fx nt choices, choices := choices,
    optional := ps.any (fun p => (contentRhs p).isEmpty && p.rhs.isEmpty) }

/-- the types before `find_recursions` (terminals first, as in `symbol_types`) -/
def rawTypes (fx : Fixes) (g : AGrammar) : List SymType :=
  g.terms.map (fun t => { name := t.name, kind := .terminal, choices := [], optional := false })
    ++ g.nts.map (ntType fx g)

/-! ## `find_recursions` -/

def choiceEdges (c : Choice) : List String :=
  match c.kind with
  | .ref r _ => [r]
  | .struct _ fs => fs.map (·.refType)
  | _ => []

/-- the references of a type in the order the DFS looks at them -/
def edgesOf (t : SymType) : List String :=
  match t.kind with
  | .terminal => []
  | .ref r _ => [r]
  | .vec r _ => [r]
  | .struct _ => t.choices.flatMap choiceEdges
  | .enum _ => t.choices.flatMap choiceEdges

abbrev Graph := List (String × List String)

def refGraph (ts : List SymType) : Graph := ts.map (fun t => (t.name, edgesOf t))

def Graph.edges (G : Graph) (n : String) : Option (List String) := (G.find? (·.1 == n)).map (·.2)

/-- an edge is named by its source and its position among the source's references -/
abbrev Edge := String × Nat

structure DfsSt where
  flags : List Edge := []
  visited : List String := []
  deriving Repr, DecidableEq, Inhabited

/-- the `for` over the references of `name` (`call` = the recursive `dfs`) -/
def edgeLoop (call : String → List String → DfsSt → Option DfsSt) (name : String) (visiting : List String) :
    List String → Nat → DfsSt → Option DfsSt
  | [], _, st => some st
  | tgt :: rest, i, st =>
    if st.flags.contains (name, i) then edgeLoop call name visiting rest (i + 1) st
    else if visiting.contains tgt then
      edgeLoop call name visiting rest (i + 1) { st with flags := (name, i) :: st.flags }
    else match call tgt (tgt :: visiting) st with
      | none => none
      | some st' => edgeLoop call name visiting rest (i + 1) st'

/-- `fn dfs` of `find_recursions`; `none` = out of fuel or `types.get(..).unwrap()` on a missing name.
`visiting.insert(x); dfs(..); visiting.remove(x)` is the argument `x :: visiting`. -/
def dfs (G : Graph) : Nat → String → List String → DfsSt → Option DfsSt
  | 0, _, _, _ => none
  | fuel + 1, name, visiting, st =>
    if st.visited.contains name then some st
    else match G.edges name with
      | none => none
      | some es =>
        match edgeLoop (fun t vis s => dfs G fuel t vis s) name visiting es 0 st with
        | none => none
        | some st' => some { st' with visited := st'.visited ++ [name] }

/-- the whole search: from the start symbol, with an EMPTY `visiting` set (as in the code) -/
def findRecursions (G : Graph) (start : String) : Option DfsSt := dfs G (G.length + 2) start [] {}

/-! ### writing the marks back into the types -/

def markFields (flags : List Edge) (tn : String) : Nat → List Field → List Field
  | _, [] => []
  | i, f :: fs => { f with recursive := flags.contains (tn, i) } :: markFields flags tn (i + 1) fs

def markChoices (flags : List Edge) (tn : String) : Nat → List Choice → List Choice
  | _, [] => []
  | i, c :: cs =>
    match c.kind with
    | .ref r _ => { c with kind := .ref r (flags.contains (tn, i)) } :: markChoices flags tn (i + 1) cs
    | .struct s fs => { c with kind := .struct s (markFields flags tn i fs) } :: markChoices flags tn (i + fs.length) cs
    | _ => c :: markChoices flags tn i cs

def markRefChoices (b : Bool) (cs : List Choice) : List Choice :=
  cs.map (fun c => match c.kind with | .ref r _ => { c with kind := .ref r b } | _ => c)

def applyFlags (flags : List Edge) (t : SymType) : SymType :=
  match t.kind with
  | .terminal => t
  | .ref r _ =>
    let b := flags.contains (t.name, 0)
    { t with kind := .ref r b, choices := if b then markRefChoices true t.choices else t.choices }
  | .vec r _ =>
    let b := flags.contains (t.name, 0)
    { t with kind := .vec r b, choices := if b then markRefChoices true t.choices else t.choices }
  | .struct _ => { t with choices := markChoices flags t.name 0 t.choices }
  | .enum _ => { t with choices := markChoices flags t.name 0 t.choices }

/-- `SymbolTypes::new`: `none` when the DFS panics (missing type) or the fuel is exhausted -/
def symbolTypes (fx : Fixes) (g : AGrammar) : Option (List SymType) :=
  let ts := rawTypes fx g
  (findRecursions (refGraph ts) g.start).map (fun st => ts.map (applyFlags st.flags))

def typeOf (ts : List SymType) (n : String) : Option SymType := ts.find? (·.name == n)

/-! ## `?=` assignments: presence -/

/-- the members (struct fields) the value of a choice has -/
def Choice.memberNames (c : Choice) : List String :=
  match c.kind with
  | .struct _ fs => fs.map (·.name)
  | _ => []

/-- names bound with `?=` to a symbol WITHOUT content (string-match terminal): `rhs_with_content` drops the symbol,
so no member is generated for it — the presence the assignment asks for is lost (finding C10-N1) -/
def AProd.lostBools (p : AProd) : List String :=
  p.rhs.filterMap (fun r => if r.isBool && !r.content then r.label else none)

/-- class predicate of C10-N1: some production of a reachable rule has a `?=` assignment on a symbol without content -/
def hasLostBool (g : AGrammar) : Bool :=
  g.prods.any (fun p => !p.lostBools.isEmpty && g.nts.any (fun n => n.name == p.nt && n.reach))

end Rustemo.Ast
