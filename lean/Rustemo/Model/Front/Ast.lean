/-!
# Front end, part 1: names, ordered maps, the `File` AST

Input of the grammar builder: the AST that `rustemo-compiler/src/lang/rustemo_actions.rs` builds
from a grammar text (`File`, `GrammarRule`, `Production`, `Assignment`, `GrammarSymbolRef`,
`RepetitionOperator`, `TerminalRule`, `ConstVal`).  The text → AST step is the bootstrapped
rustemo parser itself and is not modelled; it is covered by the correspondence check, which renders
one abstract grammar spec both to text (for the implementation) and to this AST (for the model).

* `Name` — a Rust `String` as its list of UTF-8 bytes.  `BTreeMap<String, _>` order is the
  byte-lexicographic order `Name.lt`.
* `SMap α` — `BTreeMap<String, α>` as a key-sorted association list (`insert` replaces an equal key).
* Meta-data: the grammar actions produce one single-entry map per `{…}` item and merge them with
  `BTreeMap::extend` (later items win).  The AST here keeps the item list in source order and
  `metaOf` performs that merge, including the keyword → key mapping of the actions
  (`reduce` ↦ `"left"`, `shift` ↦ `"right"`, `nofinish` ↦ `"finish" = false`).
* Integer literals are kept as unbounded `Nat`; `int_const` (`token.value.parse().unwrap()` into
  `u32`) is the panic site `Site.intConst` of `Front.build`.  A literal that `str::parse::<u32>`
  rejects for another reason (the `IntConst` regex `\d+` also matches non-ASCII digits) is
  represented by any value `≥ 2^32`.
* Float literals are opaque (their `Display` text); `float_const` cannot fail on a text the
  `FloatConst` regex matched.

Import-free (core only).
-/
namespace Rustemo.Front

/-- A Rust `String`: its UTF-8 bytes. -/
abbrev Name := List Nat

/-- ASCII literal → `Name` (code points = bytes for ASCII). -/
def nm (s : String) : Name := s.toList.map Char.toNat

/-- byte-lexicographic order of `String` (`Ord for str`), as used by `BTreeMap<String, _>` -/
def Name.lt : Name → Name → Bool
  | [], [] => false
  | [], _ :: _ => true
  | _ :: _, [] => false
  | a :: as, b :: bs => a < b || (a == b && Name.lt as bs)

/-! ## `BTreeMap<String, α>` -/

abbrev SMap (α : Type) := List (Name × α)

namespace SMap
variable {α : Type}

def get? : SMap α → Name → Option α
  | [], _ => none
  | (k', v) :: m, k => if k' = k then some v else get? m k

def contains (m : SMap α) (k : Name) : Bool := (m.get? k).isSome

/-- `BTreeMap::insert`: replaces the value of an equal key, otherwise inserts in key order -/
def insert (k : Name) (v : α) : SMap α → SMap α
  | [] => [(k, v)]
  | (k', v') :: m =>
    if k = k' then (k, v) :: m
    else if Name.lt k k' then (k, v) :: (k', v') :: m
    else (k', v') :: insert k v m

/-- `BTreeMap::remove` (the removed value is read with `get?` before) -/
def erase : SMap α → Name → SMap α
  | [], _ => []
  | (k', v) :: m, k => if k' = k then m else (k', v) :: erase m k

/-- `.values()` in key order -/
def values (m : SMap α) : List α := m.map (·.2)

def keys (m : SMap α) : List Name := m.map (·.1)

end SMap

/-! ## The AST -/

/-- `ConstVal` of `rustemo_actions.rs` -/
inductive ConstVal where
  | int (n : Nat)
  | float (display : Name)
  | bool (b : Bool)
  | str (s : Name)
deriving DecidableEq, Repr, Inhabited

abbrev Meta := SMap ConstVal

/-- keyword meta-data of `ProdMetaData` / `TermMetaData` in `rustemo.rustemo` -/
inductive Kw where
  | left | reduce | right | shift | dynamic | nops | nopse | prefer | finish | nofinish
deriving DecidableEq, Repr, Inhabited

/-- one item inside `{ … }` -/
inductive MetaItem where
  | kw (k : Kw)
  | prio (n : Nat)                       -- `IntConst {Priority}`
  | user (name : Name) (v : ConstVal)    -- `UserMetaData: Name ':' value=ConstVal`
  | kind (name : Name)                   -- `ProdKind: Name`
deriving DecidableEq, Repr, Inhabited

def kLeft : Name := nm "left"
def kRight : Name := nm "right"
def kDynamic : Name := nm "dynamic"
def kNops : Name := nm "nops"
def kNopse : Name := nm "nopse"
def kPrefer : Name := nm "prefer"
def kFinish : Name := nm "finish"
def kPriority : Name := nm "priority"
def kKind : Name := nm "kind"

/-- `prod_meta_data_*` / `term_meta_data_*`: the single map entry an item becomes -/
def MetaItem.entry : MetaItem → Name × ConstVal
  | .kw .left => (kLeft, .bool true)
  | .kw .reduce => (kLeft, .bool true)
  | .kw .right => (kRight, .bool true)
  | .kw .shift => (kRight, .bool true)
  | .kw .dynamic => (kDynamic, .bool true)
  | .kw .nops => (kNops, .bool true)
  | .kw .nopse => (kNopse, .bool true)
  | .kw .prefer => (kPrefer, .bool true)
  | .kw .finish => (kFinish, .bool true)
  | .kw .nofinish => (kFinish, .bool false)
  | .prio n => (kPriority, .int n)
  | .user name v => (name, v)
  | .kind name => (kKind, .str name)

/-- `prod_meta_datas_c1`: `metas.extend(meta)` item by item, in source order -/
def metaOf (items : List MetaItem) : Meta :=
  items.foldl (fun m it => m.insert it.entry.1 it.entry.2) []

inductive RepOp where
  | zeroOrMore | zeroOrMoreGreedy | oneOrMore | oneOrMoreGreedy | optional | optionalGreedy
deriving DecidableEq, Repr, Inhabited

inductive GSym where
  | name (n : Name)
  | str (s : Name)
deriving DecidableEq, Repr, Inhabited

structure RepOper where
  op : RepOp
  mods : Option (List Name)        -- `RepetitionModifiers?`, each modifier is a `Name`
deriving DecidableEq, Repr, Inhabited

/-- `GrammarSymbolRef`; `gsym = none` is a parenthesised group `( … )` (its content is never read) -/
structure SymRef where
  gsym : Option GSym
  rep : Option RepOper
deriving DecidableEq, Repr, Inhabited

inductive Assign where
  | plain (name : Name) (r : SymRef)     -- `name=ref`
  | bool (name : Name) (r : SymRef)      -- `name?=ref`
  | ref (r : SymRef)
deriving DecidableEq, Repr, Inhabited

/-- `Production` of the AST: one BNF alternative -/
structure Alt where
  assigns : List Assign
  metas : List MetaItem := []
deriving DecidableEq, Repr, Inhabited

structure Rule where
  name : Name
  annotation : Option Name := none
  metas : List MetaItem := []
  alts : List Alt
deriving DecidableEq, Repr, Inhabited

inductive Recog where
  | str (s : Name)
  | regex (s : Name)
deriving DecidableEq, Repr, Inhabited

structure TermRule where
  name : Name
  annotation : Option Name := none
  recog : Option Recog
  metas : List MetaItem := []
deriving DecidableEq, Repr, Inhabited

/-- `File` (imports are copied through untouched and are not modelled) -/
structure File where
  rules : Option (List Rule)
  terms : Option (List TermRule)
deriving DecidableEq, Repr, Inhabited

/-! ## Integer literals that do not fit `u32` -/

def u32Max : Nat := 4294967295

/-- largest literal the repaired `IntConst: /0*[0-9]{1,9}/` lexes (C09-fix-5) -/
def int9Max : Nat := 999999999

def ConstVal.big (lim : Nat) : ConstVal → Bool
  | .int n => decide (lim < n)
  | _ => false

def MetaItem.big (lim : Nat) : MetaItem → Bool
  | .prio n => decide (lim < n)
  | .user _ v => v.big lim
  | _ => false

def Alt.big (lim : Nat) (a : Alt) : Bool := a.metas.any (MetaItem.big lim)
def Rule.big (lim : Nat) (r : Rule) : Bool := r.metas.any (MetaItem.big lim) || r.alts.any (Alt.big lim)
def TermRule.big (lim : Nat) (t : TermRule) : Bool := t.metas.any (MetaItem.big lim)

/-- some integer literal of the text exceeds `lim` (`lim = u32Max`: `int_const` panics) -/
def File.big (lim : Nat) (f : File) : Bool :=
  ((f.rules.getD []).any (Rule.big lim)) || ((f.terms.getD []).any (TermRule.big lim))

end Rustemo.Front
