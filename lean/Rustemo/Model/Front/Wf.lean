import Rustemo.Model.Front.Build
/-!
# Front end, part 3: decidable well-formedness classes of an AST

Each predicate below is the class of one finding: exactly the hypothesis a `Props/C09.lean`
theorem has to add because of it.  A conjunct disappears (`fx.flag || …`) once the variant `fx`
contains the corresponding repair.  `failingClasses` is what the driver answers to `front class`.
-/
namespace Rustemo.Front

def File.ruleList (f : File) : List Rule := f.rules.getD []
def File.termList (f : File) : List TermRule := f.terms.getD []

def File.allAlts (f : File) : List Alt := f.ruleList.flatMap (·.alts)
def File.allAssigns (f : File) : List Assign := f.allAlts.flatMap (·.assigns)
def File.allRefs (f : File) : List SymRef := f.allAssigns.map Assign.symRef

def RepOp.greedy : RepOp → Bool
  | .zeroOrMoreGreedy | .oneOrMoreGreedy | .optionalGreedy => true
  | _ => false

def SymRef.isGroup (r : SymRef) : Bool := r.gsym.isNone

def SymRef.isGreedy (r : SymRef) : Bool :=
  match r.rep with
  | some o => o.op.greedy
  | none => false

def SymRef.badModifiers (r : SymRef) : Bool :=
  match r.rep with
  | some o => match o.mods with
    | some l => l.length != 1
    | none => false
  | none => false

def SymRef.sep (r : SymRef) : Option Name :=
  match r.rep with
  | some o => match o.mods with
    | some [m] => some m
    | _ => none
  | none => none

/-- F18: an `EMPTY` that the rhs filter does not remove -/
def Assign.emptySurvives (a : Assign) : Bool :=
  (a.aname.isSome && a.symRef.gsym == some (.name kEMPTY)) || a.symRef.sep == some kEMPTY

/-! ### repetition sugar: the uses and the helper rules they denote -/

/-- the terminal a string literal denotes (`terminals_matches`), statically from the file -/
def staticMatches (fx : Fixes) (f : File) : SMap (Name × Nat) :=
  match termPhase fx f with
  | .ok ts => matchesOf f ts
  | _ => []

def SymRef.baseName (mm : SMap (Name × Nat)) (r : SymRef) : Option Name :=
  match r.gsym with
  | some (.name n) => some n
  | some (.str s) => (mm.get? s).map (·.1)
  | none => none

/-- helper rules a reference asks for (`*` asks for the `one` helper first, then the `zero` helper) -/
def SymRef.uses (mm : SMap (Name × Nat)) (r : SymRef) : List Use :=
  match r.rep, r.baseName mm with
  | some o, some x => opUses x r.sep o.op
  | _, _ => []

/-- uses of one alternative / rule / rule list that reach `desugar_regex` (an unnamed `EMPTY…` is
filtered before), w.r.t. a string-match table -/
def altUses (mm : SMap (Name × Nat)) (alt : Alt) : List Use :=
  (alt.assigns.filter (fun a => !a.isUnnamedEmpty)).flatMap fun a => a.symRef.uses mm

def ruleUses (mm : SMap (Name × Nat)) (r : Rule) : List Use := r.alts.flatMap (altUses mm)

def rulesUses (mm : SMap (Name × Nat)) (rs : List Rule) : List Use := rs.flatMap (ruleUses mm)

/-- references that reach `desugar_regex` (an unnamed `EMPTY…` is filtered before) -/
def File.sugarRefs (f : File) : List SymRef :=
  (f.allAssigns.filter (fun a => !a.isUnnamedEmpty)).map Assign.symRef

def File.uses (fx : Fixes) (f : File) : List Use :=
  f.sugarRefs.flatMap (SymRef.uses (staticMatches fx f))

def File.helperNames (fx : Fixes) (f : File) : List Name := (f.uses fx).map (Use.helper fx)

/-- F5: two uses that differ (in base symbol or separator) get the same helper name -/
def File.sepClash (fx : Fixes) (f : File) : Bool :=
  (f.uses fx).any fun u => (f.uses fx).any fun v => u.helper fx == v.helper fx && u != v

/-- F5b: a generated helper name is also the name of a rule or of a terminal -/
def File.helperCapture (fx : Fixes) (f : File) : Bool :=
  (f.helperNames fx).any fun h => (ruleNamesOf f).contains h || (kSTOP :: termNamesOf f).contains h

/-- a rule one of whose own references generates the rule's name as helper name (`A1: … A+ …`): the
nonterminal index reserved for the rule is never assigned -/
def Rule.selfHelper (fx : Fixes) (mm : SMap (Name × Nat)) (r : Rule) : Bool :=
  (ruleUses mm r).any fun u => u.helper fx == r.name

def File.selfHelper (fx : Fixes) (f : File) : Bool := f.ruleList.any (Rule.selfHelper fx (staticMatches fx f))

def hasDup : List Name → Bool
  | [] => false
  | x :: xs => xs.contains x || hasDup xs

/-- two terminals of the same name (the implicit `STOP` included) -/
def File.dupTerminal (f : File) : Bool := hasDup (kSTOP :: termNamesOf f)

/-- a rule named like a terminal: every reference resolves to the terminal -/
def File.ruleIsTerminal (f : File) : Bool := (ruleNamesOf f).any fun r => (kSTOP :: termNamesOf f).contains r

/-- a rule named like one of the builder's own nonterminals -/
def File.reservedRule (f : File) : Bool := (ruleNamesOf f).any fun r => [kEMPTY, kAUG, kAUGL].contains r

/-- documented associativity of a production: its own if it gives one, else the rule's -/
def docAssoc (ruleMeta altMeta : Meta) : Assoc :=
  if altMeta.contains kLeft || altMeta.contains kRight then assocOfMeta altMeta else assocOfMeta ruleMeta

/-- F2: the rule-level associativity overrides the production's own -/
def File.assocOverride (fx : Fixes) (f : File) : Bool :=
  f.ruleList.any fun r => r.alts.any fun a =>
    assocOfMeta (inherit fx (metaOf r.metas) (metaOf a.metas)) != docAssoc (metaOf r.metas) (metaOf a.metas)

def classTable (fx : Fixes) (f : File) : List (String × Bool) :=
  [("bigInt", !fx.intErr && f.big u32Max),
   ("noRules", !fx.noRulesErr && f.rules.isNone),
   ("emptyRules", f.rules == some []),
   ("emptyAlts", f.ruleList.any fun r => r.alts.isEmpty),
   ("group", !fx.groupErr && f.allRefs.any SymRef.isGroup),
   ("greedy", !fx.greedyErr && f.allRefs.any SymRef.isGreedy),
   ("modifiers", !fx.modifiersErr && f.allRefs.any SymRef.badModifiers),
   ("emptySurvives", !fx.emptyErr && f.allAssigns.any Assign.emptySurvives),
   ("assocOverride", f.assocOverride fx),
   ("sepClash", f.sepClash fx),
   ("helperCapture", !fx.helperClashErr && f.helperCapture fx),
   ("dupTerminal", !fx.dupNameErr && f.dupTerminal),
   ("ruleIsTerminal", !fx.dupNameErr && f.ruleIsTerminal),
   ("reservedRule", !fx.reservedErr && f.reservedRule)]

def failingClasses (fx : Fixes) (f : File) : List String :=
  ((classTable fx f).filter (·.2)).map (·.1)

end Rustemo.Front
