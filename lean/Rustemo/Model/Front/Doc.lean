import Rustemo.Model.Front.Wf
/-!
# Front end, part 4: the documented meaning of a grammar text (`docs/src/grammar_language.md`)

Independent of `Front.build`: what the documentation says a grammar denotes.

* `Doc.altSyms` — "Every BNF alternative becomes one production with its symbols in order, `EMPTY`
  contributing nothing"; a reference with repetition sugar denotes its helper rule.
* `Doc.inheritKey` — "If a meta-data is applied to the grammar rule it is in effect for all production
  of the rule, but if the same meta-data is defined for the production it takes precedence";
  associativity (`left`/`right`, written also `reduce`/`shift`) is ONE meta-datum (`docAssoc` in `Wf`).
* `Doc.expansion` — the "syntax equivalence" notes: `B?` ↦ `BOpt: B | EMPTY`, `A+` ↦ `A1: A1 A | A`,
  `A+[Comma]` ↦ `A1Comma: A1Comma Comma A | A`, `A*` ↦ `A0: A1 | EMPTY`.
* `Derives g X w` — the usual derivation relation of a built grammar, by derivation height.
-/
namespace Rustemo.Front

/-! ## derivations of a built grammar -/

def Grammar.nT (g : Grammar) : Nat := g.terminals.length

/-- `w` is the concatenation of strings derived (by `D`) from the symbols `Xs`, in order -/
def SeqOf (D : Nat → List Nat → Prop) : List Nat → List Nat → Prop
  | [], w => w = []
  | X :: Xs, w => ∃ u v, w = u ++ v ∧ D X u ∧ SeqOf D Xs v

/-- symbol `X` derives the terminal string `w` by a derivation of height `≤ n` -/
def DerivesN (g : Grammar) : Nat → Nat → List Nat → Prop
  | 0 => fun _ _ => False
  | n + 1 => fun X w =>
    (X < g.nT ∧ w = [X]) ∨
    ∃ p, p ∈ g.prods ∧ g.nT + p.nonterminal = X ∧ SeqOf (DerivesN g n) p.rhsSyms w

/-- `X ⇒* w` in the grammar `g` (symbols `< g.nT` are terminals and derive themselves) -/
def Derives (g : Grammar) (X : Nat) (w : List Nat) : Prop := ∃ n, DerivesN g n X w

/-- the symbols `Xs` derive `w`, in order -/
def DerivesSeq (g : Grammar) (Xs : List Nat) (w : List Nat) : Prop := SeqOf (Derives g) Xs w

/-- the nonterminal with index `h` has exactly the right-hand sides `rs` (as a set, each present) -/
def HasExactly (g : Grammar) (h : Nat) (rs : List (List Nat)) : Prop :=
  (∀ p, p ∈ g.prods → p.nonterminal = h → p.rhsSyms ∈ rs) ∧
  (∀ r, r ∈ rs → ∃ p, p ∈ g.prods ∧ p.nonterminal = h ∧ p.rhsSyms = r)

namespace Doc

/-- "`EMPTY` contributes nothing": the references of an alternative that stand for a symbol -/
def altAssigns (a : Alt) : List Assign :=
  a.assigns.filter (fun x => !(x.symRef.gsym == some (.name kEMPTY)))

/-- documented name of the helper rule of a reference with repetition sugar -/
def refHelper (fx : Fixes) (mm : SMap (Name × Nat)) (r : SymRef) : Option Name :=
  match r.rep, r.baseName mm with
  | some o, some x =>
    match o.op with
    | .optional => some (helperName fx x .optional none)
    | .oneOrMore => some (helperName fx x .oneOrMore r.sep)
    | .zeroOrMore => some (helperName fx x .zeroOrMore r.sep)
    | _ => none
  | _, _ => none

/-- the symbol an assignment contributes to its production: the referenced name / string literal, or
the helper rule of its repetition sugar -/
def refSym (fx : Fixes) (mm : SMap (Name × Nat)) (r : SymRef) : Option GSym :=
  match r.rep with
  | none => r.gsym
  | some _ => (refHelper fx mm r).map GSym.name

/-- one production as documented: assignment name, symbol, `?=` flag, per rhs position -/
def altSyms (fx : Fixes) (mm : SMap (Name × Nat)) (a : Alt) : List (Option Name × Option GSym × Bool) :=
  (altAssigns a).map fun x => (x.aname, refSym fx mm x.symRef, x.isBool)

/-- meta-data inheritance, per key -/
def inheritKey (ruleMeta altMeta : Meta) (k : Name) : Option ConstVal :=
  match altMeta.get? k with
  | some v => some v
  | none => ruleMeta.get? k

/-- right-hand sides (as names) of the helper rule a use denotes -/
def expansion (fx : Fixes) (u : Use) : List (List Name) :=
  match u.kind with
  | .opt => [[u.base], []]
  | .one =>
    match u.sep with
    | none => [[u.helper fx, u.base], [u.base]]
    | some s => [[u.helper fx, s, u.base], [u.base]]
  | .zero => [[helperName fx u.base .oneOrMore u.sep], []]

end Doc

end Rustemo.Front
