import Rustemo.Model.Front.Ast
/-!
# Front end, part 2: `GrammarBuilder` (`rustemo-compiler/src/grammar/builder.rs`)

`Front.build fx f` transcribes `GrammarBuilder::try_from_file` on the AST `f`:

| Rust (builder.rs)                               | here                      |
|-------------------------------------------------|---------------------------|
| `try_from_file` 81-156                          | `build`, `assemble`       |
| `collect_terminals` 158-219                     | `collectTerms`, `termOfRule`, `buildMatches` |
| `extract_productions_and_symbols` 221-360       | `extract`, `ruleStep`, `altStep`, `rhsSteps`, `assignStep`, `inherit`, `mkProd` |
| `create_aug_nt_and_production` 362-391          | `createAug`               |
| `desugar_regex` 395-485                         | `desugar`, `modifierOf`, `refType`, `helperName` |
| `create_optional/one/zero` 587-703              | `createOptional`, `createOne`, `createZero` |
| `resolve_inline_terminals_from_productions`     | `resolveInline`           |
| `resolve_references` 530-585                    | `resolveRefs`             |
| `check_identifier` 705-715 (`syn::Ident`)       | `identOk`                 |
| `mark_reachable_symbols` 718-747                | `markReachable`           |

Every `unwrap`/`expect`/`assert!`/`todo!`/`panic!`/index a grammar can reach is a `Site`.
`Fixes` selects, per proposed repair, the behaviour of the repaired code; `repoVariant` is the code as
it is in `/repo` now (all flags `false` = unmodified).
-/
namespace Rustemo.Front

/-- proposed repairs (`/verif/notes/C09-fix-*.diff`); `false` = current code -/
structure Fixes where
  /-- F18: `EMPTY` in a named assignment or as a separator is a diagnostic (C09-fix-1) -/
  emptyErr : Bool := false
  /-- F5: the separator is part of the helper-rule name, as documented (`A1Comma`) (C09-fix-2) -/
  sepInName : Bool := false
  /-- F2: `left`/`right` are one meta-datum for rule → production inheritance (C09-fix-3) -/
  assocOne : Bool := false
  /-- F9: parenthesised groups → diagnostic (C09-fix-4) -/
  groupErr : Bool := false
  /-- F9: greedy repetition operators → diagnostic (C09-fix-4) -/
  greedyErr : Bool := false
  /-- F9: more than one repetition modifier → diagnostic (C09-fix-4) -/
  modifiersErr : Bool := false
  /-- F9: a file with a `terminals` section only → diagnostic (C09-fix-4) -/
  noRulesErr : Bool := false
  /-- F9: an integer literal outside `u32` → (syntax) error (C09-fix-5) -/
  intErr : Bool := false
  /-- duplicate terminal names / rule named like a terminal → diagnostic (C09-fix-6) -/
  dupNameErr : Bool := false
  /-- F5b: a generated helper name that is also a rule or terminal name → diagnostic (C09-fix-7) -/
  helperClashErr : Bool := false
  /-- N3: a rule named `EMPTY`, `AUG` or `AUGL` → diagnostic (C09-fix-8) -/
  reservedErr : Bool := false
  /-- N3b: a reference to `AUG` / `AUGL` in a production → diagnostic (repo 898fba1; it hung the table builder) -/
  reservedRefErr : Bool := false
  /-- C16 (repo 15a0fce): a production kind that is no Rust identifier → diagnostic -/
  kindIdentErr : Bool := false
  /-- C16 (repo 3da879f): a reference to `STOP` in a production → diagnostic -/
  stopRefErr : Bool := false
deriving DecidableEq, Repr, Inhabited

def Fixes.all : Fixes :=
  { emptyErr := true, sepInName := true, assocOne := true, groupErr := true, greedyErr := true,
    modifiersErr := true, noRulesErr := true, intErr := true, dupNameErr := true, helperClashErr := true,
    kindIdentErr := true, stopRefErr := true, reservedErr := true, reservedRefErr := true }

/-- the variant of the code that is in `/repo` (flip a flag when its fix commit lands) -/
def repoVariant : Fixes :=
  { emptyErr := true, assocOne := true, groupErr := true, greedyErr := true, modifiersErr := true,
    noRulesErr := true, dupNameErr := true, kindIdentErr := true, stopRefErr := true,
    reservedErr := true, helperClashErr := true, reservedRefErr := true }

/-- panic sites reachable in the front end -/
inductive Site where
  | intConst            -- rustemo_actions.rs `int_const`: `token.value.parse().unwrap()`
  | rules0              -- `try_from_file`: `rules[0]` (an empty rule list; no text produces it)
  | augUnwrap           -- `try_from_file`: `self.nonterminals.get("AUG").unwrap()`
  | startUnwrap         -- `try_from_file`: `self.nonterminals.get(&self.start_rule_name).unwrap()`
  | modifiersAssert     -- `desugar_regex`: `assert!(modifiers.len() == 1, …)`
  | groupExpect         -- `desugar_regex`: `.expect("Parenthesized groups are not implemented!")`
  | gsymbolUnwrap       -- `extract_…`: `assign.gsymref.gsymbol.unwrap()` / `reference.gsymbol.unwrap()`
  | greedyTodo          -- `desugar_regex`: `todo!()` for `*! +! ?!`
  | strConstUnresolved  -- `resolve_references`: `panic!("terminal … not created …")`
  | reachIndex          -- `mark_reachable_symbols`: `grammar.nonterminals[…]` / `grammar.terminals[…]` / `productions[…]`
deriving DecidableEq, Repr, Inhabited

/-- diagnostics (`Err`) of the front end -/
inductive Diag where
  | invalidIdent (n : Name)                       -- "Can't use '{}' as a valid Rust identifier."
  | prioTooBig                                    -- "Priority must be <=99."
  | undefSugar (s : Name)                         -- `Terminal "{}" is not defined in the terminals section.`
  | undefInline (s : Name) (prod : Nat)           -- `Terminal "{}" used in production "{}" is not defined …`
  | unexisting (n : Name) (prod : Nat)            -- "Unexisting symbol '{}' in production '{}'."
  | infiniteRecursion (n : Name) (prod : Nat)     -- "Infinite recursion on symbol '{}' in production '{}'."
  -- diagnostics that exist only in repaired variants
  | emptyMisuse
  | helperClash (n : Name)
  | dupName (n : Name)
  | notImplemented
  | noRules
  | intTooBig
  | stopRef (prod : Nat)                          -- "STOP can't be referenced in production '{}'."
  | reserved (n : Name)                           -- "'{}' is a reserved name."
deriving DecidableEq, Repr, Inhabited

inductive Outcome (α : Type) (ε : Type) where
  | ok (a : α)
  | err (e : ε)
  | panic (site : Site)
deriving Repr, Inhabited, DecidableEq

namespace Outcome
variable {α β ε : Type}

def bind : Outcome α ε → (α → Outcome β ε) → Outcome β ε
  | .ok a, f => f a
  | .err e, _ => .err e
  | .panic s, _ => .panic s

def isPanic : Outcome α ε → Bool
  | .panic _ => true
  | _ => false

@[simp] theorem bind_ok (a : α) (f : α → Outcome β ε) : (Outcome.ok a).bind f = f a := rfl
@[simp] theorem bind_err (e : ε) (f : α → Outcome β ε) : (Outcome.err e : Outcome α ε).bind f = .err e := rfl
@[simp] theorem bind_panic (s : Site) (f : α → Outcome β ε) : (Outcome.panic s : Outcome α ε).bind f = .panic s := rfl

end Outcome

abbrev R (α : Type) := Outcome α Diag

/-! ## Grammar data (`grammar/mod.rs`) -/

inductive Assoc where
  | none | left | right
deriving DecidableEq, Repr, Inhabited

structure Term where
  idx : Nat
  name : Name
  annotation : Option Name := none
  recog : Option Recog := none
  hasContent : Bool := false
  reachable : Bool := false
  prio : Nat := 10
  assoc : Assoc := .none
  mdata : Meta := []
deriving DecidableEq, Repr, Inhabited

structure NonTerm where
  idx : Nat
  name : Name
  annotation : Option Name := none
  prods : List Nat := []
  reachable : Bool := false
deriving DecidableEq, Repr, Inhabited

/-- `ResolvingAssignment` (`index = none` until resolved) -/
structure RAssign where
  name : Option Name := none
  sym : GSym
  index : Option Nat := none
  isBool : Bool := false
deriving DecidableEq, Repr, Inhabited

structure GProd where
  idx : Nat
  nonterminal : Nat
  ntidx : Nat := 0
  kind : Option Name := none
  rhs : List RAssign := []
  assoc : Assoc := .none
  prio : Nat := 10
  dynamic : Bool := false
  nops : Bool := false
  nopse : Bool := false
  mdata : Meta := []
deriving DecidableEq, Repr, Inhabited

structure Grammar where
  prods : List GProd
  terminals : List Term            -- `TermVec`, sorted by `idx`
  nonterminals : List NonTerm      -- `NonTermVec`, sorted by `idx`
  emptyIdx : Nat
  stopIdx : Nat := 0
  augIdx : Nat
  auglIdx : Option Nat
  startIdx : Nat
deriving DecidableEq, Repr, Inhabited

/-- `res_symbol` (the `none` case panics in Rust; `build` never returns a grammar with one, see
`Proofs/Front`) -/
def RAssign.symbol (a : RAssign) : Nat := a.index.getD 0

def GProd.rhsSyms (p : GProd) : List Nat := p.rhs.map RAssign.symbol

/-! ## `check_identifier`: `syn::parse_str::<syn::Ident>` (syn 1.0) -/

def kEMPTY : Name := nm "EMPTY"
def kSTOP : Name := nm "STOP"
def kAUG : Name := nm "AUG"
def kAUGL : Name := nm "AUGL"
def kLayout : Name := nm "layout"
def kVec : Name := nm "vec"

def isAlpha (c : Nat) : Bool := (65 ≤ c && c ≤ 90) || (97 ≤ c && c ≤ 122)
def isDigit (c : Nat) : Bool := 48 ≤ c && c ≤ 57
def isIdentStart (c : Nat) : Bool := isAlpha c || c == 95
def isIdentCont (c : Nat) : Bool := isAlpha c || isDigit c || c == 95

/-- words `syn` 1.0 `accept_as_ident` refuses -/
def rustKeywords : List Name :=
  ["_", "abstract", "as", "become", "box", "break", "const", "continue", "crate", "do", "else", "enum",
   "extern", "false", "final", "fn", "for", "if", "impl", "in", "let", "loop", "macro", "match", "mod",
   "move", "mut", "override", "priv", "pub", "ref", "return", "Self", "self", "static", "struct", "super",
   "trait", "true", "type", "typeof", "unsafe", "unsized", "use", "virtual", "where", "while",
   "yield"].map nm

/-- `syn::parse_str::<Ident>(name).is_ok()` for ASCII names (the `Name` token of the grammar language is
ASCII `[a-zA-Z_][a-zA-Z0-9_\.]*`; a `.` makes the string lex into several tokens) -/
def identOk (n : Name) : Bool :=
  match n with
  | [] => false
  | c :: cs => isIdentStart c && cs.all isIdentCont && !rustKeywords.contains n

/-! ## `collect_terminals` -/

structure TSt where
  terms : SMap Term
  next : Nat
deriving Repr, Inhabited

/-- the `Terminal { … }` literal of `collect_terminals`; fields are evaluated in source order, so the
meta-data map is consumed as: `priority`, then `left`, then (only if `left` was absent) `right` -/
def termOfRule (idx : Nat) (t : TermRule) : R Term :=
  let m0 := metaOf t.metas
  let hasContent := match t.recog with
    | some (.str _) => false
    | _ => true
  let prio : R Nat := match m0.get? kPriority with
    | some (.int p) => if 99 < p then .err .prioTooBig else .ok p
    | _ => .ok 10
  let m1 := m0.erase kPriority
  prio.bind fun p =>
    let (assoc, m2) :=
      if m1.contains kLeft then (Assoc.left, m1.erase kLeft)
      else if m1.contains kRight then (Assoc.right, m1.erase kRight)
      else (Assoc.none, m1)
    .ok { idx := idx, name := t.name, annotation := t.annotation, recog := t.recog,
          hasContent := hasContent, prio := p, assoc := assoc, mdata := m2, reachable := false }

def collectTerms (fx : Fixes) : List TermRule → TSt → R TSt
  | [], st => .ok st
  | t :: ts, st =>
    if !identOk t.name then .err (.invalidIdent t.name)
    else if fx.dupNameErr && st.terms.contains t.name then .err (.dupName t.name)
    else (termOfRule st.next t).bind fun term =>
      collectTerms fx ts { terms := st.terms.insert t.name term, next := st.next + 1 }

/-- `terminals_matches`: iterate `self.terminals.values()` (name order), later entries replace -/
def buildMatches (terms : SMap Term) : SMap (Name × Nat) :=
  terms.foldl (fun m kv => match kv.2.recog with
    | some (.str s) => m.insert s (kv.2.name, kv.2.idx)
    | _ => m) []

def stopTerm : Term := { idx := 0, name := kSTOP, prio := 100 }

/-! ## `extract_productions_and_symbols` -/

/-- the part of `GrammarBuilder` that changes while rules are processed.  `nts` is the
`nonterminals` map (keys = `NonTerm.name`; its iteration order is never observed: the final
vector is sorted by `idx`), kept in insertion order. -/
structure XSt where
  nts : List NonTerm
  prods : List GProd
  nextNt : Nat
  nextProd : Nat
deriving Repr, Inhabited

/-- read-only context of `extract` -/
structure Ctx where
  fx : Fixes
  matchesMap : SMap (Name × Nat)
  ruleNames : List Name
  termNames : List Name           -- `STOP` and the declared terminals

def findNt (nts : List NonTerm) (n : Name) : Option NonTerm := nts.find? (fun nt => nt.name == n)

def hasNt (nts : List NonTerm) (n : Name) : Bool := (findNt nts n).isSome

/-- `self.nonterminals.insert(name, nt)` -/
def insertNt (nt : NonTerm) (nts : List NonTerm) : List NonTerm :=
  if hasNt nts nt.name then nts.map (fun x => if x.name == nt.name then nt else x) else nts ++ [nt]

/-- `nonterminal.productions.push(prod_idx)` on the entry of `name` -/
def pushProd (name : Name) (p : Nat) (nts : List NonTerm) : List NonTerm :=
  nts.map (fun x => if x.name == name then { x with prods := x.prods ++ [p] } else x)

/-- `resolving!(name)` -/
def resolving (n : Name) : RAssign := { sym := .name n }

def repSuffix : RepOp → Name
  | .zeroOrMore => nm "0"
  | .zeroOrMoreGreedy => nm "0Greedy"
  | .oneOrMore => nm "1"
  | .oneOrMoreGreedy => nm "1Greedy"
  | .optional => nm "Opt"
  | .optionalGreedy => nm "OptGreedy"

/-- `nt_name` of `desugar_regex`; the repaired variant appends the separator as the documentation
says (`A+[Comma]` ↦ `A1Comma`) -/
def helperName (fx : Fixes) (x : Name) (op : RepOp) (sep : Option Name) : Name :=
  x ++ repSuffix op ++ (if fx.sepInName then sep.getD [] else [])

abbrev Acc := XSt × List GProd     -- builder state × `desugar_productions`

/-- common shape of `create_optional` / `create_one` / `create_zero`: a new nonterminal `name` with
two productions (`ntidx` 0 and 1), appended to `desugar_productions` -/
def createHelper (name : Name) (ann : Option Name) (rhs0 rhs1 : List RAssign) (s : Acc) : Acc :=
  let st := s.1
  let nt : NonTerm := { idx := st.nextNt, name := name, annotation := ann,
                        prods := [st.nextProd, st.nextProd + 1] }
  ({ st with nts := insertNt nt st.nts, nextNt := st.nextNt + 1, nextProd := st.nextProd + 2 },
   s.2 ++ [{ idx := st.nextProd, nonterminal := st.nextNt, ntidx := 0, rhs := rhs0 },
           { idx := st.nextProd + 1, nonterminal := st.nextNt, ntidx := 1, rhs := rhs1 }])

/-- `create_optional`: `name: ref | EMPTY` -/
def createOptional (name ref : Name) (s : Acc) : Acc :=
  createHelper name none [resolving ref] [] s

def oneRhs0 (name ref : Name) : Option Name → List RAssign
  | none => [resolving name, resolving ref]
  | some sp => [resolving name, resolving sp, resolving ref]

/-- `create_one`: `@vec name: name [sep] ref | ref` -/
def createOne (name ref : Name) (sep : Option Name) (s : Acc) : Acc :=
  createHelper name (some kVec) (oneRhs0 name ref sep) [resolving ref] s

/-- `create_zero`: `@vec name: one_name | EMPTY` -/
def createZero (name oneName : Name) (s : Acc) : Acc :=
  createHelper name (some kVec) [resolving oneName] [] s

/-- `modifiers` → the single separator (`assert!(modifiers.len() == 1)`) -/
def modifierOf (fx : Fixes) : Option (List Name) → R (Option Name)
  | none => .ok none
  | some [m] =>
    if fx.emptyErr && m == kEMPTY then .err .emptyMisuse else .ok (some m)
  | some _ => if fx.modifiersErr then .err .notImplemented else .panic .modifiersAssert

/-- `ref_type`: the name the helper is derived from -/
def refType (cx : Ctx) : Option GSym → R Name
  | none => if cx.fx.groupErr then .err .notImplemented else .panic .groupExpect
  | some (.name n) => .ok n
  | some (.str s) =>
    match cx.matchesMap.get? s with
    | some (tn, _) => .ok tn
    | none => .err (.undefSugar s)

/-- repaired variant only: a helper name must not be a rule or terminal name -/
def clashCheck (cx : Ctx) (name : Name) : R Unit :=
  if cx.fx.helperClashErr && (cx.ruleNames.contains name || cx.termNames.contains name)
  then .err (.helperClash name) else .ok ()

/-- the three kinds of helper rules -/
inductive HKind where
  | opt | one | zero
deriving DecidableEq, Repr, Inhabited

/-- one request for a helper rule: `base?`, `base+[sep]`, `base*[sep]` -/
structure Use where
  base : Name
  kind : HKind
  sep : Option Name
deriving DecidableEq, Repr, Inhabited

def HKind.op : HKind → RepOp
  | .opt => .optional
  | .one => .oneOrMore
  | .zero => .zeroOrMore

/-- `nt_name(&ref_type, op)` of the use -/
def Use.helper (fx : Fixes) (u : Use) : Name := helperName fx u.base u.kind.op u.sep

/-- the `create_*` call of the use -/
def createUse (fx : Fixes) (u : Use) (s : Acc) : Acc :=
  match u.kind with
  | .opt => createOptional (u.helper fx) u.base s
  | .one => createOne (u.helper fx) u.base u.sep s
  | .zero => createZero (u.helper fx) (helperName fx u.base .oneOrMore u.sep) s

/-- `if !self.nonterminals.contains_key(name) { self.create_*(name, …) }` -/
def ensureUse (cx : Ctx) (u : Use) (s : Acc) : R Acc :=
  (clashCheck cx (u.helper cx.fx)).bind fun _ =>
    .ok (if hasNt s.1.nts (u.helper cx.fx) then s else createUse cx.fx u s)

/-- helper rules an operator asks for, in creation order (`*` asks for the `+` helper first; the
separator of `?` is ignored) -/
def opUses (x : Name) (sep : Option Name) : RepOp → List Use
  | .zeroOrMore => [{ base := x, kind := .one, sep := sep }, { base := x, kind := .zero, sep := sep }]
  | .oneOrMore => [{ base := x, kind := .one, sep := sep }]
  | .optional => [{ base := x, kind := .opt, sep := none }]
  | _ => []

def ensureUses (cx : Ctx) : List Use → Acc → R Acc
  | [], s => .ok s
  | u :: us, s => (ensureUse cx u s).bind fun s1 => ensureUses cx us s1

/-- name of the rule the reference is replaced by: `nt_name(&ref_type, &op.rep_op)` -/
def opName (fx : Fixes) (x : Name) (sep : Option Name) : RepOp → Name
  | .optional => helperName fx x .optional none
  | op => helperName fx x op sep

/-- the `match op.rep_op` of `desugar_regex`; returns the helper's name -/
def desugarOp (cx : Ctx) (op : RepOp) (x : Name) (sep : Option Name) (s : Acc) : R (Name × Acc) :=
  match op with
  | .zeroOrMore | .oneOrMore | .optional =>
    (ensureUses cx (opUses x sep op) s).bind fun s1 => .ok (opName cx.fx x sep op, s1)
  | _ => if cx.fx.greedyErr then .err .notImplemented else .panic .greedyTodo

/-- `desugar_regex`: returns the (possibly replaced) `gsymbol` -/
def desugar (cx : Ctx) (r : SymRef) (s : Acc) : R (Option GSym × Acc) :=
  match r.rep with
  | none => .ok (r.gsym, s)
  | some o =>
    (modifierOf cx.fx o.mods).bind fun sep =>
    (refType cx r.gsym).bind fun x =>
    (desugarOp cx o.op x sep s).bind fun res => .ok (some (.name res.1), res.2)

def unwrapGsym (fx : Fixes) : Option GSym → R GSym
  | some g => .ok g
  | none => if fx.groupErr then .err .notImplemented else .panic .gsymbolUnwrap

def Assign.symRef : Assign → SymRef
  | .plain _ r => r
  | .bool _ r => r
  | .ref r => r

def Assign.aname : Assign → Option Name
  | .plain n _ => some n
  | .bool n _ => some n
  | .ref _ => none

def Assign.isBool : Assign → Bool
  | .bool _ _ => true
  | _ => false

/-- the `.filter(…)` of the rhs: only an UNNAMED reference to `EMPTY` is dropped (whatever its
repetition operator) -/
def Assign.isUnnamedEmpty : Assign → Bool
  | .ref r => r.gsym == some (.name kEMPTY)
  | _ => false

/-- the `.map(|assignment| …)` closure of the rhs -/
def assignStep (cx : Ctx) (a : Assign) (s : Acc) : R (RAssign × Acc) :=
  let r := a.symRef
  if cx.fx.groupErr && r.gsym.isNone then .err .notImplemented
  else if cx.fx.emptyErr && a.aname.isSome && r.gsym == some (.name kEMPTY) then .err .emptyMisuse
  else
    let identCheck : R Unit := match a.aname with
      | some n => if identOk n then .ok () else .err (.invalidIdent n)
      | none => .ok ()
    identCheck.bind fun _ =>
    (desugar cx r s).bind fun res =>
    (unwrapGsym cx.fx res.1).bind fun g =>
      .ok ({ name := a.aname, sym := g, index := none, isBool := a.isBool }, res.2)

def rhsSteps (cx : Ctx) : List Assign → Acc → R (List RAssign × Acc)
  | [], s => .ok ([], s)
  | a :: as, s =>
    (assignStep cx a s).bind fun r1 =>
    (rhsSteps cx as r1.2).bind fun r2 => .ok (r1.1 :: r2.1, r2.2)

def isAssocKey (k : Name) : Bool := k == kLeft || k == kRight

/-- "Inherit meta-data from Rule": every rule-level key the production does not have.  Repaired
variant (F2): rule-level `left`/`right` are skipped when the production has either. -/
def inherit (fx : Fixes) (ruleMeta altMeta : Meta) : Meta :=
  ruleMeta.foldl (fun m kv =>
    if m.contains kv.1 then m
    else if fx.assocOne && isAssocKey kv.1 && (altMeta.contains kLeft || altMeta.contains kRight) then m
    else m.insert kv.1 kv.2) altMeta

def prioOfMeta (m : Meta) : Nat :=
  match m.get? kPriority with
  | some (.int p) => p
  | _ => 10

def kindOfMeta (m : Meta) : Option Name :=
  match m.get? kKind with
  | some (.str s) => some s
  | _ => none

/-- `left` is looked at first, `right` second and wins when both are present -/
def assocOfMeta (m : Meta) : Assoc :=
  if m.contains kRight then .right else if m.contains kLeft then .left else .none

/-- "Map meta-data to production fields" -/
def mkProd (idx nt ntidx : Nat) (rhs : List RAssign) (m : Meta) : GProd :=
  { idx := idx, nonterminal := nt, ntidx := ntidx, rhs := rhs,
    prio := prioOfMeta m, kind := kindOfMeta m, assoc := assocOfMeta m,
    nops := m.contains kNops, nopse := m.contains kNopse, dynamic := false,
    mdata := ((((((m.erase kPriority).erase kKind).erase kLeft).erase kRight).erase kNops).erase kNopse) }

/-- repaired variant (repo 15a0fce): `self.check_identifier(&kind)?` where the `kind` meta-datum (a string,
inherited ones included) is moved into the production — after the rhs and the `priority` extraction -/
def kindCheck (fx : Fixes) (m : Meta) : R Unit :=
  match kindOfMeta m with
  | some k => if fx.kindIdentErr && !identOk k then .err (.invalidIdent k) else .ok ()
  | none => .ok ()

/-- one iteration of `for (prod_ntidx, production) in rule.rhs.into_iter().enumerate()` -/
def altStep (cx : Ctx) (rule : Rule) (ntIdx : Nat) (j : Nat) (alt : Alt) (st : XSt) : R XSt :=
  let prodIdx := st.nextProd
  let st1 := { st with nextProd := st.nextProd + 1 }
  (rhsSteps cx (alt.assigns.filter (fun a => !a.isUnnamedEmpty)) (st1, [])).bind fun res =>
    (kindCheck cx.fx (inherit cx.fx (metaOf rule.metas) (metaOf alt.metas))).bind fun _ =>
    let st2 := res.2.1
    let pending := res.2.2
    let p := mkProd prodIdx ntIdx j res.1 (inherit cx.fx (metaOf rule.metas) (metaOf alt.metas))
    let nts := if hasNt st2.nts rule.name then pushProd rule.name prodIdx st2.nts
      else st2.nts ++ [{ idx := ntIdx, name := rule.name, annotation := rule.annotation, prods := [prodIdx] }]
    .ok { st2 with prods := st2.prods ++ [p] ++ pending, nts := nts }

def altSteps (cx : Ctx) (rule : Rule) (ntIdx : Nat) : Nat → List Alt → XSt → R XSt
  | _, [], st => .ok st
  | j, a :: as, st => (altStep cx rule ntIdx j a st).bind fun st1 => altSteps cx rule ntIdx (j + 1) as st1

/-- the checks at the top of `for rule in rules`: `check_identifier`, (C09-fix-8) reserved names,
(C09-fix-6) a terminal of that name -/
def ruleCheck (cx : Ctx) (rule : Rule) : R Unit :=
  if !identOk rule.name then .err (.invalidIdent rule.name)
  else if cx.fx.reservedErr && [kEMPTY, kAUG, kAUGL].contains rule.name then .err (.reserved rule.name)
  else if cx.fx.dupNameErr && cx.termNames.contains rule.name then .err (.dupName rule.name)
  else .ok ()

/-- one iteration of `for rule in rules` -/
def ruleStep (cx : Ctx) (rule : Rule) (st : XSt) : R XSt :=
  (ruleCheck cx rule).bind fun _ =>
    match findNt st.nts rule.name with
    | some nt => altSteps cx rule nt.idx 0 rule.alts st
    | none => altSteps cx rule st.nextNt 0 rule.alts { st with nextNt := st.nextNt + 1 }

def ruleSteps (cx : Ctx) : List Rule → XSt → R XSt
  | [], st => .ok st
  | r :: rs, st => (ruleStep cx r st).bind fun st1 => ruleSteps cx rs st1

/-- `create_aug_nt_and_production` -/
def createAug (ntName rhsRule : Name) (st : XSt) : XSt :=
  { nts := insertNt { idx := st.nextNt, name := ntName, prods := [st.nextProd] } st.nts,
    prods := st.prods ++ [{ idx := st.nextProd, nonterminal := st.nextNt, rhs := [resolving rhsRule] }],
    nextNt := st.nextNt + 1, nextProd := st.nextProd + 1 }

/-- ASCII `to_lowercase` (rule names are ASCII) -/
def lowerName (n : Name) : Name := n.map (fun c => if 65 ≤ c && c ≤ 90 then c + 32 else c)

def xst0 : XSt := { nts := [{ idx := 0, name := kEMPTY }], prods := [], nextNt := 1, nextProd := 0 }

/-- `extract_productions_and_symbols` (`rules` non-empty: `rules[0]` was read before) -/
def extract (cx : Ctx) (r0 : Rule) (rules : List Rule) : R XSt :=
  let st1 := createAug kAUG r0.name xst0
  let st2 := match rules.find? (fun r => lowerName r.name == kLayout) with
    | some lr => createAug kAUGL lr.name st1
    | none => st1
  ruleSteps cx rules st2

/-! ## Reference resolution -/

def resolveInlineRhs (mm : SMap (Name × Nat)) (prodIdx : Nat) : List RAssign → R (List RAssign)
  | [] => .ok []
  | a :: as =>
    let a' : R RAssign := match a.sym with
      | .str s =>
        match mm.get? s with
        | some (_, idx) => .ok { a with index := some idx }
        | none => .err (.undefInline s prodIdx)
      | .name _ => .ok a
    a'.bind fun x => (resolveInlineRhs mm prodIdx as).bind fun xs => .ok (x :: xs)

/-- `resolve_inline_terminals_from_productions` -/
def resolveInline (mm : SMap (Name × Nat)) : List GProd → R (List GProd)
  | [] => .ok []
  | p :: ps =>
    (resolveInlineRhs mm p.idx p.rhs).bind fun rhs =>
    (resolveInline mm ps).bind fun ps' => .ok ({ p with rhs := rhs } :: ps')

/-- the variant flags `resolve_references` depends on -/
structure RFlags where
  stop : Bool
  reserved : Bool
deriving DecidableEq, Repr, Inhabited

def Fixes.rflags (fx : Fixes) : RFlags := { stop := fx.stopRefErr, reserved := fx.reservedRefErr }

def resolveSym (stopErr : RFlags) (terms : SMap Term) (nts : List NonTerm) (p : GProd) (rhsLen : Nat) (a : RAssign) :
    R RAssign :=
  match a.index with
  | some _ => .ok a
  | none =>
    match a.sym with
    | .name n =>
      -- repaired variant (repo 3da879f): `STOP` cannot be referenced, checked before the terminal lookup
      -- repaired variant (repo 898fba1): the augmented nonterminals cannot be referenced, checked first
      if stopErr.reserved && (n == kAUG || n == kAUGL) then .err (.reserved n) else
      if stopErr.stop && n == kSTOP then .err (.stopRef p.idx) else
      match terms.get? n with
      | some t => .ok { a with index := some t.idx }
      | none =>
        match findNt nts n with
        | none => .err (.unexisting n p.idx)
        | some nt =>
          if rhsLen == 1 && nt.idx == p.nonterminal then .err (.infiniteRecursion n p.idx)
          else .ok { a with index := some (nt.idx + terms.length) }
    | .str s =>
      match terms.get? s with
      | some t => .ok { a with index := some t.idx }
      | none => .panic .strConstUnresolved

def resolveRhs (stopErr : RFlags) (terms : SMap Term) (nts : List NonTerm) (p : GProd) (rhsLen : Nat) :
    List RAssign → R (List RAssign)
  | [] => .ok []
  | a :: as =>
    (resolveSym stopErr terms nts p rhsLen a).bind fun x =>
    (resolveRhs stopErr terms nts p rhsLen as).bind fun xs => .ok (x :: xs)

/-- `resolve_references` -/
def resolveRefs (stopErr : RFlags) (terms : SMap Term) (nts : List NonTerm) : List GProd → R (List GProd)
  | [] => .ok []
  | p :: ps =>
    (resolveRhs stopErr terms nts p p.rhs.length p.rhs).bind fun rhs =>
    (resolveRefs stopErr terms nts ps).bind fun ps' => .ok ({ p with rhs := rhs } :: ps')

/-! ## Assembly and `mark_reachable_symbols` -/

/-- insertion into a list sorted by `key`, after the elements with a smaller key (stable) -/
def insertByKey {α : Type} (key : α → Nat) (t : α) : List α → List α
  | [] => [t]
  | x :: xs => if key t ≤ key x then t :: x :: xs else x :: insertByKey key t xs

/-- `Vec::sort()` with `Ord` = `key` (stable) -/
def sortByKey {α : Type} (key : α → Nat) (l : List α) : List α := l.foldr (insertByKey key) []

/-- `terms.sort()` (`Ord for Terminal` compares `idx`) -/
def sortTerms (l : List Term) : List Term := sortByKey Term.idx l

/-- `nonterms.sort()` (`Ord for NonTerminal` compares `idx`) -/
def sortNts (l : List NonTerm) : List NonTerm := sortByKey NonTerm.idx l

/-- marks collected by `mark_reachable`: positions in the nonterminal / terminal vectors -/
structure Marks where
  nts : List Nat
  terms : List Nat
deriving Repr, Inhabited

def addMark (x : Nat) (l : List Nat) : List Nat := if l.contains x then l else l ++ [x]

/-- effect of the `for symbol in …rhs_symbols()` loop of one production on the marks.  A symbol
`≥ terminals.len()` indexes `grammar.nonterminals` by position (`symbol_to_nonterm`). -/
def markSyms (nTerms nNts : Nat) : List Nat → Marks → R Marks
  | [], m => .ok m
  | s :: ss, m =>
    if nTerms ≤ s then
      if s - nTerms < nNts then markSyms nTerms nNts ss { m with nts := addMark (s - nTerms) m.nts }
      else .panic .reachIndex
    else markSyms nTerms nNts ss { m with terms := addMark s m.terms }

def markProds (g : Grammar) : List Nat → Marks → R Marks
  | [], m => .ok m
  | p :: ps, m =>
    match g.prods[p]? with
    | none => .panic .reachIndex
    | some pr =>
      (markSyms g.terminals.length g.nonterminals.length pr.rhsSyms m).bind fun m1 => markProds g ps m1

/-- one sweep over all nonterminal positions marked so far -/
def markRound (g : Grammar) : List Nat → Marks → R Marks
  | [], m => .ok m
  | pos :: rest, m =>
    match g.nonterminals[pos]? with
    | none => .panic .reachIndex
    | some nt => (markProds g nt.prods m).bind fun m1 => markRound g rest m1

def markIter (g : Grammar) : Nat → Marks → R Marks
  | 0, m => .ok m
  | n + 1, m => (markRound g m.nts m).bind fun m1 => markIter g n m1

def setReachNts (marks : List Nat) : Nat → List NonTerm → List NonTerm
  | _, [] => []
  | i, x :: xs => { x with reachable := marks.contains i } :: setReachNts marks (i + 1) xs

def setReachTerms (marks : List Nat) : Nat → List Term → List Term
  | _, [] => []
  | i, x :: xs => { x with reachable := marks.contains i } :: setReachTerms marks (i + 1) xs

/-- `mark_reachable_symbols`.  The Rust code is a depth-first recursion over nonterminals with a
`visited` set of productions; the set of marks it produces is the least set closed under "a marked
nonterminal marks the symbols of its productions", and it panics iff an index into
`grammar.nonterminals` met on the way is out of bounds.  `nonterminals.len() + 1` sweeps reach that
closure (each sweep that is not yet closed marks a new position). -/
def markReachable (g : Grammar) : R Grammar :=
  if g.startIdx < g.terminals.length then .panic .reachIndex       -- `checked_sub(..).unwrap()`
  else if g.nonterminals.length ≤ g.startIdx - g.terminals.length then .panic .reachIndex
  else
    (markIter g (g.nonterminals.length + 1) { nts := [g.startIdx - g.terminals.length], terms := [] }).bind fun m =>
      .ok { g with nonterminals := setReachNts m.nts 0 g.nonterminals,
                   terminals := setReachTerms m.terms 0 g.terminals }

/-- the `Grammar { … }` literal of `try_from_file` -/
def assemble (terms : SMap Term) (nts : List NonTerm) (prods : List GProd) (startName : Name) : R Grammar :=
  let termLen := terms.length
  match findNt nts kAUG with
  | none => .panic .augUnwrap
  | some aug =>
    match findNt nts startName with
    | none => .panic .startUnwrap
    | some start =>
      .ok { prods := prods, emptyIdx := termLen, stopIdx := 0, augIdx := termLen + aug.idx,
            auglIdx := (findNt nts kAUGL).map (fun x => termLen + x.idx),
            startIdx := termLen + start.idx,
            terminals := sortTerms terms.values, nonterminals := sortNts nts }

/-! ## `try_from_file` -/

def termNamesOf (f : File) : List Name := (f.terms.getD []).map (·.name)
def ruleNamesOf (f : File) : List Name := (f.rules.getD []).map (·.name)

/-- builder state after the optional `collect_terminals` -/
def termPhase (fx : Fixes) (f : File) : R TSt :=
  match f.terms with
  | none => .ok { terms := [(kSTOP, stopTerm)], next := 1 }
  | some ts => collectTerms fx ts { terms := [(kSTOP, stopTerm)], next := 1 }

def matchesOf (f : File) (ts : TSt) : SMap (Name × Nat) :=
  match f.terms with
  | none => []
  | some _ => buildMatches ts.terms

def ctxOf (fx : Fixes) (f : File) (ts : TSt) : Ctx :=
  { fx := fx, matchesMap := matchesOf f ts, ruleNames := ruleNamesOf f, termNames := kSTOP :: termNamesOf f }

/-- productions and nonterminals after the optional `extract_productions_and_symbols` -/
def rulePhase (fx : Fixes) (f : File) (ts : TSt) : R (XSt × Name) :=
  match f.rules with
  | none =>
    if fx.noRulesErr then .err .noRules
    else .ok ({ nts := [], prods := [], nextNt := 0, nextProd := 0 }, [])
  | some [] => .panic .rules0
  | some (r0 :: rs) => (extract (ctxOf fx f ts) r0 (r0 :: rs)).bind fun st => .ok (st, r0.name)

/-- `GrammarBuilder::new().try_from_file(file, None)` preceded by the value conversions of the
grammar actions (`int_const`) -/
def build (fx : Fixes) (f : File) : R Grammar :=
  if f.big (if fx.intErr then int9Max else u32Max) then
    (if fx.intErr then .err .intTooBig      -- repaired lexer: the literal is a syntax error
     else .panic .intConst)
  else
    (termPhase fx f).bind fun ts =>
    (rulePhase fx f ts).bind fun xs =>
    (resolveInline (matchesOf f ts) xs.1.prods).bind fun ps1 =>
    (resolveRefs fx.rflags ts.terms xs.1.nts ps1).bind fun ps2 =>
    (assemble ts.terms xs.1.nts ps2 xs.2).bind fun g =>
    markReachable g

end Rustemo.Front
