import Rustemo.Model.Basic
/-!
# Termination certificate (C15): executable validator run on the table the real compiler produced

Nothing here mirrors Rust code.  `Cert.terminating g t` computes and CHECKS three things (the
computations are not trusted; only the checks matter, `Proofs/TermCert.lean`):

Only the productions the parser can reduce by count: `used` = the productions `p` with `reduce p _`
at the head of some cell of the table (conflict resolution may have removed the others).

* a set `nul` of nullable nonterminals that is closed under the used productions (so the root of
  every tree with an empty yield that the parser can build is in it);
* a ranking `rk` of the symbols that decreases along the *unit-derivation* relation of the grammar:
  for every production `A → α X β` with `X` a nonterminal and all of `α`, `β` in `nul`,
  `rk X < rk A` (no nonterminal derives itself: the grammar is cycle-free — the class of finding F24
  fails here);
* a ranking `rn` of the states that decreases along every goto on a nullable nonterminal (the parse
  stack cannot grow by entries with an empty yield forever).

From them `termBound g t n` is an explicit bound on the number of iterations of the LR loop on an
input of `n` bytes whose tokens are not empty (`Props/C15.lean C15_lr_terminates`).
-/
namespace Rustemo
namespace CertTerm

def iter {α : Type} (f : α → α) : Nat → α → α
  | 0, a => a
  | n+1, a => iter f n (f a)

/-! ## the productions the parser can reduce by -/

def headReduce (cell : List Action) : Option Nat :=
  match cell with
  | .reduce p _ :: _ => some p
  | _ => none

def usedProds (t : Table) : List Nat :=
  t.states.toList.flatMap fun st => st.actions.toList.filterMap headReduce

/-- `f` holds of every used production -/
def forUsed (g : Grammar) (used : List Nat) (f : Prod → Bool) : Bool :=
  used.all fun p =>
    match g.prods[p]? with
    | some pr => f pr
    | none => true

def prodsOf (g : Grammar) (used : List Nat) : List Prod := used.filterMap fun p => g.prods[p]?

/-! ## nullable nonterminals -/

def nulStep (prods : List Prod) (nul : List Nat) : List Nat :=
  nul ++ (prods.filterMap fun pr =>
    if pr.rhs.all nul.contains && !nul.contains pr.lhs then some pr.lhs else none).eraseDups

def nullables (prods : List Prod) : List Nat := iter (nulStep prods) (prods.length + 1) []

/-- closed under the used productions, only nonterminals -/
def nulOk (g : Grammar) (used : List Nat) (nul : List Nat) : Bool :=
  (forUsed g used fun pr => !(pr.rhs.all nul.contains) || nul.contains pr.lhs) &&
  (nul.all fun x => decide (g.nterms ≤ x)) &&
  (forUsed g used fun pr => decide (g.nterms ≤ pr.lhs))

/-! ## rankings by relaxation; `edges` are pairs (smaller, larger) -/

def relax (edges : List (Nat × Nat)) (rk : Array Nat) : Array Nat :=
  edges.foldl (fun rk e => rk.setIfInBounds e.2 (max (rk.getD e.2 0) (rk.getD e.1 0 + 1))) rk

def ranks (size : Nat) (edges : List (Nat × Nat)) : Array Nat :=
  iter (relax edges) (size + 1) (Array.replicate size 0)

def ranksOk (edges : List (Nat × Nat)) (rk : Array Nat) : Bool :=
  edges.all fun e => decide (rk.getD e.1 0 < rk.getD e.2 0)

/-- all ways to split a right-hand side around one symbol -/
def splits : List Nat → List Nat → List (List Nat × Nat × List Nat)
  | _, [] => []
  | pre, x :: post => (pre, x, post) :: splits (pre ++ [x]) post

/-- unit-derivation edges `(X, A)`: `A → α X β`, `X` a nonterminal, `α` and `β` nullable -/
def unitEdges (g : Grammar) (used : List Nat) (nul : List Nat) : List (Nat × Nat) :=
  (prodsOf g used).flatMap fun pr =>
    (splits [] pr.rhs).filterMap fun (pre, x, post) =>
      if decide (g.nterms ≤ x) && pre.all nul.contains && post.all nul.contains then some (x, pr.lhs) else none

/-- nullable-goto edges `(s', s)`: `goto(s, X) = s'` for a nullable nonterminal `X` -/
def gotoEdges (g : Grammar) (t : Table) (nul : List Nat) : List (Nat × Nat) :=
  (List.range t.states.size).flatMap fun s =>
    match t.states[s]? with
    | none => []
    | some st =>
      (List.range st.gotos.size).filterMap fun j =>
        match st.gotos.getD j none with
        | some s' => if nul.contains (g.nterms + j) then some (s', s) else none
        | none => none

def maxRhs (prods : List Prod) : Nat := prods.foldl (fun m pr => max m pr.rhs.length) 0
def arrMax (a : Array Nat) : Nat := a.toList.foldl max 0

structure Data where
  used : List Nat
  nul : List Nat
  rk : Array Nat        -- per symbol
  rn : Array Nat        -- per state
  m : Nat               -- longest right-hand side
  w : Nat               -- symbol ranks are < w
  wn : Nat              -- state ranks are < wn

def compute (g : Grammar) (t : Table) : Data :=
  let used := usedProds t
  let nul := nullables (prodsOf g used)
  let rk := ranks (g.nterms + g.nnonterms) (unitEdges g used nul)
  let rn := ranks t.states.size (gotoEdges g t nul)
  { used := used, nul := nul, rk := rk, rn := rn, m := maxRhs (prodsOf g used),
    w := arrMax rk + 1, wn := arrMax rn + 1 }

def dataOk (g : Grammar) (t : Table) (d : Data) : Bool :=
  nulOk g d.used d.nul &&
  ranksOk (unitEdges g d.used d.nul) d.rk &&
  ranksOk (gotoEdges g t d.nul) d.rn &&
  (forUsed g d.used fun pr => decide (pr.rhs.length ≤ d.m)) &&
  (d.rk.toList.all fun r => decide (r < d.w)) && decide (0 < d.w) &&
  (d.rn.toList.all fun r => decide (r < d.wn)) && decide (0 < d.wn)

/-- size bound of a derivation tree with empty yield -/
def epsBound (d : Data) : Nat := (d.m + 1) ^ d.w
/-- `1 + m · epsBound` -/
def cBound (d : Data) : Nat := 1 + d.m * epsBound d
/-- `cBound · w` -/
def kBound (d : Data) : Nat := cBound d * d.w

/-- bound on the number of iterations of the LR loop over `n` bytes of input -/
def boundOf (d : Data) (n : Nat) : Nat :=
  n + ((n + 1) * d.wn) * epsBound d + (2 * n) * kBound d + 1

end CertTerm

/-- the termination certificate -/
def Cert.terminating (g : Grammar) (t : Table) : Bool :=
  CertTerm.dataOk g t (CertTerm.compute g t) && (CertTerm.compute g t).used == CertTerm.usedProds t

/-- fuel that suffices for `LR.parse` on `n` bytes when `Cert.terminating g t` holds -/
def Cert.termBound (g : Grammar) (t : Table) (n : Nat) : Nat := CertTerm.boundOf (CertTerm.compute g t) n

end Rustemo
