/-!
# Lexical disambiguation: the pieces of `sort_terminals`, `TokenIterator` and the parser-side filters

`TermDesc` describes an expected terminal (grammar index, priority, string recognizer length or
regex).  `withFlags` is the finish-flag computation of `LRTable::sort_terminals`
(table/mod.rs:924-973) over an already sorted list, `key` its sort key (a pair), `iter` the `TokenIterator`
(lexer.rs:99-155) with an arbitrary matching function `m : terminal index → Option length`, `lrPick`
/ `glrKeep` the filters of `LRParser::next_token` and `GlrParser::find_lookaheads`.
-/
namespace Rustemo.Lex

structure TermDesc where
  idx : Nat
  prio : Nat
  strLen : Option Nat        -- `some n`: string recognizer of n bytes; `none`: regex
deriving Repr, DecidableEq, Inhabited

def TermDesc.isStr (t : TermDesc) : Bool := t.strLen.isSome

/-- `term_prio` of `sort_terminals`: the pair `(prio, string length if most_specific)`; pairs are
    compared lexicographically (`Ord` of the Rust tuple `(u32, usize)`), see `KeyLt` -/
def key (ms : Bool) (t : TermDesc) : Nat × Nat := (t.prio, if ms then t.strLen.getD 0 else 0)

/-- lexicographic `<` on sort keys: priority first, then the length of a string recognizer -/
def KeyLt (a b : Nat × Nat) : Prop := a.1 < b.1 ∨ (a.1 = b.1 ∧ a.2 < b.2)

instance (a b : Nat × Nat) : Decidable (KeyLt a b) := by unfold KeyLt; exact inferInstance

/-- lexicographic `≤` on sort keys (`¬ KeyLt b a`) -/
def KeyLe (a b : Nat × Nat) : Prop := a.1 < b.1 ∨ (a.1 = b.1 ∧ a.2 ≤ b.2)

instance (a b : Nat × Nat) : Decidable (KeyLe a b) := by unfold KeyLe; exact inferInstance

/-- finish flags: string recognizers under most-specific; last member of a priority group -/
def withFlags (ms : Bool) : List TermDesc → List (TermDesc × Bool)
  | [] => []
  | [a] => [(a, ms && a.isStr)]
  | a :: b :: rest => (a, (ms && a.isStr) || (b.prio != a.prio)) :: withFlags ms (b :: rest)

/-- `TokenIterator` -/
def iter (m : Nat → Option Nat) : Bool → List (TermDesc × Bool) → List (TermDesc × Nat)
  | _, [] => []
  | matched, (t, fin) :: rest =>
    match m t.idx with
    | some l => (t, l) :: (if fin then [] else iter m true rest)
    | none => if fin && matched then [] else iter m matched rest

def maxLen' (toks : List (TermDesc × Nat)) : Nat := toks.foldl (fun acc t => max acc t.2) 0

/-- LR: longest-match filter (if enabled), then the first token -/
def lrPick (longest : Bool) (toks : List (TermDesc × Nat)) : Option (TermDesc × Nat) :=
  if longest then (toks.filter fun t => t.2 == maxLen' toks).head? else toks.head?

/-- GLR: longest-match filter (if enabled), then grammar order (if enabled) -/
def glrKeep (longest grammarOrder : Bool) (toks : List (TermDesc × Nat)) : List (TermDesc × Nat) :=
  let l1 := if longest then toks.filter fun t => t.2 == maxLen' toks else toks
  if grammarOrder then l1.take 1 else l1

/-- insertion sort by `key` (lexicographic order `KeyLe`) descending, stable (ties keep the incoming order = grammar order):
    the model of `terminals.sort_by(|l, r| term_prio(r).cmp(&term_prio(l)))` -/
def insertDesc (ms : Bool) (x : TermDesc) : List TermDesc → List TermDesc
  | [] => [x]
  | y :: ys => if KeyLe (key ms y) (key ms x) then x :: y :: ys else y :: insertDesc ms x ys

def sortTerms (ms : Bool) (l : List TermDesc) : List TermDesc :=
  l.foldr (fun x acc => insertDesc ms x acc) []

end Rustemo.Lex

namespace Rustemo.Lex

def beforeB (ms : Bool) (a b : TermDesc) : Bool :=
  decide (KeyLt (key ms b) (key ms a)) || (key ms a == key ms b && decide (a.idx < b.idx))

def sortedB (ms : Bool) : List TermDesc → Bool
  | [] => true
  | a :: rest => rest.all (beforeB ms a) && sortedB ms rest

def wftB (t : TermDesc) : Bool :=
  match t.strLen with
  | some n => decide (1 ≤ n)
  | none => true

/-- certificate for one state of a real table: its `sorted_terminals` list is `withFlags` of a list
    that is sorted by key (priority, then string length; ties in grammar order) and whose string
    recognizers are not empty -/
def sortedOk (ms : Bool) (descs : List TermDesc) (sorted : List (Nat × Bool)) : Bool :=
  sortedB ms descs && descs.all wftB && ((withFlags ms descs).map fun (t, f) => (t.idx, f)) == sorted

end Rustemo.Lex
