import Rustemo.Model.Ast
/-!
# Typed skeleton of the generated actions file and of the DefaultBuilder reduce arms

Model of the type-shape decisions of `generator/actions/mod.rs`, `generator/actions/production.rs`
(`terminal_type`, `terminal_action`, `nonterminal_types`, `get_action_args`, `nonterminal_actions`)
and `generator/base.rs` (`shift_match_arms`, `reduce_match_arms`: which action is called with which
arguments, `None` / `Box::new(None)` for right-nulled positions), as data (`Skel`), plus the checker
`Skel.wellFormed` for the fragment of Rust typing that these decisions can violate.
Function bodies are not part of the skeleton (their meaning is `Model/AstEval.lean`).
-/
namespace Rustemo.Ast

inductive Ty
  | named (n : String)
  | opt (t : Ty)
  | vec (t : Ty)
  | box (t : Ty)
  | valspan (t : Ty)
  deriving Repr, DecidableEq, Inhabited

def Ty.render : Ty → String
  | .named n => n
  | .opt t => "Option<" ++ t.render ++ ">"
  | .vec t => "Vec<" ++ t.render ++ ">"
  | .box t => "Box<" ++ t.render ++ ">"
  | .valspan t => "ValSpan<" ++ t.render ++ ">"

inductive Item
  | alias (name : String) (ty : Ty)
  | struct (name : String) (fields : List (String × Ty))
  | enum (name : String) (variants : List (String × Option Ty))
  | fn (name : String) (params : List (String × Ty)) (ret : Ty)
  deriving Repr, DecidableEq, Inhabited

def commaJoin : List String → String
  | [] => ""
  | [a] => a
  | a :: as => a ++ "," ++ commaJoin as

def Item.render : Item → String
  | .alias n t => "T:" ++ n ++ "=" ++ t.render
  | .struct n fs => "S:" ++ n ++ "{" ++ commaJoin (fs.map (fun f => f.1 ++ ":" ++ f.2.render)) ++ "}"
  | .enum n vs => "E:" ++ n ++ "{" ++ commaJoin (vs.map (fun v => match v.2 with
      | some t => v.1 ++ "(" ++ t.render ++ ")"
      | none => v.1)) ++ "}"
  | .fn n ps r => "F:" ++ n ++ "(" ++ commaJoin (ps.map (fun p => p.1 ++ ":" ++ p.2.render)) ++ ")->" ++ r.render

/-- argument of a generated call `g_actions::f(context, …)` -/
inductive Arg
  | ctx
  | token
  | p (i : Nat) (sym : String)     -- `p<i>`, bound by the pattern `…::<sym>(p<i>)`: its type is `g_actions::<sym>`
  | none (sym : String)            -- `None` passed for the right-nulled symbol `sym`
  | boxNone (sym : String)         -- `Box::new(None)`
  deriving Repr, DecidableEq, Inhabited

def Arg.render : Arg → String
  | .ctx => "context"
  | .token => "token"
  | .p i _ => s!"p{i}"
  | .none _ => "None"
  | .boxNone _ => "Box::new(None)"

structure Call where
  fn : String
  args : List Arg
  deriving Repr, DecidableEq, Inhabited

def Call.render (c : Call) : String := c.fn ++ "(" ++ commaJoin (c.args.map Arg.render) ++ ")"

structure Skel where
  reserved : List String            -- type names the header of the actions file brings into scope
  items : List Item                 -- generated types and action functions, file order
  calls : List Call                 -- calls of the shift / reduce arms, file order
  prodKinds : List String           -- variants of `enum ProdKind`
  vecAlts : List (String × String)  -- Vec-kind rules: (element type, type of a single-element alternative)
  vecLabels : List String           -- Vec-kind rules: assignment names of single-element alternatives
  deriving Repr, Inhabited

/-! ## generation -/

def nameValloc (loc : Bool) (n : String) : String := if loc then n ++ "Base" else n

def boxIf (b : Bool) (t : Ty) : Ty := if b then .box t else t

def terminalItems (loc : Bool) (t : ATerm) : List Item :=
  [ .alias t.name (if loc then .valspan (.named "String") else .named "String"),
    .fn (toSnake t.name) [("token", .named "Token")] (.named t.name) ]

/-- `get_choice_type` -/
def choiceTypeItems (loc : Bool) (override : Option String) (c : Choice) : List Item :=
  match c.kind with
  | .struct st fs =>
    let tn := override.getD st
    [Item.struct (nameValloc loc tn) (fs.map (fun f => (f.name, boxIf f.recursive (.named f.refType))))]
      ++ (if loc then [Item.alias tn (.valspan (.named (nameValloc loc tn)))] else [])
  | _ => []

def variantOf (c : Choice) : List (String × Option Ty) :=
  match c.kind with
  | .plain => [(c.name, none)]
  | .struct st _ => [(c.name, some (.named st))]
  | .ref r b => [(c.name, some (boxIf b (.named r)))]
  | .empty => []

/-- `nonterminal_types` -/
def typeItems (loc : Bool) (t : SymType) : List Item :=
  match t.kind with
  | .enum en =>
    t.choices.flatMap (choiceTypeItems loc none)
      ++ (if t.optional then [Item.alias t.name (.opt (.named en))] else [])
      ++ [Item.enum en (t.choices.flatMap variantOf)]
  | .struct sn =>
    t.choices.flatMap (choiceTypeItems loc (some sn))
      ++ (if t.optional then [Item.alias t.name (.opt (.named sn))] else [])
  | .ref r b =>
    let rt := boxIf b (.named r)
    [Item.alias t.name (if t.optional then .opt rt else rt)]
  | .vec r b => [Item.alias t.name (.vec (boxIf b (.named r)))]
  | .terminal => []

/-- `get_action_args`. The accumulator of a Vec action is declared `mut` — decided by its TYPE (the field refers to
the rule itself), whatever it is called; shown as `mut name` in the parameter's name. -/
def actionParams (t : SymType) (c : Choice) : List (String × Ty) :=
  let isVec := match t.kind with | .vec _ _ => true | _ => false
  match c.kind with
  | .struct _ fs => fs.map (fun f => (if isVec && t.name == f.refType then "mut " ++ f.name else f.name, .named f.refType))
  | .ref r _ => [(toSnake r, .named r)]
  | _ => []

/-- `action_name` -/
def actionName (nt : String) (c : Choice) : String := toSnake (nt ++ "_" ++ c.name)

/-- `nonterminal_actions` (signatures) -/
def actionItems (t : SymType) : List Item :=
  t.choices.map (fun c => Item.fn (actionName t.name c) (actionParams t c) (.named t.name))

/-- the argument the reduce arm passes for a right-nulled content symbol (`params` closure in base.rs) -/
def nulledArg (fx : Fixes) (ts : List SymType) (sym : String) : Arg :=
  match typeOf ts sym with
  | some { kind := .ref _ true, optional := opt, .. } =>
    -- repaired: `Box::new(None)` only for `type A = Box<B>`; an optional recursive ref is `Option<Box<B>>`
    if fx.optBox && opt then .none sym else .boxNone sym
  | _ => .none sym

def armArgs (fx : Fixes) (ts : List SymType) (len : Nat) : Nat → List (Nat × RSym) → List Arg
  | _, [] => []
  | k, a :: rest =>
    if a.1 < len then Arg.p k a.2.name :: armArgs fx ts len (k + 1) rest
    else nulledArg fx ts a.2.name :: armArgs fx ts len k rest

def upTo : Nat → Nat → List Nat
  | lo, hi => (List.range (hi + 1 - lo)).map (· + lo)

/-- the calls of one production's reduce arm(s) (`reduce_match_arms`) -/
def prodCalls (fx : Fixes) (ts : List SymType) (nt : String) (c : Choice) (p : AProd) : List Call :=
  let f := actionName nt c
  let rhsLen := p.rhs.length
  let cr := contentRhs p
  if rhsLen == 0 then [⟨f, [.ctx]⟩]
  else if cr.isEmpty then [⟨f, [.ctx]⟩]
  else if p.rnLen == rhsLen then [⟨f, .ctx :: armArgs fx ts rhsLen 0 cr⟩]
  else (upTo p.rnLen rhsLen).map (fun len => ⟨f, .ctx :: armArgs fx ts len 0 cr⟩)

/-- position of production number `i` among the productions of its nonterminal (`Production.ntidx`) -/
def ntidxOf (g : AGrammar) (i : Nat) (p : AProd) : Nat := ((g.prods.take i).filter (·.nt == p.nt)).length

def prodKindName (ntidx : Nat) (p : AProd) : String :=
  p.nt ++ (match p.kind with | some k => k | none => s!"P{ntidx + 1}")

def prodKinds (g : AGrammar) : List String :=
  (enumFrom 0 g.prods).map (fun ip => prodKindName (ntidxOf g ip.1 ip.2) ip.2)

def ntReach (g : AGrammar) (nt : String) : Bool := g.nts.any (fun n => n.name == nt && n.reach)

/-- the choice of production number `i` -/
def choiceOfProd (g : AGrammar) (ts : List SymType) (i : Nat) (p : AProd) : Option Choice :=
  match typeOf ts p.nt with
  | some t => t.choices[ntidxOf g i p]?
  | none => none

/-- calls in file order: reduce arms follow `grammar.productions()`, unreachable nonterminals skipped -/
def reduceCalls (fx : Fixes) (g : AGrammar) (ts : List SymType) : List Call :=
  (enumFrom 0 g.prods).flatMap (fun ip =>
    if ntReach g ip.2.nt then
      match choiceOfProd g ts ip.1 ip.2 with
      | some c => prodCalls fx ts ip.2.nt c ip.2
      | none => []
    else [])

/-- what the bodies of the Vec actions rely on: `vec![x]` needs `x` of the element type
(`get_type_kind` lets a `Ref` alternative of ANOTHER type through: `ChoiceKind::Ref` overwrites `single`),
and the `[a]` arm names its parameter `to_snake_case(a.name)` while the signature uses `a.name` -/
def vecAltsOf (t : SymType) : List (String × String) :=
  match t.kind with
  | .vec r _ => t.choices.flatMap (fun c => match c.kind with
      | .ref r' _ => [(r, r')]
      | .struct _ [a] => [(r, a.refType)]
      | _ => [])
  | _ => []

def vecLabelsOf (t : SymType) : List String :=
  match t.kind with
  | .vec _ _ => t.choices.flatMap (fun c => match c.kind with
      | .struct _ [a] => [a.name]
      | _ => [])
  | _ => []

def skeleton (fx : Fixes) (g : AGrammar) (ts : List SymType) : Skel :=
  let rts := g.terms.filter (fun t => t.content && t.reach)
  let rnts := g.nts.filter (·.reach)
  let ntItems := rnts.flatMap (fun nt => match typeOf ts nt.name with
    | some t => typeItems g.loc t ++ actionItems t
    | none => [])
  { reserved := ["Input", "Ctx", "Token", "RustemoToken", "TokenKind", "Context"]
      -- `use rustemo::{ValSpan, Context as C}` before the repair, `Context as _` after
      ++ (if g.loc then (if fx.ctxAlias then ["ValSpan"] else ["ValSpan", "C"]) else []),
    items := rts.flatMap (terminalItems g.loc) ++ ntItems,
    calls := rts.map (fun t => ⟨toSnake t.name, [.ctx, .token]⟩) ++ reduceCalls fx g ts,
    prodKinds := prodKinds g,
    vecAlts := rnts.flatMap (fun nt => match typeOf ts nt.name with | some t => vecAltsOf t | none => []),
    -- repaired: the body uses the declared name, nothing is assumed about it any more
    vecLabels := if fx.vecLabel then [] else
      rnts.flatMap (fun nt => match typeOf ts nt.name with | some t => vecLabelsOf t | none => []) }

/-! ## the checker -/

def Item.typeName? : Item → Option String
  | .alias n _ => some n
  | .struct n _ => some n
  | .enum n _ => some n
  | .fn _ _ _ => none

def Item.fnName? : Item → Option String
  | .fn n _ _ => some n
  | _ => none

def Skel.typeNames (s : Skel) : List String := s.items.filterMap Item.typeName?
def Skel.fnNames (s : Skel) : List String := s.items.filterMap Item.fnName?

def nodup (l : List String) : Bool := l.eraseDups.length == l.length

/-- names the generated code itself relies on (`String`, `Option`, `Vec`, `Box`) must not be redefined -/
def preludeNames : List String := ["String", "Option", "Vec", "Box", "Some", "None"]

/-- Rust keywords a generated function / field name could turn into -/
def rustKeywords : List String :=
  ["as", "break", "const", "continue", "crate", "else", "enum", "extern", "false", "fn", "for", "if", "impl", "in",
   "let", "loop", "match", "mod", "move", "mut", "pub", "ref", "return", "self", "static", "struct", "super",
   "trait", "true", "type", "unsafe", "use", "where", "while", "async", "await", "dyn", "abstract", "become",
   "box", "do", "final", "macro", "override", "priv", "typeof", "unsized", "virtual", "yield", "try", "gen"]

def Item.innerNamesOk : Item → Bool
  | .alias _ _ => true
  | .struct _ fs => nodup (fs.map (·.1)) && fs.all (fun f => !rustKeywords.contains f.1)
  | .enum _ vs => nodup (vs.map (·.1))
  | .fn n ps _ => nodup (ps.map (·.1)) && !rustKeywords.contains n && ps.all (fun p => !rustKeywords.contains p.1)

/-- every declared name is declared once per namespace (F13 when violated) -/
def Skel.namesDistinct (s : Skel) : Bool :=
  nodup (s.reserved ++ preludeNames ++ s.typeNames) && nodup s.fnNames && nodup s.prodKinds
    && s.items.all Item.innerNamesOk

def Ty.names : Ty → List String
  | .named n => [n]
  | .opt t => t.names
  | .vec t => t.names
  | .box t => t.names
  | .valspan t => t.names

def Item.refs : Item → List String
  | .alias _ t => t.names
  | .struct _ fs => fs.flatMap (·.2.names)
  | .enum _ vs => vs.flatMap (fun v => match v.2 with | some t => t.names | none => [])
  | .fn _ ps r => ps.flatMap (·.2.names) ++ r.names

def Skel.fnSig (s : Skel) (f : String) : Option (List (String × Ty)) :=
  s.items.findSome? (fun i => match i with | .fn n ps _ => if n == f then some ps else none | _ => none)

/-- every referenced type / called function is declared, with the right number of arguments -/
def Skel.refsDeclared (s : Skel) : Bool :=
  let known := ["String", "Token"] ++ s.typeNames
  s.items.all (fun i => i.refs.all known.contains)
    && s.calls.all (fun c => match s.fnSig c.fn with
        | some ps => ps.length + 1 == c.args.length
        | none => false)
    && s.calls.all (fun c => c.args.all (fun a => match a with | .p _ sym => known.contains sym | _ => true))

/-- names a type contains BY VALUE (`Box` and `Vec` are indirections) -/
def Ty.byValue : Ty → List String
  | .named n => [n]
  | .opt t => t.byValue
  | .valspan t => t.byValue
  | .vec _ => []
  | .box _ => []

def Item.byValue : Item → List String
  | .alias _ t => t.byValue
  | .struct _ fs => fs.flatMap (·.2.byValue)
  | .enum _ vs => vs.flatMap (fun v => match v.2 with | some t => t.byValue | none => [])
  | .fn _ _ _ => []

/-- containment graph of the declared types -/
def Skel.contain (s : Skel) : Graph :=
  s.items.filterMap (fun i => i.typeName?.map (fun n => (n, i.byValue)))

/-- one round of peeling: keep the nodes that still contain a kept node -/
def peel (G : Graph) : Graph := G.filter (fun n => n.2.any (fun t => G.any (·.1 == t)))

def peelN : Nat → Graph → Graph
  | 0, G => G
  | k + 1, G => peelN k (peel G)

/-- no cycle of by-value containment (E0072 / E0391 otherwise): peeling leaves nothing -/
def Skel.sized (s : Skel) : Bool := (peelN s.contain.length s.contain).isEmpty

def Skel.aliasOf (s : Skel) (n : String) : Option Ty :=
  s.items.findSome? (fun i => match i with | .alias m t => if m == n then some t else none | _ => none)

/-- does the type expand (through aliases) to `Option<_>`? -/
def headOpt (s : Skel) : Nat → Ty → Bool
  | _, .opt _ => true
  | 0, _ => false
  | k + 1, .named n => match s.aliasOf n with | some t => headOpt s k t | none => false
  | _, _ => false

/-- does the type expand to `Box<T>` with `T` expanding to `Option<_>`? -/
def headBoxOpt (s : Skel) : Nat → Ty → Bool
  | k, .box t => headOpt s k t
  | 0, _ => false
  | k + 1, .named n => match s.aliasOf n with | some t => headBoxOpt s k t | none => false
  | _, _ => false

def Skel.argOk (s : Skel) (a : Arg) (param : Ty) : Bool :=
  match a with
  | .ctx => true
  | .token => param == .named "Token"
  | .p _ sym => param == .named sym
  | .none _ => headOpt s s.items.length param
  | .boxNone _ => headBoxOpt s s.items.length param

def argsOk (s : Skel) : List Arg → List (String × Ty) → Bool
  | [], [] => true
  | a :: as, p :: ps => s.argOk a p.2 && argsOk s as ps
  | _, _ => false

def Skel.callOk (s : Skel) (c : Call) : Bool :=
  match c.args, s.fnSig c.fn with
  | .ctx :: as, some ps => argsOk s as ps
  | _, _ => false

/-- argument types of every arm = parameter types of the action (F12 when violated) -/
def Skel.armsTyped (s : Skel) : Bool := s.calls.all s.callOk

/-- full expansion of type aliases -/
def normTy (s : Skel) : Nat → Ty → Ty
  | 0, t => t
  | k + 1, .named n => match s.aliasOf n with | some t => normTy s k t | none => .named n
  | k + 1, .opt t => .opt (normTy s k t)
  | k + 1, .vec t => .vec (normTy s k t)
  | k + 1, .box t => .box (normTy s k t)
  | k + 1, .valspan t => .valspan (normTy s k t)

/-- the two assumptions of the generated Vec action bodies (see `vecAltsOf`) -/
def Skel.vecAltsOk (s : Skel) : Bool :=
  s.vecAlts.all (fun p => normTy s (2 * s.items.length + 2) (.named p.1) == normTy s (2 * s.items.length + 2) (.named p.2))

def Skel.vecLabelsOk (s : Skel) : Bool := s.vecLabels.all (fun l => toSnake l == l)

def Skel.vecBodiesOk (s : Skel) : Bool := s.vecAltsOk && s.vecLabelsOk

def Skel.wellFormed (s : Skel) : Bool :=
  s.namesDistinct && s.refsDeclared && s.sized && s.armsTyped && s.vecBodiesOk

/-! ## class predicates of the known findings -/

/-- F7: some Vec-kind rule has its vector on the right of the element (`@vec A: B A | B`) -/
def hasRightVec (ts : List SymType) : Bool :=
  ts.any (fun t => match t.kind with
    | .vec _ _ => t.choices.any (fun c => match c.kind with
        | .struct _ [_, b] => b.refType == t.name
        | _ => false)
    | _ => false)

end Rustemo.Ast
