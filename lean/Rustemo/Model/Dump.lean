import Rustemo.Model.Basic
/-!
# Reader for the hook's dump format (`rustemo-compiler/src/verif.rs`)

Records separated by `|`, fields by blanks, strings hex encoded (`=` empty, `-` none).
-/
namespace Rustemo

def hexVal (c : Char) : Nat :=
  if '0' ≤ c ∧ c ≤ '9' then c.toNat - '0'.toNat
  else if 'a' ≤ c ∧ c ≤ 'f' then c.toNat - 'a'.toNat + 10
  else 0

def unhexBytes (s : String) : List Nat :=
  if s == "=" then [] else
  let rec go : List Char → List Nat
    | a :: b :: rest => (hexVal a * 16 + hexVal b) :: go rest
    | _ => []
  go s.toList

def unhexStr (s : String) : String :=
  let bytes := unhexBytes s
  match String.fromUTF8? (ByteArray.mk (bytes.map (·.toUInt8)).toArray) with
  | some str => str
  | none => ""

def fields (s : String) : List String :=
  (s.splitOn " ").filter (· ≠ "")

def natOf (s : String) : Nat := s.toNat?.getD 0
def optNat (s : String) : Option Nat := if s == "-" then none else s.toNat?
def boolOf (s : String) : Bool := s == "1"
def assocOf (s : String) : Assoc := if s == "L" then .left else if s == "R" then .right else .none
def optStr (s : String) : Option String := if s == "-" then none else some (unhexStr s)

def recogOf (s : String) : Option Recog :=
  if s == "-" then none
  else if s.startsWith "S:" then some (.str (unhexStr (s.drop 2).toString))
  else if s.startsWith "R:" then some (.regex (unhexStr (s.drop 2).toString))
  else none

def parseActions : Nat → List String → List Action
  | 0, _ => []
  | n+1, "S" :: s :: rest => .shift (natOf s) :: parseActions n rest
  | n+1, "R" :: p :: l :: rest => .reduce (natOf p) (natOf l) :: parseActions n rest
  | n+1, "A" :: rest => .accept :: parseActions n rest
  | _, _ => []

def parsePairs : List String → List (Nat × Nat)
  | a :: b :: rest => (natOf a, natOf b) :: parsePairs rest
  | _ => []

def rhsSym (s : String) : Nat := natOf ((s.splitOn ":").headD "0")

structure Dump where
  settings : Settings := {}
  grammar : Grammar := { nterms := 0, nnonterms := 0, prods := #[] }
  table : Table := { states := #[] }
  conflicts : Nat := 0
deriving Inhabited

def setArr {α} (a : Array α) (i : Nat) (v : α) : Array α :=
  if h : i < a.size then a.set i v h else a

def Dump.updLast (d : Dump) (f : State → State) : Dump :=
  let i := d.table.states.size - 1
  match d.table.states[i]? with
  | some st =>
    let states := setArr d.table.states i (f st)
    { d with table := { d.table with states := states } }
  | none => d

def Dump.record (d : Dump) (f : List String) : Dump :=
  match f with
  | "settings" :: algo :: tt :: ps :: pse :: ms :: lm :: go :: pp :: sw :: _ =>
    let st : Settings := {
      glr := algo == "GLR", tableType := tt, preferShifts := boolOf ps,
      preferShiftsOverEmpty := boolOf pse, mostSpecific := boolOf ms, longestMatch := boolOf lm,
      grammarOrder := boolOf go, partialParse := boolOf pp, skipWs := boolOf sw }
    { d with settings := st }
  | "grammar" :: nt :: nn :: _np :: e :: _stop :: aug :: augl :: start :: _ =>
    let g : Grammar := {
      d.grammar with nterms := natOf nt, nnonterms := natOf nn,
                     emptyIdx := natOf e, augIdx := natOf aug, auglIdx := optNat augl, startIdx := natOf start }
    { d with grammar := g }
  | "term" :: _idx :: name :: prio :: assoc :: rc :: hc :: reach :: _ =>
    let tm : Terminal := {
      name := unhexStr name, prio := natOf prio, assoc := assocOf assoc, recog := recogOf rc,
      hasContent := boolOf hc, reachable := boolOf reach }
    { d with grammar := { d.grammar with terms := d.grammar.terms.push tm } }
  | "nonterm" :: _idx :: name :: _ =>
    { d with grammar := { d.grammar with ntNames := d.grammar.ntNames.push (unhexStr name) } }
  | "prod" :: _idx :: nt :: ntidx :: kind :: prio :: assoc :: nops :: nopse :: _dyn :: n :: rest =>
    let rhs := (rest.take (natOf n)).map rhsSym
    let pr : Prod := {
      lhs := d.grammar.nterms + natOf nt, rhs := rhs, prio := natOf prio, assoc := assocOf assoc,
      nops := boolOf nops, nopse := boolOf nopse, ntidx := natOf ntidx, kind := optStr kind }
    { d with grammar := { d.grammar with prods := d.grammar.prods.push pr } }
  | "first" :: _idx :: _n :: rest =>
    { d with table := { d.table with firsts := d.table.firsts.push (rest.map natOf) } }
  | "rn" :: "-" :: _ => d
  | "rn" :: _n :: rest =>
    { d with table := { d.table with rnLens := some (rest.map natOf).toArray } }
  | "table" :: _n :: lay :: _ =>
    { d with table := { d.table with layoutState := optNat lay } }
  | "state" :: _idx :: sym :: _ =>
    let ns : State := {
      symbol := natOf sym, items := [],
      actions := Array.replicate d.grammar.nterms [],
      gotos := Array.replicate d.grammar.nnonterms none, sorted := [] }
    { d with table := { d.table with states := d.table.states.push ns } }
  | "item" :: p :: dot :: _n :: rest =>
    d.updLast fun st => { st with items := st.items ++ [⟨natOf p, natOf dot, rest.map natOf⟩] }
  | "act" :: term :: n :: rest =>
    d.updLast fun st => { st with actions := setArr st.actions (natOf term) (parseActions (natOf n) rest) }
  | "goto" :: nt :: s :: _ =>
    d.updLast fun st => { st with gotos := setArr st.gotos (natOf nt) (some (natOf s)) }
  | "sorted" :: _n :: rest =>
    d.updLast fun st => { st with sorted := (parsePairs rest).map (fun (a, b) => (a, b == 1)) }
  | "maxprio" :: _n :: rest =>
    d.updLast fun st => { st with maxPrio := parsePairs rest }
  | "conflicts" :: n :: _ => { d with conflicts := natOf n }
  | _ => d

def Dump.parse (s : String) : Dump :=
  (s.splitOn "|").foldl (fun d r => d.record (fields r)) {}

end Rustemo
