import Rustemo.Model.Cert
/-!
# Certificates for the valid-prefix property (C12), executable

Nothing here mirrors Rust code; like `Cert.structural` / `Cert.complete` these are checkers run by the
driver on the grammar and table dumped from the real compiler.  Soundness: `Proofs/ViableCert.lean`.

* `Cert.productive g` — the grammar is *reduced* in the sense needed by the valid-prefix property:
  every symbol occurring in a right-hand side derives a terminal string (bottom-up marking).
  Grammars failing it (an unproductive nonterminal, finding F10) are outside the scope of C12.
* `Cert.anchored g t autos` — closure provenance: in every state every item with the dot at the left
  end is reachable, inside the state, from a kernel item (dot not at the left end, or the augmented
  item of an automaton that starts in the state) by closure steps `[q: α.Bβ] ⟹ [p: .γ]`, `lhs p = B`.
* `Cert.targetsNonEmpty t` — every shift / goto target and state 0 is a state with at least one item.
-/
namespace Rustemo

/-! ## productive symbols -/

/-- every symbol of `rhs` is a terminal or known productive -/
def Cert.rhsKnown (g : Grammar) (known : List Nat) (rhs : List Nat) : Bool :=
  rhs.all fun X => decide (X < g.nterms) || known.contains X

/-- one marking round: add the left-hand side of every production whose right-hand side is known -/
def Cert.prodStep (g : Grammar) (known : List Nat) : List Nat :=
  known ++ (g.prods.toList.filter fun pr => !known.contains pr.lhs && Cert.rhsKnown g known pr.rhs).map (·.lhs)

def Cert.prodIter (g : Grammar) : Nat → List Nat → List Nat
  | 0, known => known
  | n+1, known =>
    let next := Cert.prodStep g known
    -- nothing new: fixpoint reached (the remaining rounds would not add anything either)
    if next.all known.contains then known else Cert.prodIter g n next

/-- nonterminals marked productive after at most `|prods|` rounds (each round before the fixpoint
    marks a new left-hand side) -/
def Cert.productiveSet (g : Grammar) : List Nat := Cert.prodIter g g.prods.size []

/-- every symbol occurring in a right-hand side derives a terminal string -/
def Cert.productive (g : Grammar) : Bool :=
  let known := Cert.productiveSet g
  g.prods.toList.all fun pr => Cert.rhsKnown g known pr.rhs

/-! ## closure provenance -/

def Cert.isKernel (autos : List Auto) (i : Nat) (it : Item) : Bool :=
  it.dot != 0 || autos.any fun a => a.start == i && a.aug == it.prod

/-- `jt = [q: α.Bβ]` demands `it = [p: .γ]`: the symbol after the dot of `jt` is the left-hand side of `it` -/
def Cert.demands (g : Grammar) (jt it : Item) : Bool :=
  match g.prods[it.prod]? with
  | some pr => g.rhsAt jt.prod jt.dot == some pr.lhs
  | none => false

def Cert.anchStep (g : Grammar) (items : List Item) (anch : List Item) : List Item :=
  anch ++ items.filter fun it => it.dot == 0 && anch.any fun jt => Cert.demands g jt it

def Cert.anchIter (g : Grammar) (items : List Item) : Nat → List Item → List Item
  | 0, anch => anch
  | n+1, anch =>
    if items.all anch.contains then anch else Cert.anchIter g items n (Cert.anchStep g items anch)

def Cert.anchoredState (g : Grammar) (autos : List Auto) (i : Nat) (st : State) : Bool :=
  let anch := Cert.anchIter g st.items st.items.length (st.items.filter (Cert.isKernel autos i))
  st.items.all anch.contains

def Cert.anchored (g : Grammar) (t : Table) (autos : List Auto) : Bool :=
  t.forStates fun i st => Cert.anchoredState g autos i st

/-! ## states are not empty -/

def Table.stateNonEmpty (t : Table) (s : Nat) : Bool :=
  match t.states[s]? with
  | some st => !st.items.isEmpty
  | none => false

def Cert.targetsNonEmpty (t : Table) : Bool :=
  t.stateNonEmpty 0 &&
  (t.forStates fun _ st =>
    (st.forCells fun _ act =>
      match act with
      | .shift s' => t.stateNonEmpty s'
      | _ => true) &&
    (st.forGotos fun _ s' => t.stateNonEmpty s'))

/-- everything the "no late error" half of the valid-prefix property asks beyond `Cert.structural` -/
def Cert.viable (g : Grammar) (t : Table) (autos : List Auto) : Bool :=
  Cert.productive g && Cert.anchored g t autos && Cert.targetsNonEmpty t

end Rustemo
