#!/bin/sh
# usage: tools/try_seeded.sh <patch.diff> <Cxx> [more Cxx...]  -- applies the patch to /repo, runs the quick checks, restores /repo
set -u
PATCH="$1"; shift
cd /repo || exit 2
if ! git -C /repo diff --quiet; then echo "repo dirty, abort"; exit 2; fi
git -C /repo apply "$PATCH" || { echo "patch does not apply"; exit 2; }
cd /verif
# the evidence of the last run on the UNCHANGED tree must survive a run against a seeded change
rm -rf /verif/work/evidence-saved; cp -r /verif/evidence /verif/work/evidence-saved
for c in "$@"; do
  echo "=== $c with $(basename $(dirname $PATCH))"
  ./check "$c" --tier quick 2>&1 | grep -E "VIOLATION|KNOWN-FINDING|^\[$c\]" | cut -c1-220
done
git -C /repo checkout -- . 
rm -rf /verif/evidence; mv /verif/work/evidence-saved /verif/evidence
git -C /repo status --short | head -3
