#!/bin/sh
# usage: tools/try_seeded.sh <patch.diff> <Cxx> [more Cxx...]  -- applies the patch to /repo, runs the quick checks, restores /repo
set -u
PATCH="$1"; shift
cd /repo || exit 2
if ! git -C /repo diff --quiet; then echo "repo dirty, abort"; exit 2; fi
git -C /repo apply "$PATCH" || { echo "patch does not apply"; exit 2; }
cd /verif
for c in "$@"; do
  echo "=== $c with $(basename $(dirname $PATCH))"
  ./check "$c" --tier quick 2>&1 | grep -E "VIOLATION|KNOWN-FINDING|^\[$c\]" | cut -c1-220
done
git -C /repo checkout -- . 
git -C /repo status --short | head -3
