#!/usr/bin/env python3
"""keep_seeded.py <src dir> <seed id> <confirm RESULT line> <caught: 'Cxx:violations:kind' ...>
Copies a confirmed seeded change into /verif/seeded/<id>/ (patch.diff, demonstration, meta.json)."""
import json, os, shutil, sys
src, sid, confirm = sys.argv[1], sys.argv[2], sys.argv[3]
caught = sys.argv[4:]
dst = os.path.join("/verif/seeded", sid)
shutil.rmtree(dst, ignore_errors=True)
os.makedirs(dst)
shutil.copy(os.path.join(src, "patch.diff"), dst)
for f in ("demo.sh", "demo.log"):
    if os.path.exists(os.path.join(src, f)):
        shutil.copy(os.path.join(src, f), dst)
if os.path.isdir(os.path.join(src, "demo")):
    shutil.copytree(os.path.join(src, "demo"), os.path.join(dst, "demo"),
                    ignore=shutil.ignore_patterns("target", "Cargo.lock", "*.rlib"))
m = json.load(open(os.path.join(src, "meta.json")))
meta = {
    "property": m.get("property"),
    "summary": m.get("summary"),
    "needs_to_manifest": m.get("what_it_needs_to_manifest"),
    "files_changed": m.get("files_changed"),
    "origin": "fresh sub-agent given only the property text and its own scratch worktree",
    "confirmed_by_me": {"how": "tools/confirm_seeded.sh in a scratch worktree of /repo HEAD: patch applies; pinned suite with the "
                               "patch; demo.sh without and with the patch", "result": confirm},
    "checks_run_against_it": {"how": "tools/try_seeded.sh (git apply in /repo, ./check --tier quick, git checkout)", "outcome": caught},
}
json.dump(meta, open(os.path.join(dst, "meta.json"), "w"), indent=1, ensure_ascii=False)
print("kept", dst)
