"""C18 — regenerating actions preserves user edits and only adds what is missing.

Flow: Lean obligations (Props/C18.lean) -> build harness/regen -> generate rustemo grammars with
interesting default-builder type shapes, keep the ones the real compiler accepts in LR mode ->
for each a set of (settings chain, edit script) jobs -> harness runs the REAL compiler three times per
job (pristine, regeneration, second regeneration) -> the Lean driver (`regen run …`) answers the
same request -> diff (correspondence) -> oracle (below, independent of the Lean model) on the
implementation's before/after item lists."""
import json
import os
import random
import shutil
import subprocess

import common
from common import lean_obligations, sh, hx, unhx, run_model, workdir, NPROC, HARNESS, load_findings

LEVEL = "proof"
PROP_MODULE = "Rustemo.Props.C18"
VREGEN = os.path.join(HARNESS, "target", "debug", "vregen")
if os.environ.get("VERIF_REGEN_DRIVER"):          # scratch driver while `regen` is not wired into Main.lean
    common.DRIVER = os.environ["VERIF_REGEN_DRIVER"]

# witness of finding F17 (DESIGN.md section 6); runs first on every run
F17_WITNESS = {
    "grammar": "S: Ka A Num;\nA: x=Num y=Id | EMPTY;\nterminals\nKa: 'a';\nNum: /\\d+/;\nId: /[a-z]+/;\n",
    "loc": 0, "ops": "f0", "comments": 0, "edits": "delguard:0",
}
F17_KINDS = {"appended items are not exactly the missing ones", "a name is defined more often than before"}


# ---------------------------------------------------------------------------------------------
# grammar generator: rustemo grammar TEXT with optional / repetition / enum / struct / ref / vec /
# expression / recursive shapes, regex terminals with content, keyword terminals without
# ---------------------------------------------------------------------------------------------

NT_POOL = ["S", "A", "B", "C", "D", "E", "Expr", "Stmt", "Decl", "Item", "Block", "MyRule", "Node2", "Pair",
           "Val", "Elem"]
CT_POOL = [("Num", r"/\d+/"), ("Id", r"/[a-z]+/"), ("Str", r'/"[^"]*"/'), ("Flt", r"/\d+\.\d+/"),
           ("Up", r"/[A-Z]+/")]
FIELD_NAMES = ["x", "y", "left", "right", "val", "first", "rest", "item", "body", "cond"]
SUGAR = ["?", "*", "+", "*[Comma]", "+[Comma]"]


def gen_grammar(rng):
    """returns (text, tags) — tags name the shapes used (for distribution counters)"""
    k = rng.choice([1, 2, 2, 3, 3, 3, 4, 4, 5, 6])
    nts = rng.sample(NT_POOL, k)
    cts = rng.sample(CT_POOL, rng.randint(1, 3))
    kws = []
    tags = set()
    used_comma = [False]
    kind_n = [0]

    def kw():
        kws.append(f"K{len(kws)}")
        return kws[-1]

    def kind():
        if kind_n[0] and rng.random() < 0.03:      # reused production kind: name collision in the generated types
            tags.add("kind-collision")             # (F13 / C11) -> outside C18's statement, still compared with the model
            return f"V{kind_n[0]}"
        kind_n[0] += 1
        return f"V{kind_n[0]}" + rng.choice(["", "", "Node"])

    rules = []      # [annotation, name, [alt strings]], shape
    referenced = set()
    for i, nt in enumerate(nts):
        later = nts[i + 1:]

        def pick(n, allow_self=False):
            pool = list(dict.fromkeys(later + [c[0] for c in cts] + ([nt] if allow_self else [])))
            rng.shuffle(pool)
            out = pool[:n]
            for s in out:
                if s in nts:
                    referenced.add(s)
            return out

        def elem(sym, names, sugar_p=0.3, name_p=0.3):
            s = sym
            if rng.random() < sugar_p:
                sg = rng.choice(SUGAR)
                if "Comma" in sg:
                    used_comma[0] = True
                tags.add("sugar" + sg[0])
                s += sg
            if rng.random() < name_p and names:
                nm = names.pop()
                s = nm + rng.choice(["=", "=", "=", "?="]) + s
                tags.add("named")
            return s

        def alt(sort):
            names = rng.sample(FIELD_NAMES, 4)
            close = [kw()] if rng.random() < 0.6 else []
            if sort == "plain":
                return " ".join([kw()] + ([kw()] if rng.random() < 0.3 else []))
            if sort == "ref":
                return " ".join([kw(), elem(pick(1)[0], names, name_p=0.0)] + close)
            if sort == "named1":
                return " ".join([kw(), elem(pick(1)[0], names, name_p=1.0)] + close)
            if sort == "self":
                return " ".join([kw(), nt, kw()])
            syms = pick(rng.randint(2, 3))
            return " ".join([kw()] + [elem(s, names) for s in syms] + close)

        shape = rng.choice(["struct", "struct", "enum", "enum", "enum", "ref", "vec", "plainenum", "expr", "optstruct"])
        if shape == "expr" and any(r[3] == "expr" for r in rules):
            shape = "enum"
        tags.add(shape)
        ann = None
        if shape in ("struct", "optstruct"):
            alts = [alt(rng.choice(["struct", "struct", "named1"]))]
        elif shape == "ref":
            alts = [alt("ref")]
        elif shape == "plainenum":
            alts = [alt("plain") for _ in range(rng.randint(2, 3))]
        elif shape == "enum":
            alts = []
            for _ in range(rng.randint(2, 4)):
                a = alt(rng.choice(["plain", "ref", "struct", "struct", "named1", "self"]))
                if rng.random() < 0.35:
                    a += " {" + kind() + "}"
                    tags.add("kinds")
                alts.append(a)
        elif shape == "vec":
            ann = "@vec"
            s = pick(1)[0]
            alts = [f"{nt} {s}", s] if rng.random() < 0.7 else [f"{s} {nt}", s]
        else:   # expr
            a, m, lp, rp = kw(), kw(), kw(), kw()
            atom = pick(1)[0]
            alts = [f"left={nt} {a} right={nt} {{{kind()}, 1, left}}", f"left={nt} {m} right={nt} {{{kind()}, 2, left}}",
                    f"{lp} {nt} {rp} {{{kind()}}}", atom]
        if shape == "optstruct" or (shape in ("enum", "ref", "vec") and rng.random() < 0.3):
            alts.append("EMPTY")
            tags.add("optional")
        rules.append([ann, nt, alts, shape])
    # reachability: hook unreferenced rules into an earlier one (mostly)
    for j in range(1, len(nts)):
        if nts[j] not in referenced:
            if rng.random() < 0.85:
                i = rng.randrange(0, j)
                rules[i][2].insert(0, f"{kw()} {nts[j]} {kw()}")
            else:
                tags.add("unreachable-rule")
    out = []
    for ann, nt, alts, _ in rules:
        if ann:
            out.append(ann)
        out.append(f"{nt}: " + "\n  | ".join(alts) + ";")
    layout = rng.random() < 0.1
    if layout:
        tags.add("layout")
        out.append("Layout: LayoutItem*;\nLayoutItem: WS | Comment;")
    out.append("terminals")
    for n in kws:
        out.append(f"{n}: '{n.lower()}';")
    if used_comma[0]:
        out.append("Comma: ',';")
    for n, r in cts:
        out.append(f"{n}: {r};")
    if rng.random() < 0.15:
        tags.add("unreachable-terminal")
        out.append("Unused: /u+/;")
    if layout:
        out.append("WS: /\\s+/;\nComment: /\\/\\/.*/;")
    return "\n".join(out) + "\n", sorted(tags)


# ---------------------------------------------------------------------------------------------
# edit scripts (interpreted by harness/regen, see its `apply_edit`) and settings chains
# ---------------------------------------------------------------------------------------------

INS_KINDS = ["use", "const", "static", "text", "text", "impl", "trait", "helper", "ustruct", "uenum", "utype", "mod", "macro"]
EDIT_FAMILIES = ["none", "delete", "delete", "f17", "f17", "aux", "group", "retype", "rewrite", "rewrite", "insert",
                 "insert", "mixed", "mixed", "mixed", "heavy", "delall", "rename", "dup", "absent", "garbage"]
SETTINGS = ["f0", "f0", "f0", "ast", "ast", "ist", "f0,ast", "ast,f0", "ist,a1", "f1", "-", "f1,ast", "ast,f1",
            "a0,f0", "ast,a0", "odr,ast", "odr,ast", "ast,odr,f0", "odr,ist"]


def rand_op(rng):
    r = rng.randrange
    return rng.choice([
        f"del:{r(60)}", f"delp:{r(60)}", f"delp:{r(60)}", f"delguard:{r(8)}", f"delaux:{r(8)}:{r(5)}",
        f"delgroup:{r(8)}", f"retype:{r(8)}", f"delhdr:{r(6)}", f"body:{r(30)}", f"fields:{r(10)}",
        f"variant:{r(10)}", f"alias:{r(12)}", f"param:{r(30)}", f"rename:{r(40)}",
        f"ins:{r(60)}:{rng.choice(INS_KINDS)}:{r(1000)}", f"ins:{r(60)}:{rng.choice(INS_KINDS)}:{r(1000)}",
        f"dup:{r(60)}:{r(60)}", f"swap:{r(60)}:{r(60)}", f"doc:{r(60)}", "innerattr", f"crossns:{r(40)}",
        f"vis:{r(40)}:{r(3)}", f"vis:{r(40)}:{r(3)}",
    ])


def gen_edits(rng, family):
    r = rng.randrange
    if family == "none":
        return "-"
    if family == "delete":
        return ",".join([f"delp:{r(60)}" for _ in range(rng.randint(1, 8))] + ([f"delhdr:{r(6)}"] if r(4) == 0 else []))
    if family == "f17":
        ops = [f"delguard:{r(8)}" for _ in range(rng.randint(1, 2))]
        if r(2):
            ops.append(rand_op(rng))
        return ",".join(ops)
    if family == "aux":
        return ",".join([f"delaux:{r(8)}:{r(5)}"] + ([f"delp:{r(60)}"] if r(2) else []))
    if family == "group":
        return ",".join([f"delgroup:{r(8)}" for _ in range(rng.randint(1, 3))])
    if family == "retype":
        return ",".join([f"retype:{r(8)}"] + ([f"body:{r(30)}"] if r(2) else []))
    if family == "rewrite":
        return ",".join(rng.choice([f"body:{r(30)}", f"fields:{r(10)}", f"variant:{r(10)}", f"alias:{r(12)}",
                                    f"param:{r(30)}", f"doc:{r(60)}", f"vis:{r(40)}:{r(3)}", f"vis:{r(40)}:{r(3)}"])
                        for _ in range(rng.randint(1, 6)))
    if family == "insert":
        return ",".join(f"ins:{r(60)}:{rng.choice(INS_KINDS)}:{r(1000)}" for _ in range(rng.randint(1, 6)))
    if family == "mixed":
        return ",".join(rand_op(rng) for _ in range(rng.randint(2, 7)))
    if family == "heavy":
        return ",".join(rand_op(rng) for _ in range(rng.randint(8, 20)))
    if family == "delall":
        return ",".join([rng.choice(["delall", "delallfn", "delalltypes"])] + ([rand_op(rng)] if r(2) else []))
    if family == "rename":
        return ",".join(rng.choice([f"rename:{r(40)}", f"crossns:{r(40)}"]) for _ in range(rng.randint(1, 3)))
    if family == "dup":
        return ",".join([f"dup:{r(60)}:{r(60)}"] + ([rand_op(rng)] if r(2) else []))
    if family == "absent":
        return "absent"
    if family == "garbage":
        return ",".join(([rand_op(rng)] if r(2) else []) + ["garbage"])
    return "-"


def eff_settings(ops):
    """the documented meaning of the Settings chain (settings.rs): (force, actions)"""
    force, explicit, actions = True, False, True
    for op in ops.split(","):
        if op in ("f0", "f1"):
            force, explicit = op == "f1", True
        elif op in ("ast", "ist"):
            if not explicit:
                force = False
        elif op in ("a0", "a1"):
            actions = op == "a1"
    return force, actions


# ---------------------------------------------------------------------------------------------
# running the harness
# ---------------------------------------------------------------------------------------------

def build_regen_harness():
    d = os.path.join(HARNESS, "regen")
    lock = os.path.join(d, "Cargo.lock")
    if not os.path.exists(lock):
        shutil.copy("/repo/Cargo.lock", lock)
    rc, out, err = sh(["cargo", "build", "--offline"], cwd=d, timeout=3000)
    return rc == 0, out + err


class Case:
    def __init__(self, grammar, loc, ops, comments, edits, tags=(), family=""):
        self.grammar, self.loc, self.ops, self.comments, self.edits = grammar, int(loc), ops, int(comments), edits
        self.tags, self.family = tags, family
        self.out = {}
        self.model = None
        self.klass = None

    def job(self, i):
        return f"{i} {hx(self.grammar)} {self.loc} {self.ops} {self.comments} {self.edits}"

    def payload(self):
        return {"grammar": self.grammar, "loc": self.loc, "ops": self.ops, "comments": self.comments,
                "edits": self.edits}

    @property
    def status(self):
        return self.out.get("status", "harness-crash")


def run_harness(cases, tag="c18", text=False):
    d = workdir(tag)
    n = min(NPROC, max(1, len(cases)))
    shards = [[] for _ in range(n)]
    for i, c in enumerate(cases):
        shards[i % n].append(i)
    env = dict(common.ENV)
    if text:
        env["VREGEN_TEXT"] = "1"
    procs = []
    for k, ids in enumerate(shards):
        jf, of = os.path.join(d, f"jobs{k}.txt"), os.path.join(d, f"out{k}.txt")
        with open(jf, "w") as fh:
            for i in ids:
                fh.write(cases[i].job(i) + "\n")
        procs.append((of, subprocess.Popen([VREGEN, jf, of, os.path.join(d, f"w{k}")], stdout=subprocess.DEVNULL,
                                           stderr=subprocess.DEVNULL, env=env)))
    for of, p in procs:
        p.wait()
        if os.path.exists(of):
            for line in open(of):
                f = line.rstrip("\n").split(" ", 2)
                if len(f) == 3:
                    cases[int(f[0])].out[f[1]] = f[2]
    shutil.rmtree(d, ignore_errors=True)


def run_driver(cases):
    idx = [i for i, c in enumerate(cases) if c.status == "ok"]
    groups = [["regen " + cases[i].out["request"], "regen class" + cases[i].out["request"][3:]] for i in idx]
    if not groups:
        return
    ans = run_model(groups, tag="c18model")
    for i, a in zip(idx, ans):
        cases[i].model, cases[i].klass = a[0], a[1]


# ---------------------------------------------------------------------------------------------
# oracle: the property text evaluated on the real before/after item lists
# ---------------------------------------------------------------------------------------------

def readable(state):
    """'ok P:<items>' / 'P:<items>' -> 'type Num, fn num, …' (names decoded, hashes dropped)"""
    pre, _, items = state.rpartition("P:")
    if not _:
        return state
    kinds = {"e": "enum", "s": "struct", "t": "type", "f": "fn", "o": "other"}
    out = []
    for x in items.split(","):
        f = x.split(".")
        if len(f) == 3:
            out.append((kinds.get(f[0], f[0]) + " " + unhx(f[1]).decode(errors="replace")).strip())
    return pre + ", ".join(out)


def p_items(s):
    if s == "-":
        return []
    return [tuple(x.split(".")) for x in s.split(",")]


def p_state(s):
    if s in ("A", "X"):
        return (s,)
    return ("P", p_items(s[2:]))


def p_groups(s):
    out = []
    if s.strip() == "-":
        return out
    for g in s.strip().split(" "):
        f = g.split(":")
        if f[0] in ("y", "a"):
            out.append((f[0], tuple(f[1].split("."))))
        else:
            out.append(("n", f[1], [tuple(x.split(".")) for x in f[2].split(";")]))
    return out


def ns(k):
    return "T" if k in ("e", "s", "t") else ("F" if k == "f" else None)


def names(items, which):
    return [n for (k, n, _) in items if ns(k) == which]


def defined(item, tn, fn):
    return (ns(item[0]) == "T" and item[1] in tn) or (ns(item[0]) == "F" and item[1] in fn)


def spec_missing(existing, groups):
    """what has to be appended: every generated item whose own name is undefined, except the types of a
    nonterminal whose name the user has defined himself (documented workflow: replace the types of a rule
    by your own type of the rule's name)"""
    tn, fn = set(names(existing, "T")), set(names(existing, "F"))
    out = []
    for g in groups:
        if g[0] in ("y", "a"):
            if not defined(g[1], tn, fn):
                out.append(g[1])
        elif g[1] not in tn:
            out += [i for i in g[2] if not defined(i, tn, fn)]
    return out


def parse_case(c):
    o = c.out
    c.pristine = p_items(o["pristine"])
    hdr, gs = o["needed"].split(" | ")
    c.hdr, c.groups = p_items(hdr.strip()), p_groups(gs)
    c.edited = p_state(o["edited"])
    r1, s1 = o["after1"].split(" ", 1)
    r2, s2 = o["after2"].split(" ", 1)
    c.after1, c.after2 = (r1, p_state(s1)), (r2, p_state(s2))
    c.same1, c.same2 = int(o["same1"]), int(o["same2"])
    c.attrs = o["attrs"].split(" ")
    c.force, c.actions = eff_settings(c.ops)


def in_scope(c):
    """hypothesis of the theorems on the grammar side: the pristine generation defines no name twice"""
    return all(len(set(names(c.pristine, w))) == len(names(c.pristine, w)) for w in "TF")


def f17_class(c):
    """not group-closed: some nonterminal lost the type carrying its name but kept another of its types"""
    if c.force or not c.actions or c.edited[0] != "P":
        return False
    tn = set(names(c.edited[1], "T"))
    return any(g[0] == "n" and g[1] not in tn and any(i[1] in tn for i in g[2]) for g in c.groups)


def oracle(c):
    bad = []
    (r1, s1), (r2, s2) = c.after1, c.after2
    ed = c.edited
    if not c.actions:
        if r1 != "ok" or s1 != ed or c.same1 != 1:
            bad.append("actions(false) touched the actions file")
    elif ed[0] == "P" and not c.force:
        if r1 != "ok" or s1[0] != "P":
            bad.append("regeneration over a parsable file failed")
            return bad
        before, after = ed[1], s1[1]
        if after[:len(before)] != before:
            bad.append("existing items are not preserved token-for-token as a prefix")
        elif after[len(before):] != spec_missing(before, c.groups):
            bad.append("appended items are not exactly the missing ones")
        for w in "TF":
            nb, na = names(before, w), names(after, w)
            if any(na.count(x) > max(1, nb.count(x)) for x in set(na)):
                bad.append("a name is defined more often than before")
                break
        if c.attrs[0] != c.attrs[1]:
            bad.append("inner attributes of the file changed")
    elif ed[0] == "X" and not c.force:
        if r1 != "err" or s1 != ed or c.same1 != 1:
            bad.append("unparsable existing file: expected an error and an untouched file")
    else:
        if r1 != "ok" or s1 != ("P", c.pristine):
            bad.append("forced / first generation differs from the pristine generation")
    if r2 != r1 or s2 != s1 or c.same2 != 1:
        bad.append("second regeneration changes the file")
    return bad


# ---------------------------------------------------------------------------------------------
# evaluation
# ---------------------------------------------------------------------------------------------

def variant_hint(breaks):
    """which model variant (asIs / fixed) the implementation agrees with on the broken cases"""
    cs = [c for c, _ in breaks if c.status == "ok"][:200]
    if not cs:
        return "n/a"
    agree = []
    for v in ("asIs", "fixed"):
        ans = run_model([["regen runv " + v + c.out["request"][3:]] for c in cs], tag="c18variant")
        if all(a[0] == c.out["answer"] for a, c in zip(ans, cs)):
            agree.append(v)
    return ",".join(agree) or "neither"


def known_f17():
    for f in load_findings():
        if f.get("property") == "C18" and f.get("key", "").startswith("F17"):
            return f
    return None


def shrink(c, still_bad):
    """greedy removal of edit operations while the failure persists"""
    ops = [o for o in c.edits.split(",") if o != "-"]
    changed = True
    while changed and ops:
        changed = False
        for k in range(len(ops)):
            t = Case(c.grammar, c.loc, c.ops, c.comments, ",".join(ops[:k] + ops[k + 1:]) or "-")
            run_harness([t], tag="c18shrink")
            if t.status == "ok":
                parse_case(t)
                if still_bad(t):
                    ops = ops[:k] + ops[k + 1:]
                    changed = True
                    break
    out = Case(c.grammar, c.loc, c.ops, 0, ",".join(ops) or "-")
    run_harness([out], tag="c18shrink")
    if out.status == "ok":
        parse_case(out)
        if still_bad(out):
            return out
    return Case(c.grammar, c.loc, c.ops, c.comments, ",".join(ops) or "-")


def evaluate(rep, cases, proofs_ok, do_shrink=True):
    finding = known_f17()
    failures, known_hits, corr_breaks, class_breaks = [], [], [], []
    distinct = set()
    for c in cases:
        st = c.status
        if st != "ok":
            rep.count("job_status:" + st.split(":")[0] + (":" + st.split(":")[2] if st.startswith("rejected") else ""))
            if not st.startswith("rejected"):
                corr_breaks.append((c, f"harness status {st} ({unhx(st.split(':')[-1]).decode(errors='replace') if ':' in st else ''})"))
            continue
        parse_case(c)
        rep.count("settings:" + c.ops)
        rep.count("edit_family:" + c.family)
        rep.count("existing:" + {"A": "absent", "X": "unparsable", "P": "parsed"}[c.edited[0]])
        for a in c.out.get("applied", "-").split(","):
            rep.count("edit_op:" + a)
        if c.edited[0] == "P" and not c.force and c.actions and c.after1[1][0] == "P":
            rep.count("appended_items:" + str(min(20, len(c.after1[1][1]) - len(c.edited[1]))))
        distinct.add((c.grammar, c.loc, c.ops, c.out["edited"]))
        # correspondence
        rep.count("correspondence_compared")
        if c.model != c.out["answer"]:
            corr_breaks.append((c, "model answer differs"))
        # class predicate: Lean driver vs python
        kl = dict(x.split("=") for x in (c.klass or "").split(" ") if "=" in x)
        if kl:
            rep.count("variant:" + kl.get("variant", "?"))
            py_force, py_actions = c.force, c.actions
            if kl.get("force") != str(int(py_force)) or kl.get("actions") != str(int(py_actions)):
                class_breaks.append((c, "effective force/actions: model != documented rule"))
            if c.edited[0] == "P" and not c.force and c.actions and (kl.get("closed") == "0") != f17_class(c):
                class_breaks.append((c, "class predicate GroupClosed: Lean driver != python"))
        else:
            class_breaks.append((c, "no class answer"))
        if not in_scope(c):
            rep.count("out_of_scope:pristine_generation_has_duplicate_names(F13)")
            continue
        multi = sum(1 for g in c.groups if g[0] == "n" and len(g[2]) > 1)
        rep.count("multi_item_type_groups:" + str(min(multi, 4)))
        bad = oracle(c)
        cls = f17_class(c)
        if cls:
            rep.count("in_class:not_group_closed")
        if not bad:
            rep.count("oracle_pass")
            continue
        if cls and set(bad) <= F17_KINDS:
            known_hits.append((c, bad))
            rep.count("known:F17")
        else:
            failures.append((c, bad))
    rep.counters["distinct_nontrivial"] = len(distinct)
    rep.counters["evaluations"] = len(distinct)
    for c in cases[:400:60]:
        if c.status == "ok":
            rep.sample({"grammar": c.grammar, "settings": c.ops, "loc_info": c.loc, "edits": c.edits,
                        "existing_items": readable(c.out["edited"])[:400],
                        "after_regeneration": readable(c.out["after1"])[:500]})

    reported = set()

    def report(c, bad, kind):
        if len(reported) >= 3:
            return
        if do_shrink:
            c = shrink(c, lambda t: bool(set(oracle(t)) & set(bad)))
        key = (c.grammar, c.loc, c.ops, c.out.get("edited", c.edits))
        if key in reported:
            return
        reported.add(key)
        rep.violation(dict(c.payload(), why="; ".join(bad), kind=kind, existing=readable(c.out.get("edited", "")),
                           after_regeneration=readable(c.out.get("after1", ""))))

    if known_hits:
        c, bad = min(known_hits, key=lambda f: (len(f[0].grammar), len(f[0].edits)))
        if finding and finding.get("status") == "known":
            rep.known_finding(finding["key"], f"{len(known_hits)} case(s) in class `not group-closed` "
                              f"(a nonterminal's name-giving type deleted, another of its types kept): {'; '.join(bad)}; "
                              f"e.g. edits={c.edits} settings={c.ops} on a {len(c.grammar)}-byte grammar")
        else:
            for c, bad in sorted(known_hits, key=lambda f: (len(f[0].grammar), len(f[0].edits)))[:12]:
                report(c, bad, "impl!=oracle")
    elif finding and finding.get("status") == "known":
        rep.notes.append(f"finding {finding['key']} no longer reproduces (witness and class cases pass)")
    for c, bad in sorted(failures, key=lambda f: (len(f[0].grammar), len(f[0].edits)))[:12]:
        report(c, bad, "impl!=oracle")
    any_fail = failures or (known_hits and not (finding and finding.get("status") == "known"))
    if not any_fail:
        if corr_breaks:
            c, why = min(corr_breaks, key=lambda f: (len(f[0].grammar), len(f[0].edits)))
            rep.violation(dict(c.payload(), why=f"correspondence corr:regen broken ({why}); the property oracle found no "
                               f"failing input", kind="impl!=model", n_breaks=len(corr_breaks),
                               implementation_agrees_with_model_variant=variant_hint(corr_breaks),
                               impl=c.out.get("answer", c.status)[:2000], model=(c.model or "")[:2000]), no_input=True)
        elif class_breaks:
            c, why = class_breaks[0]
            rep.violation(dict(c.payload(), why=why, kind="model!=oracle", n_breaks=len(class_breaks)), no_input=True)
        elif not proofs_ok:
            rep.violation({"why": f"Lean obligations of {PROP_MODULE} no longer check",
                           "obligations": [o for o in rep.obligations if not o[1]]}, no_input=True)
    rep.counters["corr_breaks"] = len(corr_breaks)
    rep.counters["class_breaks"] = len(class_breaks)
    rep.counters["oracle_failures"] = len(failures)
    rep.counters["known_class_failures"] = len(known_hits)


RULE = ("generated rustemo grammars (1-6 rules; struct / enum with plain, ref and struct variants and production kinds / "
        "ref / @vec / expression / optional (EMPTY) / recursive shapes; ? * + *[Comma] +[Comma] sugar; named and ?= "
        "assignments; regex terminals with content, keyword terminals without; unreachable rules/terminals; Layout) kept "
        "iff the real compiler accepts them in LR mode x builder_loc_info off/on x Settings chains "
        "(force(false), actions_in_source_tree, in_source_tree, force(true), default, actions(false), orders) x edit "
        "histories of the pristine actions file (delete any subset of generated/header items, delete only the "
        "name-giving or only an auxiliary type of a nonterminal, delete whole groups, replace a group by the user's own "
        "type, rewrite fn bodies / struct fields / enum variants / aliases, rename parameters and items, insert use / "
        "const / static / impl / trait / fn / struct / enum / type / mod / macro items at random positions, duplicate, "
        "swap, doc comments, inner attributes, non-doc comments, absent file, unparsable file) x two regenerations; "
        "distinct = (grammar, loc_info, settings, existing file items)")


def run(rep, tier, seed):
    rng = random.Random(seed)
    proofs_ok = lean_obligations(rep, PROP_MODULE)
    ok, log = build_regen_harness()
    rep.oblige("cargo build harness/regen against /repo", ok, "" if ok else log[-1500:])
    if not ok:
        rep.violation({"broken": "harness build", "log": log[-3000:]}, no_input=True)
        return
    n_gram, per = (400, 20) if tier == "quick" else (2500, 40)
    # 1. grammars the compiler accepts
    probes = []
    for _ in range(n_gram * 3 // 2):
        text, tags = gen_grammar(rng)
        probes.append(Case(text, rng.randrange(2), "f0", 0, "-", tags=tags, family="none"))
    run_harness(probes, tag="c18probe")
    accepted = []
    for c in probes:
        st = c.status
        rep.count("grammar:" + ("accepted" if st == "ok" else st))
        if st == "ok" and len(accepted) < n_gram:
            accepted.append(c)
            for t in c.tags:
                rep.count("shape:" + t)
        elif not st.startswith("rejected") and st != "ok":
            accepted.append(c)        # harness trouble is reported by evaluate
    # 2. jobs: corpus first
    cases = [Case(F17_WITNESS["grammar"], F17_WITNESS["loc"], F17_WITNESS["ops"], F17_WITNESS["comments"],
                  F17_WITNESS["edits"], family="corpus:F17")]
    for f in load_findings():
        w = f.get("witness", {})
        if f.get("property") == "C18" and "grammar" in w:
            cases.append(Case(w["grammar"], w.get("loc", 0), w.get("ops", "f0"), w.get("comments", 0),
                              w.get("edits", "-"), family="corpus:" + f.get("key", "?")))
    for c in accepted:
        if c.status != "ok":
            cases.append(c)
            continue
        for _ in range(per):
            fam = rng.choice(EDIT_FAMILIES)
            cases.append(Case(c.grammar, rng.randrange(2), rng.choice(SETTINGS), int(rng.random() < 0.3),
                              gen_edits(rng, fam), tags=c.tags, family=fam))
    run_harness(cases)
    run_driver(cases)
    rep.cov["rule"] = RULE
    evaluate(rep, cases, proofs_ok)
    rep.assumptions += [
        "token-for-token is judged on syn's token stream of each item (non-doc comments and layout are documented as not preserved)",
        "`missing` respects the nonterminal guard: a user who defines a type named like the rule has taken over its "
        "representation (calculator tutorial), so its auxiliary types are not re-added",
        "grammars whose pristine generation already defines a name twice (F13, property C11) are outside the statement "
        "(hypothesis NoDupNames (allItems n)); they are still compared with the model",
        "grammar symbols named Input / Ctx / Token (header types) are not generated",
    ]
    rep.trusted = ["Lean 4.33.0 kernel", "axioms ⊆ {propext, Classical.choice, Quot.sound}",
                   "Lean compiler/runtime for the executable driver",
                   "harness/regen (syn/quote item extraction, FNV-64 of token streams, derivation of `needed` from the "
                   "pristine file + verif hook grammar dump)", "tools/props/c18.py"]


def replay(rep, path):
    p = json.load(open(path))
    ok, log = build_regen_harness()
    if not ok:
        rep.violation({"broken": "harness build", "log": log[-3000:]}, no_input=True)
        return
    if "grammar" not in p:
        proofs_ok = lean_obligations(rep, PROP_MODULE)
        if not proofs_ok:
            rep.violation({"why": f"Lean obligations of {PROP_MODULE} no longer check"}, no_input=True)
        return
    c = Case(p["grammar"], p.get("loc", 0), p.get("ops", "f0"), p.get("comments", 0), p.get("edits", "-"),
             family="replay")
    run_harness([c])
    run_driver([c])
    rep.cov["rule"] = "replay of one (grammar, settings, edit script) case"
    evaluate(rep, [c], True, do_shrink=False)
