"""C15 — parsing is total: any input and lexer give Ok or Err, never a panic or hang."""
import json
import random

from common import lean_obligations, build_harness
import lrfamily as lf
import treeparse as tp
from gram import Gram

LEVEL = "proof"
PROP_MODULE = "Rustemo.Props.C15"

CORPUS = [
    # (name, grammar text, sample alphabet)
    ("calc", "E: E '+' T | T;\nT: T '*' F | F;\nF: '(' E ')' | Num;\nterminals\nPlus: '+';\nMul: '*';\nLP: '(';\nRP: ')';\nNum: /\\d+(\\.\\d+)?/;\n", "12+*() .x"),
    ("json", "V: O | A | Str | Num | 'true';\nO: '{' Ms? '}';\nMs: Ms ',' M | M;\nM: Str ':' V;\nA: '[' Vs? ']';\nVs: Vs ',' V | V;\n"
             "terminals\nLB: '{';\nRB: '}';\nLS: '[';\nRS: ']';\nComma: ',';\nColon: ':';\nTrue: 'true';\nStr: /\"[^\"]*\"/;\nNum: /-?\\d+/;\n",
     "{}[],:\"a1 true-\n"),
    ("ident", "S: Id+;\nterminals\nId: /[\\p{L}_][\\p{L}\\d_]*/;\n", "aλ_1 €\t"),
    ("layout", "S: Id+;\nLayout: LayoutItem*;\nLayoutItem: WS | Comment;\nComment: '/*' Corncs '*/' | CommentLine;\nCorncs: Cornc*;\n"
               "Cornc: Comment | NotComment | WS;\nterminals\nId: /[a-z]+/;\nWS: /\\s+/;\nCommentLine: /\\/\\/.*/;\nCS: '/*';\nCE: '*/';\n"
               "NotComment: /((\\*[^\\/])|[^\\s*\\/]|\\/[^\\*])+/;\n", "ab /*/ \n"),
    # a Layout rule whose own automaton has conflicts involving an empty reduction (GLR: the nested LR layout parser runs on
    # the non-deterministic table and takes the FIRST action of a cell)
    ("layout-ambig", "S: A+;\nA: Ta;\nLayout: LayoutItem*;\nLayoutItem: WS* | Comment;\nterminals\nTa: 'a';\nWS: /\\s/;\nComment: /#[^\\n]*/;\n", "a #x\n"),
    ("cyclic", "S: A | Ta;\nA: S {15};\nterminals\nTa: 'a';\n", "a "),
    ("emptyre", "S: A+;\nterminals\nA: /a*/;\n", "ab "),
]
ODD = ["\u0000", "\u0001", "\u001b", "\u007f", "\u0085", " ", "é", "λ", "€", " ", "　", "𝄞", "﻿", "\U0010ffff", "\r", "\n", "\t", " "]


def random_text(rng, alphabet, maxlen=12):
    kind = rng.randint(0, 6)
    if kind == 0:
        return ""
    if kind == 6:
        # ONE long word of letters of 1-4 bytes (a token of more than 50 bytes whose tail is cut inside a character
        # by any byte-offset arithmetic), possibly followed by something else
        w = "".join(rng.choice("aλॐ𝒳bé") for _ in range(rng.randint(18, 80)))
        return w + rng.choice(["", " ", " " + rng.choice(alphabet), "€"])
    if kind == 1:
        return "".join(rng.choice(alphabet) for _ in range(rng.randint(1, maxlen)))
    if kind == 2:
        return "".join(rng.choice(alphabet + "".join(ODD)) for _ in range(rng.randint(1, maxlen)))
    if kind == 3:
        return "".join(rng.choice(ODD) for _ in range(rng.randint(1, 6)))
    if kind == 4:
        return rng.choice(alphabet) * rng.randint(50, 400)
    return "".join(chr(rng.choice([rng.randint(1, 0x7f), rng.randint(0x80, 0x7ff), rng.randint(0x800, 0xd7ff),
                                   rng.randint(0x10000, 0x10ffff)])) for _ in range(rng.randint(1, 8)))


# regexes only the fancy engine compiles (look-around, backreference, atomic group, possessive quantifier): with the plain
# engine selected the compiler must REJECT the grammar - an accepted one makes the generated `Lazy<Regex>` unwrap panic at the
# first parse (C15-N1) - and with fancy_regex(true) it must accept it
FANCY_ONLY = ["[a-z]+(?=\\d)", "(?<=x)y+", "(?!ab)[a-c]+", "([a-c])\\1", "(?>a+)b", "a++b", "(?<!q)z"]


LR_CERTS = ["cert lr-total", "cert terminating", "cert noshiftstop"]


def nonempty_tokens(matrix):
    """NonEmptyTokens for this input: no recognizer other than STOP reports a match of length 0"""
    for e in matrix.split():
        try:
            t, rest = e.split("@")
            _p, ln = rest.split("=")
        except ValueError:
            continue
        if t != "0" and ln == "0":
            return False
    return True


def oracle(c):
    bad = []
    for k, (inp, res) in enumerate(zip(c.inputs, c.results)):
        kl = lf.klass(res)
        if kl in ("panic", "hang", "harness-crash", "driver-crash", ""):
            bad.append((k, f"parse returned neither Ok nor Err: {res[:160]}"))
    return bad


def known_class(c, k, why):
    if getattr(c, "empty_regex", False) and "timeout" in why:
        return "F14-empty-matching-terminal"
    # F24: the hang is attributed to the class only where the Lean termination certificate FAILS on the table
    # (for GLR cases, which carry no certificate answers, by the cyclicity of the grammar as before)
    ex = getattr(c, "extra", None)
    cert_fails = {"0": True, "1": False}.get(ex[1]) if ex and len(ex) >= 2 else None   # None: no answer
    if "timeout" in why and cert_fails is not False:
        if c.text.startswith("S: A | Ta;\nA: S {15}"):
            return "F24-cyclic-grammar-hang"
        try:
            if lf.parse_bnf(c.text).is_cyclic():
                return "F24-cyclic-grammar-hang"
        except Exception:
            pass
    return None


def gen(rng, tier):
    n = 50 if tier == "quick" else 500
    per = 14 if tier == "quick" else 30
    lr, glr = [], []
    base = lf.bnf_cases(rng, n, tts=("LALR_PAGER",), algo="LR", max_len=1, n_sent=4, n_mut=2,
                        gen_kw=dict(unicode=True, p_empty=0.25))
    for c in base:
        alphabet = "".join(c.gram.terms.values()) + " "
        sentences = [i for i in c.inputs]
        inputs = list(sentences)
        for _ in range(per):
            t = random_text(rng, alphabet)
            inputs.append(("LR", rng.choice("01"), t, {}))
        for mode in (0, 1, 2):
            for _ in range(4):
                t = random_text(rng, alphabet, 8)
                inputs.append((f"LR@{mode},{rng.randint(0, 9)}", rng.choice("01"), t, {}))
        for _ in range(4):
            # one long token (> 50 bytes) of mixed 1-4 byte characters in a state that may not expect its kind
            t = "".join(rng.choice("aλ€b𝄞é z") for _ in range(rng.randint(30, 70)))
            inputs.append((f"LR@3,{rng.randint(0, 9)}", rng.choice("01"), t, {}))
        c.inputs = inputs
        lr.append(c)
        g = lf.Case(c.text, ["GLR", "LALR_RN"] + ["-"] * 8,
                    [("GLR", p, t[:40], m) for (a, p, t, m) in inputs if "@" not in a], gram=c.gram, tag="bnf-glr")
        g.max_trees = 0
        glr.append(g)
    for name, text, alphabet in CORPUS:
        for algo, tt in (("LR", "LALR_PAGER"), ("GLR", "LALR_RN")):
            inputs = [(algo, rng.choice("01"), random_text(rng, alphabet, 16), {}) for _ in range(per * 3)]
            c = lf.Case(text, [algo, tt] + ["-"] * 8, inputs, gram=None, tag="corpus:" + name)
            c.empty_regex = name == "emptyre"
            c.max_trees = 0
            (lr if algo == "LR" else glr).append(c)
    for k, rx in enumerate(FANCY_ONLY):
        text = f"S: W+;\nterminals\nW: /{rx}/;\n" if k % 2 else f"S: W N | N;\nterminals\nN: /\\d+/;\nW: /{rx}/;\n"
        for algo, tt in (("LR", "LALR_PAGER"), ("GLR", "LALR_RN")):
            for fancy in "01":
                inputs = [(algo, "0", t, {}) for t in ("", "a1", "xy", "cab", "aab", "z", "aa")]
                c = lf.Case(text, [algo, tt] + ["-"] * 7 + [fancy], inputs, gram=None, tag="corpus:fancy-only-" + fancy)
                c.max_trees = 0
                (lr if algo == "LR" else glr).append(c)
    return lr, glr


def run(rep, tier, seed):
    rng = random.Random(seed)
    proofs_ok = lean_obligations(rep, PROP_MODULE)
    ok, log = build_harness()
    if not ok:
        rep.oblige("cargo build harness/dyn against /repo", False, log[-1500:])
        rep.violation({"broken": "harness build", "log": log[-3000:]}, no_input=True)
        return
    lr, glr = gen(rng, tier)
    fixed = lf.replay_known(rep, "C15", oracle)
    lr = fixed + lr
    lf.add_histories(rng, lr)
    lf.run_cases(lr, extra_requests=lambda c: LR_CERTS)
    lf.add_histories(rng, glr)
    lf.run_cases(glr, model=False)
    # GLR on a long, highly ambiguous input is polynomially slow, not hanging: re-run every timeout outside the known
    # classes alone with a 60 s budget (LR timeouts are compared with the model's own fuel outcome instead)
    slow = lf.confirm_timeouts(glr, skip=lambda c, k: known_class(c, k, "timeout") is not None)
    traced(rep, lr, glr)
    rep.counters["timeouts_that_were_only_slow(3s watchdog, finished within 60s)"] = slow
    check(rep, lr, glr, proofs_ok)


def traced(rep, lr, glr):
    """the same parsers with tracing ON (`RUSTEMO_TRACE`, the documented `Settings::trace`; debug build): the trace code formats
    tokens, heads and the input context around the position, on every step - it must not panic either. Outcome class only."""
    import common
    sel = [c for c in lr + glr if c.dump is not None and (c.tag.startswith("corpus:") and c.tag not in ("corpus:cyclic", "corpus:emptyre"))]
    sel += [c for c in lr + glr if c.dump is not None and c.tag.startswith("bnf")][:24]
    cs = []
    for c in sel:
        ins = [i for i, r in zip(c.inputs, c.results) if "@" not in i[0] and len(i[2]) <= 120 and lf.klass(r) in ("ok", "err")][:30]
        if ins:
            t = lf.Case(c.text, list(c.settings), ins, gram=c.gram, tag="traced:" + c.tag)
            t.max_trees = 0
            cs.append(t)
    common.VDYN_EXTRA_ENV["RUSTEMO_TRACE"] = "1"
    try:
        lf.run_cases(cs, model=False)
    finally:
        common.VDYN_EXTRA_ENV.pop("RUSTEMO_TRACE", None)
    n = 0
    for c in cs:
        for k, res in enumerate(c.results):
            kl = lf.klass(res)
            rep.count("traced:" + kl)
            if kl == "panic" and n < 3 and len(rep.violations) < 3:
                n += 1
                rep.violation(dict(c.describe(k), kind="impl!=oracle", why="with tracing on (RUSTEMO_TRACE) the parse panics: " + res[:200],
                                   tracing="RUSTEMO_TRACE=1"))


def check(rep, lr, glr, proofs_ok):
    rep.cov["rule"] = ("random BNF grammars (terminals of 1-4 UTF-8 bytes) and a corpus with regex terminals x {LR, GLR}; inputs: "
                       "empty, over the grammar alphabet, with control/multi-byte/whitespace-like characters, long repeats, random "
                       "code points; lexers: default string lexer and four adversarial user lexers (one returning a single long multi-byte token) that ignore the expected set "
                       "(always STOP, position-derived kind with/without STOP at the end); outcome class under catch_unwind + "
                       "watchdog; distinct = (grammar, settings, lexer, input)")
    def scope(c):
        return tp.parse_dump(c.dump)["conflicts"] == 0
    def orc(c):
        bad = oracle(c)
        ex = getattr(c, "extra", None)
        if ex:
            rep.count("cert_lr_total_" + ("pass" if ex[0] == "1" else "FAIL"))
            if ex[0] != "1":
                bad.append((None, "Cert.structural/Cert.total fail on the compiler's table: hypotheses of C15_lr_no_panic not met"))
            bad += termination(c, ex)
        return bad

    def termination(c, ex):
        """C15_lr_terminates: certificate Cert.terminating (+ Cert.lr, Cert.noShiftStop) on the table, NonEmptyTokens on the
        input's recognizer matrix, default lexer  =>  neither the model nor the implementation may hang."""
        bad = []
        if len(ex) < 3 or ex[1] not in ("0", "1"):
            rep.count("term_cert:unavailable")
            return bad
        cert = ex[0] == "1" and ex[1] == "1" and ex[2] == "1"
        hung = 0
        inside = 0
        for k, ((algo, _p, _inp, _m), res) in enumerate(zip(c.inputs, c.results)):
            is_hang = lf.klass(res) == "hang"
            hung += is_hang
            if "@" in algo:
                continue            # user lexers: not covered by the theorem
            mat = c.matrices[k] if k < len(c.matrices) else ""
            if cert and nonempty_tokens(mat):
                inside += 1
                mres = c.model[k] if k < len(c.model) else ""
                if is_hang or lf.klass(mres) == "hang":
                    rep.count("term:HANG_INSIDE_THEOREM")
                    bad.append((k, "hang although Cert.terminating holds and all tokens are non-empty: contradicts "
                                   "C15_lr_terminates (" + ("implementation" if is_hang else "model") + ")"))
            elif is_hang:
                rep.count("term:hang_outside_theorem:" + ("cert_fails" if not cert else "empty_token"))
        rep.count("term:inputs_inside_theorem", inside)
        if cert:
            rep.count("term_cert:pass")
        elif hung:
            rep.count("term_cert:fail_and_some_input_hangs")
        else:
            rep.count("term_cert:fail_but_no_input_hangs(outside the theorem, not a violation)")
        if c.tag == "corpus:cyclic" or c.tag.startswith("finding:F24"):
            rep.oblige("the F24 witness table fails Cert.terminating", ex[1] == "0", c.tag)
        if c.tag in ("corpus:calc", "corpus:json", "corpus:ident", "corpus:layout"):
            rep.oblige(f"Cert.terminating holds on the {c.tag} table", ex[1] == "1", c.tag)
        return bad
    for c in lr + glr:
        ans = getattr(c, "dump_ans", "") or ""
        if c.tag.startswith("corpus:fancy-only"):
            rep.count("regex_engine:" + c.tag[-1] + ":" + " ".join(ans.split(" ")[:3])[:40])
        if ans.startswith("dump loaderr") and len(rep.violations) < 3:
            # the compiler accepted the grammar, the recognizers cannot be built with the engine the generated parser uses
            try:
                why = bytes.fromhex(ans.split(" ")[2]).decode(errors="replace")[:200]
            except Exception:
                why = ans[:200]
            rep.violation(dict(c.describe(), kind="impl!=oracle", why="the compiler accepts the grammar but a terminal's regex cannot be compiled "
                               "by the regex engine the generated parser will use (fancy_regex=" + str(c.settings[9]) + "): the generated "
                               "recognizer panics at the first parse: " + why))
        elif c.tag == "corpus:fancy-only-1" and c.dump is None:
            rep.violation(dict(c.describe(), kind="impl!=oracle", why="fancy_regex(true): a regex of the fancy engine is rejected: " + ans[:200]))
    lf.evaluate(rep, lr, orc, proofs_ok, PROP_MODULE, in_scope=scope, known_class=known_class)
    lf.evaluate(rep, glr, oracle, True, PROP_MODULE, compare_model=False, known_class=known_class)
    for c in lr:
        for (a, _, _, _) in c.inputs:
            rep.count("lexer:" + (a.split("@")[1].split(",")[0] if "@" in a else "default"))
    rep.assumptions += ["GLR half and termination inside the GLR reducer: oracle on implementation output only",
                        "termination with user lexers (env.custom) and with terminals that match the empty string (F14): "
                        "outside C15_lr_terminates, watchdog only"]


def replay(rep, path):
    p = json.load(open(path))
    build_harness()
    algo = p.get("algo", "LR")
    c = lf.Case(p["grammar"], p["settings"].split(" "), [(algo, p.get("partial", "0"), p.get("input", ""), {})], gram=None)
    glr = algo.startswith("GLR")
    lf.apply_replay_history(c, p)
    if p.get("tracing"):
        import common
        common.VDYN_EXTRA_ENV["RUSTEMO_TRACE"] = "1"
        try:
            lf.run_cases([c], model=False)
        finally:
            common.VDYN_EXTRA_ENV.pop("RUSTEMO_TRACE", None)
        if lf.klass(c.results[0]) == "panic":
            rep.violation(dict(c.describe(0), kind="impl!=oracle", why="with tracing on the parse panics: " + c.results[0][:200], tracing="RUSTEMO_TRACE=1"))
        return
    lf.run_cases([c], model=not glr, extra_requests=None if glr else (lambda c: LR_CERTS))
    check(rep, [] if glr else [c], [c] if glr else [], True)
