"""C05 — conflicts resolve by the documented priority/associativity/prefer-shift rules.

Tie A (correspondence): every ACTION cell and every `max_prior_for_term` entry of every state of the
table the REAL compiler builds is recomputed by the Lean model `Resolve.stateCell` (driver command
`resolve`) from the dumped items+lookaheads, grammar meta-data and settings, and compared.
Oracle (python, independent of the model): the documented rule evaluated on the candidate set of
each cell (read off the items+lookaheads of the state, never off a cell) and compared with the real
cell.  Every grammar is also compiled bare (no meta-data, GLR, no shift preference: nothing documented
applies, every candidate must stay); that compilation supplies the items when the annotated one panics.
Operator corollary: LR trees of annotated expression grammars vs a precedence-climbing parser."""
import itertools
import json
import os
import random
import re

import common
from common import lean_obligations, build_harness, hx, unhx, run_vdyn, run_model
from gram import Gram, random_grammar
import treeparse as tp
import tablecorr

LEVEL = "proof"
PROP_MODULE = "Rustemo.Props.C05"

# development switches (never set by ./check): scratch driver / harness / lean dir, model fix flags
FIXES = os.environ.get("C05_FIXES", "cur")
if os.environ.get("C05_DRIVER"):
    common.DRIVER = os.environ["C05_DRIVER"]
if os.environ.get("C05_VDYN"):
    common.VDYN = os.environ["C05_VDYN"]
if os.environ.get("C05_LEAN"):
    common.LEAN = os.environ["C05_LEAN"]

KEY_F1 = "C05-F1-terminal-assoc-inverted"
KEY_F9 = "C05-F9-assert-len1-three-way"
KEY_N1 = "C05-N1-lr-empty-reductions-evicted"
DEFAULT_PRIO = 10
ASSOC_WORDS = {"left": "L", "reduce": "L", "right": "R", "shift": "R"}


# ---------------------------------------------------------------------------------------------
# the documented rule (independent oracle)
# ---------------------------------------------------------------------------------------------

def doc_sr(cmp, pa, ta, empty, ps, pse, nops, nopse):
    """documented SHIFT/REDUCE rule -> 'S' (shift kept) | 'R' (reduction kept) | 'B' (both: conflict)"""
    if cmp > 0:
        return "R"
    if cmp < 0:
        return "S"
    a = ta if ta != "N" else pa
    if a == "L":
        return "R"
    if a == "R":
        return "S"
    prefer = (pse and not nopse) if empty else (ps and not nops)
    return "S" if prefer else "B"


def doc_rr_beats(glr, a, b):
    """documented REDUCE/REDUCE rule: does reduction a beat reduction b"""
    if a["prio"] != b["prio"]:
        return a["prio"] > b["prio"]
    return (not glr) and (not a["empty"]) and b["empty"]      # LR prefers non-empty (table/mod.rs:879)


def sr_of(st, c, ta, shp):
    cmp = (c["prio"] > shp) - (c["prio"] < shp)
    return doc_sr(cmp, c["assoc"], ta, c["empty"], st["ps"], st["pse"], c["nops"], c["nopse"])


def doc_cell(st, shift, ta, shp, cands):
    """documented rule for a whole cell, two phases (each reduction against the shift on its own, then
    the survivors among themselves). shift: None | 'S' | 'A'. Returns list of kept candidate ids."""
    keep = []
    if shift is not None:
        dec = [sr_of(st, c, ta, shp) for c in cands]
        if all(d != "R" for d in dec):
            keep.append(shift)
        surv = [c for c, d in zip(cands, dec) if d != "S"]
    else:
        surv = list(cands)
    for c in surv:
        if not any(doc_rr_beats(st["glr"], o, c) for o in surv if o is not c):
            keep.append(c["id"])
    return keep


def pairwise_justified(st, shift, ta, shp, cands, real):
    """weak reading for >= 3 candidates: (i) only candidates are kept, (ii) no kept action is beaten
    by another kept action, (iii) every removed candidate is beaten by some candidate."""
    ids = {c["id"]: c for c in cands}
    allc = ([shift] if shift else []) + list(ids)
    if any(a not in allc for a in real):
        return False

    def beats(x, y):
        if x in ("S", "A"):
            return y in ids and sr_of(st, ids[y], ta, shp) == "S"
        if y in ("S", "A"):
            return sr_of(st, ids[x], ta, shp) == "R"
        return doc_rr_beats(st["glr"], ids[x], ids[y])
    for x in real:
        for y in real:
            if x != y and beats(x, y):
                return False
    for y in allc:
        if y not in real and not any(beats(x, y) for x in allc if x != y):
            return False
    return True


# ---------------------------------------------------------------------------------------------
# grammars with meta-data known to python (production and terminal level only)
# ---------------------------------------------------------------------------------------------

def meta_info(words, term=False):
    """(prio, assoc, nops, nopse) the builder derives from a list of meta words"""
    prio, assoc, nops, nopse = DEFAULT_PRIO, "N", False, False
    has_l = any(ASSOC_WORDS.get(w) == "L" for w in words)
    has_r = any(ASSOC_WORDS.get(w) == "R" for w in words)
    if term:
        assoc = "L" if has_l else ("R" if has_r else "N")
    else:
        assoc = "R" if has_r else ("L" if has_l else "N")
    for w in words:
        if w.isdigit():
            prio = int(w)
        elif w == "nops":
            nops = True
        elif w == "nopse":
            nopse = True
    return prio, assoc, nops, nopse


def render_order(g):
    """production indices of g in the order the compiler numbers them (1..), i.e. render order"""
    order = []
    for nt in g.nts:
        for i, (l, _) in enumerate(g.prods):
            if l == nt:
                order.append(i)
    return order


class RCase:
    def __init__(self, g, algo, tt, ps, pse, tag, params=None, text=None):
        self.g = g
        self.algo, self.tt, self.ps, self.pse = algo, tt, ps, pse
        self.tag = tag
        self.params = params or {}
        self.finding = None
        self.text = text if text is not None else g.render()
        self.raw_text = Gram(g.prods, g.terms).render()
        self.ans = None          # answer of the compilation under test
        self.raw = None          # parsed dump of the raw compilation
        self.raw_dump_text = None
        self.model = None

    def settings(self):
        return [self.algo, self.tt, str(int(self.ps)), str(int(self.pse)), "-", "-", "-", "-", "-", "-"]

    def job(self):
        return "G " + " ".join(self.settings()) + " " + hx(self.text)

    def raw_key(self):
        return (self.raw_text, self.tt)

    def raw_job(self):
        return f"G GLR {self.tt} 0 0 - - - - - - " + hx(self.raw_text)

    def st(self):
        return {"glr": self.algo == "GLR", "ps": bool(self.ps), "pse": bool(self.pse)}

    def describe(self):
        return {"grammar": self.text, "settings": " ".join(self.settings()), "tag": self.tag}

    # grammar data as python knows it (used only when the real compilation panics: no dump then)
    def known_prods(self):
        out = {}
        for k, i in enumerate(render_order(self.g)):
            prio, assoc, nops, nopse = meta_info(self.g.prod_meta.get(i, []))
            out[k + 1] = (prio, assoc, nops, nopse)
        return out

    def known_terms(self):
        out = {}
        for k, n in enumerate(self.g.terms):
            prio, assoc, _, _ = meta_info(self.g.term_meta.get(n, []), term=True)
            out[k + 1] = (prio, assoc)
        return out

    def patched_dump(self):
        """raw dump with settings, production and terminal meta-data replaced by the annotated grammar's"""
        kp, kt = self.known_prods(), self.known_terms()
        recs = []
        for rec in self.raw_dump_text.split(" | "):
            f = rec.split(" ")
            if f[0] == "settings":
                f[1], f[3], f[4] = self.algo, str(int(self.ps)), str(int(self.pse))
            elif f[0] == "prod" and int(f[1]) in kp:
                prio, assoc, nops, nopse = kp[int(f[1])]
                f[5], f[6], f[7], f[8] = str(prio), assoc, str(int(nops)), str(int(nopse))
            elif f[0] == "term" and int(f[1]) in kt:
                f[3], f[4] = str(kt[int(f[1])][0]), kt[int(f[1])][1]
            recs.append(" ".join(f))
        return " | ".join(recs)


def annotate_pt(rng, g, p_prod=0.5, p_term=0.25, prios=(5, 10, 15, 20)):
    """random disambiguation meta-data on productions and terminals (no rule level: that is C09)"""
    pm, tm = {}, {}
    for i in range(len(g.prods)):
        if rng.random() < p_prod:
            ws = []
            if rng.random() < 0.6:
                ws.append(str(rng.choice(prios)))
            if rng.random() < 0.5:
                ws.append(rng.choice(["left", "right", "reduce", "shift"]))
            if rng.random() < 0.25:
                ws.append("nops")
            if rng.random() < 0.25:
                ws.append("nopse")
            if ws:
                pm[i] = ws
    for t in g.terms:
        if rng.random() < p_term:
            tm[t] = [rng.choice(["left", "right", "reduce", "shift"])]
            if rng.random() < 0.3:
                tm[t].append(str(rng.choice([5, 15])))
    return Gram(g.prods, g.terms, prod_meta=pm, term_meta=tm)


def pmeta(prio, assoc, nops, nopse, words=("left", "right")):
    ws = []
    if prio is not None and prio != DEFAULT_PRIO:
        ws.append(str(prio))
    if assoc == "L":
        ws.append(words[0])
    elif assoc == "R":
        ws.append(words[1])
    if nops:
        ws.append("nops")
    if nopse:
        ws.append("nopse")
    return ws


PRIO_PAIRS = {-1: (5, DEFAULT_PRIO), 0: (DEFAULT_PRIO, DEFAULT_PRIO), 1: (20, DEFAULT_PRIO)}


def conf_sr_grammar(cmp, pa, ta, empty, nops, nopse, variant=0):
    """tiny grammar with exactly one SHIFT/REDUCE conflict realising the given decision inputs:
    reduction by P (priority/assoc/nops/nopse as given) against the shift of Ta from Q."""
    pr, ps_ = PRIO_PAIRS[cmp]
    if variant == 1:                       # other absolute priorities, keyword synonyms
        pr, ps_ = {-1: (10, 30), 0: (7, 7), 1: (10, 3)}[cmp]
    words = ("left", "right") if variant == 0 else ("reduce", "shift")
    if empty:
        prods = [("S", ["P", "Ta"]), ("S", ["Q"]), ("P", []), ("Q", ["Ta", "Tx"])]
    else:
        prods = [("S", ["P", "Ta"]), ("S", ["Q"]), ("P", ["Tx"]), ("Q", ["Tx", "Ta"])]
    pm = {2: pmeta(pr, pa, nops, nopse, words), 3: pmeta(ps_, "N", False, False)}
    tm = {"Ta": pmeta(None, ta, False, False, words)}
    return Gram(prods, {"Ta": "a", "Tx": "x"}, prod_meta={k: v for k, v in pm.items() if v},
                term_meta={k: v for k, v in tm.items() if v})


def conf_rr_grammar(cmp, shape, a1="N", a2="N"):
    """REDUCE/REDUCE conflict on Ta between P and Q. shape: 'nn' both non-empty, 'ee' both EMPTY,
    'ne' Q non-empty (kernel item, first) against P EMPTY."""
    p1, p2 = PRIO_PAIRS[cmp]
    if shape == "nn":
        prods = [("S", ["P", "Ta"]), ("S", ["Q", "Tb"]), ("S", ["Q", "Ta", "Ta"]), ("P", ["Tx"]), ("Q", ["Tx"])]
        pi, qi = 3, 4
    elif shape == "ee":
        prods = [("S", ["P", "Ta"]), ("S", ["Q", "Ta", "Ta"]), ("P", []), ("Q", [])]
        pi, qi = 2, 3
    else:
        prods = [("S", ["Tx", "P", "Ta"]), ("S", ["Q", "Ta", "Ta"]), ("P", []), ("Q", ["Tx"])]
        pi, qi = 2, 3
    pm = {pi: pmeta(p1, a1, False, False), qi: pmeta(p2, a2, False, False)}
    terms = {"Ta": "a", "Tx": "x"}
    if shape == "nn":
        terms["Tb"] = "b"
    return Gram(prods, terms, prod_meta={k: v for k, v in pm.items() if v})


def multi_grammar(rng):
    """one state where a shift of Ta and 2-3 reductions with lookahead Ta compete"""
    n = rng.choice([2, 2, 3])
    with_shift = rng.random() < 0.8
    names = ["P", "Q", "R"][:n]
    empties = [rng.random() < 0.3 for _ in names]
    prods = []
    # non-empty reductions are all `Tx`; a state after Tx holds them; empties are closure items
    has_ne = any(not e for e in empties)
    for nm in names:
        prods.append(("S", (["Tx"] if has_ne and empties[names.index(nm)] else []) + [nm, "Ta"] + (["Tb"] * names.index(nm))))
    if with_shift:
        prods.append(("S", (["Tx"] if has_ne else []) + ["Ta", "Tc"]))
        if rng.random() < 0.3:      # a second production shifting Ta: shift priority = max of the two
            prods.append(("S", (["Tx"] if has_ne else []) + ["Ta", "Td", "Tc"]))
    for nm, e in zip(names, empties):
        prods.append((nm, [] if e else ["Tx"]))
    g = Gram(prods, {"Ta": "a", "Tb": "b", "Tc": "c", "Td": "d", "Tx": "x"})
    pm = {}
    for i, (l, rhs) in enumerate(prods):
        if l in names or (with_shift and rhs[-1:] == ["Tc"]):
            ws = []
            if rng.random() < 0.6:
                ws.append(str(rng.choice([5, 10, 20])))
            if l in names:
                if rng.random() < 0.4:
                    ws.append(rng.choice(["left", "right"]))
                if rng.random() < 0.2:
                    ws.append("nops")
                if rng.random() < 0.2:
                    ws.append("nopse")
            if ws:
                pm[i] = ws
    tm = {}
    if rng.random() < 0.2:
        tm["Ta"] = [rng.choice(["left", "right"])]
    return Gram(prods, g.terms, prod_meta=pm, term_meta=tm)


# ---------------------------------------------------------------------------------------------
# running: raw + test compilation, model
# ---------------------------------------------------------------------------------------------

def compile_all(cases):
    raw_jobs = {}
    for c in cases:
        raw_jobs.setdefault(c.raw_key(), c.raw_job())
    keys = list(raw_jobs)
    groups = [[raw_jobs[k]] for k in keys] + [[c.job()] for c in cases]
    answers = run_vdyn(groups, tag="c05-vdyn")
    raw = {k: a[0] for k, a in zip(keys, answers[:len(keys)])}
    for c, a in zip(cases, answers[len(keys):]):
        c.ans = a[0]
        r = raw[c.raw_key()]
        if r.startswith("dump ok "):
            c.raw_dump_text = r[len("dump ok "):]
            c.raw = tp.parse_dump(c.raw_dump_text)
    reqs, rc = [], []
    for c in cases:
        if c.ans.startswith("dump ok "):
            c.dump_text = c.ans[len("dump ok "):]
            c.dump = tp.parse_dump(c.dump_text)
            # corr:table: the whole table against the Lean model of the construction, next to the per-cell `resolve`
            reqs.append([f"resolve {FIXES} " + c.dump_text, "load " + c.dump_text, tablecorr.REQUEST])
            rc.append(c)
        else:
            c.dump = None
            if c.ans.startswith("dump panic ") and c.raw is not None:
                reqs.append([f"resolve {FIXES} " + c.patched_dump()])
                rc.append(c)
    if reqs:
        outs = run_model(reqs, tag="c05-model")
        for c, o in zip(rc, outs):
            c.model = o[0]
            c.table_ans = o[2] if len(o) > 2 else None
    return cases


def driver_wired(rep, cases):
    """the Lean driver must know the command `resolve` (Main.lean dispatch to Driver/Resolve.lean)"""
    bad = [c for c in cases if c.model in ("bad-request", "driver-crash")]
    ok = not bad
    rep.oblige("Lean driver answers `resolve` requests", ok,
               "" if ok else f"{len(bad)} requests answered {bad[0].model!r}: add `| \"resolve\" => (st, handleResolve rest)` "
                             "and `import Rustemo.Driver.Resolve` to lean/Main.lean")
    if not ok:
        rep.violation({"why": "the Lean driver does not answer `resolve` requests (command not wired into Main.lean or driver "
                              "crashed); correspondence corr:resolve cannot be checked", "answer": bad[0].model,
                       "grammar": bad[0].text, "settings": " ".join(bad[0].settings())}, no_input=True)
        for c in cases:
            c.model = None
    return ok


def fmt_act(a):
    return "S" if a[0] == "S" else ("A" if a[0] == "A" else f"R{a[1]}.{a[2]}")


def canon_real(d):
    """the real table in the canonical form of the driver answer: {state: token list}"""
    out = {}
    for s in d["states"]:
        toks = ["c"] + [f"{t}=" + ",".join(fmt_act(a) for a in acts) for t, acts in sorted(s["acts"].items())]
        toks += ["m"] + [f"{t}={p}" for t, p in sorted(s["maxprio"].items())]
        out[s["idx"]] = toks
    return out


def canon_model(ans):
    out = {}
    for rec in ans.split(" | ")[1:]:
        f = rec.split()
        if f:
            out[int(f[0])] = f[1:]
    return out


def panic_class(msg):
    if "actions.len() == 1" in msg:
        return "assert-len1"
    if "shifts.len() <= 1" in msg:
        return "assert-shifts"
    if "This should not happen" in msg:
        return "not-reduce"
    return "other"


def model_panic_class(ans):
    if "actions.len() == 1" in ans:
        return "assert-len1"
    if "shifts.len() <= 1" in ans:
        return "assert-shifts"
    if "This should not happen" in ans:
        return "not-reduce"
    return "other"


def correspondence(c):
    """None if the model agrees with the real compiler on this case, else a description"""
    if c.model is None:
        return None
    if c.dump is None:
        msg = unhx(c.ans.split(" ")[2]).decode(errors="replace")
        if not c.model.startswith("panic "):
            return f"real compiler panics ({msg!r}), model: {c.model[:80]}"
        if panic_class(msg) != model_panic_class(c.model):
            return f"panic site differs: real {msg!r}, model {c.model}"
        return None
    if not c.model.startswith("ok"):
        return f"model: {c.model[:120]}, real compiler produced a table"
    real, mod = canon_real(c.dump), canon_model(c.model)
    for s in sorted(real):
        if real[s] != mod.get(s):
            return f"state {s}: real {' '.join(real[s])} / model {' '.join(mod.get(s, ['-']))}"
    return None


# ---------------------------------------------------------------------------------------------
# oracle
# ---------------------------------------------------------------------------------------------

def prod_infos(c):
    """production data seen by resolution: from the real dump, or (panic) from python's knowledge"""
    info = {}
    src = c.dump if c.dump is not None else c.raw
    for i, p in enumerate(src["prods"]):
        info[i] = {"prio": p["prio"], "assoc": p["assoc"], "nops": p["nops"], "nopse": p["nopse"],
                   "empty": len(p["rhs"]) == 0, "rhs": p["rhs"]}
    tassoc = {i: t["assoc"] for i, t in enumerate(src["terms"])}
    if c.dump is None:
        for i, (prio, assoc, nops, nopse) in c.known_prods().items():
            info[i].update(prio=prio, assoc=assoc, nops=nops, nopse=nopse)
        for i, (_, assoc) in c.known_terms().items():
            tassoc[i] = assoc
    return info, tassoc


def cells_of(c):
    """for every (state, terminal) with at least one candidate: the oracle's view.  Candidates are
    read off the ITEMS of the state (never off any cell): SHIFT iff an item has the terminal right of
    the dot, ACCEPT for the completed augmented item, REDUCE(p, dot) for every reducing item with the
    terminal among its lookaheads; shift priority = max priority of the shifting items' productions."""
    info, tassoc = prod_infos(c)
    src = c.dump if c.dump is not None else c.raw
    rn = src["rn"]
    out = []
    for s in src["states"]:
        shift_prio, shifts, reds = {}, {}, {}
        for (p, dot, la) in s["items"]:
            rhs = info[p]["rhs"]
            if dot < len(rhs) and rhs[dot] < src["nterms"]:
                t = rhs[dot]
                shift_prio[t] = max(shift_prio.get(t, 0), info[p]["prio"])
                if "S" not in shifts.setdefault(t, []):
                    shifts[t].append("S")
            if dot == len(rhs) or (rn is not None and dot >= rn[p]):
                if src["prods"][p]["lhs"] in (src["aug"], src["augl"]):
                    if dot == len(rhs):
                        shifts.setdefault(0, []).append("A")
                else:
                    for t in la:
                        i = info[p]
                        reds.setdefault(t, []).append(
                            {"id": f"R{p}.{dot}", "prod": p, "prio": i["prio"], "assoc": i["assoc"],
                             "empty": i["empty"], "nops": i["nops"], "nopse": i["nopse"]})
        for t in sorted(set(shifts) | set(reds)):
            sh = shifts.get(t, [])
            out.append({"state": s["idx"], "term": t, "shifts": sh, "cands": reds.get(t, []), "ta": tassoc.get(t, "N"),
                        "shp": DEFAULT_PRIO if sh[:1] == ["A"] else shift_prio.get(t),
                        "items_shift_prio": shift_prio})
    return out


def items_differ(c):
    """items+lookaheads must not depend on meta-data or resolution settings (same table type)"""
    if c.dump is None or c.raw is None:
        return None
    a = [s["items"] for s in c.dump["states"]]
    b = [s["items"] for s in c.raw["states"]]
    return None if a == b else "items/lookaheads of the annotated grammar differ from those of the bare grammar"


def classify(c, cell, real):
    """finding class of a cell on which the real compiler deviates from the documented rule (None: no
    known class).  Each predicate is the hypothesis the corresponding *_unrepaired theorem needs,
    narrowed by the shape of the deviation."""
    st = c.st()
    cands, shp, ta = cell["cands"], cell["shp"], cell["ta"]
    shift = cell["shifts"][0] if cell["shifts"] else None
    empt = [k for k in cands if k["empty"]]
    n1_domain = (not st["glr"]) and len(empt) >= 2 and len({k["prio"] for k in empt}) < len(empt)

    def n1_shape(want, ta_used=None):
        # putting back some evicted EMPTY reductions gives the documented (or a pairwise justified) cell
        if not n1_domain:
            return False
        gone = [k["id"] for k in empt if k["id"] not in real]
        for n in range(1, len(gone) + 1):
            for back in itertools.combinations(gone, n):
                r2 = list(real) + list(back)
                if sorted(r2) == sorted(want):
                    return True
                if len(cands) + (1 if shift else 0) >= 3 and \
                        pairwise_justified(st, shift, ta_used or ta, shp, cands, r2):
                    return True
        return False
    # N1: LR, EMPTY reductions of equal priority: one that the rule keeps is missing
    if n1_shape(doc_cell(st, shift, ta, shp, cands)):
        return KEY_N1
    # F1: the terminal's own associativity is consulted (equal priority) and was applied inverted
    if shift and ta != "N" and any(k["prio"] == shp for k in cands):
        swapped = {"L": "R", "R": "L"}[ta]
        exp = doc_cell(st, shift, swapped, shp, cands)
        if sorted(real) == sorted(exp) or n1_shape(exp, swapped) or \
                (len(cands) > 1 and pairwise_justified(st, shift, swapped, shp, cands, real)):
            return KEY_F1
    return None


def oracle(rep, c):
    """list of (why, payload, known key or None) for one compiled case"""
    bad = []
    st = c.st()
    if c.raw is None:
        return bad
    rc = items_differ(c)
    if rc:
        bad.append((rc, {}, "machinery"))
        return bad
    cells = cells_of(c)
    if c.dump is None:
        if c.ans.startswith("dump panic "):
            msg = unhx(c.ans.split(" ")[2]).decode(errors="replace")
            rep.count("compiler_panic:" + panic_class(msg))
            three = any(cl["shifts"] and len(cl["cands"]) >= 2 for cl in cells)
            key = KEY_F9 if panic_class(msg) == "assert-len1" and three else None
            bad.append(("resolving aborts the compiler: " + " ".join(msg.split()), {"panic": msg}, key))
        else:
            rep.count("grammar_rejected:" + " ".join(c.ans.split(" ")[1:3]))
        return bad
    real_states = {s["idx"]: s for s in c.dump["states"]}
    for cl in cells:
        s = real_states[cl["state"]]
        real = [fmt_act(a) for a in s["acts"].get(cl["term"], [])]
        ncand = len(cl["shifts"]) + len(cl["cands"])
        rep.count(f"cells_candidates:{min(ncand, 4)}{'+' if ncand >= 4 else ''}")
        # shift priority is the maximum priority of the shifting productions
        if cl["term"] in cl["items_shift_prio"] or cl["term"] in s["maxprio"]:
            if s["maxprio"].get(cl["term"]) != cl["items_shift_prio"].get(cl["term"]):
                bad.append(("shift priority is not the maximum priority of the productions shifting the terminal",
                            {"state": cl["state"], "terminal": cl["term"], "real": s["maxprio"].get(cl["term"]),
                             "expected": cl["items_shift_prio"].get(cl["term"])}, None))
        if len(cl["shifts"]) > 1:
            rep.count("cells_two_shiftlike")
            continue
        shift = cl["shifts"][0] if cl["shifts"] else None
        want = doc_cell(st, shift, cl["ta"], cl["shp"], cl["cands"])
        if ncand >= 2:
            rep.count("conflict_cells")
            if shift == "S" and len(cl["cands"]) == 1:
                k = cl["cands"][0]
                cmp = (k["prio"] > cl["shp"]) - (k["prio"] < cl["shp"])
                c.sr_seen.add((cmp, k["assoc"], cl["ta"], k["empty"], st["ps"], st["pse"], k["nops"], k["nopse"], st["glr"]))
                rep.count("sr_decision:" + doc_sr(cmp, k["assoc"], cl["ta"], k["empty"], st["ps"], st["pse"], k["nops"], k["nopse"]))
            elif shift is None and len(cl["cands"]) == 2:
                a, b = cl["cands"]
                cmp = (a["prio"] > b["prio"]) - (a["prio"] < b["prio"])
                c.rr_seen.add((cmp, a["empty"], b["empty"], st["glr"]))
        if sorted(real) == sorted(want):
            if real != want:
                rep.count("cell_order_differs_only")
            continue
        if ncand >= 3 and pairwise_justified(st, shift, cl["ta"], cl["shp"], cl["cands"], real):
            rep.count("multiway_cells_pairwise_justified_not_two_phase")
            continue
        payload = {"state": cl["state"], "terminal": cl["term"], "shift_candidate": shift,
                   "shift_priority": cl["shp"], "terminal_assoc": cl["ta"], "reductions": cl["cands"],
                   "real_cell": real, "documented_cell": want}
        bad.append((f"state {cl['state']} terminal {cl['term']}: real cell {real}, documented rule gives {want}",
                    payload, classify(c, cl, real)))
    return bad


# ---------------------------------------------------------------------------------------------
# operator grammars
# ---------------------------------------------------------------------------------------------

OPS = [("Plus", "+"), ("Star", "*"), ("Pow", "^")]


def ops_grammar(assign, unary):
    """assign: list of (prio, 'L'|'R') for the first len(assign) binary operators"""
    prods = []
    pm = {}
    terms = {}
    for k, (prio, assoc) in enumerate(assign):
        name, ch = OPS[k]
        prods.append(("E", ["E", name, "E"]))
        pm[len(prods) - 1] = [str(prio), "left" if assoc == "L" else "right"]
        terms[name] = ch
    if unary:
        prods.append(("E", ["Minus", "E"]))
        pm[len(prods) - 1] = ["9"]
        terms["Minus"] = "-"
    prods.append(("E", ["Lp", "E", "Rp"]))
    prods.append(("E", ["Num"]))
    terms.update({"Lp": "(", "Rp": ")", "Num": "n"})
    return Gram(prods, terms, prod_meta=pm)


def random_expr(rng, nops, unary, depth=0):
    toks = []
    n = rng.randint(1, 5 if depth == 0 else 3)
    for i in range(n):
        if i:
            toks.append(OPS[rng.randrange(nops)][0])
        while unary and rng.random() < 0.2:
            toks.append("Minus")
        if depth < 2 and rng.random() < 0.15:
            toks += ["Lp"] + random_expr(rng, nops, unary, depth + 1) + ["Rp"]
        else:
            toks.append("Num")
    return toks


def prec_climb(toks, assign, unary, pidx, tidx):
    """reference: conventional precedence-climbing parser; returns the tree in tp.shape form"""
    binop = {OPS[k][0]: (assign[k][0], assign[k][1], pidx[("bin", k)]) for k in range(len(assign))}
    pos = [0]

    def peek():
        return toks[pos[0]] if pos[0] < len(toks) else None

    def leaf(name):
        return ("T", tidx[name])

    def atom():
        t = peek()
        pos[0] += 1
        if t == "Num":
            return ("N", pidx["num"], (leaf("Num"),))
        if t == "Lp":
            e = expr(0)
            assert peek() == "Rp"
            pos[0] += 1
            return ("N", pidx["paren"], (leaf("Lp"), e, leaf("Rp")))
        if t == "Minus" and unary:
            return ("N", pidx["neg"], (leaf("Minus"), atom()))
        raise ValueError(t)

    def expr(minp):
        lhs = atom()
        while peek() in binop and binop[peek()][0] >= minp:
            op = peek()
            prio, assoc, prod = binop[op]
            pos[0] += 1
            rhs = expr(prio + 1 if assoc == "L" else prio)
            lhs = ("N", prod, (lhs, leaf(op), rhs))
        return lhs
    e = expr(0)
    assert pos[0] == len(toks)
    return e


def ops_cases(rng, tier):
    out = []
    n_str = 12 if tier == "quick" else 60
    for nops in (2, 3):
        for prios in itertools.product((1, 2, 3), repeat=nops):
            for assocs in itertools.product("LR", repeat=nops):
                # (equal priority with different associativity is included: the operator on the left,
                # i.e. the production being reduced, decides — in the rule and in precedence climbing)
                for unary in (False, True):
                    if nops == 3 and unary and tier == "quick" and rng.random() < 0.5:
                        continue
                    assign = list(zip(prios, assocs))
                    g = ops_grammar(assign, unary)
                    strings = []
                    seen = set()
                    for _ in range(n_str * 3):
                        s = random_expr(rng, nops, unary)
                        if tuple(s) not in seen and len(s) <= 15:
                            seen.add(tuple(s))
                            strings.append(s)
                        if len(strings) >= n_str:
                            break
                    out.append({"g": g, "assign": assign, "unary": unary, "strings": strings,
                                "tt": rng.choice(["LALR", "LALR_PAGER"])})
    return out


def run_ops(rep, cases):
    groups = []
    for oc in cases:
        text = oc["g"].render()
        js = [f"G LR {oc['tt']} 0 1 - - - - - - " + hx(text)]
        for s in oc["strings"]:
            js.append("P LR 0 1 " + hx(" ".join(oc["g"].terms[t] for t in s)))
        groups.append(js)
    answers = run_vdyn(groups, tag="c05-ops")
    fails = []
    for oc, ans in zip(cases, answers):
        text = oc["g"].render()
        rep.count("ops_grammars")
        if not ans[0].startswith("dump ok "):
            fails.append(({"grammar": text, "why": "fully annotated operator grammar does not compile: " + ans[0][:200]}, None))
            continue
        d = tp.parse_dump(ans[0][len("dump ok "):])
        if d["conflicts"]:
            fails.append(({"grammar": text, "settings": f"LR {oc['tt']} 0 1",
                           "why": f"{d['conflicts']} conflicts left in a fully annotated operator grammar"}, None))
            continue
        tidx = {unhx(t["name"]).decode(): i for i, t in enumerate(d["terms"])}
        pidx = {}
        k = 1
        for j in range(len(oc["assign"])):
            pidx[("bin", j)] = k
            k += 1
        if oc["unary"]:
            pidx["neg"] = k
            k += 1
        pidx["paren"], pidx["num"] = k, k + 1
        for s, a in zip(oc["strings"], ans[1:]):
            rep.count("ops_strings")
            inp = " ".join(oc["g"].terms[t] for t in s)
            body = a[len("parse "):].split(" #")[0] if a.startswith("parse ") else a
            want = prec_climb(s, oc["assign"], oc["unary"], pidx, tidx)
            got = None
            if body.startswith("ok "):
                try:
                    got = tp.shape(tp.parse_tree_text(body[3:]))
                except Exception:
                    got = None
            if got != want:
                # class of F1 cannot occur here (no terminal-level associativity)
                fails.append(({"grammar": text, "settings": f"LR {oc['tt']} 0 1", "input": inp, "impl": body[:300],
                               "expected_shape": repr(want),
                               "why": "LR tree differs from the conventional precedence/associativity tree"}, None))
    return fails


# ---------------------------------------------------------------------------------------------
# the check
# ---------------------------------------------------------------------------------------------

def conf_cases(tier):
    cases = []
    variants = (0,) if tier == "quick" else (0, 1)
    tts = {0: "LALR_PAGER", 1: "LALR"}
    for variant in variants:
        for cmp in (-1, 0, 1):
            for pa in "NLR":
                for ta in "NLR":
                    for empty in (False, True):
                        for nops in (False, True):
                            for nopse in (False, True):
                                g = conf_sr_grammar(cmp, pa, ta, empty, nops, nopse, variant)
                                for algo in ("LR", "GLR"):
                                    for ps in (False, True):
                                        for pse in (False, True):
                                            cases.append(RCase(g, algo, tts[variant], ps, pse, "conf-sr",
                                                               {"want": (cmp, pa, ta, empty, ps, pse, nops, nopse, algo == "GLR")}))
    for cmp in (-1, 0, 1):
        for shape in ("nn", "ee", "ne"):
            for (a1, a2) in (("N", "N"), ("L", "R")):
                g = conf_rr_grammar(cmp, shape, a1, a2)
                for algo in ("LR", "GLR"):
                    for tt in (("LALR_PAGER",) if algo == "LR" else ("LALR_PAGER", "LALR_RN")):
                        for ps, pse in ((False, False), (True, True)):
                            cases.append(RCase(g, algo, tt, ps, pse, "conf-rr"))
    return cases


def random_cases(rng, tier):
    cases = []
    n_multi = 3000 if tier == "quick" else 25000
    n_rand = 6000 if tier == "quick" else 50000
    for _ in range(n_multi):
        g = multi_grammar(rng)
        algo = rng.choice(["LR", "GLR"])
        tt = rng.choice(["LALR", "LALR_PAGER"] + (["LALR_RN"] if algo == "GLR" else []))
        cases.append(RCase(g, algo, tt, rng.random() < 0.4, rng.random() < 0.5, "multi"))
    tries = 0
    n = 0
    while n < n_rand and tries < n_rand * 30:
        tries += 1
        big = rng.random() < 0.2
        g = random_grammar(rng, max_nts=4 if big else 3, max_alts=4 if big else 3, max_rhs=3, nterm=3,
                           p_empty=0.2, p_nt=0.5)
        if g.undefined_symbols() or not g.all_productive() or any(rhs == [l] for l, rhs in g.prods):
            continue            # `X: X` is rejected by the compiler ("Infinite recursion")
        g = annotate_pt(rng, g)
        algo = rng.choice(["LR", "GLR"])
        tt = rng.choice(["LALR", "LALR_PAGER"] + (["LALR_RN"] if algo == "GLR" else []))
        cases.append(RCase(g, algo, tt, rng.random() < 0.4, rng.random() < 0.5, "random"))
        n += 1
    return cases


def raw_cases(cases):
    """the bare grammars (no meta-data) in GLR mode without shift preference are cases of their own:
    nothing documented applies, every candidate must stay"""
    seen, out = set(), []
    for c in cases:
        if c.raw_key() not in seen:
            seen.add(c.raw_key())
            out.append(RCase(Gram(c.g.prods, c.g.terms), "GLR", c.tt, False, False, "raw"))
    return out


def c05_findings():
    if os.environ.get("C05_FINDINGS_FILE"):       # development: a scratch findings file
        fs = json.load(open(os.environ["C05_FINDINGS_FILE"]))["findings"]
    else:
        fs = common.load_findings()
    return [f for f in fs if f.get("property") == "C05"]


def known_keys():
    if os.environ.get("C05_ASSUME_KNOWN"):        # development: as if the proposed entries were listed
        return {KEY_F1, KEY_F9, KEY_N1}
    return {f["key"] for f in c05_findings() if f.get("status") == "known"}


def case_of(grammar, settings, tag):
    st = settings.split(" ")
    pse = st[3] == "1" or (st[3] == "-" and st[0] != "GLR")
    return RCase(parse_annotated(grammar), st[0], st[1] if st[1] != "-" else ("LALR_RN" if st[0] == "GLR" else "LALR_PAGER"),
                 st[2] == "1", pse, tag, text=grammar)


def corpus_cases():
    """witnesses of listed findings run first: `known` ones are replayed (KNOWN-FINDING while they fail),
    `fixed` ones are ordinary cases (a regression is a violation)"""
    out = []
    for f in c05_findings():
        w = f.get("witness")
        if w and "grammar" in w:
            c = case_of(w["grammar"], w.get("settings", "LR LALR_PAGER 0 1"), "corpus:" + f["key"])
            c.finding = f
            out.append(c)
    return out


def evaluate(rep, cases, proofs_ok, want_exhaustive=True):
    known = known_keys()
    corr_breaks, failures, known_hits = [], [], {}
    sr_seen, rr_seen = set(), set()
    tie = tablecorr.TableTie()
    for c in cases:
        c.sr_seen, c.rr_seen = set(), set()
        rep.count("cases:" + c.tag)
        if getattr(c, "table_ans", None) is not None and c.model not in ("bad-request", "driver-crash", None):
            tie.judge(rep, c, c.table_ans)
        if c.raw is None:
            rep.count("raw_compile_failed:" + " ".join(c.ans.split(" ")[1:3]))
            continue
        rep.count("evaluations")
        # meta tie: the priorities / associativities the compiler ANALYSED are the ones the grammar text says, for all four
        # associativity keywords at production and terminal level (the cells below are judged on the analysed values)
        if c.dump is not None and getattr(c, "g", None) is not None:
            try:
                kp, kt = c.known_prods(), c.known_terms()
                A = {"N": "N", "L": "L", "R": "R", "none": "N", "left": "L", "right": "R"}
                for i, (prio, assoc, nops, nopse) in kp.items():
                    p = c.dump["prods"][i]
                    got = (p["prio"], A.get(str(p["assoc"]), p["assoc"]), bool(p["nops"]), bool(p["nopse"]))
                    if got != (prio, assoc, nops, nopse):
                        failures.append((c, f"production {i}: meta-data words {c.g.prod_meta.get(render_order(c.g)[i - 1], [])} mean "
                                            f"(prio, assoc, nops, nopse) = {(prio, assoc, nops, nopse)}, the compiler analysed {got}", {}, "meta"))
                        break
                for i, (prio, assoc) in kt.items():
                    t = c.dump["terms"][i]
                    got = (t["prio"], A.get(str(t["assoc"]), t["assoc"]))
                    if got != (prio, assoc):
                        failures.append((c, f"terminal {i}: meta-data words {c.g.term_meta.get(list(c.g.terms)[i - 1], [])} mean (prio, assoc) = "
                                            f"{(prio, assoc)}, the compiler analysed {got}", {}, "meta"))
                        break
                rep.count("meta_tie_compared")
            except (KeyError, IndexError) as e:
                rep.count("meta_tie_skipped")
        why = correspondence(c)
        if c.model is not None:
            rep.count("correspondence_compared")
        if why:
            corr_breaks.append((c, why))
        for (w, payload, key) in oracle(rep, c):
            if key == "machinery":
                corr_breaks.append((c, w))
            elif key and key in known:
                known_hits.setdefault(key, []).append((c, w))
                rep.count("known:" + key)
            else:
                rep.count("oracle_failure_class:" + str(key))
                failures.append((c, w, payload, key))
        if c.tag == "conf-sr":
            sr_seen |= c.sr_seen
        rr_seen |= c.rr_seen
    rep.counters["distinct_nontrivial"] = rep.counters.get("conflict_cells", 0)
    if want_exhaustive:
        full = set(itertools.product((-1, 0, 1), "NLR", "NLR", (False, True), (False, True), (False, True),
                                     (False, True), (False, True), (False, True)))
        # cells the real compiler refused to build (panic) cannot be observed; none expected for 2 candidates
        rep.cov["sr_decision_domain"] = {"combinations": len(full), "observed_in_real_tables": len(sr_seen & full),
                                         "exhaustive": (sr_seen & full) == full}
        rep.cov["exhaustive"] = (sr_seen & full) == full
        rep.cov["rr_decision_combinations_observed"] = len(rr_seen)
        if (sr_seen & full) != full:
            corr_breaks.append((cases[0], f"conf family no longer realises the whole S/R decision domain "
                                          f"({len(sr_seen & full)}/{len(full)})"))
    for key, hits in known_hits.items():
        wit = [h for h in hits if h[0].finding is not None and h[0].finding.get("key") == key]
        c, w = wit[0] if wit else min(hits, key=lambda h: len(h[0].text))
        rep.known_finding(key, f"{'witness still fails' if wit else 'class hit'} ({len(hits)} cells/cases in this run), "
                               f"[{' '.join(c.settings()[:4])}] {c.text!r}: {w}")
    for c in cases:
        f = c.finding
        if f is not None and f.get("status") == "known" and not any(h[0] is c for h in known_hits.get(f["key"], [])):
            rep.notes.append(f"finding {f['key']} no longer reproduces on its witness (retire the entry by hand)")
            print(f"NOTE property=C05 finding {f['key']} no longer reproduces on its witness")
    rep.counters["corr_breaks"] = len(corr_breaks)
    rep.counters["oracle_failures"] = len(failures)
    # report: at most 3, smallest first, one per suspected class first
    failures.sort(key=lambda f: (len(f[0].text), f[1]))
    shown, seen_keys = 0, set()
    for c, w, payload, key in failures:
        if shown >= 3:
            break
        if key in seen_keys and key is not None:
            continue
        seen_keys.add(key)
        rep.violation(dict(c.describe(), why=w, kind="impl!=oracle", suspected_finding=key, **payload))
        shown += 1
    # Tie A for the construction: whole table vs `Table.build` (kind impl!=model, replay = grammar + settings)
    n_table = tie.report(rep, lambda c: c.describe(), min(3, shown))
    if not failures and not n_table:
        if corr_breaks:
            c, w = min(corr_breaks, key=lambda f: len(f[0].text))
            rep.violation(dict(c.describe(), why="correspondence corr:resolve broken (Lean model Resolve.stateCell != real "
                               "calculate_reductions); the oracle found no cell violating the documented rule: " + w,
                               kind="impl!=model", n_breaks=len(corr_breaks)), no_input=True)
        elif not proofs_ok:
            rep.violation({"why": f"Lean obligations of {PROP_MODULE} no longer check",
                           "obligations": [o for o in rep.obligations if not o[1]]}, no_input=True)
    for c in cases:
        if c.dump is not None and c.dump["conflicts"] and len(rep.samples) < 4:
            rep.sample({"grammar": c.text, "settings": " ".join(c.settings()[:4]),
                        "real_cells": {s["idx"]: {t: [fmt_act(a) for a in acts] for t, acts in s["acts"].items() if len(acts) > 1}
                                       for s in c.dump["states"] if any(len(a) > 1 for a in s["acts"].values())}})
    return failures, corr_breaks


def reported_tie(rep, cases, limit=600):
    """'if nothing applies the conflict is REPORTED (LR) or KEPT (GLR)': the cells are judged on the table dump (hook), the
    reporting itself happens in `generate_parser` (generator/mod.rs) after the table is built. The real
    `Settings::process_grammar` (vdyn job C) is run on the same text and settings: it must return the conflicts error
    exactly when the table under test has a cell with more than one action in LR mode, and generate a parser otherwise."""
    sel = [c for c in cases if c.dump is not None and getattr(c, "text", None)]
    sel.sort(key=lambda c: (c.dump["conflicts"] == 0, len(c.text)))
    half = limit // 2
    sel = sel[:half] + [c for c in sel[half:] if c.dump["conflicts"] == 0][:half]
    if not sel:
        return
    groups = [["C G F " + " ".join(c.settings()) + " " + hx(c.text)] for c in sel]
    answers = run_vdyn(groups, tag="c05-report")
    bad = []
    for c, a in zip(sel, answers):
        a = a[0]
        want_err = c.algo == "LR" and c.dump["conflicts"] > 0
        got_err = a.startswith("compile err conflicts")
        got_ok = a.startswith("compile ok")
        rep.count("reported_tie:" + ("conflicts-reported" if got_err else "generated" if got_ok else a.split(" ")[1] if " " in a else a))
        if not (got_err or got_ok):
            continue            # other diagnostics / panics: C16's matter
        if want_err != got_err:
            bad.append((c, a))
    rep.counters["reported_tie_compared"] = len(sel)
    rep.counters["reported_tie_failures"] = len(bad)
    for c, a in sorted(bad, key=lambda x: len(x[0].text))[:max(0, 3 - len(rep.violations))]:
        rep.violation(dict(c.describe(), kind="impl!=oracle", tag="reported",
                           why=("the table has %d unresolved conflict(s) in LR mode but the compiler generated a parser instead of reporting them"
                                % c.dump["conflicts"]) if c.algo == "LR" and c.dump["conflicts"] > 0 else
                               "the compiler reports conflicts although the table under test has none (LR) / conflicts must be kept (GLR)",
                           impl=a[:200]))


LAYOUT_CONFLICTS = [
    "S: A+;\nA: Ta;\nLayout: LayoutItem*;\nLayoutItem: WS+ | Comment;\nterminals\nTa: 'a';\nWS: /\\s/;\nComment: /#[^\\n]*/;\n",
    "S: A+;\nA: Ta;\nLayout: LayoutItem*;\nLayoutItem: L1 | L2;\nL1: WS;\nL2: WS;\nterminals\nTa: 'a';\nWS: /\\s+/;\n",
    "S: A+;\nA: Ta;\nLayout: LayoutItem*;\nLayoutItem: WS | Comment;\nterminals\nTa: 'a';\nWS: /\\s+/;\nComment: /#[^\\n]*/;\n",   # control
]


def layout_reported(rep):
    """'reported (LR)' also holds for a conflict inside the Layout rule's automaton: table dump (all states) vs the real
    `process_grammar` outcome, for the three table types"""
    n_bad = 0
    for text in LAYOUT_CONFLICTS:
        for tt in ("LALR", "LALR_PAGER", "LALR_RN"):
            st = f"LR {tt} - - - - - - - -"
            ans = run_vdyn([[f"G {st} " + hx(text), f"C G F {st} " + hx(text)]], tag="c05-layout")[0]
            if not ans[0].startswith("dump ok "):
                rep.count("layout_reported:dump-" + ans[0].split(" ")[1])
                continue
            confl = tp.parse_dump(ans[0][8:])["conflicts"]
            got_err = ans[1].startswith("compile err conflicts")
            rep.count("layout_reported:" + ("conflict" if confl else "clean") + ":" + ("reported" if got_err else "compiled"))
            if (confl > 0) != got_err and (got_err or ans[1].startswith("compile ok")):
                n_bad += 1
                if len(rep.violations) < 3:
                    rep.violation({"grammar": text, "settings": st, "tag": "layout-reported", "kind": "impl!=oracle",
                                   "why": f"the Layout automaton of the table has {confl} unresolved conflict(s) in LR mode, the compiler answers: {ans[1][:80]}"})
    rep.counters["layout_reported_failures"] = n_bad


def run(rep, tier, seed):
    rng = random.Random(seed)
    proofs_ok = lean_obligations(rep, PROP_MODULE)
    if not os.environ.get("C05_VDYN"):
        ok, log = build_harness()
        if not ok:
            rep.oblige("cargo build harness/dyn against /repo", False, log[-1500:])
            rep.violation({"broken": "harness build", "log": log[-3000:]}, no_input=True)
            return
    cases = corpus_cases() + conf_cases(tier) + random_cases(rng, tier)
    cases += raw_cases(cases)
    compile_all(cases)
    driver_wired(rep, cases)
    rep.cov["rule"] = (
        "conf-sr: one tiny grammar per (priority order <,=,>) x production assoc x terminal assoc x EMPTY/non-empty x nops x "
        "nopse, each compiled under {LR,GLR} x prefer_shifts x prefer_shifts_over_empty = 1728 S/R decisions (exhaustive); "
        "conf-rr: R/R templates (priority order x {both non-empty, both EMPTY, mixed} x assoc noise x algo x table type); "
        "multi: one state with a shift and 2-3 reductions on the same lookahead, random meta-data; random: random BNF "
        "grammars with random production/terminal meta-data x {LR,GLR} x {LALR,LALR_PAGER,LALR_RN} x settings. EVERY cell "
        "of EVERY state is compared (model) and judged (documented rule); distinct = cells with >= 2 candidates. "
        "ops: expression grammars x all priority/associativity assignments x random operator strings vs precedence climbing")
    failures, corr = evaluate(rep, cases, proofs_ok)
    reported_tie(rep, cases)
    layout_reported(rep)
    ofails = run_ops(rep, ops_cases(rng, tier))
    rep.counters["ops_failures"] = len(ofails)
    for payload, _ in sorted(ofails, key=lambda f: (len(f[0]["grammar"]), len(f[0].get("input", ""))))[:max(0, 3 - len(rep.violations))]:
        rep.violation(dict(payload, kind="impl!=oracle", tag="ops"))
    rep.assumptions += [
        "the candidate set of a cell is what the dumped items+lookaheads of its state give (their correctness is C04); "
        "production/terminal meta-data as the builder computed them (rule-level inheritance is C09)",
        "REDUCE/REDUCE in LR mode: 'non-empty preferred to EMPTY on equal priority' is taken as part of the rule although "
        "only a code comment documents it (table/mod.rs:879)",
        "cells with >= 3 candidates: the two-phase reading of the pairwise documented rule; a cell that deviates from it "
        "but is pairwise justified (nothing kept is beaten by something kept, nothing removed unbeaten) is counted, not flagged",
        "operator corollary is sampled (strings), not proved"]


def replay(rep, path):
    p = json.load(open(path))
    if not os.environ.get("C05_VDYN"):
        build_harness()
    if p.get("tag") == "layout-reported":
        st = p["settings"]
        ans = run_vdyn([[f"G {st} " + hx(p["grammar"]), f"C G F {st} " + hx(p["grammar"])]], tag="c05-replay")[0]
        if ans[0].startswith("dump ok "):
            confl = tp.parse_dump(ans[0][8:])["conflicts"]
            got_err = ans[1].startswith("compile err conflicts")
            if (confl > 0) != got_err:
                rep.violation(dict(p, replayed=ans[1][:200]))
        return
    if p.get("tag") == "ops":
        text = p["grammar"]
        st = p.get("settings", "LR LALR_PAGER 0 1").split(" ")
        js = [f"G {st[0]} {st[1]} {st[2]} {st[3]} - - - - - - " + hx(text)]
        if "input" in p:
            js.append("P LR 0 1 " + hx(p["input"]))
        ans = run_vdyn([js], tag="c05-replay")[0]
        same = len(ans) > 1 and p.get("impl") and ans[1].startswith("parse " + p["impl"][:200])
        conflicts = ans[0].startswith("dump ok ") and tp.parse_dump(ans[0][8:])["conflicts"] > 0
        if same or (conflicts and "input" not in p) or not ans[0].startswith("dump ok "):
            rep.violation(dict(p, replayed=ans[-1][:300]))
        return
    c = case_of(p["grammar"], p["settings"], p.get("tag", "replay"))
    compile_all([c])
    if not driver_wired(rep, [c]):
        return
    evaluate(rep, [c], True, want_exhaustive=False)
    reported_tie(rep, [c])


def parse_annotated(text):
    """inverse of Gram.render including production/terminal meta-data"""
    prods, terms, pm, tm = [], {}, {}, {}
    mode = "rules"
    for stmt in text.replace("\n", " ").split(";"):
        stmt = stmt.strip()
        if stmt.startswith("terminals"):
            mode = "terms"
            stmt = stmt[len("terminals"):].strip()
        if not stmt:
            continue
        l, r = stmt.split(":", 1)
        if mode == "rules":
            for alt in r.split("|"):
                m = re.search(r"\{([^}]*)\}", alt)
                words = [w.strip() for w in m.group(1).split(",")] if m else []
                alt = re.sub(r"\{[^}]*\}", "", alt)
                prods.append((l.strip(), [s for s in alt.split() if s != "EMPTY"]))
                if words:
                    pm[len(prods) - 1] = words
        else:
            m = re.search(r"\{([^}]*)\}", r)
            words = [w.strip() for w in m.group(1).split(",")] if m else []
            r = re.sub(r"\{[^}]*\}", "", r)
            terms[l.strip()] = r.strip().strip("'")
            if words:
                tm[l.strip()] = words
    # Gram groups productions per nonterminal in first-appearance order, as render does
    return Gram(prods, terms, prod_meta=pm, term_meta=tm)
