"""C08 — the generated parser source encodes exactly the computed table.

Three ties, every run:
 * code level (correspondence): `harness/gen` (vgen) lets the REAL compiler write `<g>.rs` for both generator
   table layouts, extracts the table-bearing items with syn (enums in order, nested arrays cell by cell / match
   arms in order, constants, the constant impl text) and the Lean driver renders `Gen.arrays` / `Gen.functions` /
   `Gen.enums` for the table the hook dumped for the same text + settings; the two canonical texts are diffed.
 * certificate: `Gen.WF` (hypothesis of every C08 theorem) is evaluated by the Lean driver on every real dump.
 * behaviour level (oracle = the property text): a batch of the generated parsers (both layouts x LR/GLR) is compiled
   into ONE scratch crate against /repo/rustemo; emitted code asks `PARSER_DEFINITION.actions/goto/
   expected_token_kinds` for EVERY state x token x nonterminal (+ `NonTermKind::from`, `default_layout`) and parses
   inputs; python compares with the dumped table (oracle, computed here from the dump, independent of Lean), with the
   Lean evaluators' answers (correspondence) and the two layouts with each other.
"""
import glob
import json
import os
import random
import shutil
import subprocess
import time

import common
from common import lean_obligations, sh, hx, run_model, workdir, NPROC, HARNESS, load_findings
import gram
import treeparse as tp

LEVEL = "proof"
PROP_MODULE = "Rustemo.Props.C08"

if os.environ.get("VERIF_GEN_DRIVER"):          # scratch driver while `gen` is not wired into Main.lean
    common.DRIVER = os.environ["VERIF_GEN_DRIVER"]
VGEN = os.environ.get("VERIF_C08_VGEN", os.path.join(HARNESS, "target", "debug", "vgen"))
RUSTEMO = os.environ.get("VERIF_C08_RUSTEMO", "/repo/rustemo")
BATCH_TARGET = os.path.join(HARNESS, "target", "genbatch")
DEFAULT = ["-"] * 8

RULE = ("grammars: hand-written corpus (multi-action GLR cells, states with all / some / one non-empty cell, Layout "
        "rule, regex terminals, many terminals, production kinds, priorities) + literature grammars of /repo/tests and "
        "/repo/docs that compile standalone + random BNF (tools/gram.py, with random disambiguation meta-data, "
        "production kinds, Layout rules, 1..8 terminals) x parser algorithm {LR, GLR} x table type {LALR, LALR_PAGER, "
        "LALR_RN} x prefer_shifts x lexical settings x generator table type {Arrays, Functions}; per generated parser "
        "EVERY (state, token), (state, nonterminal), state query is compared; a batch of the parsers is compiled and "
        "queried for real and parses sentences / mutations with both layouts; distinct = (grammar, settings, layout)")


# ---------------------------------------------------------------------------------------------
# cases
# ---------------------------------------------------------------------------------------------

class Case:
    def __init__(self, grammar, settings, family, inputs=()):
        self.grammar = grammar
        self.settings = list(settings)       # algo tt ps pse ms lm go partial skipws fancy
        self.family = family
        self.inputs = list(inputs)
        self.out = {"A": {}, "F": {}}        # vgen output per layout
        self.model = {}                      # wf, codeA, codeF, evalA, evalF
        self.beh = {}                        # layout -> {"Q": line, "P": [answers]}
        self.problems = []                   # (kind, detail) kind in impl≠oracle | impl≠model | model≠oracle | layouts

    @property
    def algo(self):
        return self.settings[0]

    def job(self, i, lay):
        return f"{i}{lay} {lay} {' '.join(self.settings)} {hx(self.grammar)}"

    def status(self, lay):
        return self.out[lay].get("status", "harness-crash")

    def ok(self):
        return self.status("A") == "ok" and self.status("F") == "ok"

    def payload(self):
        return {"grammar": self.grammar, "settings": " ".join(self.settings), "family": self.family,
                "inputs": self.inputs}


CORPUS = [
    # (name, grammar, inputs)
    ("glr-ambiguous", "S: S S | Ta;\nterminals\nTa: 'a';\n", ["a", "aa", "aaa", "", "b"]),
    ("expr-prio", "E: E '+' E {left, 1} | E '*' E {left, 2} | '(' E ')' | Num;\nterminals\nPlus: '+';\nMul: '*';\n"
                  "LP: '(';\nRP: ')';\nNum: /\\d+/;\n", ["1+2*3", "(1+2)*3", "1+", "12", "1 + 2 + 3"]),
    ("expr-ambiguous", "E: E '+' E | E '*' E | Num;\nterminals\nPlus: '+';\nMul: '*';\nNum: /\\d+/;\n",
     ["1+2*3", "1+2+3+4", "1", "+"]),
    ("layout-ws", "S: Ta Tb Ta;\nLayout: LayoutItem+;\nLayoutItem: WS;\nterminals\nTa: 'a';\nTb: 'b';\nWS: /\\s+/;\n",
     ["aba", "a b a", " a\nb a", "ab"]),
    ("layout-comments", "S: Id+;\nLayout: LayoutItem*;\nLayoutItem: WS | Comment;\nterminals\nId: /[a-z]+/;\n"
                        "WS: /\\s+/;\nComment: /\\/\\/.*/;\n", ["a b", "a // x\nb", "", "a//"]),
    ("kinds", "E: E '+' T {Add} | T {Single};\nT: T '*' F {Mul} | F;\nF: Num {Number} | '(' E ')' {Paren};\nterminals\n"
              "Plus: '+';\nMul: '*';\nLP: '(';\nRP: ')';\nNum: /\\d+/;\n", ["1+2*3", "(1)", "1+*"]),
    ("one-terminal", "S: Ta S | Ta;\nterminals\nTa: 'a';\n", ["a", "aaa", ""]),
    ("empty-only", "S: EMPTY;\nterminals\nTa: 'a';\n", ["", "a"]),
    ("nullable", "S: A B Tc;\nA: Ta | EMPTY;\nB: Tb | EMPTY;\nterminals\nTa: 'a';\nTb: 'b';\nTc: 'c';\n",
     ["c", "ac", "bc", "abc", "ab"]),
    ("many-terminals",
     "S: Item+;\nItem: K1 | K2 | K3 | K4 | K5 | K6 | K7 | K8 | Id | Num | Str | Op;\nOp: '+' | '-' | '*' | '/' | '==' | '=';\n"
     "terminals\nK1: 'if';\nK2: 'then';\nK3: 'else';\nK4: 'while';\nK5: 'do';\nK6: 'end';\nK7: 'let';\nK8: 'in';\n"
     "Id: /[a-z_]+/;\nNum: /\\d+/;\nStr: /\"[^\"]*\"/;\nPlus: '+';\nMinus: '-';\nMul: '*';\nDiv: '/';\nEq2: '==';\nEq: '=';\n",
     ["if x then 1 else \"s\"", "let a = b == c", "while", "?"]),
    ("term-prio", "S: A | B | C;\nA: T1;\nB: T2;\nC: T3;\nterminals\nT1: /a/ {15};\nT2: /x/ {15};\nT3: /aa/;\n",
     ["a", "aa", "x"]),
    ("sugar", "S: A*[Comma] B? C+;\nA: Ta;\nB: Tb;\nC: Tc;\nterminals\nTa: 'a';\nTb: 'b';\nTc: 'c';\nComma: ',';\n",
     ["c", "a,abc", "bcc", "a,"]),
    ("dangling-else", "S: 'if' S | 'if' S 'else' S | 'x';\nterminals\nIf: 'if';\nElse: 'else';\nX: 'x';\n",
     ["if x else x", "if if x else x", "x"]),
    ("knuth-lr1", "S: A Ta | Tb A Tc | B Tc | Tb B Ta;\nA: Td;\nB: Td;\nterminals\nTa: 'a';\nTb: 'b';\nTc: 'c';\nTd: 'd';\n",
     ["da", "bdc", "dc", "bda"]),
    ("regex-alt", "S: X+;\nX: A | B | C;\nterminals\nA: /a|b/;\nB: /[0-9]+|x/;\nC: /(?i)k(e|é)y|λ+/;\n",
     ["ab", "cb", "a 12 x", "KeY kéy λλ", "b9y", " λa"]),
    # skip_ws(false) + a Layout rule that derives comments only: whitespace between tokens is then NOT skipped by anything
    # (the generated constructor wires skip_ws / partial_parse / has_layout into the runtime)
    ("noskip-layout", "S: W+;\nW: Id;\nLayout: Comment*;\nterminals\nId: /[a-z]+/;\nComment: /#[^#]*#/;\n",
     ["ab cd", "ab #x# cd", " ab", "ab\n", "ab#x#cd", "ab#x##y#cd"]),
    ("noskip-plain", "S: W+;\nW: Id Semi;\nterminals\nId: /[a-z]+/;\nSemi: ';';\n",
     ["ab;cd;", "ab; cd;", " ab;", "ab;\n"]),
    # fancy_regex(true): look-ahead + nested quantifier; the long inputs without `;` exceed fancy_regex's backtrack limit
    # (the engine returns Err, which the generated recognizer must treat as "no match")
    ("fancy-backtrack", "S: Words Semi | Words;\nterminals\nWords: /(?:\\w+\\s?)+(?=;)/;\nSemi: ';';\n",
     ["ab cd;", "ab", "a" * 24, ";"]),
    # F13 (property C11): two variants named SP2 -> outside `Gen.WF`, never compiled
    ("dup-kind", "S: S Ta {P2} | Ta;\nterminals\nTa: 'a';\n", []),
]

SETTINGS = [
    # algo, tt, ps, pse, ms, lm, go
    ["LR", "LALR_PAGER"] + ["-"] * 5,
    ["LR", "LALR"] + ["-"] * 5,
    ["GLR", "LALR_RN"] + ["-"] * 5,
    ["LR", "LALR_PAGER", "1", "-", "-", "-", "-"],
    ["LR", "LALR_PAGER", "1", "1", "0", "-", "-"],
    ["LR", "LALR_PAGER", "-", "0", "-", "0", "-"],
    ["GLR", "LALR_RN", "-", "-", "0", "0", "1"],
    ["GLR", "LALR_RN", "1", "1", "-", "-", "-"],
    ["LR", "LALR_RN", "1", "-", "-", "-", "-"],
    ["GLR", "LALR_PAGER", "-", "-", "-", "-", "-"],
]


def full_settings(s7, rng=None):
    partial = rng.choice(["-", "0", "1"]) if rng else "-"
    skipws = rng.choice(["-", "-", "0"]) if rng else "-"
    return list(s7) + [partial, skipws, "-"]


def literature():
    out = []
    pats = ["/repo/tests/src/**/*.rustemo", "/repo/docs/src/**/*.rustemo", "/repo/examples/**/*.rustemo",
            "/repo/rustemo-compiler/src/lang/*.rustemo"]
    seen = set()
    for p in pats:
        for f in sorted(glob.glob(p, recursive=True)):
            try:
                t = open(f).read()
            except Exception:
                continue
            if t in seen:
                continue
            seen.add(t)
            out.append((os.path.relpath(f, "/repo"), t))
    return out


def render_input(rng, g, toks):
    chars = [g.terms[t] for t in toks]
    sep = rng.choice(["", " ", "  "]) if g.layout is None else rng.choice(["", " "])
    # trailing / leading whitespace: suffixes that are whitespace only (the STOP recognizer must match at the very end only)
    return rng.choice(["", "", " "]) + sep.join(chars) + rng.choice(["", "", " ", "\n", " \t"])


def bnf_case(rng, kinds=False, layout=None, nterm=None):
    nterm = nterm or rng.choice([1, 1, 2, 2, 3, 3, 4, 5, 8])
    for _ in range(6):
        g = gram.random_grammar(rng, max_nts=rng.choice([1, 2, 3, 4, 5]), max_alts=rng.choice([2, 3, 4]),
                                max_rhs=rng.choice([2, 3, 4]), nterm=nterm, p_empty=rng.choice([0.0, 0.15, 0.3]),
                                layout=layout)
        # the compiler rejects `A: A` and unproductive left recursion ("infinite recursion"); mostly avoid them
        if not any(rhs == [l] for l, rhs in g.prods) and g.all_productive():
            break
    if rng.random() < 0.5:
        g = gram.annotate(rng, g)
    if kinds:
        pm = dict(g.prod_meta)
        for i in range(len(g.prods)):
            if rng.random() < 0.5:
                pm[i] = list(pm.get(i, [])) + [rng.choice(["K", "Kind", "X", "P"]) + str(i if rng.random() < 0.9 else 1)]
        g = gram.Gram(g.prods, g.terms, prod_meta=pm, term_meta=g.term_meta, rule_meta=g.rule_meta, layout=g.layout)
    inputs = []
    if g.in_glr_scope():
        alpha = list(g.terms)
        for _ in range(4):
            s = gram.random_sentence(g, rng, max_depth=5)
            if s is not None and len(s) <= 8:
                inputs.append(render_input(rng, g, s))
                inputs.append(render_input(rng, g, gram.mutate(rng, s, alpha)))
        inputs.append("")
        inputs = list(dict.fromkeys(inputs))[:6]
    return g.render(), inputs


def gen_cases(rng, n_random, lit_budget):
    cases = []
    for name, text, inputs in CORPUS:
        for s7 in (SETTINGS[0], SETTINGS[2], SETTINGS[1]):
            st = full_settings(s7)
            if name.startswith("fancy"):
                st[9] = "1"
            if name.startswith("noskip"):
                st[8] = "0"
            cases.append(Case(text, st, "corpus:" + name, inputs))
    for f in load_findings():
        w = f.get("witness", {})
        if f.get("property") == "C08" and "grammar" in w:
            cases.append(Case(w["grammar"], w["settings"].split(" "), "corpus:" + f.get("key", "?"), w.get("inputs", [])))
    lits = literature()
    rng.shuffle(lits)
    for rel, text in lits[:lit_budget]:
        for s7 in (SETTINGS[0], SETTINGS[2]):
            cases.append(Case(text, full_settings(s7), "lit:" + rel, []))
    for k in range(n_random):
        fam = rng.choice(["bnf", "bnf", "bnf", "kinds", "layout", "oneterm"])
        if fam == "kinds":
            text, inputs = bnf_case(rng, kinds=True)
        elif fam == "layout":
            text, inputs = bnf_case(rng, layout=rng.choice(["ws", "comments", "nested"]))
        elif fam == "oneterm":
            text, inputs = bnf_case(rng, nterm=1)
        else:
            text, inputs = bnf_case(rng)
        for s7 in (rng.choice([SETTINGS[0], SETTINGS[1], SETTINGS[3], SETTINGS[4], SETTINGS[5], SETTINGS[8]]),
                   rng.choice([SETTINGS[2], SETTINGS[2], SETTINGS[6], SETTINGS[7], SETTINGS[9]])):
            cases.append(Case(text, full_settings(s7, rng), fam, inputs))
    # a malformed stream: truncated / corrupted grammar texts (both layouts must report the same diagnosis)
    for k in range(max(6, n_random // 15)):
        text = rng.choice(CORPUS)[1]
        m = rng.randrange(4)
        if m == 0:
            text = text[:rng.randrange(len(text))]
        elif m == 1:
            i = rng.randrange(len(text))
            text = text[:i] + rng.choice(";:|'{}/\\\x00é") + text[i + 1:]
        elif m == 2:
            text = text.replace("terminals", "")
        else:
            text = text.replace(";", "", 1)
        cases.append(Case(text, full_settings(rng.choice(SETTINGS[:3])), "malformed", []))
    return cases


# ---------------------------------------------------------------------------------------------
# running vgen and the Lean driver
# ---------------------------------------------------------------------------------------------

def build_vgen():
    d = os.path.join(HARNESS, "gen")
    lock = os.path.join(d, "Cargo.lock")
    if not os.path.exists(lock):
        shutil.copy("/repo/Cargo.lock", lock)
    if os.environ.get("VERIF_C08_VGEN"):
        return True, ""
    rc, out, err = sh(["cargo", "build", "--offline"], cwd=d, timeout=3000)
    return rc == 0, out + err


def run_vgen(cases, wd):
    n = min(NPROC, max(1, len(cases)))
    shards = [[] for _ in range(n)]
    for i in range(len(cases)):
        shards[i % n].append(i)
    procs = []
    for k, ids in enumerate(shards):
        jf, of = os.path.join(wd, f"jobs{k}.txt"), os.path.join(wd, f"out{k}.txt")
        with open(jf, "w") as fh:
            for i in ids:
                for lay in "AF":
                    fh.write(cases[i].job(i, lay) + "\n")
        procs.append((of, subprocess.Popen([VGEN, jf, of, os.path.join(wd, f"w{k}")], stdout=subprocess.DEVNULL,
                                           stderr=subprocess.DEVNULL, env=common.ENV)))
    for of, p in procs:
        try:
            p.wait(timeout=1500)
        except subprocess.TimeoutExpired:
            p.kill()
        if os.path.exists(of):
            for line in open(of):
                f = line.rstrip("\n").split(" ", 2)
                if len(f) >= 2 and f[0][:-1].isdigit():
                    cases[int(f[0][:-1])].out[f[0][-1]][f[1]] = f[2] if len(f) > 2 else ""


def run_driver(cases):
    idx = [i for i, c in enumerate(cases) if "request" in c.out["A"]]
    groups = []
    for i in idx:
        d = cases[i].out["A"]["request"]
        groups.append(["gen wf " + d, "gen code A " + d, "gen code F " + d, "gen eval A " + d, "gen eval F " + d])
    if not groups:
        return
    for i, a in zip(idx, run_model(groups, tag="c08model")):
        cases[i].model = dict(zip(["wf", "codeA", "codeF", "evalA", "evalF"], a))


# ---------------------------------------------------------------------------------------------
# the oracle: what the dumped table says, in the canonical query text (independent of Lean)
# ---------------------------------------------------------------------------------------------

def oracle_queries(dump):
    d = tp.parse_dump(dump)
    nt, nn = d["nterms"], d["nnonterms"]
    skipped = {d["aug"]} | ({d["augl"]} if d["augl"] is not None else set())
    kidx, user = {}, []
    for p, pr in enumerate(d["prods"]):
        if pr["lhs"] not in skipped:
            kidx[p] = len(user)
            user.append(p)
    recs = ["Q"]
    notes = []
    for i, st in enumerate(d["states"]):
        if st["idx"] != i:
            notes.append(f"state.idx {st['idx']} at position {i}")

    def act(a):
        if a[0] == "S":
            return f"S{a[1]}"
        if a[0] == "R":
            return f"R{kidx[a[1]]}.{a[2]}" if a[1] in kidx else f"R?{a[1]}.{a[2]}"
        return "A"
    for i, st in enumerate(d["states"]):
        cells = [",".join(act(a) for a in st["acts"][a_]) if st["acts"].get(a_) else "-" for a_ in range(nt)]
        recs.append(f"act {i} " + (";".join(cells) if cells else "~"))
    for i, st in enumerate(d["states"]):
        g = [str(st["gotos"][n]) if n in st["gotos"] else "!" for n in range(nn)]
        recs.append(f"goto {i} " + (",".join(g) if g else "~"))
    for i, st in enumerate(d["states"]):
        recs.append(f"exp {i} " + (",".join(f"{k}:{1 if f else 0}" for k, f in st["sorted"]) if st["sorted"] else "-"))
    recs.append("from " + (",".join(str(d["prods"][p]["nt"]) for p in user) if user else "-"))
    recs.append("layout " + ("-" if d.get("layout_state") is None else str(d["layout_state"])))
    return " | ".join(recs), notes, d


def first_diff(a, b):
    ra, rb = a.split(" | "), b.split(" | ")
    for k in range(max(len(ra), len(rb))):
        x = ra[k] if k < len(ra) else "<missing>"
        y = rb[k] if k < len(rb) else "<missing>"
        if x != y:
            if x.startswith("impl ") and y.startswith("impl "):
                try:
                    x = "impl " + common.unhx(x[5:]).decode(errors="replace")
                    y = "impl " + common.unhx(y[5:]).decode(errors="replace")
                except Exception:
                    pass
            return k, x[:600], y[:600]
    return None


# ---------------------------------------------------------------------------------------------
# behaviour level: compile a batch of generated parsers and ask them
# ---------------------------------------------------------------------------------------------

def enum_variants(code, name):
    for rec in code.split(" | "):
        if rec.startswith(f"enum {name}"):
            return rec.split(" ")[2:]
    return []


def query_code(code, glr):
    def arr(ty, name, vs):
        return (f"    const {name}: [{ty}; {len(vs)}] = [{', '.join(f'{ty}::{v}' for v in vs)}];\n"
                f"    #[allow(dead_code)] fn ex_{name.lower()}(x: {ty}) {{ match x {{ "
                f"{' '.join(f'{ty}::{v} => (),' for v in vs)} }} }}\n")
    st, tk, pk, nk = (enum_variants(code, n) for n in ("State", "TokenKind", "ProdKind", "NonTermKind"))
    q = "\npub fn verif_query() -> String {\n"
    q += arr("State", "STATES", st) + arr("TokenKind", "TOKENS", tk) + arr("ProdKind", "PKS", pk) + arr("NonTermKind", "NTS", nk)
    q += r'''
    fn act(a: &Action<State, ProdKind>) -> String {
        match a {
            Action::Shift(s) => format!("S{}", *s as usize),
            Action::Reduce(p, l) => format!("R{}.{}", *p as usize, l),
            Action::Accept => "A".to_string(),
            Action::Error => "E".to_string(),
        }
    }
    fn join(v: Vec<String>, sep: &str, empty: &str) -> String { if v.is_empty() { empty.to_string() } else { v.join(sep) } }
    let mut out: Vec<String> = vec!["Q".to_string()];
    for (i, s) in STATES.iter().enumerate() {
        let cells: Vec<String> = TOKENS.iter().map(|t| {
            let v = PARSER_DEFINITION.actions(*s, *t);
            join(v.iter().map(act).collect(), ",", "-")
        }).collect();
        out.push(format!("act {} {}", i, join(cells, ";", "~")));
    }
    for (i, s) in STATES.iter().enumerate() {
        let gs: Vec<String> = NTS.iter().map(|n| {
            match std::panic::catch_unwind(|| PARSER_DEFINITION.goto(*s, *n)) {
                Ok(x) => format!("{}", x as usize),
                Err(_) => "!".to_string(),
            }
        }).collect();
        out.push(format!("goto {} {}", i, join(gs, ",", "~")));
    }
    for (i, s) in STATES.iter().enumerate() {
        let v = PARSER_DEFINITION.expected_token_kinds(*s);
        out.push(format!("exp {} {}", i, join(v.iter().map(|(k, f)| format!("{}:{}", *k as usize, if *f { 1 } else { 0 })).collect(), ",", "-")));
    }
    out.push(format!("from {}", join(PKS.iter().map(|p| format!("{}", NonTermKind::from(*p) as usize)).collect(), ",", "-")));
    out.push(format!("layout {}", match <State as StateT>::default_layout() { Some(s) => format!("{}", s as usize), None => "-".to_string() }));
    out.join(" | ")
}

/// sparse match matrix of the GENERATED recognizers on every suffix of the input (same format as harness/dyn
/// `run::matrix`, which mirrors them); `!` marks an answer that is not a prefix of the suffix it was given
pub fn verif_matrix(input: &str) -> String {
    let mut out = String::new();
    let mut positions: Vec<usize> = input.char_indices().map(|(i, _)| i).collect();
    positions.push(input.len());
    for (t, r) in RECOGNIZERS.iter().enumerate() {
        for &p in &positions {
            match std::panic::catch_unwind(std::panic::AssertUnwindSafe(|| r.recognize(&input[p..]))) {
                // `!`: not a prefix of the suffix it was given; `^`: equal text but NOT the slice of the input buffer (C13:
                // a token's value is the very slice of the input at its span)
                Ok(Some(m)) => out += &format!(" {}@{}={}{}", t, p, m.len(),
                    if !input[p..].starts_with(m) { "!" } else if !m.is_empty() && m.as_ptr() != input[p..].as_ptr() { "^" } else { "" }),
                Ok(None) => (),
                Err(_) => out += &format!(" {}@{}=PANIC!", t, p),
            }
        }
    }
    out
}

fn verif_fnv(s: &str) -> String {
    let mut h: u64 = 0xcbf29ce484222325;
    for b in s.bytes() { h ^= b as u64; h = h.wrapping_mul(0x100000001b3); }
    format!("{:016x}:{}", h, s.len())
}
'''
    if glr:
        q += r'''
pub fn verif_parse(input: &str) -> String {
    let r = std::panic::catch_unwind(|| {
        match GramParser::new().parse(input) {
            Ok(forest) => {
                let n = forest.solutions();
                let mut s = String::new();
                for i in 0..n.min(4) {
                    let mut b = TreeBuilder::new();
                    let t = forest.get_tree(i).unwrap()
                        .build::<TreeBuilder<'_, str, ProdKind, TokenKind>, State>(&mut b);
                    s += &format!("[{:?}]", t);
                }
                format!("ok {} {}", n, verif_fnv(&s))
            }
            Err(e) => format!("err {}", verif_fnv(&format!("{:?}", e))),
        }
    });
    match r { Ok(s) => s, Err(_) => "panic".to_string() }
}
'''
    else:
        q += r'''
pub fn verif_parse(input: &str) -> String {
    let r = std::panic::catch_unwind(|| {
        match GramParser::new().parse(input) {
            Ok(t) => format!("ok {}", verif_fnv(&format!("{:?}", t))),
            Err(e) => format!("err {}", verif_fnv(&format!("{:?}", e))),
        }
    });
    match r { Ok(s) => s, Err(_) => "panic".to_string() }
}
'''
    return q


MAIN_RS = r'''#![allow(warnings)]
@MODS@
fn unhex(s: &str) -> String {
    if s == "=" { return String::new(); }
    let b: Vec<u8> = (0..s.len() / 2).map(|i| u8::from_str_radix(&s[2 * i..2 * i + 2], 16).unwrap()).collect();
    String::from_utf8_lossy(&b).to_string()
}
/// a parse that does not return (possible when the generated table is wrong) must not block the rest
fn with_timeout<F: FnOnce() -> String + Send + 'static>(f: F) -> String {
    let (tx, rx) = std::sync::mpsc::channel();
    std::thread::Builder::new().stack_size(64 << 20).spawn(move || { let _ = tx.send(f()); }).unwrap();
    match rx.recv_timeout(std::time::Duration::from_millis(3000)) { Ok(s) => s, Err(_) => "timeout".to_string() }
}
fn main() {
    std::panic::set_hook(Box::new(|_| {}));
    let args: Vec<String> = std::env::args().collect();
@QUERIES@
    let mut hung: std::collections::HashMap<String, usize> = std::collections::HashMap::new();
    for line in std::fs::read_to_string(&args[1]).unwrap().lines() {
        let f: Vec<&str> = line.split(' ').collect();
        let input = unhex(f[2]);
        if *hung.get(f[0]).unwrap_or(&0) >= 2 { println!("{} P {} skipped-after-timeouts", f[0], f[1]); continue; }
        let r = match f[0] {
@PARSES@
            _ => "?".to_string(),
        };
        if r == "timeout" { *hung.entry(f[0].to_string()).or_insert(0) += 1; }
        println!("{} P {} {}", f[0], f[1], r);
        let input = unhex(f[2]);
        let m = match f[0] {
@MATRICES@
            _ => "?".to_string(),
        };
        if m != "?" { println!("{} M {} |{}", f[0], f[1], m); }
    }
    std::process::exit(0);
}
'''


def run_chunk(cases, sel, wd, tag, target):
    """Compile the generated parsers of the cases `sel` (both layouts) into one crate and run it.
    Returns (ok, log, counters); fills case.beh."""
    counters = {}
    crate = os.path.join(wd, "batch" + tag)
    src = os.path.join(crate, "src")
    os.makedirs(src, exist_ok=True)
    pkg = f"gb_{os.getpid()}_{tag}"
    with open(os.path.join(crate, "Cargo.toml"), "w") as fh:
        fh.write(f'[package]\nname = "{pkg}"\nversion = "0.1.0"\nedition = "2021"\n\n[workspace]\n\n[dependencies]\n'
                 f'rustemo = {{ path = "{RUSTEMO}" }}\n\n[profile.dev]\nopt-level = 0\ndebug = false\nincremental = false\n')
    shutil.copy("/repo/Cargo.lock", os.path.join(crate, "Cargo.lock"))
    mods = []        # (module name, case index, layout)
    for i in sel:
        for lay in "AF":
            mods.append((f"p{i}{lay.lower()}", i, lay))
    excluded = {}
    env = dict(common.ENV, CARGO_TARGET_DIR=target)
    exe = os.path.join(target, "debug", pkg)
    try:
        for attempt in range(3):
            live = [m for m in mods if m[0] not in excluded]
            for name, i, lay in live:
                c = cases[i]
                text = open(c.out[lay]["src"]).read()
                with open(os.path.join(src, name + ".rs"), "w") as fh:
                    fh.write(text + query_code(c.out[lay]["code"], c.algo == "GLR"))
            with open(os.path.join(src, "main.rs"), "w") as fh:
                fh.write(MAIN_RS.replace("@MODS@", "".join(f"mod {n};\n" for n, _, _ in live))
                         .replace("@QUERIES@", "".join(f'    println!("{n} {{}}", {n}::verif_query());\n' for n, _, _ in live))
                         .replace("@PARSES@", "".join(f'            "{n}" => with_timeout(move || {n}::verif_parse(&input)),\n'
                                                      for n, _, _ in live))
                         .replace("@MATRICES@", "".join(f'            "{n}" => {n}::verif_matrix(&input),\n'
                                                        for n, _, _ in live if n.endswith("a"))))
            rc, out, err = sh(["cargo", "build", "--offline"], cwd=crate, timeout=3000, env=env)
            if rc == 0:
                break
            # which generated modules do not compile?
            bad = set()
            for line in err.splitlines():
                line = line.strip()
                if line.startswith("--> src/p"):
                    bad.add(line[len("--> src/"):].split(".rs")[0])
            if not bad or attempt == 2:
                return False, err[-3000:], counters
            for b in bad:
                excluded[b] = err
                os.remove(os.path.join(src, b + ".rs"))
        for name in excluded:
            i = int(name[1:-1])
            cases[i].beh[name[-1].upper()] = {"compile_error": True}
            counters["batch:generated-parser-does-not-compile"] = counters.get("batch:generated-parser-does-not-compile", 0) + 1
        live = [m for m in mods if m[0] not in excluded]
        inp = os.path.join(crate, "inputs.txt")
        with open(inp, "w") as fh:
            for name, i, lay in live:
                for k, s in enumerate(cases[i].inputs):
                    fh.write(f"{name} {k} {hx(s)}\n")
        try:
            p = subprocess.run([exe, inp], capture_output=True, text=True, timeout=900)
            lines = p.stdout.splitlines()
        except subprocess.TimeoutExpired as e:
            o = e.stdout or ""
            lines = (o.decode(errors="replace") if isinstance(o, bytes) else o).splitlines()
            counters["batch:timeout"] = 1
        for name, i, lay in live:
            cases[i].beh[lay] = {"Q": None, "P": {}, "M": {}}
        for line in lines:
            f = line.split(" ", 1)
            if len(f) < 2 or not f[0].startswith("p"):
                continue
            i, lay = int(f[0][1:-1]), f[0][-1].upper()
            if f[1].startswith("Q"):
                cases[i].beh[lay]["Q"] = f[1]
            elif f[1].startswith("P "):
                _, k, r = f[1].split(" ", 2)
                cases[i].beh[lay]["P"][int(k)] = r
            elif f[1].startswith("M "):
                g = f[1].split(" ", 2)
                cases[i].beh[lay]["M"][int(g[1])] = g[2][1:] if len(g) > 2 else ""
        return True, "", counters
    finally:
        for f in glob.glob(os.path.join(target, "debug", pkg + "*")) + glob.glob(os.path.join(target, "debug", "deps", pkg + "*")):
            try:
                os.remove(f)
            except OSError:
                pass


def run_batch(cases, sel, wd, rep, workers, chunk=48):
    """sel: indices of cases to compile. Chunks of at most `chunk` cases, one crate each; `workers` crates are
    built at the same time, each worker with its own (persistent, shared between runs) target directory."""
    import threading
    chunks = [sel[k:k + chunk] for k in range(0, len(sel), chunk)]
    results = [None] * len(chunks)

    def work(w):
        for k in range(w, len(chunks), workers):
            try:
                results[k] = run_chunk(cases, chunks[k], wd, str(k), f"{BATCH_TARGET}{w}")
            except Exception as e:      # never lose a chunk silently
                results[k] = (False, f"exception in run_chunk: {e!r}", {})
    ths = [threading.Thread(target=work, args=(w,)) for w in range(min(workers, len(chunks)))]
    for t in ths:
        t.start()
    for t in ths:
        t.join()
    ok, logs = True, []
    for r in results:
        ok = ok and r[0]
        if not r[0]:
            logs.append(r[1])
        for k, v in r[2].items():
            rep.count(k, v)
    return ok, "\n".join(logs)


# ---------------------------------------------------------------------------------------------
# evaluation
# ---------------------------------------------------------------------------------------------

def evaluate_static(rep, c):
    """code-level correspondence, WF certificate, model evaluators vs oracle. Fills c.problems, c.scope."""
    c.scope = None
    sa, sf = c.status("A"), c.status("F")
    cls = sa.split(" ")[0] + (":" + sa.split(" ")[1] if sa.startswith("err ") else "")
    rep.count("gen:" + c.algo + ":" + cls)
    if sa.split(" ")[:2] != sf.split(" ")[:2]:
        c.problems.append(("layouts", f"generation status differs between layouts: A={sa[:80]} F={sf[:80]}"))
        return
    if not c.ok():
        if sa.startswith("panic"):
            msg = common.unhx(sa.split(" ")[1]).decode(errors="replace") if len(sa.split(" ")) > 1 else ""
            if "src/generator/" in msg and "request" in c.out["A"]:
                # the compiler produced a table but the part generator panicked: the model must say so too
                rep.count("gen:generator-panic")
                if not c.model.get("codeA", "").startswith("generator-panic"):
                    c.problems.append(("impl≠model", "generator panicked where the model's does not: " + msg[:200]))
            else:
                rep.count("gen:compiler-panic-before-generation(C16)")
        return
    if c.out["A"].get("request") != c.out["F"].get("request"):
        c.problems.append(("layouts", "the dumped table differs between the two generator table types"))
        return
    oq, notes, d = oracle_queries(c.out["A"]["request"])
    c.oracle = oq
    c.dump = d
    for n in notes:
        c.problems.append(("model≠oracle", "assumption broken: " + n))
    wf = c.model.get("wf", "driver-crash")
    rep.count("wf:" + wf)
    c.scope = wf == "wf 1"
    # code level
    for lay in "AF":
        impl, mod = c.out[lay].get("code", "<none>"), c.model.get("code" + lay, "<none>")
        if impl != mod:
            k, x, y = first_diff(impl, mod) or (0, impl[:300], mod[:300])
            c.problems.append(("impl≠model", f"code {lay} record {k}: impl `{x}` model `{y}`"))
    if not c.scope:
        if not wf.startswith("wf 0 dup-"):
            c.problems.append(("model≠oracle", f"Gen.WF fails on a table the compiler generated code for: {wf}"))
        return
    # model evaluators vs oracle (cannot differ where the theorems are proved)
    for lay in "AF":
        ev = c.model.get("eval" + lay, "<none>")
        if ev != oq:
            k, x, y = first_diff(ev, oq) or (0, ev[:300], oq[:300])
            c.problems.append(("model≠oracle", f"eval {lay} record {k}: model `{x}` oracle `{y}`"))
    nst = len(d["states"])
    rep.count("evaluations", 2 * nst * (d["nterms"] + d["nnonterms"] + 1))
    rep.count("distinct_nontrivial", 2)
    rep.count("states:" + ("1-5" if nst <= 5 else "6-20" if nst <= 20 else "21-100" if nst <= 100 else ">100"))
    ma = max((len(a) for st in d["states"] for a in st["acts"].values()), default=0)
    rep.count(f"max_actions:{min(ma, 4)}{'+' if ma >= 4 else ''}")
    full = sum(1 for st in d["states"] if len(st["acts"]) == d["nterms"])
    rep.count("branch:state-without-catch-all", full)
    rep.count("branch:state-with-catch-all", nst - full)
    rep.count("branch:goto_invalid", sum(1 for st in d["states"] if not st["gotos"]))
    rep.count("branch:goto-fn", sum(1 for st in d["states"] if st["gotos"]))
    rep.count("branch:padded-cells" if ma > 1 else "branch:no-padding")
    if d.get("layout_state") is not None:
        rep.count("branch:layout-state")
    if any(p["kind"] != "-" for p in d["prods"]):
        rep.count("branch:prod-kind-meta")


def mirror_tie(rep, cases, sel):
    """Tie between the GENERATED recognizers (RECOGNIZERS array + TokenRecognizer::recognize of the compiled parser)
    and their mirror in harness/dyn (`tab::recognize`), on which the runtime checks C01-C07, C12-C15 rely (their
    parsers are driven from a loaded table with the mirror as recognizer): the sparse match matrix of every parse
    input, over every suffix and every terminal, must be the same."""
    import lrfamily as lf
    from common import build_harness
    ok, log = build_harness()
    if not ok:
        rep.oblige("cargo build harness/dyn (recognizer mirror tie)", False, log[-800:])
        return
    lcs, idx = [], []
    for i in sel:
        c = cases[i]
        a = c.beh.get("A") or {}
        if not a.get("M") or not c.inputs:
            continue
        st = list(c.settings) + ["-"] * (10 - len(c.settings))
        pp = "1" if st[7] == "1" else "0"      # the generated constructor wires partial_parse / skip_ws / has_layout from the settings
        lcs.append(lf.Case(c.grammar, st[:10], [(c.algo, pp, inp, {}) for inp in c.inputs], gram=None, tag="mirror"))
        lcs[-1].max_trees = 0
        idx.append(i)
    if not lcs:
        return
    lf.run_cases(lcs, model=False)
    for i, lc in zip(idx, lcs):
        c = cases[i]
        if lc.dump is None:
            continue
        for k, inp in enumerate(c.inputs):
            got = c.beh["A"]["M"].get(k)
            if got is None or k >= len(lc.matrices):
                continue
            rep.count("mirror:inputs")
            rep.count("mirror:matrix-entries", got.count("@"))
            # outcome class of the COMPILED generated parser vs the real runtime driven from the dumped table
            pa = (c.beh["A"]["P"].get(k) or "").split(" ")[0]
            pv = lf.klass(lc.results[k]) if k < len(lc.results) else ""
            if pa == "panic" and pv in ("ok", "err"):
                c.problems.append(("impl≠oracle", f"the compiled generated parser PANICS on input {inp!r} where the runtime driven from the "
                                   f"computed table answers `{pv}` (settings {' '.join(c.settings)})"))
            if pa in ("ok", "err") and pv in ("ok", "err"):
                rep.count("mirror:outcomes-compared")
                if pa != pv:
                    c.problems.append(("impl≠oracle", f"the compiled generated parser answers `{pa}` on input {inp!r} where the runtime driven "
                                       f"from the computed table answers `{pv}` (settings {' '.join(c.settings)})"))
            if got.strip() != lc.matrices[k].strip():
                c.problems.append(("impl≠oracle" if ("!" in got or "^" in got) else "mirror",
                                   f"generated recognizers and their harness mirror disagree on input {inp!r}: generated `{got.strip()[:200]}` "
                                   f"mirror `{lc.matrices[k].strip()[:200]}`" + (" (`!`: the generated recognizer returned a string that is "
                                   "not a prefix of the input it was given)" if "!" in got else
                                   " (`^`: the generated recognizer returned a string that is not a slice of the input buffer)" if "^" in got else "")))


def evaluate_behaviour(rep, c):
    if not c.beh:
        return
    for lay in "AF":
        b = c.beh.get(lay, {})
        if b.get("compile_error"):
            rep.notes.append(f"generated parser does not compile (property C11): {c.family} {' '.join(c.settings)} layout {lay}")
            continue
        q = b.get("Q")
        if q is None:
            c.problems.append(("harness", f"no answer from the compiled parser (layout {lay})"))
            continue
        rep.count("behaviour:parsers")
        rep.count("behaviour:queries", q.count(";") + q.count(",") + q.count("|"))
        if q != c.oracle:
            k, x, y = first_diff(q, c.oracle) or (0, q[:300], c.oracle[:300])
            c.problems.append(("impl≠oracle", f"layout {lay} record {k}: generated parser answers `{x}` table says `{y}`"))
        ev = c.model.get("eval" + lay)
        if ev is not None and q != ev:
            k, x, y = first_diff(q, ev) or (0, q[:300], ev[:300])
            c.problems.append(("impl≠model", f"behaviour {lay} record {k}: impl `{x}` model `{y}`"))
    a, f = c.beh.get("A", {}), c.beh.get("F", {})
    if a.get("Q") is not None and f.get("Q") is not None:
        if a["Q"] != f["Q"]:
            k, x, y = first_diff(a["Q"], f["Q"])
            c.problems.append(("impl≠oracle", f"the two layouts answer differently, record {k}: arrays `{x}` functions `{y}`"))
        for k, inp in enumerate(c.inputs):
            ra, rf = a["P"].get(k), f["P"].get(k)
            rep.count("behaviour:parses")
            if ra is None or rf is None:
                rep.count("behaviour:parse-no-answer")
                continue
            rep.count("behaviour:parse-" + ra.split(" ")[0])
            if ra.startswith(("timeout", "skipped")) or rf.startswith(("timeout", "skipped")):
                # a parse that does not finish in 3 s (hang / explosion: properties C15, C03) decides nothing here
                rep.count("behaviour:parse-inconclusive")
                note = f"parse did not finish within 3 s (both layouts; C15): {c.grammar!r} {' '.join(c.settings)}"
                if len(rep.notes) < 6 and not any(n.startswith(note) for n in rep.notes):
                    rep.notes.append(note + f" input {inp!r}")
                continue
            if ra != rf:
                c.problems.append(("impl≠oracle", f"the two layouts parse {inp!r} differently: arrays `{ra}` functions `{rf}`"))


def report(rep, cases, proofs_ok):
    viol = 0
    corr = 0
    for c in cases:
        if c.beh and not c.problems and len(rep.samples) < 4:
            rep.sample({"grammar": c.grammar, "settings": " ".join(c.settings), "family": c.family,
                        "compiled parser answers (arrays)": (c.beh.get("A", {}).get("Q") or "")[:300],
                        "parses": {inp: c.beh.get("A", {}).get("P", {}).get(k) for k, inp in enumerate(c.inputs)}})
    # smallest failing cases first
    for c in sorted(cases, key=lambda c: len(c.grammar)):
        kinds = {k for k, _ in c.problems}
        for k in kinds:
            rep.count("fail:" + k)
        if not c.problems:
            continue
        rep.sample({"case": c.payload(), "problems": c.problems[:4]})
        if "impl≠oracle" in kinds or "layouts" in kinds:
            if viol < 3:
                p = c.payload()
                p["what"] = [d for k, d in c.problems if k in ("impl≠oracle", "layouts")][:5]
                rep.violation(p)
            viol += 1
        elif corr < 3:
            p = c.payload()
            p["what"] = [f"{k}: {d}" for k, d in c.problems][:5]
            p["broken"] = ("corr:gen-code" if "impl≠model" in kinds else
                           "corr:recognizer-mirror (harness/dyn tab::recognize vs generated RECOGNIZERS)" if "mirror" in kinds else "machinery")
            rep.violation(p, no_input=True)
            corr += 1
    if not proofs_ok and viol == 0 and corr == 0:
        rep.violation({"broken": f"Lean obligations of {PROP_MODULE} no longer check"}, no_input=True)


def pick_batch(rng, cases, n_gram):
    """choose grammars for the behaviour batch: corpus first, then small random ones; both algos of a grammar."""
    by_text = {}
    for i, c in enumerate(cases):
        if c.ok() and c.scope and not c.problems_block:
            by_text.setdefault(c.grammar, []).append(i)
    texts = list(by_text)
    corpus = [t for t in texts if cases[by_text[t][0]].family.startswith("corpus")]
    rest = [t for t in texts if t not in corpus and len(cases[by_text[t][0]].dump["states"]) <= 60]
    rng.shuffle(rest)
    # prefer variety of families
    chosen = corpus[:n_gram]
    fams = {}
    for t in rest:
        fams.setdefault(cases[by_text[t][0]].family.split(":")[0], []).append(t)
    while len(chosen) < n_gram and any(fams.values()):
        for f in list(fams):
            if fams[f] and len(chosen) < n_gram:
                chosen.append(fams[f].pop())
    sel = []
    for t in chosen:
        # at most one LR and one GLR variant per grammar
        seen = set()
        for i in by_text[t]:
            if cases[i].algo not in seen:
                seen.add(cases[i].algo)
                sel.append(i)
    return sel


def pipeline(rep, cases, rng, n_batch, wd, workers=1):
    t0 = time.time()
    run_vgen(cases, wd)
    t1 = time.time()
    run_driver(cases)
    t2 = time.time()
    for c in cases:
        evaluate_static(rep, c)
        c.problems_block = any(k == "layouts" for k, _ in c.problems)
    sel = pick_batch(rng, cases, n_batch)
    rep.count("batch:cases", len(sel))
    if sel:
        ok, log = run_batch(cases, sel, wd, rep, workers)
        rep.oblige("cargo build of the batch of generated parsers against /repo/rustemo", ok, log[-1500:])
        if not ok:
            rep.violation({"broken": "batch crate build", "log": log[-3000:]}, no_input=True)
        mirror_tie(rep, cases, sel)
        for i in sel:
            evaluate_behaviour(rep, cases[i])
    rep.notes.append(f"wall: generation+extraction {t1 - t0:.0f}s, Lean driver {t2 - t1:.0f}s, "
                     f"batch build+run {time.time() - t2:.0f}s")


def run(rep, tier, seed):
    rng = random.Random(seed)
    proofs_ok = lean_obligations(rep, PROP_MODULE)
    ok, log = build_vgen()
    rep.oblige("cargo build harness/gen against /repo", ok, "" if ok else log[-1500:])
    if not ok:
        rep.violation({"broken": "harness build", "log": log[-3000:]}, no_input=True)
        return
    n_random, lit_budget, n_batch, workers = (200, 40, 22, 1) if tier == "quick" else (6000, 200, 600, 4)
    cases = gen_cases(rng, n_random, lit_budget)
    wd = workdir("c08")
    try:
        pipeline(rep, cases, rng, n_batch, wd, workers)
    finally:
        if not os.environ.get("VERIF_C08_KEEP"):
            shutil.rmtree(wd, ignore_errors=True)
    for c in cases:
        rep.count("family:" + c.family.split(":")[0])
    rep.cov["rule"] = RULE
    report(rep, cases, proofs_ok)
    finish_notes(rep)


def finish_notes(rep):
    rep.assumptions += [
        "enum values are their discriminants (`as usize` = position of the variant in the declaration)",
        "`state.idx` equals the position of the state in `table.states` (checked on every dump)",
        "grammars whose generated enums repeat a variant name (F13, property C11: rustc rejects the file) are outside "
        "the statement (hypothesis `Gen.namesOk`); they are still compared at code level",
        "the run corollary `C08_layouts_agree_run` is about the LR runtime model; GLR runs of the two layouts are "
        "compared on the compiled parsers only",
    ]
    rep.trusted = ["Lean 4.33.0 kernel", "axioms ⊆ {propext, Classical.choice, Quot.sound}",
                   "Lean compiler/runtime for the executable driver", "verif hook dump (rustemo-compiler/src/verif.rs)",
                   "harness/gen (syn extraction of the generated file), the emitted query code, rustc",
                   "tools/props/c08.py, tools/treeparse.py parse_dump"]


def replay(rep, path):
    p = json.load(open(path))
    ok, log = build_vgen()
    if not ok:
        rep.violation({"broken": "harness build", "log": log[-3000:]}, no_input=True)
        return
    if "grammar" not in p:
        proofs_ok = lean_obligations(rep, PROP_MODULE)
        if not proofs_ok:
            rep.violation({"why": f"Lean obligations of {PROP_MODULE} no longer check"}, no_input=True)
        return
    c = Case(p["grammar"], p["settings"].split(" "), "replay", p.get("inputs", []))
    wd = workdir("c08r")
    try:
        pipeline(rep, [c], random.Random(1), 1, wd)
    finally:
        shutil.rmtree(wd, ignore_errors=True)
    rep.cov["rule"] = "replay of one (grammar, settings) case through all three ties"
    report(rep, [c], True)
    finish_notes(rep)
