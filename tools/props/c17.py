"""C17 — parser generation is deterministic and the same through CLI and API.

Proof obligations: Rustemo.Props.C17 (CLI = documented settings for every command line; exactly which
command lines panic; order independence of choice-name de-duplication under `clash = false`, and the
counterexample without it).
Tie C: tools/inventory.py vs inventory/c17.json (hash iteration, env, globals, clocks, Cli struct, main).
Tie A (differential, the model is on the path): random rcomp command lines -> Lean `Cli.run` -> settings
vector -> real `Settings` builder API; real `rcomp` binary on the same directory layout; bytes of every
written file compared: CLI vs API, K fresh processes each, grammars processed in different orders."""
import glob
import hashlib
import json
import os
import random
import re
import shutil
import subprocess

import common
from common import lean_obligations, sh, hx, unhx, run_model, workdir, NPROC, HARNESS, LEAN, load_findings
import inventory

LEVEL = "proof"
PROP_MODULE = "Rustemo.Props.C17"

REPO = os.environ.get("VERIF_C17_REPO", "/repo")
HDIR = os.environ.get("VERIF_C17_HARNESS", os.path.join(HARNESS, "cli"))
TARGET = os.environ.get("VERIF_C17_TARGET", os.path.join(HARNESS, "target"))
VCLI = os.path.join(TARGET, "debug", "vcli")
RCOMP = os.path.join(TARGET, "debug", "rcomp")
# testing aid for the time before a proposed entry is listed in known_findings.json (never set by ./check)
ASSUME_KNOWN = set(filter(None, os.environ.get("VERIF_C17_ASSUME_KNOWN", "").split(",")))
if os.environ.get("VERIF_C17_LEAN"):      # testing aid: scratch copy of the Lean project
    common.LEAN = os.environ["VERIF_C17_LEAN"]
    common.DRIVER = os.path.join(common.LEAN, ".lake", "build", "bin", "rustemo_model")
if os.environ.get("VERIF_C17_DRIVER"):    # testing aid: a driver binary that already has the `cli` command word
    common.DRIVER = os.environ["VERIF_C17_DRIVER"]

KEY_CLASH = "C17-choice-name-suffix-clash"


def known_keys():
    ks = {f["key"] for f in load_findings() if f.get("property") == "C17" and f.get("status") == "known"}
    return ks | ASSUME_KNOWN


# -------------------------------------------------------------------------------------------------
# builds
# -------------------------------------------------------------------------------------------------

def build():
    """real rcomp (bin target of rustemo-compiler, default features) + harness/cli. -> (ok, log)"""
    lock = os.path.join(HDIR, "Cargo.lock")
    if not os.path.exists(lock):
        shutil.copy(os.path.join(REPO, "Cargo.lock"), lock)
    locked = ["--locked"] if REPO == "/repo" else []      # never let cargo rewrite /repo/Cargo.lock
    rc, out, err = sh(["cargo", "build", "--offline"] + locked + ["--bin", "rcomp", "--target-dir", TARGET],
                      cwd=os.path.join(REPO, "rustemo-compiler"), timeout=3000)
    if rc != 0:
        return False, "rcomp: " + out + err
    rc, out, err = sh(["cargo", "build", "--offline"], cwd=HDIR, timeout=3000,
                      env=dict(common.ENV, CARGO_TARGET_DIR=TARGET))
    if rc != 0:
        return False, "vcli: " + out + err
    return True, ""


def driver_has_cli():
    try:
        p = subprocess.run([common.DRIVER], input="cli defaults - - 0\n", capture_output=True, text=True, timeout=60)
    except Exception:
        return False
    return p.stdout.startswith("out_dir_root=")


# -------------------------------------------------------------------------------------------------
# grammar corpus
# -------------------------------------------------------------------------------------------------

NT_POOL = ["A", "A1", "A2", "A11", "B", "B1", "B2", "Item", "Item1", "Expr", "Stmt", "C1", "C2", "Empty", "Opt",
           "List", "Node", "Node1", "X", "X1", "X12"]


def gen_grammar(rng, want_clash=None):
    """Grammar text exercising type inference: choices with equal names (needing de-duplication), names that
    are a prefix + index of another (the clash class), explicit kinds, recursion, optionals, vectors, sugar.
    Every alternative starts with its own keyword terminal, which keeps most grammars LR(1)."""
    n_nt = rng.randint(2, 7)
    names = rng.sample(NT_POOL, n_nt)
    if want_clash:
        base = rng.choice(["A", "B", "X", "Item", "Node"])
        for nm in (base, base + "1"):
            if nm not in names:
                names.append(nm)
    start = "S"
    kw = [0]
    terms = {}      # name -> recognizer text
    content_terms = []
    for i in range(rng.randint(1, 3)):
        t = f"T{chr(ord('a') + i)}"
        terms[t] = f"/{chr(ord('a') + i)}+/"
        content_terms.append(t)

    def keyword():
        kw[0] += 1
        t = f"K{kw[0]}"
        terms[t] = f"'k{kw[0]}'"
        return t

    rules = []

    def leaf_alt():
        return [keyword(), rng.choice(content_terms)]

    def alt_for(owner, depth_ok):
        """one alternative (list of rhs items as text) + optional kind"""
        r = rng.random()
        k = keyword()
        others = [n for n in names]
        if r < 0.40:
            # keyword + single unnamed reference: choice name = referenced symbol name
            return [k, rng.choice(others + content_terms)], None
        if r < 0.50:
            return [rng.choice(others)], None    # bare reference (may make the grammar ambiguous → Err both ways)
        if r < 0.62:
            return [k, rng.choice(others), rng.choice(others + content_terms)], None
        if r < 0.70:
            return [k, f"{rng.choice(['left', 'val', 'a'])}={rng.choice(others + content_terms)}"], None
        if r < 0.78:
            return [k], None                     # plain choice, single non-content symbol: name = keyword name
        if r < 0.84:
            return [k, keyword()], None          # plain choice, several non-content symbols: C<n>
        if r < 0.92:
            sug = rng.choice(["*", "+", "?"])
            return [k, rng.choice(content_terms) + sug], None
        return [k, rng.choice(others + content_terms)], rng.choice(["Add", "Sub", "A", "A1", "Kind1", "Empty"])

    for nm in names:
        n_alt = rng.randint(1, 5)
        alts = []
        for _ in range(n_alt):
            alts.append(alt_for(nm, True))
        if rng.random() < 0.55:
            # provoke equal choice names: repeat a reference under another keyword
            refs = [a for a, _ in alts if len(a) == 2 and "=" not in a[1] and a[1][-1] not in "*+?"]
            if refs:
                pick = rng.choice(refs)
                for _ in range(rng.randint(1, 2)):
                    alts.append(([keyword(), pick[1]], None))
        if rng.random() < 0.15:
            alts.append((["EMPTY"], None))
        # always one terminating alternative so the nonterminal is productive
        alts.append((leaf_alt(), None))
        rng.shuffle(alts)
        rules.append((nm, alts))
    if want_clash:
        # S-like rule with choices  base, base, base1, base1
        owner = "Clash"
        alts = [([keyword(), base], None), ([keyword(), base], None),
                ([keyword(), base + "1"], None), ([keyword(), base + "1"], None)]
        if rng.random() < 0.5:
            alts.append(([keyword(), base], None))
        rng.shuffle(alts)
        rules.append((owner, alts))
        names.append(owner)
    # start rule references every nonterminal once so that all are reachable
    top_alts = [([keyword()] + [nm], None) for nm in names]
    if rng.random() < 0.3:
        top_alts.append(([keyword(), names[0], names[-1]], None))
    # duplicate string recognizers + inline string references: which terminal an inline string resolves to is decided
    # by the order in which the builder's terminal map is iterated (last insert wins)
    if rng.random() < 0.35 and kw[0] >= 1:
        for _ in range(rng.randint(1, 2)):
            i = rng.randint(1, kw[0])
            s_i = terms[f"K{i}"]
            for pre in rng.sample(["D", "Z", "Kk"], rng.randint(1, 2)):
                terms[f"{pre}{i}"] = s_i
            for _nm, alts in rules + [(start, top_alts)]:
                for a, _k in alts:
                    for j, tok in enumerate(a):
                        if tok == f"K{i}":
                            a[j] = s_i
    out = []
    annot = "@vec\n" if False else ""
    out.append(f"{start}: " + "\n  | ".join(" ".join(a) + (f" {{{k}}}" if k else "") for a, k in top_alts) + ";")
    for nm, alts in rules:
        out.append(f"{nm}: " + "\n  | ".join(" ".join(a) + (f" {{{k}}}" if k else "") for a, k in alts) + ";")
    if rng.random() < 0.25:
        out.append("Layout: LayoutItem*;\nLayoutItem: WS | Comment;")
        terms["WS"] = "/\\s+/"
        terms["Comment"] = "/\\/\\/.*/"
    out.append("terminals")
    for t, r in terms.items():
        out.append(f"{t}: {r};")
    return "\n".join(out) + "\n"


WITNESS_CLASH = ("S: A | X A | A1 | Y A1;\nA: Ta;\nA1: Tb;\nterminals\nTa: /a/;\nTb: /b/;\nX: \"x\";\nY: \"y\";\n")
HAND_GRAMMARS = [
    ("witness-clash", WITNESS_CLASH),
    ("dup-noclash", "S: A | X A | B | Y B | Z B;\nA: Ta;\nB: Tb;\nterminals\nTa: /a/;\nTb: /b/;\nX: 'x';\nY: 'y';\nZ: 'z';\n"),
    ("calc", "E: E '+' E {Add, 1, left}\n | E '*' E {Mul, 2, left}\n | '(' E ')' {Paren}\n | Num;\nterminals\nNum: /\\d+/;\nPlus: '+';\nMul: '*';\nPO: '(';\nPC: ')';\n"),
    ("lists", "S: Item+[Comma] Tail?;\nItem: Num | Id;\nTail: Semi Item*;\nterminals\nNum: /\\d+/;\nId: /[a-z]+/;\nComma: ',';\nSemi: ';';\n"),
    ("recursive", "S: Node;\nNode: Open Kids Close | Leaf;\nKids: Kids Node | EMPTY;\nLeaf: Id;\nterminals\nOpen: '(';\nClose: ')';\nId: /[a-z]+/;\n"),
]


def repo_grammars():
    out = []
    for base in ("tests/src", "docs/src", "examples", "rustemo-compiler/src/lang"):
        for p in sorted(glob.glob(os.path.join(REPO, base, "**", "*.rustemo"), recursive=True)):
            try:
                text = open(p, encoding="utf-8").read()
            except Exception:
                continue
            out.append(("repo:" + os.path.relpath(p, REPO), text))
    return out


# -------------------------------------------------------------------------------------------------
# command lines
# -------------------------------------------------------------------------------------------------

BOOL_FLAGS = [("--force", "-f"), ("--dot", None), ("--noactions", "-n"), ("--trace", None), ("--prefer-shifts", None),
              ("--no-shifts-over-empty", None), ("--builder-loc-info", None), ("--fancy-regex", None),
              ("--partial-parse", None), ("--no-skip-ws", None), ("--print-table", None)]
ENUM_OPTS = [("--table-type", "-t", ["lalr", "lalr-pager", "lalr-rn"]), ("--parser-algo", "-p", ["lr", "glr"]),
             ("--generator-table-type", "-g", ["arrays", "functions"]), ("--lexer-type", "-l", ["default", "custom"]),
             ("--builder-type", "-b", ["default", "generic", "custom"])]
LEX_OPTS = ["--lexical-disamb-most-specific", "--lexical-disamb-longest-match", "--lexical-disamb-grammar-order"]


def valued(rng, long, short, value):
    form = rng.random()
    if short and form < 0.30:
        return [short, value]
    if short and form < 0.40:
        return [short + value]
    if short and form < 0.45:
        return [short + "=" + value]
    if form < 0.75:
        return [long, value]
    return [long + "=" + value]


def gen_argv(rng, target, allow_outdirs, malformed=False):
    """random command line over EVERY option of rcomp; returns the token list (target included)"""
    parts = []      # list of token groups, shuffled afterwards
    p_flag = rng.choice([0.08, 0.2, 0.4])
    shorts_cluster = []
    for long, short in BOOL_FLAGS:
        if rng.random() < p_flag:
            if short and rng.random() < 0.5:
                shorts_cluster.append(short[1])
            else:
                parts.append([long])
    if shorts_cluster:
        if rng.random() < 0.5:
            parts.append(["-" + "".join(shorts_cluster)])
        else:
            parts += [["-" + c] for c in shorts_cluster]
    for long, short, vals in ENUM_OPTS:
        if rng.random() < 0.3:
            parts.append(valued(rng, long, short, rng.choice(vals)))
    glr = any(tok in ("glr", "-pglr", "-p=glr", "--parser-algo=glr") for g in parts for tok in g)
    for k, lo in enumerate(LEX_OPTS):
        if rng.random() < 0.22:
            v = rng.choice(["true", "false"])
            if k == 2 and v == "false" and not glr and rng.random() < 0.7:
                v = "true"      # keep the LR + grammar-order=false panic at a moderate rate
            parts.append([f"{lo}={v}"])
    if rng.random() < 0.12:
        parts.append(valued(rng, "--input-type", "-i", rng.choice(["str", "[u8]", "str", "Vec<u8>", "not a type("])))
    if allow_outdirs and rng.random() < 0.45:
        parts.append(valued(rng, "--outdir-root", "-o", rng.choice(["out", "gen/p", "a"])))
    if allow_outdirs and rng.random() < 0.35:
        parts.append(valued(rng, "--outdir-actions-root", "-a", rng.choice(["outa", "gen/a", "out"])))
    for _ in range(rng.choice([0, 0, 0, 1, 2])):
        parts.append(valued(rng, "--exclude", "-e", rng.choice(["skip", "b", "zzz", "g2"])))
    for _ in range(rng.choice([0, 0, 0, 1, 2])):
        parts.append([rng.choice(["-v", "--verbosity", "-vv"])])
    parts.append([target])
    rng.shuffle(parts)
    toks = [t for g in parts for t in g]
    if malformed:
        kind = rng.randrange(10)
        if kind == 0:
            toks.insert(rng.randrange(len(toks) + 1), rng.choice(["--bogus", "-x", "--table", "--no-actions", "--skip-ws"]))
        elif kind == 1:
            toks += rng.choice([["--force", "--force"], ["-f", "--force"], ["-t", "lalr", "--table-type=lalr"]])
        elif kind == 2:
            toks = [t for t in toks if t != target]
        elif kind == 3:
            toks.append("second.rustemo")
        elif kind == 4:
            toks.insert(0, rng.choice(LEX_OPTS))           # bare: "equal sign is needed"
        elif kind == 5:
            toks.insert(0, rng.choice(LEX_OPTS) + "=" + rng.choice(["yes", "1", "", "True"]))
        elif kind == 6:
            toks[0:0] = rng.choice([["-t", "LALR"], ["--parser-algo=earley"], ["-b", "Default"], ["-g"], ["-l", "--dot"]])
        elif kind == 7:
            toks.insert(rng.randrange(len(toks) + 1), rng.choice(["--help", "-h", "--version", "-V"]))
        elif kind == 8:
            toks.insert(0, rng.choice(["--force=true", "--dot=1", "--verbosity=2"]))
        else:
            toks = toks + ["--"] + rng.choice([[], ["x.rustemo"]])
    return toks


# -------------------------------------------------------------------------------------------------
# cases
# -------------------------------------------------------------------------------------------------

class Case:
    def __init__(self, cid, layout, target, is_file, argv, env, grammars, family):
        self.id = cid
        self.layout = layout        # {relpath: text}
        self.target = target
        self.is_file = is_file
        self.argv = argv
        self.env = env              # (OUT_DIR|None, CARGO_MANIFEST_DIR|None, trace bool)
        self.grammars = grammars    # {relpath: grammar key}
        self.family = family
        self.model = None
        self.cli = []
        self.api = []
        self.multi = []
        self.tpl = None

    def envf(self):
        o, m, t = self.env
        return [hx(o) if o is not None else "-", hx(m) if m is not None else "-", "1" if t else "0"]

    def model_request(self):
        return "cli argv " + " ".join(["1" if self.is_file else "0"] + self.envf() + [hx(t) for t in self.argv])

    def replay_payload(self):
        return {"layout": self.layout, "target": self.target, "is_file": self.is_file, "argv": self.argv,
                "env": list(self.env), "family": self.family,
                "cmd": "rcomp " + " ".join(self.argv)}


USER_ACTIONS = "pub fn user_marker() -> u32 {\n    42\n}\n"


def make_cases(rng, n, corpus, malformed_share=0.12):
    cases = []
    keys = list(corpus)
    for i in range(n):
        k1 = keys[i % len(keys)] if i < len(keys) else rng.choice(keys)
        layout = {"a/g1.rustemo": corpus[k1]}
        grammars = {"a/g1.rustemo": k1}
        multi = rng.random() < 0.5
        if multi:
            k2, k3 = rng.choice(keys), rng.choice(keys)
            layout["b/g2.rustemo"] = corpus[k2]
            layout["b/skip/g3.rustemo"] = corpus[k3]
            grammars["b/g2.rustemo"] = k2
            grammars["b/skip/g3.rustemo"] = k3
        if rng.random() < 0.3:
            layout["a/g1_actions.rs"] = USER_ACTIONS
        is_file = rng.random() < 0.6
        target = "a/g1.rustemo" if is_file else rng.choice([".", "a", "b"] if multi else [".", "a"])
        r = rng.random()
        env = (None, None, False)
        if r < 0.10:
            env = ("envout", "." if rng.random() < 0.7 else None, False)    # ambient OUT_DIR (cargo build script situation)
        elif r < 0.25:
            env = (None, rng.choice([".", "a"]), False)
        elif r < 0.30:
            env = (None, None, True)
        # output roots with a FILE argument need a root dir: CARGO_MANIFEST_DIR or the (modelled) panic
        allow_out = (not is_file) or env[1] is not None or rng.random() < 0.15
        malformed = rng.random() < malformed_share
        argv = gen_argv(rng, target, allow_out, malformed)
        cases.append(Case(i, layout, target, is_file, argv, env, grammars,
                          ("malformed" if malformed else "valid") + ":" + k1.split(":")[0]))
    return cases


def write_template(root, case):
    d = os.path.join(root, f"tpl{case.id}")
    for rel, text in case.layout.items():
        p = os.path.join(d, rel)
        os.makedirs(os.path.dirname(p), exist_ok=True)
        with open(p, "w") as fh:
            fh.write(text)
    case.tpl = d
    return d


# -------------------------------------------------------------------------------------------------
# running the harness
# -------------------------------------------------------------------------------------------------

def run_vcli(jobs, root, tag):
    """jobs: list of job lines WITHOUT id. Returns list of answers."""
    n = min(NPROC, max(1, len(jobs)))
    shards = [[] for _ in range(n)]
    for i, j in enumerate(jobs):
        shards[i % n].append((i, j))
    procs = []
    for k, sh_ in enumerate(shards):
        jf = os.path.join(root, f"{tag}-jobs{k}.txt")
        of = os.path.join(root, f"{tag}-out{k}.txt")
        with open(jf, "w") as fh:
            for i, j in sh_:
                fh.write(f"{i} {j}\n")
        procs.append((of, subprocess.Popen([VCLI, jf, of], stdout=subprocess.DEVNULL, stderr=subprocess.DEVNULL,
                                           env=dict(common.ENV, VCLI_RCOMP=RCOMP))))
    ans = ["harness-crash"] * len(jobs)
    for of, p in procs:
        p.wait()
        if os.path.exists(of):
            for line in open(of):
                line = line.rstrip("\n")
                if " " in line:
                    i, a = line.split(" ", 1)
                    ans[int(i)] = a
    return ans


def parse_answer(a):
    d = {"raw": a}
    for tok in a.split(" "):
        if "=" in tok:
            k, v = tok.split("=", 1)
            d[k] = v
    files = {}
    if d.get("files", "-") not in ("-", ""):
        for ent in d["files"].split(","):
            p, ln, h = ent.split(":")
            files[unhx(p).decode()] = (int(ln), h)
    d["filemap"] = files
    return d


def hash128(data):
    """the harness's file hash (vcli::hash128)"""
    a, b, M = 0xcbf29ce484222325, 0x9e3779b97f4a7c15, (1 << 64) - 1
    for x in data:
        a = ((a ^ x) * 0x100000001b3) & M
        b = ((b ^ (x + 1)) * 0xff51afd7ed558ccd) & M
        b = ((b << 29) | (b >> 35)) & M
    return f"{a:016x}{b:016x}"


_H = {}


def generated(filemap, layout):
    """files that are not untouched inputs"""
    out = {}
    for p, (ln, h) in filemap.items():
        if p in layout:
            data = layout[p].encode()
            if data not in _H:
                _H[data] = hash128(data)
            if ln == len(data) and h == _H[data]:
                continue
        out[p] = (ln, h)
    return out


# -------------------------------------------------------------------------------------------------
# the check
# -------------------------------------------------------------------------------------------------

def first_diff(pa, pb):
    try:
        a = open(pa, errors="replace").read().splitlines()
        b = open(pb, errors="replace").read().splitlines()
    except Exception as e:
        return f"(cannot read: {e})"
    for i, (x, y) in enumerate(zip(a, b)):
        if x != y:
            return f"line {i + 1}: {x[:160]!r} vs {y[:160]!r}"
    return f"length {len(a)} vs {len(b)} lines"


def sha(path):
    try:
        return hashlib.sha256(open(path, "rb").read()).hexdigest()
    except Exception:
        return "unreadable"


def describe_file_diff(da, db, ra, rb):
    """da, db generated-file maps of two runs in run dirs ra, rb"""
    out = []
    for p in sorted(set(da) | set(db)):
        if da.get(p) != db.get(p):
            ent = {"file": p, "a": os.path.join(ra, p), "b": os.path.join(rb, p)}
            if p in da and p in db:
                ent["sha256_a"], ent["sha256_b"] = sha(ent["a"]), sha(ent["b"])
                ent["first_difference"] = first_diff(ent["a"], ent["b"])
            else:
                ent["only_in"] = "a" if p in da else "b"
            out.append(ent)
    return out


ENUM_RE = re.compile(r"pub enum (\w+)\s*\{([^}]*)\}", re.S)


def enum_variants(text):
    res = {}
    for m in ENUM_RE.finditer(text):
        vs = []
        for line in m.group(2).splitlines():
            t = line.strip()
            vm = re.match(r"(\w+)", t)
            if vm and not t.startswith("#") and not t.startswith("//"):
                vs.append(vm.group(1))
        res[m.group(1)] = vs
    return res


def run_all(rep, cases, corpus, root, K, proofs_ok, driver_ok, shrink_ok=False):
    findings = known_keys()
    # ---- model
    if driver_ok:
        model = run_model([[c.model_request()] for c in cases], tag="c17model")
        for c, a in zip(cases, model):
            c.model = a[0]
    else:
        for c in cases:
            c.model = "driver-missing"
    # ---- jobs
    jobs, index = [], []
    for c in cases:
        write_template(root, c)
        envf = " ".join(c.envf())
        for k in range(K):
            jobs.append(f"cli {c.tpl} {root}/r{c.id}c{k} {envf} " + " ".join(hx(t) for t in c.argv))
            index.append((c, "cli", k))
        if c.model.startswith("plan "):
            _, mode, line = c.model.split(" ", 2)
            mode = mode.split("=")[1]
            tgt = c.target
            for k in range(K):
                jobs.append(f"api {c.tpl} {root}/r{c.id}a{k} {envf} {mode} {hx(tgt)} {line}")
                index.append((c, "api", k))
            gs = sorted(p for p in c.layout if p.endswith(".rustemo"))
            if mode == "file" and len(gs) >= 2 and "trace=1" not in line:
                for k, order in enumerate((gs, gs[1:] + gs[:1])):
                    jobs.append(f"multi {c.tpl} {root}/r{c.id}m{k} {envf} " + ",".join(hx(g) for g in order) + " " + line)
                    index.append((c, "multi", k))
    answers = run_vcli(jobs, root, "run")
    for (c, kind, k), a in zip(index, answers):
        getattr(c, kind).append(parse_answer(a))
    rep.count("evaluations", len(jobs))
    rep.count("process_runs", len(jobs))

    # ---- choice names: model vs the enums the real compiler wrote, and the clash class per grammar
    gkeys = sorted({g for c in cases for g in c.grammars.values()})
    gdir = os.path.join(root, "grammars")
    os.makedirs(gdir, exist_ok=True)
    cj = []
    for i, g in enumerate(gkeys):
        p = os.path.join(gdir, f"g{i}.rustemo")
        with open(p, "w") as fh:
            fh.write(corpus[g])
        cj.append(f"choices {p}")
    creq = run_vcli(cj, root, "choices")
    names = {}
    reqs = [[r[4:]] if r.startswith("cli names") else None for r in creq]
    if driver_ok:
        mod = run_model([["cli " + r[0]] for r in reqs if r], tag="c17names")
        it = iter(mod)
        for g, r in zip(gkeys, reqs):
            if r:
                names[g] = next(it)[0]
    clash = {g: names.get(g, "").startswith("clash=1") for g in gkeys}
    rep.count("grammars_distinct", len(gkeys))
    rep.count("grammars_in_clash_class", sum(clash.values()))
    rep.count("grammars_frontend_rejects", sum(1 for r in creq if r.startswith("err")))

    corr_breaks = []     # (stream, case, detail)
    violations = []      # (case, what, detail)
    known_hits = []

    def case_clash(c):
        return any(clash.get(g, False) for g in c.grammars.values())

    names_checked = 0
    for c in cases:
        m = c.model
        cli0 = c.cli[0] if c.cli else {"raw": "missing", "filemap": {}}
        rep.count("model:" + m.split(" ")[0])
        rep.count("cli_class:" + cli0.get("class", "?").split(":other")[0])
        rep.count("family:" + c.family)
        # (a) model outcome vs real rcomp
        cls = cli0.get("class", "?")
        gen0 = generated(cli0["filemap"], c.layout)
        if m == "usage":
            ok = cls == "usage" and not gen0
        elif m in ("help", "version"):
            ok = cls == "ok" and cli0.get("gen") == "0" and not gen0
        elif m.startswith("panic "):
            ok = cls == "panic:" + m.split(" ")[1] and not gen0
            if ok:
                rep.count("cli_panic_as_modelled:" + m.split(" ")[1])
        elif m.startswith("plan "):
            ok = cls in ("ok", "err")
            if cls.startswith("panic:other:"):
                # a compiler panic behind a well-formed command line: same through CLI and API (checked below), so not
                # a C17 matter; it belongs to C16 (compiler totality). Recorded for the notes.
                msg = unhx(cls.split(":", 2)[2]).decode(errors="replace")
                rep.count("compiler_panic(C16 matter)")
                if len([n for n in rep.notes if n.startswith("compiler panic")]) < 5:
                    rep.notes.append(f"compiler panic (C16 matter) on `rcomp {' '.join(c.argv)}` [{c.grammars.get('a/g1.rustemo')}]: {msg[:200]}")
        else:
            ok = False
        if not ok and not m.startswith("plan "):
            corr_breaks.append(("corr:cli-parse", c, f"model says {m.split(' ')[0]!r}, rcomp: rc={cli0.get('rc')} class={cls} "
                                f"gen={cli0.get('gen')} new files={sorted(gen0)}"))
        # (b) determinism across fresh processes
        for kind in ("cli", "api"):
            runs = getattr(c, kind)
            for k in range(1, len(runs)):
                ga, gb = generated(runs[0]["filemap"], c.layout), generated(runs[k]["filemap"], c.layout)
                if ga != gb or runs[0].get("class") != runs[k].get("class"):
                    tag = "c" if kind == "cli" else "a"
                    det = describe_file_diff(ga, gb, f"{root}/r{c.id}{tag}0", f"{root}/r{c.id}{tag}{k}")
                    (known_hits if case_clash(c) else violations).append(
                        (c, f"two fresh {kind} processes wrote different files", det))
                    break
        if not m.startswith("plan "):
            continue
        # (c) CLI vs API
        api0 = c.api[0] if c.api else {"raw": "missing", "filemap": {}}
        if api0.get("selfcheck") != "ok":
            got = api0.get("selfcheck", "?")
            got = unhx(got[5:]).decode(errors="replace") if got.startswith("DIFF:") else got
            corr_breaks.append(("corr:api-settings", c, f"the builder API did not produce the model's settings: wanted "
                                f"[{m.split(' ', 2)[2]}] got [{got}] class={api0.get('class')}"))
        ga = generated(api0["filemap"], c.layout)
        if gen0 != ga or cls != api0.get("class"):
            det = describe_file_diff(gen0, ga, f"{root}/r{c.id}c0", f"{root}/r{c.id}a0")
            what = f"CLI and API differ: class {cls} vs {api0.get('class')}, files differ: {[d['file'] for d in det]}"
            (known_hits if case_clash(c) else violations).append((c, what, det))
        else:
            rep.count("cli_api_identical")
            if gen0:
                rep.count("distinct_nontrivial")
            for feat in ("table", "trace", "gen"):
                if cli0.get(feat) != api0.get(feat):
                    corr_breaks.append(("corr:cli-stdout", c, f"{feat}: rcomp {cli0.get(feat)} vs API {api0.get(feat)}"))
            if cli0.get("out") != api0.get("out") and not case_clash(c):
                d = first_diff(f"{root}/r{c.id}c0.stdout", f"{root}/r{c.id}a0.stdout")
                corr_breaks.append(("corr:cli-stdout", c, f"stdout differs: {d}"))
        # (d) processing order
        if len(c.multi) == 2:
            m0 = generated(c.multi[0]["filemap"], c.layout)
            m1 = generated(c.multi[1]["filemap"], c.layout)
            rep.count("order_pairs")
            if m0 != m1:
                det = describe_file_diff(m0, m1, f"{root}/r{c.id}m0", f"{root}/r{c.id}m1")
                (known_hits if case_clash(c) else violations).append(
                    (c, "processing the grammars in a different order (one process) wrote different files", det))
            else:
                # the files of the target grammar must equal those of the single-grammar run
                for p, v in ga.items():
                    if p in m0 and m0[p] != v:
                        det = describe_file_diff({p: v}, {p: m0[p]}, f"{root}/r{c.id}a0", f"{root}/r{c.id}m0")
                        (known_hits if case_clash(c) else violations).append(
                            (c, "a grammar processed after others differs from the same grammar processed alone", det))
        # (e) choice names
        act = [p for p in gen0 if p.endswith("g1_actions.rs")]
        g1 = c.grammars.get("a/g1.rustemo")
        if act and g1 in names and "builder_type=Default" in m and "a/g1_actions.rs" not in c.layout and cls == "ok":
            try:
                text = open(os.path.join(f"{root}/r{c.id}c0", act[0])).read()
            except Exception:
                text = ""
            enums = enum_variants(text)
            alts = {}
            for tok in names[g1].split(" ")[1:]:
                nt, rhs = tok.split("=", 1)
                alts[unhx(nt).decode()] = [[(x[0] == "~", unhx(x.lstrip("~")).decode()) for x in a.split(",") if x]
                                           for a in rhs.split("/")]
            for ename, variants in enums.items():
                user = [nt for nt in alts if nt not in ("EMPTY", "AUG", "AUGL")]
                cand = ([nt for nt in user if nt == ename] or [nt for nt in user if nt + "NoO" == ename]
                        or [nt for nt in user if (nt + "NoO").lower() == ename.lower()])
                if not cand:
                    continue
                names_checked += 1
                poss = [[n for e, n in a if not e] for a in alts[cand[0]]]
                if variants not in poss:
                    corr_breaks.append(("corr:names", c, f"enum {ename} variants {variants} not among the model's {poss}"))
                if not clash.get(g1) and len(poss) != 1:
                    corr_breaks.append(("corr:names", c, f"model≠theorem: {len(poss)} alternatives without clash for {ename}"))
    rep.count("enums_compared_with_model", names_checked)

    # ---- report
    if known_hits:
        c, what, det = known_hits[0]
        msg = (f"{len(known_hits)} difference(s) on grammars in class DupChoiceNameSuffixClash, e.g. `rcomp "
               f"{' '.join(c.argv)}`: {what}; {det[0].get('first_difference', '') if det else ''}")
        if KEY_CLASH in findings:
            rep.known_finding(KEY_CLASH, msg)
        else:
            for c, what, det in known_hits[:3]:
                rep.violation(dict(c.replay_payload(), what=what, differing=det,
                                   note="grammar is in class DupChoiceNameSuffixClash (Types.clash = true); "
                                        "finding " + KEY_CLASH + " is not listed in known_findings.json"))
    for n, (c, what, det) in enumerate(violations[:3]):
        payload = dict(c.replay_payload(), what=what, differing=det, model=c.model)
        if shrink_ok and n == 0 and c.family != "shrink":
            try:
                sc = shrink(c, corpus, root, what, driver_ok)
                payload["shrunk"] = sc.replay_payload()
            except Exception as e:  # shrinking is best effort
                payload["shrunk"] = f"(shrinking failed: {e!r})"
        rep.violation(payload)
    rep.count("impl≠oracle", len(violations))
    rep.count("impl≠model", len(corr_breaks))
    rep.oblige("correspondence CLI/parse/settings/stdout/names (rcomp & Settings API vs Lean model)", not corr_breaks,
               "; ".join(f"{s}: {d}" for s, _, d in corr_breaks[:3]))
    for s, c, d in corr_breaks[:12]:
        rep.notes.append(f"{s}: `rcomp {' '.join(c.argv)}` env={c.env} file={c.is_file}: {d}")
    if corr_breaks and not violations:
        seen = set()
        for s, c, d in corr_breaks:
            if s in seen:
                continue
            seen.add(s)
            rep.violation(dict(c.replay_payload(), broken=s, detail=d, model=c.model), no_input=True)
    for c in cases[:4]:
        rep.sample(f"rcomp {' '.join(c.argv)}  [{c.family}]  → {c.model.split(' ')[0]} / "
                   f"{c.cli[0].get('class') if c.cli else '?'} files={sorted(generated(c.cli[0]['filemap'], c.layout)) if c.cli else []}")
    return violations, corr_breaks, known_hits


def check_defaults(rep, root, driver_ok):
    envs = [("-", "-", "0"), (hx("/x/out"), hx("/x"), "0"), ("-", hx("proj"), "1")]
    real = run_vcli([f"defaults {o} {m} {t}" for o, m, t in envs], root, "defaults")
    if not driver_ok:
        return []
    model = run_model([[f"cli defaults {o} {m} {t}"] for o, m, t in envs], tag="c17dflt")
    bad = [(e, r, m[0]) for e, r, m in zip(envs, real, model) if r != m[0]]
    rep.oblige("correspondence Settings::new() under 3 environments", not bad,
               "; ".join(f"env={e}: real [{r}] model [{m}]" for e, r, m in bad[:1]))
    return bad


def check_witness(rep, root, findings):
    """replay the known finding's witness: 12 fresh rcomp processes must not all agree while it is listed"""
    tpl = os.path.join(root, "wtpl")
    os.makedirs(os.path.join(tpl, "a"), exist_ok=True)
    open(os.path.join(tpl, "a", "g1.rustemo"), "w").write(WITNESS_CLASH)
    ans = run_vcli([f"cli {tpl} {root}/w{k} - - 0 {hx('a/g1.rustemo')}" for k in range(12)], root, "witness")
    outs = {json.dumps(sorted(parse_answer(a)["filemap"].items())) for a in ans}
    rep.count("witness_distinct_outputs", len(outs))
    if len(outs) > 1:
        if KEY_CLASH in findings:
            rep.known_finding(KEY_CLASH, f"witness grammar `S: A | X A | A1 | Y A1;` → {len(outs)} different outputs in 12 "
                                         "fresh rcomp processes (enum S variants A1,A2,A11,A12 vs A11,A2,A12,A13)")
            return None
        return {"what": "12 fresh rcomp processes on the same grammar wrote different files",
                "layout": {"a/g1.rustemo": WITNESS_CLASH}, "argv": ["a/g1.rustemo"], "cmd": "rcomp a/g1.rustemo",
                "outputs": [f"{root}/w{k}" for k in range(12)]}
    if KEY_CLASH in findings:
        rep.notes.append(f"finding {KEY_CLASH} no longer reproduces on its witness (12 processes agree)")
    return None


def check_inventory(rep):
    try:
        cur = inventory.extract(REPO)
        blocking, notes = inventory.diff(inventory.load_committed(), cur)
        rep.count("inventory_sites", sum(len(cur.get(k, [])) for k in ("hash", "env", "globals", "clock", "fs_order")))
        rep.count("inventory_cli_fields", len(cur["cli"]["fields"]))
        rep.count("inventory_main_builder_calls", len(cur["cli"]["main_calls"]))
    except Exception as e:  # scanner failure = the tie is not established
        blocking, notes = [f"inventory scan failed: {e!r}"], []
    rep.oblige("inventory:c17 (hash iteration, env, globals, clocks, Cli fields, main builder calls, Settings) "
               "equals inventory/c17.json", not blocking, "; ".join(blocking[:4]))
    for n in notes[:5]:
        rep.notes.append("inventory: " + n)
    return blocking


class _Quiet(common.Report):
    """report that writes nothing (used while shrinking)"""

    def violation(self, payload, no_input=False):
        pass

    def known_finding(self, key, what):
        pass


def shrink(case, corpus, root, what, driver_ok):
    """greedy one-pass minimisation of a failing case: drop the extra grammars, the user actions file, the
    environment, then command-line tokens one at a time, keeping a change iff a violation of the same kind persists"""
    kind = what.split(":")[0].split(" wrote")[0][:24]
    budget = [30]
    serial = [0]

    def still_fails(layout, argv, env):
        if budget[0] <= 0:
            return False
        budget[0] -= 1
        serial[0] += 1
        grammars = {k: case.grammars[k] for k in layout if k in case.grammars}
        c = Case(f"s{case.id}x{serial[0]}", layout, case.target, case.is_file, argv, env, grammars, "shrink")
        v, _, k = run_all(_Quiet("C17", "quick", 0), [c], corpus, root, 4, True, driver_ok)
        return any(w.startswith(kind) for _, w, _ in v + k)

    layout, argv, env = dict(case.layout), list(case.argv), case.env
    if case.is_file and "processing the grammars" not in what and "processed after" not in what:
        small = {k: v for k, v in layout.items() if k.startswith("a/")}
        if small != layout and still_fails(small, argv, env):
            layout = small
    if "a/g1_actions.rs" in layout:
        small = {k: v for k, v in layout.items() if k != "a/g1_actions.rs"}
        if still_fails(small, argv, env):
            layout = small
    if env != (None, None, False) and still_fails(layout, argv, (None, None, False)):
        env = (None, None, False)
    i = 0
    while i < len(argv):
        if argv[i] == case.target:
            i += 1
            continue
        cand = argv[:i] + argv[i + 1:]
        if still_fails(layout, cand, env):
            argv = cand
        else:
            i += 1
    grammars = {k: case.grammars[k] for k in layout if k in case.grammars}
    return Case(case.id, layout, case.target, case.is_file, argv, env, grammars, case.family)


def build_corpus(rng, n_gen):
    corpus = {}
    for k, t in HAND_GRAMMARS:
        corpus["hand:" + k] = t
    for k, t in repo_grammars():
        corpus[k] = t
    for i in range(n_gen):
        corpus[f"gen:{i}"] = gen_grammar(rng, want_clash=(i % 9 == 4))
    return corpus


def run(rep, tier, seed):
    rng = random.Random(seed)
    proofs_ok = lean_obligations(rep, PROP_MODULE)
    ok, log = build()
    if not ok:
        rep.oblige("cargo build rcomp + harness/cli against the current tree", False, log[-1500:])
        rep.violation({"broken": "harness build", "log": log[-3000:]}, no_input=True)
        return
    rep.oblige("cargo build rcomp + harness/cli against the current tree", True)
    rc, out, _ = sh(["git", "-C", REPO, "status", "--short", "--", "rustemo-compiler", "rustemo"])
    driver_ok = driver_has_cli()
    if not driver_ok:
        rep.oblige("Lean driver answers `cli` requests", False, "command word `cli` is not wired into Main.lean")
        rep.violation({"broken": "driver: command word cli not wired"}, no_input=True)
    root = workdir("c17")
    inv_blocking = check_inventory(rep)
    findings = known_keys()
    n_gen, n_cases, K = (60, 330, 3) if tier == "quick" else (400, 2600, 4)
    corpus = build_corpus(rng, n_gen)
    cases = make_cases(rng, n_cases, corpus)
    violations, corr_breaks, known_hits = run_all(rep, cases, corpus, root, K, proofs_ok, driver_ok, shrink_ok=True)
    dflt_bad = check_defaults(rep, root, driver_ok)
    w = check_witness(rep, root, findings)
    if w:
        rep.violation(w)
    if dflt_bad and not violations:
        rep.violation({"broken": "corr:defaults", "detail": [list(x) for x in dflt_bad]}, no_input=True)
    if inv_blocking and not violations:
        rep.violation({"broken": "inventory:c17", "differences": inv_blocking,
                       "hint": "the sources contain hash iteration / environment access / CLI wiring the model "
                               "Model/Cli.lean was not written against; the differential run found no failing input"},
                      no_input=True)
    if not proofs_ok and not violations:
        rep.violation({"broken": PROP_MODULE, "detail": [o for o in rep.obligations if not o[1]][:3]}, no_input=True)
    rep.cov["rule"] = (
        "case = (directory layout with 1-3 grammars [+ pre-existing user actions file], FILE or DIR argument, environment "
        "OUT_DIR/CARGO_MANIFEST_DIR/RUSTEMO_TRACE, random rcomp command line over every option: 11 boolean flags in long/"
        "short/clustered form, 5 value enums and -i/-o/-a/-e in `--o v`, `--o=v`, `-o v`, `-ov`, `-o=v` form, the three "
        "--lexical-disamb-*=true|false, -v; 12% malformed: unknown/duplicate/bare/ill-valued arguments, missing or extra "
        "positional, --help/--version, `--`). Grammars: every *.rustemo of the repository, hand-written ones, and generated "
        "ones exercising type inference (equal choice names, prefix+index names, kinds, recursion, optionals, sugar, Layout). "
        f"Each case: {K} fresh rcomp processes, {K} fresh API processes configured from the Lean model's settings vector, "
        "two in-process orders of the grammars; all written files compared byte for byte (128-bit hash + length; sha256 and "
        "first differing line on mismatch). distinct_nontrivial = cases where parser/actions were written and CLI = API.")
    rep.assumptions += [
        "argument values never start with '-' and path values are non-empty (clap's hyphen-value rules are outside the model)",
        "hash seeds: each process draws its own (std RandomState); K processes sample the seed space, the proof covers all orders "
        "only under `clash = false`",
        "stdout/stderr are compared as features (table printed, trace printed) and a hash, not part of the property"]
    rep.trusted = ["Lean 4.33.0 kernel", "axioms ⊆ {propext, Classical.choice, Quot.sound}",
                   "Lean compiler/runtime for the executable driver", "harness/cli (vcli), tools/props/c17.py, tools/inventory.py",
                   "clap's argument syntax as transcribed in Cfg.Cli.parse (validated differentially incl. malformed command lines)",
                   "verif hook dump_grammar_only (choice-name inputs)", "128-bit non-cryptographic file hash in vcli"]
    if rep.violations:
        rep.notes.append(f"work directory kept for inspection (paths in the replay files): {root}")
    else:
        shutil.rmtree(root, ignore_errors=True)


def replay(rep, path):
    p = json.load(open(path))
    ok, log = build()
    if not ok:
        rep.violation({"broken": "harness build", "log": log[-3000:]}, no_input=True)
        return
    driver_ok = driver_has_cli()
    root = workdir("c17r")
    if "layout" not in p:
        rep.notes.append("replay without input (" + str(p.get("broken")) + "): re-running the quick tier")
        run(rep, "quick", rep.seed)
        return
    corpus = {f"replay:{k}": v for k, v in p["layout"].items() if k.endswith(".rustemo")}
    grammars = {k: f"replay:{k}" for k in p["layout"] if k.endswith(".rustemo")}
    env = tuple(p.get("env", [None, None, False]))
    c = Case(0, p["layout"], p.get("target", p["argv"][-1]), p.get("is_file", True), p["argv"], env, grammars, "replay")
    violations, corr, known = run_all(rep, [c], corpus, root, 6, True, driver_ok)
    shutil.rmtree(root, ignore_errors=True)
