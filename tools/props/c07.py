"""C07 — LR and GLR parsers built from the same deterministic grammar agree."""
import json
import random

from common import lean_obligations, build_harness
from gram import random_grammar, all_strings, random_sentence, mutate
import lrfamily as lf
import treeparse as tp

LEVEL = "proof"
PROP_MODULE = "Rustemo.Props.C07"


def has_leaf(t):
    return t["k"] == "T" or any(has_leaf(c) for c in t["cs"])


def agree(lr, glr, path="root"):
    """None if the GLR tree is the LR tree up to elided trailing empty children, else a description"""
    if lr["k"] != glr["k"]:
        return f"{path}: node kinds differ"
    if lr["k"] == "T":
        if (lr["kind"], lr["span"], lr["val"]) != (glr["kind"], glr["span"], glr["val"]):
            return f"{path}: tokens differ LR {lr['kind']}@{lr['span']} GLR {glr['kind']}@{glr['span']}"
        return None
    if lr["prod"] != glr["prod"]:
        return f"{path}: productions differ LR {lr['prod']} GLR {glr['prod']}"
    n = len(glr["cs"])
    if n > len(lr["cs"]):
        return f"{path}: GLR node has more children"
    if any(has_leaf(c) for c in lr["cs"][n:]):
        return f"{path}: GLR elided a child that is not empty"
    if lr["span"] != glr["span"]:
        return f"{path}: spans differ LR {lr['span']} GLR {glr['span']} (prod {lr['prod']})"
    for i, (a, b) in enumerate(zip(lr["cs"], glr["cs"])):
        m = agree(a, b, f"{path}.{i}")
        if m:
            return m
    return None


class Pair:
    def __init__(self, lr, glr):
        self.lr, self.glr = lr, glr


def gen(rng, tier):
    n = 100 if tier == "quick" else 1000
    pairs = []
    tries = 0
    while len(pairs) < n and tries < n * 60:
        tries += 1
        # one pair in five has a user Layout rule (whitespace / line comments / nested comments): the layout parser is a
        # separate code path in both runtimes (nested partial parse through the parser's own context resp. GSS head)
        layout = rng.choice([None, None, None, None, "ws", "comments", "nested"])
        g = random_grammar(rng, p_empty=0.25, layout=layout)
        if layout is None and rng.random() < 0.2:
            # right recursion followed by a tail that is nullable only INDIRECTLY (action markers): the right-nulled entries of
            # such tails are what lets GLR continue after a reduction re-enters a processed head
            from gram import Gram
            ts = list(g.terms.items())[:2] or [("Ta", "a")]
            (ta, ca) = ts[0]
            (tc, cc) = ts[1] if len(ts) > 1 else ("Tc", "c")
            depth = rng.randint(1, 3)
            prods = [("S", ["A"]), ("A", [ta, "A", "P0"]), ("A", [tc])]
            for i in range(depth):
                prods.append(("P%d" % i, ["P%d" % (i + 1)] if i + 1 < depth and rng.random() < 0.5 else
                              (["Q%d" % i, "R%d" % i] if rng.random() < 0.5 else [])))
            names = {l for l, _ in prods}
            for l, rhs in list(prods):
                for x in rhs:
                    if x not in names and x not in (ta, tc):
                        prods.append((x, []))
                        names.add(x)
            g = Gram(prods, {ta: ca, tc: cc})
        if g.undefined_symbols() or not g.all_productive() or g.is_cyclic():
            continue
        alphabet = list(g.terms.keys())
        strings, seen = [], set()

        def add(t):
            if tuple(t) not in seen and len(t) <= 14:
                seen.add(tuple(t)); strings.append(list(t))
        for s in all_strings(alphabet, 3):
            add(s)
        for _ in range(10):
            s = random_sentence(g, rng)
            if s is not None:
                add(s); add(mutate(rng, s, alphabet))
        inputs = []
        for toks in strings:
            for ws in (("none", "mixed") if layout in (None, "ws") else ("mixed", "layout")):
                inputs.append((toks, lf.render_input(rng, g, toks, ws)))
        text = g.render()
        lr = lf.Case(text, ["LR", "LALR_PAGER"] + ["-"] * 8, [("LR", "0", s, {"toks": t}) for t, s in inputs], gram=g)
        glr = lf.Case(text, ["GLR", "LALR_RN"] + ["-"] * 8, [("GLR", "0", s, {"toks": t}) for t, s in inputs], gram=g)
        glr.max_trees = 2
        pairs.append(Pair(lr, glr))
    return pairs


def run(rep, tier, seed):
    rng = random.Random(seed)
    proofs_ok = lean_obligations(rep, PROP_MODULE)
    ok, log = build_harness()
    if not ok:
        rep.oblige("cargo build harness/dyn against /repo", False, log[-1500:])
        rep.violation({"broken": "harness build", "log": log[-3000:]}, no_input=True)
        return
    pairs = collide_pairs() + prio_empty_pairs() + gen(rng, tier)
    lf.add_histories(rng, [p.lr for p in pairs])
    lf.add_histories(rng, [p.glr for p in pairs])
    lf.run_cases([p.lr for p in pairs], extra_requests=lambda c: ["rawdet", "cert c01"])
    # the GLR side: the model is not asked to parse here (C03 compares the engine); only the certificates of the RN table
    lf.run_cases([p.glr for p in pairs], parse_model=False, extra_requests=lambda c: ["glr cert"])
    check(rep, pairs, proofs_ok)


# Layout sentences that share a prefix with a content token. The token is expected in the state after `a` only through
# LALR-merged lookaheads; LR lexes again after the reduce (nothing matches in the new state -> layout -> x) and accepts,
# GLR looks for the lookahead once, finds the token, and never tries the layout: known finding C07-N1.
COLLIDE = [
    ("S: A X | C A D;\nA: Ta;\nLayout: L;\nterminals\nTa: 'a';\nX: 'x';\nC: 'c';\nD: '#';\nL: '##';\n",
     ["a##x", "ax", "ca#", "ca##", "a#x", "a####x", "", "x"]),
    ("S: A X | C A Div Y;\nA: Ta;\nLayout: LayoutItem*;\nLayoutItem: WS | CommentLine;\nterminals\nTa: 'a';\nX: 'x';\nY: 'y';\nC: 'c';\n"
     "Div: '/';\nWS: /\\s+/;\nCommentLine: /\\/\\/.*/;\n",
     ["a// c\nx", "a x", "ca/y", "ca /y", "a //c\n//d\nx", "ca //c\n/y", "a/x"]),
]


def collide_pairs():
    out = []
    for text, inputs in COLLIDE:
        lr = lf.Case(text, ["LR", "LALR_PAGER"] + ["-"] * 8, [("LR", "0", s, {"toks": []}) for s in inputs], gram=None, tag="collide")
        glr = lf.Case(text, ["GLR", "LALR_RN"] + ["-"] * 8, [("GLR", "0", s, {"toks": []}) for s in inputs], gram=None, tag="collide")
        glr.max_trees = 2
        out.append(Pair(lr, glr))
    return out


def token_layout_collision(text):
    """some string literal of a content terminal and some string/regex-source literal of a terminal reachable from the
    Layout rule start with the same character (decided on the grammar text; string and simple regex recognizers)"""
    import re
    if "Layout:" not in text:
        return False
    rules, terms = text.split("terminals", 1)
    lits = {}
    for m in re.finditer(r"(\w+)\s*:\s*(?:'((?:[^'\\]|\\.)*)'|/((?:[^/\\]|\\.)*)/)", terms):
        lits[m.group(1)] = m.group(2) if m.group(2) is not None else m.group(3).replace("\\/", "/")
    prods = {}
    for stmt in rules.split(";"):
        if ":" in stmt:
            l, r = stmt.split(":", 1)
            prods[l.strip().split()[0]] = re.findall(r"\w+", r)
    seen, todo = set(), ["Layout"]
    while todo:
        x = todo.pop()
        if x in seen:
            continue
        seen.add(x)
        todo += prods.get(x, [])
    lay = {t for t in lits if t in seen}
    con = {t for t in lits if t not in seen}
    return any(lits[a][:1] and lits[a][:1] == lits[b][:1] for a in lay for b in con)


# A priority on an EMPTY production that is never needed for disambiguation: on the right-nulled table the reduce/reduce
# priority rule evicts the right-nulled reduction of the enclosing production from the cell: known finding C07-N2.
PRIO_EMPTY = [
    ("S: A;\nA: Ta A M | Tc;\nM: EMPTY {20};\nterminals\nTa: 'a';\nTc: 'c';\n", ["c", "ac", "aac", "aaac", "a", "ca"]),
    ("S: Tb L Te;\nL: Ta L O | Ta;\nO: Tc | EMPTY {15};\nterminals\nTa: 'a';\nTb: 'b';\nTc: 'c';\nTe: 'e';\n",
     ["bae", "baae", "baace", "baaae", "baaacce", "be"]),
]


def prio_empty_pairs():
    out = []
    for text, inputs in PRIO_EMPTY:
        lr = lf.Case(text, ["LR", "LALR_PAGER"] + ["-"] * 8, [("LR", "0", s, {"toks": []}) for s in inputs], gram=None, tag="prio-empty")
        glr = lf.Case(text, ["GLR", "LALR_RN"] + ["-"] * 8, [("GLR", "0", s, {"toks": []}) for s in inputs], gram=None, tag="prio-empty")
        glr.max_trees = 2
        out.append(Pair(lr, glr))
    return out


def known_class(c, k, why):
    import re
    if why.startswith("LR ok") and "but GLR err" in why and token_layout_collision(c.text):
        return "C07-N1-token-layout-collision"
    if why.startswith("LR ok") and "but GLR err" in why and re.search(r"EMPTY\s*\{\s*\d+", c.text):
        return "C07-N2-priority-evicts-right-nulled-reduction"
    return None


def check(rep, pairs, proofs_ok):
    rep.cov["rule"] = ("random acyclic BNF grammars with nullable symbols, in scope iff the Lean rawDeterministic certificate holds of the "
                       "LALR_PAGER items (no disambiguation needed); the same grammar compiled LR/LALR_PAGER and GLR/LALR_RN; inputs: "
                       "all strings up to length 3, sentences, mutations, without and with whitespace; compared: Ok/Err, solutions() = 1, "
                       "tree equal node by node (production, token kind/span/value, nonterminal span) up to elided trailing empty "
                       "children; distinct = (grammar, input)")
    import re
    failures = []
    corr_breaks = []
    cert_failures = []
    distinct = set()
    from common import load_findings
    known = {f["key"]: f for f in load_findings() if f["property"] == "C07" and f["status"] == "known"}
    seen_known = set()
    for p in pairs:
        lr, glr = p.lr, p.glr
        if lr.dump is None or glr.dump is None:
            rep.count("grammar_rejected")
            continue
        if lr.extra[0] != "1" or tp.parse_dump(lr.dump)["conflicts"] != 0:
            rep.count("out_of_scope(needs disambiguation)")
            continue
        rep.count("grammars_in_scope")
        # Tie B for C07_glr_accepts_iff_lr_accepts / C07_glr_trees_are_elisions_of_the_lr_tree: the two-table hypothesis
        # (certC01 of the LR table, Cert.glr and Cert.completeRN of the RN table of the same grammar)
        c01 = lr.extra[1] if len(lr.extra) > 1 else "?"
        gc = (getattr(glr, "extra", None) or ["?"])[0]
        if c01 == "1" and " glr=1 " in gc + " " and gc.endswith("completeRN=1"):
            rep.count("two_table_certificates_pass")
        elif re.search(r"EMPTY\s*\{\s*\d+", glr.text) and "completeRN=0" in gc and "C07-N2-priority-evicts-right-nulled-reduction" in known:
            # the right-nulled entry evicted by a priority: the completeness certificate fails, as it must (known finding)
            rep.count("known:C07-N2(certificate completeRN fails)")
        elif re.search(r"(?im)^\s*layout\s*:", glr.text) and c01 == "0" and " glr=1 " in gc + " " and gc.endswith("completeRN=1"):
            # certC01 (the C01 certificate) does not cover the nested layout automaton: pairs with a Layout rule are outside
            # the scope of the two theorems (they stay inside the differential comparison); the RN side still passes
            rep.count("layout_pair_rn_certificates_pass(certC01 not applicable)")
        else:
            rep.count("two_table_certificate_failures")
            cert_failures.append((glr, f"cert c01 (LR table) = {c01}; {gc}"))
        for k, (a, b) in enumerate(zip(lr.results, glr.results)):
            distinct.add((lr.text, lr.inputs[k][2]))
            rep.count("evaluations")
            ka, kb = lf.klass(a), lf.klass(b)
            if k < len(lr.model) and not lf.same_answer(a, lr.model[k]):
                corr_breaks.append((lr, k))
            if ka == "err" and kb == "err":
                rep.count("both_err")
                if a.split(" ")[2:3] != b.split(" ")[2:3]:
                    rep.count("both_err_different_position(informational)")
                continue
            if ka != kb:
                why = f"LR {a[:60]} but GLR {b[:60]}"
                key = known_class(glr, k, why)
                if key and key in known:
                    rep.count("known:" + key)
                    seen_known.add(key)
                else:
                    failures.append((glr, k, why))
                continue
            if ka != "ok":
                failures.append((glr, k, f"neither Ok nor Err: LR {a[:60]} GLR {b[:60]}"))
                continue
            rep.count("both_ok")
            f = b.split(" ")
            if f[1] != "1":
                failures.append((glr, k, f"GLR reports {f[1]} solutions for a deterministic grammar"))
                continue
            try:
                tl = tp.parse_tree_text(a[3:])
                tg = tp.parse_tree_text(b.split(" trees", 1)[1].split(" ;")[0])
            except Exception as e:
                failures.append((glr, k, f"unparsable: {e}"))
                continue
            m = agree(tl, tg)
            if m:
                failures.append((glr, k, "trees differ: " + m))
            elif tp.shape(tl) != tp.shape(tg):
                rep.count("agree_with_elision")
    rep.counters["distinct_nontrivial"] = len(distinct)
    for key in sorted(seen_known):
        rep.known_finding(key, known[key]["what"])
    failures.sort(key=lambda f: (len(f[0].text), len(f[0].inputs[f[1]][2])))
    for c, k, why in failures[:3]:
        rep.violation(dict(c.describe(k), why=why, kind="impl!=oracle"))
    if not failures:
        if corr_breaks:
            c, k = corr_breaks[0]
            rep.violation(dict(c.describe(k), why="correspondence corr:lr broken; LR and GLR still agree on every input",
                               kind="impl!=model", n_breaks=len(corr_breaks)), no_input=True)
        elif cert_failures:
            c, why = cert_failures[0]
            rep.violation({"grammar": c.text, "settings": " ".join(c.settings), "kind": "certificate",
                           "why": "two-table hypothesis of the C07 engine theorems fails on an in-scope pair: " + why
                                  + " -- LR and GLR still agree on every input tried", "n_tables": len(cert_failures)},
                          no_input=True)
        elif not proofs_ok:
            rep.violation({"why": f"Lean obligations of {PROP_MODULE} no longer check",
                           "obligations": [o for o in rep.obligations if not o[1]]}, no_input=True)
    rep.counters["oracle_failures"] = len(failures)
    rep.counters["corr_breaks"] = len(corr_breaks)
    for p in pairs[:2]:
        if p.lr.results:
            k = len(p.lr.inputs) // 2
            rep.sample({"grammar": p.lr.text, "input": p.lr.inputs[k][2], "lr": p.lr.results[k][:200], "glr": p.glr.results[k][:200]})


def replay(rep, path):
    p = json.load(open(path))
    build_harness()
    g = lf.parse_bnf(p["grammar"])
    inp = p.get("input", "")
    toks = lf.toks_of_input(g, inp)
    lr = lf.Case(p["grammar"], ["LR", "LALR_PAGER"] + ["-"] * 8, [("LR", "0", inp, {"toks": toks})], gram=g)
    glr = lf.Case(p["grammar"], ["GLR", "LALR_RN"] + ["-"] * 8, [("GLR", "0", inp, {"toks": toks})], gram=g)
    glr.max_trees = 2
    lf.apply_replay_history(lr, p)
    lf.apply_replay_history(glr, p)
    lf.run_cases([lr], extra_requests=lambda c: ["rawdet", "cert c01"])
    lf.run_cases([glr], parse_model=False, extra_requests=lambda c: ["glr cert"])
    check(rep, [Pair(lr, glr)], True)
