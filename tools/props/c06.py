"""C06 — lexical ambiguity is resolved in the documented order of strategies."""
import itertools
import json
import random
import re

from common import lean_obligations, build_harness
import lrfamily as lf
import treeparse as tp

LEVEL = "proof"
PROP_MODULE = "Rustemo.Props.C06"

STRINGS = ["a", "aa", "ab", "abc", "b", "bc", "if", "i", "x", "xy"]
REGEXES = ["a+", "[a-c]+", "a", "ab?", "[a-z]+", "i[a-z]*", "x+y?", "b+", "[ab]", "a*b"]


class LexGram:
    """terminals: list of (name, kind 'S'|'R', pattern, prio or None); grammar S: S X | X; X: T1 | T2 ..."""

    def __init__(self, terms):
        self.terms = terms

    def render(self):
        alts = " | ".join(n for n, _, _, _ in self.terms)
        out = [f"S: S X | X;", f"X: {alts};", "terminals"]
        for n, k, p, prio in self.terms:
            rec = f"'{p}'" if k == "S" else f"/{p}/"
            meta = f" {{{prio}}}" if prio is not None else ""
            out.append(f"{n}: {rec}{meta};")
        return "\n".join(out) + "\n"


def match_len(kind, pat, text):
    if kind == "S":
        return len(pat) if text.startswith(pat) else None
    m = re.match(pat, text)
    return len(m.group(0)) if m else None


def doc_select(terms, ms, lm, go, text):
    """the documented rule: survivors as list of (index, length) in grammar order"""
    cand = []
    for i, (n, k, p, prio) in enumerate(terms):
        l = match_len(k, p, text)
        if l is not None and l > 0:
            cand.append((i, l))
    if not cand:
        return []
    best = max((terms[i][3] or 10) for i, _ in cand)
    cand = [(i, l) for i, l in cand if (terms[i][3] or 10) == best]
    if ms:
        strs = [(i, l) for i, l in cand if terms[i][1] == "S"]
        if strs:
            m = max(l for _, l in strs)
            cand = [(i, l) for i, l in strs if l == m][:1]
    if lm:
        m = max(l for _, l in cand)
        cand = [(i, l) for i, l in cand if l == m]
    if go:
        cand = cand[:1]
    return cand


def tokenizations(terms, ms, lm, go, text, limit=300):
    """all token sequences the documented rule allows (whitespace skipped between tokens)"""
    res = []

    def rec(pos, acc):
        if len(res) > limit:
            return
        while pos < len(text) and text[pos].isspace():
            pos += 1
        if pos == len(text):
            res.append(tuple(acc))
            return
        for i, l in doc_select(terms, ms, lm, go, text[pos:]):
            rec(pos + l, acc + [(i + 1, pos, l)])
    rec(0, [])
    return res


def impl_tokens(t):
    return tuple((l["kind"], l["span"][0][0], l["span"][1][0] - l["span"][0][0]) for l in tp.leaves(t))


def oracle(c):
    bad = []
    terms = c.lexgram.terms
    algo = c.settings[0]
    ms, lm = c.settings[4] != "0", c.settings[5] != "0"
    go = True if algo == "LR" else c.settings[6] == "1"
    for k, ((a, partial, inp, meta), res) in enumerate(zip(c.inputs, c.results)):
        want = set(tokenizations(terms, ms, lm, go, inp))
        kl = lf.klass(res)
        if kl not in ("ok", "err"):
            bad.append((k, f"neither Ok nor Err: {res[:80]}"))
            continue
        try:
            if kl == "err":
                got = set()
            elif algo == "LR":
                got = {impl_tokens(tp.parse_tree_text(res[3:]))}
            else:
                body = res.split(" trees", 1)[1]
                trees = [tp.parse_tree_text(x) for x in body.split(" ;") if x.strip()]
                got = {impl_tokens(t) for t in trees}
                n = int(res.split(" ")[1])
                if n > 64:
                    continue
                if n != len(want):
                    bad.append((k, f"GLR reports {n} solutions, documented rule allows {len(want)} tokenizations"))
                    continue
        except Exception as e:
            bad.append((k, f"unparsable: {e}"))
            continue
        if algo == "LR":
            # LR follows exactly one decision sequence; it fails iff that sequence dead-ends
            if got != want:
                bad.append((k, f"tokens {sorted(got)[:1]} but the documented rule selects {sorted(want)[:1]}"))
        else:
            if got != want:
                bad.append((k, f"token sequences {sorted(got)[:2]} but the documented rule allows {sorted(want)[:2]}"))
    return bad


def gen(rng, tier):
    n = 150 if tier == "quick" else 1500
    n_wide = 12 if tier == "quick" else 150
    cases = []
    for it in range(n + n_wide):
        wide = it >= n
        # wide: 22-44 terminals expected in ONE state (sorting more than 20 elements; equal keys must keep grammar order):
        # distinct keyword strings as filler + overlapping strings/regexes, the same regex under several names
        nt = rng.randint(22, 44) if wide else rng.randint(2, 5)
        terms = []
        used = set()
        for i in range(nt):
            r = rng.random()
            if wide and r < 0.45:
                k, p = "S", "k" + "abix"[i % 4] * (1 + i % 3) + str(i)
            elif r < (0.6 if wide else 0.5):
                k, p = "S", rng.choice(STRINGS)
            else:
                k, p = "R", rng.choice(REGEXES)
            if (k, p) in used and not (wide and k == "R"):
                continue
            used.add((k, p))
            prio = rng.choice([None, None, 5, 15, 15, 20])
            terms.append((f"T{i}", k, p, prio))
        if len(terms) < 2:
            continue
        lg = LexGram(terms)
        alphabet = "abcixy"
        inputs = set()
        for ln in (1, 2, 3):
            for tup in itertools.product("abix", repeat=ln):
                inputs.add("".join(tup))
        for _ in range(25):
            pieces = [rng.choice([t[2] if t[1] == "S" else rng.choice(["a", "aa", "ab", "abc", "b", "ib", "xy", "xx", "bb", "aab"])
                                  for t in terms]) for _ in range(rng.randint(1, 4))]
            inputs.add(rng.choice(["", " "]).join(pieces))
        inputs = sorted(inputs)
        for algo, tt in (("LR", "LALR_PAGER"), ("GLR", "LALR_RN")):
            for ms, lm in itertools.product("01", repeat=2):
                gos = ["-"] if algo == "LR" else ["0", "1"]
                for go in gos:
                    st = [algo, tt, "-", "-", ms, lm, go, "-", "-", "-"]
                    c = lf.Case(lg.render(), st, [(algo, "0", i, {}) for i in inputs], gram=None, tag="lex")
                    c.lexgram = lg
                    cases.append(c)
    # long string recognizers (banners, heredoc markers): the length must never weigh against a priority, whatever its
    # size (100, 256, 1000 are the places where a packed sort key or a narrow integer would break)
    lens = [99, 100, 101, 120, 255, 256, 257, 499, 500, 999, 1000, 1001, 1500, 4300] + ([9999, 10000] if tier != "quick" else [])
    for it in range(14 if tier == "quick" else 120):
        ch = rng.choice("a-")
        cls = "a+" if ch == "a" else "-+"
        ls = sorted(rng.sample(lens, rng.randint(1, 3)))
        prios = rng.sample([None, 9, 11, 12, 5, 15], 3)
        terms = [(f"L{k}", "S", ch * l, rng.choice(prios)) for k, l in enumerate(ls)]
        terms.append(("R0", "R", cls, rng.choice(prios)))
        if rng.random() < 0.5:
            terms.append(("R1", "R", cls + "b?", rng.choice(prios)))
        rng.shuffle(terms)
        lg = LexGram(terms)
        inputs = set()
        for l in ls:
            inputs |= {ch * l, ch * (l - 1), ch * (l + 1), ch * l + "b", ch * l + " " + ch * 2, ch * 3 + " " + ch * l}
        inputs = sorted(inputs)
        for algo, tt in (("LR", "LALR_PAGER"), ("GLR", "LALR_RN")):
            for ms, lm in itertools.product("01", repeat=2):
                for go in (["-"] if algo == "LR" else ["0", "1"]):
                    st = [algo, tt, "-", "-", ms, lm, go, "-", "-", "-"]
                    ins = inputs
                    if algo == "GLR":
                        # with strategies off a long run splits into blocks of the shorter recognizers in exponentially many
                        # ways (and `Forest::solutions()` is exponential): keep runs of at most two blocks there
                        ins = [i for i in inputs if len(i) <= 2 * min(ls) + 4]
                    c = lf.Case(lg.render(), st, [(algo, "0", i, {}) for i in ins], gram=None, tag="lex-long")
                    c.lexgram = lg
                    cases.append(c)
    return cases


def run(rep, tier, seed):
    rng = random.Random(seed)
    proofs_ok = lean_obligations(rep, PROP_MODULE)
    ok, log = build_harness()
    if not ok:
        rep.oblige("cargo build harness/dyn against /repo", False, log[-1500:])
        rep.violation({"broken": "harness build", "log": log[-3000:]}, no_input=True)
        return
    cases = gen(rng, tier)
    lr = [c for c in cases if c.settings[0] == "LR"]
    glr = [c for c in cases if c.settings[0] == "GLR"]
    fixed = lf.replay_known(rep, "C06", oracle)
    lf.run_cases(lr, extra_requests=lambda c: ["cert lexsorted"])
    lf.run_cases(glr, extra_requests=lambda c: ["cert lexsorted"], parse_model=False)
    check(rep, lr, glr, proofs_ok)


def check(rep, lr, glr, proofs_ok):
    rep.cov["rule"] = ("grammar `S: S X | X; X: T1|..|Tn` over 2-5 (family wide: 22-44, same regex under several names) overlapping string/regex terminals with priorities in 1-3 groups, so "
                       "that every terminal is expected in every state; all combinations of most_specific x longest_match (x "
                       "grammar_order for GLR) x {LR, GLR}; inputs: all strings up to length 3 over {a,b,i,x} + concatenations of "
                       "recognizer-shaped pieces; family long: string recognizers of 99..4300 (thorough: ..10000) bytes against regexes "
                       "of neighbouring priorities; LR: the token sequence of the tree = the sequence the documented rule selects; GLR: "
                       "set of token sequences over all trees = all tokenizations the documented rule allows; distinct = (terminal "
                       "set, settings, input)")

    def scope(c):
        return c.settings[0] == "GLR" or tp.parse_dump(c.dump)["conflicts"] == 0
    def orc(c):
        bad = oracle(c)
        ex = getattr(c, "extra", None)
        if ex:
            rep.count("cert_lexsorted_" + ("pass" if ex[0] == "1" else "FAIL"))
            if ex[0] != "1":
                bad.append((None, "Lex.sortedOk fails on a state's sorted_terminals list: hypotheses of the C06 theorems not met"))
        return bad
    lf.evaluate(rep, lr, orc, proofs_ok, PROP_MODULE, in_scope=scope)
    lf.evaluate(rep, glr, orc, True, PROP_MODULE, compare_model=False)
    rep.assumptions += ["regex terminals restricted to a class on which python `re` and the Rust `regex` crate agree (literals, classes, "
                        "+ * ?); recognizers matching the empty string are excluded (F14)",
                        "GLR half: oracle on implementation output only"]


def replay(rep, path):
    p = json.load(open(path))
    build_harness()
    terms = []
    for line in p["grammar"].split("terminals\n", 1)[1].splitlines():
        m = re.match(r"(\w+): ('(.*)'|/(.*)/)( \{(\d+)\})?;", line)
        if m:
            terms.append((m.group(1), "S" if m.group(3) is not None else "R", m.group(3) if m.group(3) is not None else m.group(4),
                          int(m.group(6)) if m.group(6) else None))
    c = lf.Case(p["grammar"], p["settings"].split(" "), [(p["settings"].split(" ")[0], "0", p.get("input", ""), {})], gram=None)
    c.lexgram = LexGram(terms)
    glr = c.settings[0] == "GLR"
    lf.run_cases([c], extra_requests=lambda c: ["cert lexsorted"], parse_model=not glr)
    check(rep, [] if glr else [c], [c] if glr else [], True)
