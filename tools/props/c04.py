"""C04 — the LR table is a faithful core-preserving compression of canonical LR(1)."""
import json
import random

from common import lean_obligations, build_harness
import lrfamily as lf
import treeparse as tp
import tablecorr
from gram import random_grammar, Gram

LEVEL = "proof"
PROP_MODULE = "Rustemo.Props.C04"
CONSTRUCTION_MODULE = "Rustemo.Props.C04Construction"

LIT = [
    "S: L Te R | R;\nL: Ts R | Ti;\nR: L;\nterminals\nTe: '=';\nTs: '*';\nTi: 'i';\n",                   # dragon 4.49 (LALR, not SLR)
    "S: Ta E Tc | Ta F Td | Tb F Tc | Tb E Td;\nE: Te;\nF: Te;\nterminals\nTa: 'a';\nTb: 'b';\nTc: 'c';\nTd: 'd';\nTe: 'e';\n",  # LR(1) not LALR
    "E: E Tp T | T;\nT: T Tm F | F;\nF: Tl E Tr | Ti;\nterminals\nTp: '+';\nTm: '*';\nTl: '(';\nTr: ')';\nTi: 'i';\n",
    "S: A A;\nA: Ta A | Tb;\nterminals\nTa: 'a';\nTb: 'b';\n",
    "S: A Ta | Tb A Tc | B Tc | Tb B Ta;\nA: Td;\nB: Td;\nterminals\nTa: 'a';\nTb: 'b';\nTc: 'c';\nTd: 'd';\n",   # Pager-style
    "S: Ta A Td | Tb B Td | Ta B Te | Tb A Te;\nA: Tc;\nB: Tc;\nterminals\nTa: 'a';\nTb: 'b';\nTc: 'c';\nTd: 'd';\nTe: 'e';\n",
    "S: A B C;\nA: Ta | EMPTY;\nB: Tb | EMPTY;\nC: Tc | EMPTY;\nterminals\nTa: 'a';\nTb: 'b';\nTc: 'c';\n",
    "S: S S | Ta | EMPTY;\nterminals\nTa: 'a';\n",
]


def gen(rng, tier):
    n = 120 if tier == "quick" else 1500
    cases = []
    texts = list(LIT)
    tries = 0
    while len(texts) < n + len(LIT) and tries < n * 40:
        tries += 1
        g = random_grammar(rng, p_empty=0.2, max_nts=4)
        if g.undefined_symbols() or not g.all_productive():
            continue
        texts.append(g.render())
    from gram import seq_grammar, twins_grammar, diamond_grammar, layered_grammar, mutual_grammar, permute_grammar, samerest_grammar
    for gen_f, k in ((permute_grammar, 12), (samerest_grammar, 12), (twins_grammar, 40), (seq_grammar, 25), (diamond_grammar, 15), (layered_grammar, 15), (mutual_grammar, 40)):
        for _ in range(k if tier == "quick" else k * 12):
            g = gen_f(rng)
            if g.undefined_symbols() or not g.all_productive():
                continue
            texts.append(g.render())
    # corr:table only: grammars with a nonterminal that derives nothing (`check_empty_sets` must name the same symbol)
    for _ in range(6 if tier == "quick" else 60):
        g = random_grammar(rng, p_empty=0.2, max_nts=3)
        if g.undefined_symbols() or not g.all_productive() or any(rhs == [l] for l, rhs in g.prods) or not g.terms:
            continue
        loop = rng.choice(["Z: Z Ta;", "Z: Ta Z | Z Y;\nY: Z Ta;", "Z: Y Ta;\nY: Z Ta | Y Z;", "Y: Z Ta | Y Z;\nZ: Y Ta;"]).replace("Ta", next(iter(g.terms)))
        first = g.nts[rng.randrange(len(g.nts))]
        texts.append(g.render().replace(first + ":", first + ": Z Z |", 1).replace("terminals\n", loop + "\nterminals\n", 1))
    # grammars with a Layout rule: a second automaton (AUGL) is built into the same table after the first one and
    # merges with its states (recursive Layout: nested comments need lookahead propagation too); compared through the
    # whole-table model correspondence (the cover certificate is run on the main automaton)
    from gram import random_grammar as _rg
    for layout, k in (("nested", 10), ("comments", 5), ("ws", 3)):
        made = 0
        while made < (k if tier == "quick" else k * 10):
            g = _rg(rng, p_empty=0.2, max_nts=3, layout=layout)
            if g.undefined_symbols() or not g.all_productive():
                continue
            made += 1
            texts.append(g.render())
    texts.append("S: Num+;\nLayout: LayoutItem*;\nLayoutItem: WS | Comment;\nComment: CS Items CE;\nGroup: LP Items RP;\n"
                 "Items: Item*;\nItem: Comment | Group | Word | WS;\nterminals\nNum: /\\d+/;\nWS: /\\s+/;\nCS: '/*';\nCE: '*/';\n"
                 "LP: '(';\nRP: ')';\nWord: /[a-z]+/;\n")
    # Layout rules with an unresolved conflict INSIDE the layout automaton (shift/reduce: `WS+` under `LayoutItem*`;
    # reduce/reduce: two alternatives deriving the same terminal): LR mode must report them like any other conflict
    texts.append("S: A+;\nA: Ta;\nLayout: LayoutItem*;\nLayoutItem: WS+ | Comment;\nterminals\nTa: 'a';\nWS: /\\s/;\nComment: /#[^\\n]*/;\n")
    texts.append("S: A+;\nA: Ta;\nLayout: LayoutItem*;\nLayoutItem: L1 | L2;\nL1: WS;\nL2: WS;\nterminals\nTa: 'a';\nWS: /\\s+/;\n")
    for text in texts:
        for tt in ("LALR", "LALR_PAGER", "LALR_RN"):
            # GLR algorithm: cells keep every candidate (no prefer-shift); table type overridden explicitly
            st = ["GLR", tt] + ["-"] * 8
            cases.append(lf.Case(text, st, [], gram=None, tag="bnf"))
    return cases


def extra(c):
    rn = "1" if c.settings[1] == "LALR_RN" else "0"
    return [f"cover 0 0 {rn}", tablecorr.REQUEST]


def run(rep, tier, seed):
    rng = random.Random(seed)
    proofs_ok = lean_obligations(rep, PROP_MODULE)
    # the construction theorems (model of LRTable::new: structural + complete for every grammar) are audited here too
    proofs_ok = lean_obligations(rep, CONSTRUCTION_MODULE) and proofs_ok
    ok, log = build_harness()
    if not ok:
        rep.oblige("cargo build harness/dyn against /repo", False, log[-1500:])
        rep.violation({"broken": "harness build", "log": log[-3000:]}, no_input=True)
        return
    cases = gen(rng, tier)
    lf.run_cases(cases, extra_requests=extra)
    check(rep, cases, proofs_ok)


def check(rep, cases, proofs_ok):
    rep.cov["rule"] = ("literature grammars (dragon book LALR/LR(1) examples, Pager-style splits, nullable chains) + random BNF + structured families "
                       "(twins: shared terminal prefixes in several contexts; seq: nullable recursive sequences; mutual: nonterminals calling each "
                       "other behind a shared terminal, bare and in deeper contexts; diamond; layered) "
                       "grammars x table types {LALR, LALR_PAGER, LALR_RN}, compiled with the GLR algorithm so that cells keep every "
                       "candidate; per table the comparison with the Lean-built canonical LR(1) automaton is complete over all "
                       "states, items, lookaheads and cells; distinct = (grammar, table type). corr:table: every real table is also "
                       "compared as a whole (FIRST sets, state numbering, item order, lookaheads, cells, gotos, sorted terminals, "
                       "max priorities, conflict count) with the Lean model of LRTable::new (Table.build); a few grammars with a "
                       "nonterminal deriving nothing check the 'First set empty' rejection the same way")
    failures = []
    n = 0
    lr1_not_lalr = 0
    tie = tablecorr.TableTie()
    tablecorr.rejected_outcomes(rep, tie, cases, lambda c: c.text, lambda c: c.settings, lambda c: c.dump_ans)
    for c in cases:
        if c.dump is None:
            rep.count("grammar_rejected:" + " ".join(c.dump_ans.split(" ")[1:3]))
            continue
        n += 1
        ans = c.extra[0]
        tie.judge(rep, c, c.extra[1] if len(c.extra) > 1 else "driver-crash")
        rep.count("cover_" + ans.split(" ")[0] + ":" + c.settings[1])
        d = tp.parse_dump(c.dump)
        rep.count("tables_with_conflict_cells" if d["conflicts"] else "tables_conflict_free")
        try:
            pairs = int(ans.split("pairs=")[1].split(" ")[0])
            canon = int(ans.split("canon=")[1].split(" ")[0])
            rep.count("canonical_states_total", canon)
            rep.count("table_states_total", len(d["states"]))
            if canon > len(d["states"]):
                rep.count("tables_compressing(canon>table)")
        except Exception:
            pass
        if not ans.startswith("ok"):
            failures.append((c, ans))
    # consequence: an LALR(1) grammar (conflict-free LALR table) is conflict-free with state splitting too
    by_text = {}
    for c in cases:
        if c.dump is not None:
            by_text.setdefault(c.text, {})[c.settings[1]] = (c, tp.parse_dump(c.dump)["conflicts"])
    for text, m in by_text.items():
        if "LALR" in m and "LALR_PAGER" in m:
            rep.count("lalr1_grammars" if m["LALR"][1] == 0 else "non_lalr1_grammars")
            if m["LALR"][1] == 0 and m["LALR_PAGER"][1] != 0:
                failures.append((m["LALR_PAGER"][0], "LALR(1) grammar has conflicts with LALR_PAGER"))
            if m["LALR"][1] != 0 and m["LALR_PAGER"][1] == 0:
                rep.count("conflicts_removed_by_state_splitting")
    rep.counters["evaluations"] = n
    rep.counters["distinct_nontrivial"] = n
    for c in cases[:2]:
        if c.dump is not None:
            rep.sample({"grammar": c.text, "settings": " ".join(c.settings), "cover": c.extra[0]})
    failures.sort(key=lambda f: len(f[0].text))
    for c, ans in failures[:3]:
        rep.violation(dict(c.describe(), why="Cover.check fails on the compiler's table: " + ans, kind="impl!=oracle",
                           note="the replay input is the grammar itself: the named state/item/lookahead of the dumped table "
                                "differs from the canonical LR(1) automaton"))
    # Tie A for the construction: whole table vs the Lean model `Table.build` (kind impl!=model, replay = the grammar)
    n_table = tie.report(rep, lambda c: c.describe(), min(3, len(failures)))
    n_table += compiles_tie(rep, cases)
    if not failures and not n_table and not proofs_ok:
        rep.violation({"why": f"Lean obligations of {PROP_MODULE} no longer check",
                       "obligations": [o for o in rep.obligations if not o[1]]}, no_input=True)
    rep.counters["oracle_failures"] = len(failures)


def compiles_tie(rep, cases, limit=450):
    """the consequence clauses speak of what COMPILES: the real `Settings::process_grammar` in LR mode (vdyn job C) must
    report conflicts exactly when the table of that type (dumped with every candidate kept) has a cell with more than one
    action, for all three table types - the rejection lives in `generate_parser`, after the table is built."""
    from common import run_vdyn, hx
    # the LR-mode table of the same type (LR mode resolves shift against EMPTY-reduce by default, GLR keeps both)
    sel = [lf.Case(c.text, ["LR"] + list(c.settings[1:]), [], gram=None, tag="bnf") for c in cases if c.dump is not None]
    sel.sort(key=lambda c: ("Layout" not in c.text, c.settings[1] != "LALR_RN", len(c.text)))
    sel = sel[:3 * limit]
    lf.run_cases(sel, model=False)
    sel = [c for c in sel if c.dump is not None]
    confl = {id(c): tp.parse_dump(c.dump)["conflicts"] for c in sel}
    sel.sort(key=lambda c: (confl[id(c)] == 0, c.settings[1] != "LALR_RN", len(c.text)))
    half = limit // 2
    sel = sel[:half] + [c for c in sel[half:] if confl[id(c)] == 0][:half]
    if not sel:
        return 0
    groups = [["C G F " + " ".join(c.settings) + " " + hx(c.text)] for c in sel]
    answers = run_vdyn(groups, tag="c04-compiles")
    bad = []
    for c, a in zip(sel, answers):
        a = a[0]
        got_err, got_ok = a.startswith("compile err conflicts"), a.startswith("compile ok")
        rep.count("compiles_tie:" + c.settings[1] + ":" + ("conflicts-reported" if got_err else "compiled" if got_ok else "other"))
        if (got_err or got_ok) and got_err != (confl[id(c)] > 0):
            bad.append((c, a))
    rep.counters["compiles_tie_compared"] = len(sel)
    rep.counters["compiles_tie_failures"] = len(bad)
    for c, a in sorted(bad, key=lambda x: len(x[0].text))[:max(0, 3 - len(rep.violations))]:
        d = c.describe()
        rep.violation(dict(d, kind="impl!=oracle", tag="compiles",
                           why=("LR mode, table type %s: the table has %d unresolved conflict(s) but the grammar compiles (an ambiguous "
                                "grammar compiles without any disambiguation)" % (c.settings[1], confl[id(c)])) if confl[id(c)] else
                               "LR mode, table type %s: the compiler reports conflicts although the table of that type has none" % c.settings[1],
                           impl=a[:200]))
    return len(bad)


def replay(rep, path):
    p = json.load(open(path))
    build_harness()
    c = lf.Case(p["grammar"], ["GLR"] + p["settings"].split(" ")[1:], [], gram=None)
    lf.run_cases([c], extra_requests=extra)
    check(rep, [c], True)
