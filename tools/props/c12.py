"""C12 — syntax errors point at the first offending token; sentences never error."""
import json
import random

from common import lean_obligations, build_harness
import lrfamily as lf
import treeparse as tp
import oracles
from gram import random_grammar, random_sentence, mutate, all_strings, earley_prefix

LEVEL = "proof"
PROP_MODULE = "Rustemo.Props.C12"
GLR_MODULE = "Rustemo.Props.C12Glr"
BYTES_MODULE = "Rustemo.Props.C03Bytes"
FOREIGN = "x"   # a character that is no terminal of the generated grammars (and not whitespace)


def render(rng, g, toks, ws):
    """returns (text, [byte offset of every token], byte offset of 'end of input' candidates)"""
    pool = [""] if ws == "none" else ["", " ", "  ", "\n", "\t", " \n ", "\r\n"]
    if ws != "none" and g.layout in ("comments", "nested"):
        pool += [" // note\n", "//x\n ", "//\n"]
        if g.layout == "nested":
            pool += ["/* c */", " /* a /* b */ c */ ", "/**/\n"]
    out = ""
    offs = []
    for t in toks:
        out += rng.choice(pool) if ws == "none" else lf.gap(rng, lf.WS_ATOMS, pool)
        offs.append(len(out.encode()))
        out += FOREIGN if t == "?" else g.terms[t]
    tail = rng.choice(pool[:3])
    end_before = len(out.encode())
    out += tail
    return out, offs, (end_before, len(out.encode()))


def expected_error(g, toks):
    """index of the first offending token (len(toks) = end of input); None if sentence"""
    if "?" in toks:
        j = toks.index("?")
        is_s, viable = earley_prefix(g, toks[:j])
        # tokens before the foreign one may already be offending
        return viable if viable < j else j
    is_s, viable = earley_prefix(g, toks)
    if is_s:
        return None
    return viable


def oracle(c):
    bad = []
    for k, ((algo, partial, inp, meta), res) in enumerate(zip(c.inputs, c.results)):
        data = inp.encode()
        exp = meta["expect"]
        kl = lf.klass(res)
        if exp is None:
            if kl != "ok":
                bad.append((k, f"sentence rejected: {res[:120]}"))
            continue
        if kl != "err":
            bad.append((k, f"non-sentence not rejected with an error: {res[:120]}"))
            continue
        f = res.split(" ")
        if f[1] != "expected":
            bad.append((k, f"error without position/expected list: {res[:120]}"))
            continue
        start = tp.parse_span(f[2])[0]
        kinds = [x for x in f[3].split(",") if x] if len(f) > 3 else []
        offs, (e0, e1) = meta["offs"], meta["end"]
        want = [offs[exp]] if exp < len(offs) else [e1]
        if start[0] not in want:
            bad.append((k, f"error reported at byte {start[0]}, first offending token {exp} starts at {want}"))
            continue
        m = oracles.check_pos(data, start)
        if m:
            bad.append((k, m))
            continue
        if not kinds:
            bad.append((k, "empty list of expected tokens"))
    return bad


def gen(rng, tier, algo, tt, n, layout=None):
    cases = []
    tries = 0
    while len(cases) < n and tries < n * 60:
        tries += 1
        g = random_grammar(rng, p_empty=0.2, layout=layout)
        if g.undefined_symbols() or not g.all_productive() or g.is_cyclic():
            continue
        if algo == "GLR" and not g.in_glr_scope():
            continue
        alphabet = list(g.terms.keys())
        seen = set()
        strings = []

        def add(toks):
            if tuple(toks) not in seen and len(toks) <= 16:
                seen.add(tuple(toks))
                strings.append(list(toks))
        for s in all_strings(alphabet, 3):
            add(s)
        for _ in range(10):
            s = random_sentence(g, rng)
            if s is None:
                continue
            add(s)
            add(mutate(rng, s, alphabet))
            add(s[: rng.randint(0, len(s))])
            if s:
                t = list(s)
                t.insert(rng.randint(0, len(t)), "?")
                add(t)
        inputs = []
        for toks in strings:
            exp = expected_error(g, toks)
            for ws in ("none", "mixed"):
                text, offs, end = render(rng, g, toks, ws)
                inputs.append((algo, "0", text, {"toks": toks, "expect": exp, "offs": offs, "end": end}))
        cases.append(lf.Case(g.render(), [algo, tt] + ["-"] * 8, inputs, gram=g, tag="bnf"))
    return cases


def extra_requests(c):
    """driver requests besides the byte-level model runs: scope (`rawdet`, `cert productive`), the hypotheses of
    C12_error_at_first_offending_token on the real table (`cert c01`, `cert viable`), and the token-level parser
    `tparse` (the machine the valid-prefix theorems are about) on the tokens of every input"""
    kinds = {t: i + 1 for i, t in enumerate(c.gram.terms)}
    unknown = len(kinds) + 1          # = nterms: the "unknown token" no cell accepts (Model/LexTok.lean charToTerm)
    rq = ["rawdet", "cert productive", "cert c01", "cert viable", "cert singlechar"]
    for (_, _, _, meta) in c.inputs:
        rq.append("tlr " + (",".join(str(kinds.get(t, unknown)) for t in meta["toks"]) or "-"))
    # hypothesis CharEnv of the byte-level theorem (C12_bytes_error_at_first_offending_token) per input: the real
    # recognizers' match matrix is `charRecog` and whitespace skipping has nothing to skip
    for (_, _, inp, _), mat in zip(c.inputs, c.matrices):
        rq.append(f"charenv {lf.hx(inp)} #{mat}")
    return rq


N_FIXED_EXTRA = 5


def run(rep, tier, seed):
    rng = random.Random(seed)
    proofs_ok = lean_obligations(rep, PROP_MODULE)
    proofs_ok = lean_obligations(rep, GLR_MODULE) and proofs_ok
    proofs_ok = lean_obligations(rep, BYTES_MODULE) and proofs_ok
    ok, log = build_harness()
    if not ok:
        rep.oblige("cargo build harness/dyn against /repo", False, log[-1500:])
        rep.violation({"broken": "harness build", "log": log[-3000:]}, no_input=True)
        return
    n = 80 if tier == "quick" else 800
    lr = gen(rng, tier, "LR", "LALR_PAGER", n) + gen(rng, tier, "LR", "LALR", n // 2)
    glr = gen(rng, tier, "GLR", "LALR_RN", n // 2)
    # user Layout rules: the error must point at the offending token BEHIND the layout that precedes it
    for layout in ("ws", "comments", "nested"):
        lr += gen(rng, tier, "LR", "LALR_PAGER", max(6, n // 8), layout=layout)
        glr += gen(rng, tier, "GLR", "LALR_RN", max(4, n // 12), layout=layout)
    for c in glr:
        c.max_trees = 0      # parse-only: Forest::solutions() is exponential on highly ambiguous inputs and is not what C12 is about
    lf.add_histories(rng, lr)
    lf.run_cases(lr, extra_requests=extra_requests)
    lf.add_histories(rng, glr)
    # hypotheses of the GLR-half theorems (Props/C12Glr.lean) on the real right-nulled table
    for c in glr:
        c.want_lexdet = True
    lf.run_cases(glr, parse_model=False, extra_requests=lambda c: ["glr cert", "cert viable"])
    # GLR counting solutions of a highly ambiguous input can exceed the 3 s watchdog without hanging
    rep.counters["glr_timeouts_that_were_only_slow"] = lf.confirm_timeouts(glr)
    check(rep, lr, glr, proofs_ok)


def wired(c):
    """False while the driver binary predates the dispatch lines `cert productive|viable|singlechar`, `charenv`
    (it answers bad-request): the new certificate checks are then skipped and counted, everything else runs as before"""
    return "bad-request" not in (c.extra[1], c.extra[3], c.extra[4])


def in_scope_quiet(c):
    return (c.extra[0] == "1" and tp.parse_dump(c.dump)["conflicts"] == 0 and
            (c.extra[1] == "1" or not wired(c)))


def check(rep, lr, glr, proofs_ok):
    rep.cov["rule"] = ("random reduced acyclic BNF grammars; LR: {LALR, LALR_PAGER}, in scope iff Lean rawDeterministic holds of the "
                       "dumped items (C01 scope) and Cert.productive of the dumped grammar; certC12 = cert c01 + cert viable executed on "
                       "every in-scope table; tparse run on the tokens of every input next to the oracle; GLR: acyclic, no ambiguous empty derivation (C03 scope); inputs: all strings up to "
                       "length 3, sentences, mutations, truncations, a foreign character inserted, each without and with "
                       "whitespace/newline/CRLF between tokens; expected position from an independent Earley viable-prefix oracle; "
                       "distinct = (grammar, settings, input)")
    def in_scope(c):
        if not (c.extra[0] == "1" and tp.parse_dump(c.dump)["conflicts"] == 0):
            return False
        if wired(c) and c.extra[1] != "1":
            # Cert.productive fails: a symbol derives no terminal string (F10 class) - outside the valid-prefix theorems
            rep.count("out_of_scope:unproductive(Cert.productive=0)")
            return False
        return True
    failures, corr_breaks = lf.evaluate(rep, lr, oracle, proofs_ok, PROP_MODULE, in_scope=in_scope)
    # hypotheses of C12_error_at_first_offending_token (certC12) on every in-scope real table, and tparse next to the oracle
    cert_fail, tlr_breaks = [], []
    for c in lr:
        if c.dump is None or not in_scope_quiet(c):
            continue
        if not wired(c):
            rep.count("certC12_not_evaluated(driver without `cert viable`)")
            continue
        ok = c.extra[2] == "1" and "=0" not in c.extra[3]
        if c.gram is not None and c.gram.layout is not None:
            # certC12 speaks about the main automaton of a grammar without a Layout rule (token level): Layout grammars
            # are decided by correspondence + the viable-prefix oracle only
            rep.count("layout_grammar(outside certC12):" + ("cert=1" if ok else "cert=0"))
            continue
        rep.count("certC12_" + ("pass" if ok else "FAIL:c01=" + c.extra[2] + " " + c.extra[3]))
        if not ok:
            cert_fail.append(c)
        n = len(c.inputs)
        rep.count("singlechar_" + ("pass" if c.extra[4] == "1" else "FAIL"))
        for (_, _, inp, _), ce in zip(c.inputs, c.extra[N_FIXED_EXTRA + n:N_FIXED_EXTRA + 2 * n]):
            has_ws = any(ch.isspace() for ch in inp)
            rep.count("byte_level_theorem_" + ("applies" if ce == "1" and c.extra[4] == "1" else
                                                "not_applicable:whitespace_in_input" if has_ws else "HYPOTHESIS_FAILS"))
        for k, ((_, _, _, meta), tl) in enumerate(zip(c.inputs, c.extra[N_FIXED_EXTRA:N_FIXED_EXTRA + n])):
            exp = meta["expect"]
            want = "accept" if exp is None else f"error {exp}"
            rep.count("tlr_compared")
            if tl != want:
                tlr_breaks.append((c, k, tl, want))
    rep.counters["certificate_failures"] = len(cert_fail)
    rep.counters["tlr_breaks"] = len(tlr_breaks)
    if not failures and not corr_breaks:
        if cert_fail:
            c = min(cert_fail, key=lambda c: len(c.text))
            rep.violation(dict(c.describe(), why="certC12 (Cert.structural/complete/acceptStop + Cert.viable) fails on the "
                               "compiler's table: hypotheses of C12_error_at_first_offending_token not met: c01=" + c.extra[2] +
                               " " + c.extra[3] + " -- the oracle found no input with a misplaced error",
                               kind="certificate", n_failures=len(cert_fail)), no_input=True)
        elif tlr_breaks:
            c, k, tl, want = min(tlr_breaks, key=lambda f: (len(f[0].text), len(f[0].inputs[f[1]][2])))
            rep.violation(dict(c.describe(k), why=f"token-level model tparse answers '{tl}', the viable-prefix oracle says "
                               f"'{want}' (the real parser agrees with the oracle)", kind="impl!=model",
                               n_breaks=len(tlr_breaks)), no_input=True)
    glr_cert_fail = []
    for c in glr:
        ex = getattr(c, "extra", None)
        if c.dump is None or not ex or len(ex) < 2:
            continue
        lay = c.gram is not None and c.gram.layout is not None
        ok = ("glr=1" in ex[0] and "completeRN=1" in ex[0] and ex[1].startswith("productive=1 anchored=1 nonempty=1")
              and "layoutsafe=FAIL" not in ex[0])
        rep.count("certC12glr(Cert.glr+completeRN+viable)" + ("_layout" if lay else "") + ("_pass" if ok else "_FAIL"))
        if not ok and not lay:
            glr_cert_fail.append(c)
    for c in glr:
        for k, a in (getattr(c, "lexdet", None) or {}).items():
            # inputs on which the byte-level GLR theorems (Props/C03Bytes.lean) apply with executable hypotheses only
            rep.count("lexdet_discharged:" + ("yes" if (" bytes=1" in a or " ws=1" in a) and "singlechar=1" in a else
                                              "no(layout rule)" if c.gram is not None and c.gram.layout is not None else
                                              "no(" + a[:60] + ")"))
    f_glr, _ = lf.evaluate(rep, glr, oracle, True, GLR_MODULE, compare_model=False)
    if glr_cert_fail and not f_glr and not rep.violations:
        c = min(glr_cert_fail, key=lambda c: len(c.text))
        rep.violation(dict(c.describe(), why="Cert.glr / Cert.completeRN / Cert.viable fails on the compiler's right-nulled table: hypotheses of "
                           "C12_glr_error_at_first_offending_token not met: " + c.extra[0] + " | " + c.extra[1] +
                           " -- the oracle found no input with a misplaced error", kind="certificate",
                           n_failures=len(glr_cert_fail)), no_input=True)
    for c in lr + glr:
        for (_, _, _, m) in c.inputs:
            rep.count("expect:" + ("sentence" if m["expect"] is None else "error"))
    rep.assumptions += ["GLR half: theorems of Props/C12Glr.lean over the engine model under the token-level lexer hypothesis LexDet "
                        "(single-character terminals here); the engine model is tied to the real GlrParser by C03's correspondence, "
                        "this check compares the real GLR errors with the viable-prefix oracle and runs the certificates"]


def replay(rep, path):
    p = json.load(open(path))
    build_harness()
    g = lf.parse_bnf(p["grammar"])
    inp = p.get("input", "")
    toks, offs = [], []
    inv = {c: t for t, c in g.terms.items()}
    b = 0
    for ch in inp:
        if ch in inv:
            toks.append(inv[ch]); offs.append(b)
        elif not ch.isspace():
            toks.append("?"); offs.append(b)
        b += len(ch.encode())
    end = (len(inp.rstrip().encode()), len(inp.encode()))
    algo = p.get("algo", "LR")
    c = lf.Case(p["grammar"], p["settings"].split(" "),
                [(algo, "0", inp, {"toks": toks, "expect": expected_error(g, toks), "offs": offs, "end": end})], gram=g)
    lf.apply_replay_history(c, p)
    if algo == "GLR":
        c.max_trees = 0      # parse-only: Forest::solutions() is exponential on highly ambiguous inputs and is not what C12 is about
        lf.run_cases([c], model=False)
        check(rep, [], [c], True)
    else:
        lf.run_cases([c], extra_requests=extra_requests)
        check(rep, [c], [], True)
