"""C12 — syntax errors point at the first offending token; sentences never error."""
import json
import random

from common import lean_obligations, build_harness
import lrfamily as lf
import treeparse as tp
import oracles
from gram import random_grammar, random_sentence, mutate, all_strings, earley_prefix

LEVEL = "proof"
PROP_MODULE = "Rustemo.Props.C12"
FOREIGN = "x"   # a character that is no terminal of the generated grammars (and not whitespace)


def render(rng, g, toks, ws):
    """returns (text, [byte offset of every token], byte offset of 'end of input' candidates)"""
    pool = [""] if ws == "none" else ["", " ", "  ", "\n", "\t", " \n ", "\r\n"]
    out = ""
    offs = []
    for t in toks:
        out += rng.choice(pool) if ws == "none" else lf.gap(rng, lf.WS_ATOMS, pool)
        offs.append(len(out.encode()))
        out += FOREIGN if t == "?" else g.terms[t]
    tail = rng.choice(pool[:3])
    end_before = len(out.encode())
    out += tail
    return out, offs, (end_before, len(out.encode()))


def expected_error(g, toks):
    """index of the first offending token (len(toks) = end of input); None if sentence"""
    if "?" in toks:
        j = toks.index("?")
        is_s, viable = earley_prefix(g, toks[:j])
        # tokens before the foreign one may already be offending
        return viable if viable < j else j
    is_s, viable = earley_prefix(g, toks)
    if is_s:
        return None
    return viable


def oracle(c):
    bad = []
    for k, ((algo, partial, inp, meta), res) in enumerate(zip(c.inputs, c.results)):
        data = inp.encode()
        exp = meta["expect"]
        kl = lf.klass(res)
        if exp is None:
            if kl != "ok":
                bad.append((k, f"sentence rejected: {res[:120]}"))
            continue
        if kl != "err":
            bad.append((k, f"non-sentence not rejected with an error: {res[:120]}"))
            continue
        f = res.split(" ")
        if f[1] != "expected":
            bad.append((k, f"error without position/expected list: {res[:120]}"))
            continue
        start = tp.parse_span(f[2])[0]
        kinds = [x for x in f[3].split(",") if x] if len(f) > 3 else []
        offs, (e0, e1) = meta["offs"], meta["end"]
        want = [offs[exp]] if exp < len(offs) else [e1]
        if start[0] not in want:
            bad.append((k, f"error reported at byte {start[0]}, first offending token {exp} starts at {want}"))
            continue
        m = oracles.check_pos(data, start)
        if m:
            bad.append((k, m))
            continue
        if not kinds:
            bad.append((k, "empty list of expected tokens"))
    return bad


def gen(rng, tier, algo, tt, n):
    cases = []
    tries = 0
    while len(cases) < n and tries < n * 60:
        tries += 1
        g = random_grammar(rng, p_empty=0.2)
        if g.undefined_symbols() or not g.all_productive() or g.is_cyclic():
            continue
        if algo == "GLR" and not g.in_glr_scope():
            continue
        alphabet = list(g.terms.keys())
        seen = set()
        strings = []

        def add(toks):
            if tuple(toks) not in seen and len(toks) <= 16:
                seen.add(tuple(toks))
                strings.append(list(toks))
        for s in all_strings(alphabet, 3):
            add(s)
        for _ in range(10):
            s = random_sentence(g, rng)
            if s is None:
                continue
            add(s)
            add(mutate(rng, s, alphabet))
            add(s[: rng.randint(0, len(s))])
            if s:
                t = list(s)
                t.insert(rng.randint(0, len(t)), "?")
                add(t)
        inputs = []
        for toks in strings:
            exp = expected_error(g, toks)
            for ws in ("none", "mixed"):
                text, offs, end = render(rng, g, toks, ws)
                inputs.append((algo, "0", text, {"toks": toks, "expect": exp, "offs": offs, "end": end}))
        cases.append(lf.Case(g.render(), [algo, tt] + ["-"] * 8, inputs, gram=g, tag="bnf"))
    return cases


def run(rep, tier, seed):
    rng = random.Random(seed)
    proofs_ok = lean_obligations(rep, PROP_MODULE)
    ok, log = build_harness()
    if not ok:
        rep.oblige("cargo build harness/dyn against /repo", False, log[-1500:])
        rep.violation({"broken": "harness build", "log": log[-3000:]}, no_input=True)
        return
    n = 80 if tier == "quick" else 800
    lr = gen(rng, tier, "LR", "LALR_PAGER", n) + gen(rng, tier, "LR", "LALR", n // 2)
    glr = gen(rng, tier, "GLR", "LALR_RN", n // 2)
    for c in glr:
        c.max_trees = 1
    lf.add_histories(rng, lr)
    lf.run_cases(lr, extra_requests=lambda c: ["rawdet"])
    lf.add_histories(rng, glr)
    lf.run_cases(glr, model=False)
    check(rep, lr, glr, proofs_ok)


def check(rep, lr, glr, proofs_ok):
    rep.cov["rule"] = ("random reduced acyclic BNF grammars; LR: {LALR, LALR_PAGER}, in scope iff Lean rawDeterministic holds of the "
                       "dumped items (C01 scope); GLR: acyclic, no ambiguous empty derivation (C03 scope); inputs: all strings up to "
                       "length 3, sentences, mutations, truncations, a foreign character inserted, each without and with "
                       "whitespace/newline/CRLF between tokens; expected position from an independent Earley viable-prefix oracle; "
                       "distinct = (grammar, settings, input)")
    lf.evaluate(rep, lr, oracle, proofs_ok, PROP_MODULE,
                in_scope=lambda c: c.extra[0] == "1" and tp.parse_dump(c.dump)["conflicts"] == 0)
    lf.evaluate(rep, glr, oracle, True, PROP_MODULE, compare_model=False)
    for c in lr + glr:
        for (_, _, _, m) in c.inputs:
            rep.count("expect:" + ("sentence" if m["expect"] is None else "error"))
    rep.assumptions += ["GLR half: oracle on implementation output only"]


def replay(rep, path):
    p = json.load(open(path))
    build_harness()
    g = lf.parse_bnf(p["grammar"])
    inp = p.get("input", "")
    toks, offs = [], []
    inv = {c: t for t, c in g.terms.items()}
    b = 0
    for ch in inp:
        if ch in inv:
            toks.append(inv[ch]); offs.append(b)
        elif not ch.isspace():
            toks.append("?"); offs.append(b)
        b += len(ch.encode())
    end = (len(inp.rstrip().encode()), len(inp.encode()))
    algo = p.get("algo", "LR")
    c = lf.Case(p["grammar"], p["settings"].split(" "),
                [(algo, "0", inp, {"toks": toks, "expect": expected_error(g, toks), "offs": offs, "end": end})], gram=g)
    lf.apply_replay_history(c, p)
    if algo == "GLR":
        c.max_trees = 1
        lf.run_cases([c], model=False)
        check(rep, [], [c], True)
    else:
        lf.run_cases([c], extra_requests=lambda c: ["rawdet"])
        check(rep, [c], [], True)
