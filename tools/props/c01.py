"""C01 — a deterministic LR parser accepts exactly the language of its grammar."""
import json
import random

from common import lean_obligations, build_harness
from gram import Oracle, Gram
import lrfamily as lf

LEVEL = "proof"
PROP_MODULE = "Rustemo.Props.C01"


def oracle_case(rep, c, only=None):
    """impl Ok <=> sentence, for raw-deterministic tables. Returns list of failing input indices."""
    bad = []
    for k, ((algo, partial, inp, meta), res) in enumerate(zip(c.inputs, c.results)):
        if only is not None and k != only:
            continue
        o = Oracle(c.gram, meta["toks"])
        is_sentence = o.sentence()
        ok = lf.klass(res) == "ok"
        rep.count("evaluations")
        rep.count("sentences" if is_sentence else "non_sentences")
        if ok != is_sentence:
            bad.append(k)
    return bad


def extra_requests(c):
    """rawdet, the C01 certificates, `tparse` on the tokens of every input, then the hypotheses of the byte/token
    simulation (C01_bytes_accept_exactly): `cert singlechar` once per table and `charenv` once per input (the match
    matrix of the REAL recognizers on this input is `charRecog`; whitespace skipping has nothing to skip)"""
    kinds = {t: i + 1 for i, t in enumerate(c.gram.terms)}
    rq = ["rawdet", "cert complete-parts", "cert c01"]
    for (_, _, _, meta) in c.inputs:
        ks = ",".join(str(kinds[t]) for t in meta["toks"]) or "-"
        rq.append("tlr " + ks)
    rq.append("cert singlechar")
    for (_, _, inp, _), mat in zip(c.inputs, c.matrices):
        rq.append(f"charenv {lf.hx(inp)} #{mat}")
    return rq


def run(rep, tier, seed):
    rng = random.Random(seed)
    proofs_ok = lean_obligations(rep, PROP_MODULE)
    ok, log = build_harness()
    if not ok:
        rep.oblige("cargo build harness/dyn against /repo", False, log[-1500:])
        rep.violation({"broken": "harness build", "log": log[-3000:]}, no_input=True)
        return
    n = 120 if tier == "quick" else 1500
    cases = lf.bnf_cases(rng, n, tts=("LALR", "LALR_PAGER"), algo="LR",
                         max_len=4 if tier == "quick" else 5, n_sent=8, n_mut=8)
    from gram import layered_grammar
    cases += lf.bnf_cases(rng, 250 if tier == "quick" else 3000, tts=("LALR", "LALR_PAGER"), algo="LR",
                          max_len=3 if tier == "quick" else 4, n_sent=12, n_mut=12, generator=layered_grammar)
    from gram import diamond_grammar, seq_grammar, twins_grammar, mutual_grammar
    cases += lf.bnf_cases(rng, 60 if tier == "quick" else 900, tts=("LALR", "LALR_PAGER"), algo="LR",
                          max_len=3, n_sent=14, n_mut=14, generator=mutual_grammar)
    cases += lf.bnf_cases(rng, 80 if tier == "quick" else 1200, tts=("LALR", "LALR_PAGER"), algo="LR",
                          max_len=3, n_sent=14, n_mut=14, generator=seq_grammar)
    cases += lf.bnf_cases(rng, 60 if tier == "quick" else 900, tts=("LALR", "LALR_PAGER"), algo="LR",
                          max_len=3, n_sent=12, n_mut=12, generator=twins_grammar)
    cases += lf.bnf_cases(rng, 100 if tier == "quick" else 1500, tts=("LALR", "LALR_PAGER"), algo="LR",
                          max_len=3, n_sent=12, n_mut=12, generator=diamond_grammar)
    from gram import permute_grammar, samerest_grammar
    cases += lf.bnf_cases(rng, 30 if tier == "quick" else 400, tts=("LALR", "LALR_PAGER"), algo="LR",
                          max_len=2, n_sent=10, n_mut=10, generator=samerest_grammar)
    cases += lf.bnf_cases(rng, 30 if tier == "quick" else 400, tts=("LALR", "LALR_PAGER"), algo="LR",
                          max_len=2, n_sent=10, n_mut=10, generator=permute_grammar)
    lf.run_cases(cases, extra_requests=extra_requests)
    check_cases(rep, cases, proofs_ok)


def check_cases(rep, cases, proofs_ok):
    corr_breaks = []
    tlr_breaks = []
    failures = []
    distinct = set()
    for c in cases:
        if c.dump is None:
            rep.count("grammar_rejected:" + " ".join(c.dump_ans.split(" ")[1:3]))
            continue
        rawdet = c.extra[0] == "1"
        d = lf.tp.parse_dump(c.dump)
        if not rawdet:
            rep.count("grammars_with_raw_conflicts(out of scope)")
            continue
        if d["conflicts"] != 0:
            # raw deterministic but cells conflicting: table invents actions -> C04 territory; still report
            failures.append((c, None, "table has conflicts although items/lookaheads are deterministic"))
            continue
        rep.count("grammars_in_scope:" + c.settings[1])
        if len(c.extra) > 2:
            certs_ok = c.extra[2] == "1" and "=0" not in c.extra[1]
            rep.count("certs_" + ("pass" if certs_ok else "FAIL:" + c.extra[1]))
            if not certs_ok:
                failures.append((c, None, "Cert.complete / Cert.structural fail on the compiler's table (hypotheses of "
                                          "C01_lr_accepts_exactly not met): " + c.extra[1]))
        # hypotheses of the byte-level theorem C01_bytes_accept_exactly (the lexer lemma)
        n = len(c.inputs)
        if len(c.extra) >= 4 + 2 * n and c.extra[3 + n] == "bad-request":
            rep.count("singlechar_not_evaluated(driver without `cert singlechar`)")
        elif len(c.extra) >= 4 + 2 * n:
            sc = c.extra[3 + n] == "1"
            rep.count("singlechar_" + ("pass" if sc else "FAIL"))
            if not sc:
                failures.append((c, None, "Cert.singleCharLexer fails on the compiler's table although every terminal of the "
                                          "generated grammar is one distinct ASCII character (hypothesis of "
                                          "C01_bytes_accept_exactly not met: sorted_terminals != terminals with actions, a "
                                          "shifted STOP, a missing state, ...)"))
            n_bad = 0
            for (_, _, inp, _), ce in zip(c.inputs, c.extra[4 + n:4 + 2 * n]):
                rep.count("charenv_" + ("pass" if ce == "1" else "FAIL"))
                n_bad += ce != "1"
            if n_bad and sc:
                failures.append((c, None, f"CharEnv fails on {n_bad} input(s): the real recognizers' match matrix differs from "
                                          "charRecog (starts_with of one character, STOP at the end) or whitespace would be "
                                          "skipped: hypothesis of C01_bytes_accept_exactly not met"))
        for k in oracle_case(rep, c):
            failures.append((c, k, "impl Ok != oracle sentence"))
        # token-level model (the one C01's theorems are about) next to the real parser
        for k, (r, tl) in enumerate(zip(c.results, c.extra[3:])):
            rep.count("tlr_compared")
            if (lf.klass(r) == "ok") != (tl == "accept"):
                tlr_breaks.append((c, k, tl))
        for k, (r, m) in enumerate(zip(c.results, c.model)):
            rep.count("correspondence_compared")
            if not lf.same_answer(r, m):
                corr_breaks.append((c, k))
            distinct.add((c.text, c.settings[1], c.inputs[k][2]))
    rep.counters["distinct_nontrivial"] = len(distinct)
    rep.cov["rule"] = ("random BNF grammars (1-4 nonterminals, <=3 alternatives, rhs 0-4, EMPTY, recursion of any kind) and layered "
                       "grammars (5-11 nonterminals, unit-rule chains joining at shared nonterminals, nullable leaves) and diamond grammars (2-3 unit-rule chains of different "
                       "lengths joining above a nullable/recursive leaf, extra contexts; LALR(1) by construction), seq grammars (sequences of "
                       "optional / nullable left- and right-recursive / list nonterminals over distinct terminals) and twins grammars "
                       "(nonterminals sharing a terminal prefix used in several contexts, directly or through a wrapper) "
                       "x {LALR, LALR_PAGER}; in scope iff Lean `Table.rawDeterministic` holds of the dumped items; inputs: all "
                       "strings up to the length bound over the grammar's terminals + random sentences + mutations; "
                       "distinct = (grammar, table type, input)")
    for c in cases[:3]:
        if c.dump is not None and c.results:
            rep.sample({"grammar": c.text, "settings": " ".join(c.settings), "input": c.inputs[len(c.inputs) // 2][2],
                        "impl": c.results[len(c.inputs) // 2][:200]})
    with_input = sorted([f for f in failures if f[1] is not None], key=lambda f: (len(f[0].text), len(f[0].inputs[f[1]][2])))
    cert_only = sorted([f for f in failures if f[1] is None], key=lambda f: len(f[0].text))
    rep.counters["certificate_failures"] = len(cert_only)
    for c, k, why in with_input[:3]:
        rep.violation(dict(c.describe(k), why=why, kind="impl!=oracle"))
    if not with_input:
        for c, k, why in cert_only[:1]:
            rep.violation(dict(c.describe(k), why=why + " -- no input found on which Ok/Err disagrees with the membership oracle",
                               kind="certificate", n_failures=len(cert_only)), no_input=True)
    if not failures:
        if corr_breaks:
            c, k = min(corr_breaks, key=lambda f: (len(f[0].text), len(f[0].inputs[f[1]][2])))
            rep.violation(dict(c.describe(k), why="correspondence corr:lr broken (model LR.parse != real LRParser); "
                               "no input found on which Ok/Err disagrees with the membership oracle",
                               kind="impl!=model", n_breaks=len(corr_breaks)), no_input=True)
        elif tlr_breaks:
            c, k, tl = tlr_breaks[0]
            rep.violation(dict(c.describe(k), why="correspondence corr:tlr broken (token-level model tparse answers " + tl +
                               "); no input found on which Ok/Err disagrees with the membership oracle",
                               kind="impl!=model", n_breaks=len(tlr_breaks)), no_input=True)
        elif not proofs_ok:
            rep.violation({"why": "Lean obligations of Rustemo.Props.C01 no longer check",
                           "obligations": [o for o in rep.obligations if not o[1]]}, no_input=True)
    rep.counters["corr_breaks"] = len(corr_breaks)
    rep.counters["oracle_failures"] = len(failures)


def replay(rep, path):
    p = json.load(open(path))
    ok, log = build_harness()
    from gram import Gram
    # rebuild abstract grammar from text
    g = parse_bnf(p["grammar"])
    toks = [t for ch in p["input"] if not ch.isspace() for t, c in g.terms.items() if c == ch]
    c = lf.Case(p["grammar"], p["settings"].split(" "), [(p.get("algo", "LR"), p.get("partial", "0"), p["input"], {"toks": toks})], gram=g)
    kinds = {t: i + 1 for i, t in enumerate(g.terms)}
    lf.apply_replay_history(c, p)
    lf.run_cases([c], extra_requests=extra_requests)
    check_cases(rep, [c], True)


def parse_bnf(text):
    prods = []
    terms = {}
    mode = "rules"
    for stmt in text.replace("\n", " ").split(";"):
        stmt = stmt.strip()
        if stmt.startswith("terminals"):
            mode = "terms"
            stmt = stmt[len("terminals"):].strip()
        if not stmt:
            continue
        l, r = stmt.split(":", 1)
        if mode == "rules":
            for alt in r.split("|"):
                syms = [s for s in alt.split() if s != "EMPTY"]
                prods.append((l.strip(), syms))
        else:
            terms[l.strip()] = r.strip().strip("'")
    return Gram(prods, terms)
