"""C03 — the GLR forest contains exactly the derivation trees of the input."""
import json
import random

from common import lean_obligations, build_harness, hx, run_model
from gram import Oracle, CharOracle, Gram, random_grammar, all_strings, random_sentence, mutate
import lrfamily as lf
import treeparse as tp

LEVEL = "proof"
PROP_MODULE = "Rustemo.Props.C03"

LIT = [
    "S: S S | Ta;\nterminals\nTa: 'a';\n",
    "E: E Tp E | E Tm E | Tn;\nterminals\nTp: '+';\nTm: '*';\nTn: 'n';\n",
    "S: Ta S Ta | Tb S Tb | Ta | Tb | EMPTY;\nterminals\nTa: 'a';\nTb: 'b';\n",            # palindromes (non-LR)
    "S: A B;\nA: Ta A | EMPTY;\nB: Ta B | EMPTY;\nterminals\nTa: 'a';\n",
    "S: Ta S A | EMPTY;\nA: Ta | EMPTY;\nterminals\nTa: 'a';\n",                                # right nullable
    "S: A S Tb | Ta;\nA: EMPTY;\nterminals\nTa: 'a';\nTb: 'b';\n",                               # hidden left recursion
    "S: S S S | S S | Ta;\nterminals\nTa: 'a';\n",
    "S: Ta B C;\nB: Tb | EMPTY;\nC: Tc | EMPTY;\nterminals\nTa: 'a';\nTb: 'b';\nTc: 'c';\n",
]


# ---- shape strings "(N3(T1@0)(N2))" -----------------------------------------------------------

def parse_shape(s, i=0):
    assert s[i] == "("
    kind = s[i + 1]
    j = i + 2
    num = ""
    while s[j].isdigit():
        num += s[j]
        j += 1
    if kind == "T":
        assert s[j] == "@"
        j += 1
        st = ""
        while s[j].isdigit():
            st += s[j]
            j += 1
        assert s[j] == ")"
        return ("T", int(num), int(st)), j + 1
    cs = []
    while s[j] == "(":
        c, j = parse_shape(s, j)
        cs.append(c)
    assert s[j] == ")"
    return ("N", int(num), tuple(cs)), j + 1


def has_leaf(t):
    return t[0] == "T" or any(has_leaf(c) for c in t[2])


def elide_max(t):
    """normal form: trailing children with empty yield dropped, recursively"""
    if t[0] == "T":
        return t
    cs = [elide_max(c) for c in t[2]]
    while cs and not has_leaf(cs[-1]):
        cs.pop()
    return ("N", t[1], tuple(cs))


def render_shape(t):
    if t[0] == "T":
        return f"(T{t[1]}@{t[2]})"
    return "(N" + str(t[1]) + "".join(render_shape(c) for c in t[2]) + ")"


def oracle_tree_to_shape(g, t, kinds):
    if t[0] == "T":
        return ("T", kinds[t[1]], t[2])
    return ("N", t[1] + 1, tuple(oracle_tree_to_shape(g, c, kinds) for c in t[2]))


def from_full(t):
    """full tree text (treeparse dict) -> shape tuple"""
    if t["k"] == "T":
        return ("T", t["kind"], t["span"][0][0])
    return ("N", t["prod"], tuple(from_full(c) for c in t["cs"]))


def oracle(c):
    g = c.gram
    kinds = {t: i + 1 for i, t in enumerate(g.terms)}
    d = tp.parse_dump(c.dump)
    prods, nterms = lf.grammar_symbols(d)
    nullable_syms = {d["nterms"] + 0}  # EMPTY
    nullable_syms |= {d["nterms"] + nt for nt, f in enumerate(d["firsts"][d["nterms"]:]) if d["empty"] in f}
    bad = []
    for k, ((algo, partial, inp, meta), res) in enumerate(zip(c.inputs, c.results)):
        if meta.get("job") != "std":
            continue
        toks = meta["toks"]
        chars = meta.get("chars", False)     # lexically ambiguous family: derivations over every tokenization
        o = CharOracle(g, inp, cap=10 ** 12) if chars else Oracle(g, toks, cap=10 ** 12)
        want = o.ntrees()
        kl = lf.klass(res)
        if want >= 10 ** 12:
            continue    # counting capped: not comparable
        if want == 0:
            if kl != "err":
                bad.append((k, f"non-sentence accepted or crashed: {res[:100]}"))
            continue
        if kl == "hang" and want > 10 ** 5:
            # Forest::solutions() is not memoised: counting >10^5 trees can exceed the watchdog (more so on a loaded
            # machine); the parse itself is polynomial. Inconclusive, not a rejection.
            continue
        if kl != "ok":
            bad.append((k, f"sentence with {want} derivation trees rejected: {res[:100]}"))
            continue
        f = res.split(" ")
        n = int(f[1])
        flags = dict(x.split("=") for x in f[2:5])
        if n != want:
            bad.append((k, f"solutions() = {n}, independent derivation count = {want}"))
            continue
        if flags.get("iter_same") != "1" or int(flags.get("iter_count", "-1")) != n or flags.get("beyond_none") != "1":
            bad.append((k, f"iteration/index API inconsistent: {f[2:5]}"))
            continue
        body = res.split(" trees", 1)[1]
        try:
            trees = [tp.parse_tree_text(x) for x in body.split(" ;") if x.strip()]
        except Exception as e:
            bad.append((k, f"unparsable trees: {e}"))
            continue
        shapes = []
        okv = True
        for t in trees:
            if not tp.valid_elided(t, prods, nterms, d["start"], nullable_syms):
                okv = False
                break
            if chars:
                if "".join(g.terms[list(g.terms)[l["kind"] - 1]] for l in tp.leaves(t)) != inp:
                    okv = False
                    break
            elif [l["kind"] for l in tp.leaves(t)] != [kinds[x] for x in toks]:
                okv = False
                break
            shapes.append(render_shape(elide_max(from_full(t))))
        if not okv:
            bad.append((k, "a forest tree is not a derivation tree of the input (modulo elided nullable tails)"))
            continue
        if len(set(shapes)) != len(shapes):
            bad.append((k, "the same derivation tree is enumerated twice"))
            continue
        if want <= 64:
            exp = {render_shape(elide_max(oracle_tree_to_shape(g, t, kinds)))
                   for t in o.trees(g.nts[0], 0, len(inp) if chars else len(toks), limit=200)}
            if set(shapes) != exp:
                bad.append((k, f"forest trees differ from the derivation trees: missing {sorted(exp - set(shapes))[:2]} "
                               f"extra {sorted(set(shapes) - exp)[:2]}"))
    return bad


def known_class(c, k, why):
    """F25: tree loss (only) under right-nulled folding, grammar with a production ending in >= 2 nullable symbols"""
    if k is None or c.gram is None or not why.startswith("solutions() = "):
        return None
    try:
        n = int(why.split("=")[1].split(",")[0])
        want = int(why.rsplit("=", 1)[1])
    except Exception:
        return None
    two_nullable_tail = any(len(rhs) >= 2 and all(s in c.gram.nullable for s in rhs[-2:]) for _, rhs in c.gram.prods)
    if n < want and two_nullable_tail:
        return "F25-glr-right-nulled-fold-loses-trees"
    return None


def gen(rng, tier):
    n = 250 if tier == "quick" else 2500
    maxlen = 5 if tier == "quick" else 6
    cases = []
    grams = [lf.parse_bnf(t) for t in LIT]
    tries = 0
    while len(grams) < n + len(LIT) and tries < n * 80:
        tries += 1
        g = random_grammar(rng, p_empty=0.2, max_nts=3, nterm=2)
        if not g.in_glr_scope():
            continue
        grams.append(g)
    for g in grams:
        if not g.in_glr_scope():
            continue
        alphabet = list(g.terms.keys())
        strings = []
        seen = set()
        for s in all_strings(alphabet, maxlen if len(alphabet) <= 2 else maxlen - 1):
            seen.add(tuple(s)); strings.append(s)
        for _ in range(12):
            s = random_sentence(g, rng)
            if s is not None and tuple(s) not in seen and len(s) <= 9:
                seen.add(tuple(s)); strings.append(s)
        inputs = []
        for toks in strings:
            text = "".join(g.terms[t] for t in toks)
            inputs.append(("GLR", "0", text, {"toks": toks, "job": "std"}))
        c = lf.Case(g.render(), ["GLR", "LALR_RN"] + ["-"] * 8, inputs, gram=g, tag="glr")
        cases.append(c)
    # lexically ambiguous family: overlapping string terminals ('a', 'aa', 'ab', 'b', ...) with most-specific, longest-match
    # and grammar-order all switched OFF, so that the forest must hold the derivations over EVERY tokenization (heads of
    # one shift round sit at different input positions)
    lits = ["a", "aa", "ab", "b", "ba", "aaa"]
    n_lex = 40 if tier == "quick" else 400
    tries = 0
    made = 0
    lexlit = [
        "S: S T | T;\nT: A | B;\nterminals\nA: 'a';\nB: 'aa';\n",
        "S: T S | T;\nT: A | B | C;\nterminals\nA: 'a';\nB: 'ab';\nC: 'b';\n",
        "S: A S B | C | EMPTY;\nterminals\nA: 'a';\nB: 'b';\nC: 'ab';\n",
        "S: X X X | X X;\nX: A | B | C;\nterminals\nA: 'a';\nB: 'aa';\nC: 'aaa';\n",
        "S: L R;\nL: L A | A;\nR: B R | B | C;\nterminals\nA: 'a';\nB: 'ab';\nC: 'b';\n",
        # syntactic AND lexical ambiguity at once: two terminals matching the same text where stacks merge
        "S: S P S | A | B;\nterminals\nP: 'b';\nA: 'a';\nB: 'a';\n",
        "S: S S | A | B;\nterminals\nA: 'a';\nB: 'aa';\n",
    ]
    for text in lexlit:
        g = lf.parse_bnf(text)
        inputs = [("GLR", "0", "".join(s), {"toks": [], "chars": True, "job": "std"})
                  for s in all_strings(["a", "b"], 6 if tier == "quick" else 8)]
        cases.append(lf.Case(g.render(), ["GLR", "LALR_RN", "-", "-", "0", "0", "0", "-", "-", "-"], inputs, gram=g, tag="glr-lexamb"))
    while made < n_lex and tries < n_lex * 80:
        tries += 1
        g0 = random_grammar(rng, p_empty=0.15, max_nts=3, nterm=3)
        if not g0.in_glr_scope() or len(g0.terms) < 2:
            continue
        pick = rng.sample(lits, len(g0.terms))
        g = Gram(g0.prods, {t: pick[i] for i, t in enumerate(g0.terms)})
        if not g.in_glr_scope():
            continue
        made += 1
        inputs = []
        for s in all_strings(["a", "b"], 5 if tier == "quick" else 6):
            text = "".join(s)
            inputs.append(("GLR", "0", text, {"toks": [], "chars": True, "job": "std"}))
        c = lf.Case(g.render(), ["GLR", "LALR_RN", "-", "-", "0", "0", "0", "-", "-", "-"], inputs, gram=g, tag="glr-lexamb")
        cases.append(c)
    return cases


def forest_cases(cases):
    """second pass: forest structure jobs for accepted inputs with a moderate number of solutions"""
    out = []
    for c in cases:
        if c.dump is None:
            continue
        sel = []
        for (algo, partial, inp, meta), res in zip(c.inputs, c.results):
            if lf.klass(res) == "ok" and 1 <= int(res.split(" ")[1]) <= 3000:
                sel.append(("GLR", "0", inp, {"toks": meta["toks"], "job": "forest"}))
        if sel:
            fc = lf.Case(c.text, c.settings, sel, gram=c.gram, tag="forest")
            fc.max_trees = 99999
            out.append(fc)
    return out


def forest_correspondence(rep, fcases):
    """real Forest::solutions/get_tree vs the Lean enumeration model on the real SPPF"""
    from common import run_model
    reqs, index = [], []
    for c in fcases:
        for k, res in enumerate(c.results):
            if not res.startswith("ok ") or " forest " not in res:
                continue
            body = res.split(" forest ", 1)[1]
            dump, trees = body.split(" @trees", 1)
            reqs.append(["forest " + dump])
            index.append((c, k, res.split(" ")[1], trees.strip()))
    breaks = []
    if reqs:
        outs = run_model(reqs, tag="forest")
        for (c, k, n, trees), o in zip(index, outs):
            rep.count("forest_compared")
            ans = o[0]
            f = ans.split(" ")
            mtrees = ans.split(" trees", 1)[1].strip() if " trees" in ans else ""
            if f[0] != n or mtrees.replace(" ", "") != trees.replace(" ", ""):
                breaks.append((c, k, ans[:300]))
            else:
                if "wf=1" not in ans:
                    rep.count("forest_not_wellformed(hypothesis of C03_forest_enum fails)")
                if "all=1" not in ans:
                    rep.count("forest_get_differs_from_allTrees")
    return breaks


# ---- Tie A for the GSS engine: real GlrParser vs the Lean engine model (Model/Glr.lean, driver command `glr`) ------------

def glr_model_answers(cases):
    """asks the Lean engine model for the answer line of every GLR input of the cases (same request the harness job
    stands for: partial flag, input, max_trees, the match matrix the harness computed); stores them in case.model"""
    reqs, idx = [], []
    for c in cases:
        c.model = ["skipped"] * len(c.inputs)
        if c.dump is None or not c.results:
            continue
        rq = ["load " + c.dump]
        ks = []
        for k, ((algo, partial, inp, _m), mat) in enumerate(zip(c.inputs, c.matrices)):
            if algo != "GLR" or c.results[k].startswith("skipped") or c.results[k] in ("notable", "harness-crash"):
                continue
            ks.append(k)
            rq.append(f"glr {partial} {hx(inp)} {getattr(c, 'max_trees', 64)} #{mat}")
        reqs.append(rq)
        idx.append((c, ks))
    if reqs:
        outs = run_model(reqs, tag="glr")
        for (c, ks), o in zip(idx, outs):
            for k, a in zip(ks, o[1:]):
                c.model[k] = a
    return cases


def engine_correspondence(rep, cases, name="glr-engine"):
    """every answer line of the real GlrParser (Ok/Err, solutions(), every printed tree with all spans, iteration flags,
    error position and expected set; for forest jobs the whole SPPF dump incl. sharing) must equal the model's"""
    breaks = []
    wired = False
    for c in cases:
        if c.dump is None or not getattr(c, "model", None):
            continue
        for k, (r, m) in enumerate(zip(c.results, c.model)):
            if m == "skipped":
                continue
            if m == "bad-request":
                rep.count(name + "_model_not_wired")
                continue
            wired = True
            if r == "timeout" and m.startswith("ok "):
                # solutions() / get_tree of the implementation are exponential in the forest depth (no memoisation);
                # the model counts on the graph.  A watchdog timeout of the real run on a huge forest is not a difference.
                try:
                    big = m == "ok parse-only" or int(m.split(" ")[1]) > 50000
                except Exception:
                    big = False
                if big:
                    rep.count(name + "_impl_timeout_on_huge_forest(not compared)")
                    continue
            rep.count(name + "_compared")
            if r.startswith("ok ") and r != "ok parse-only" and int(r.split(" ")[1]) > 1:
                rep.count(name + "_compared_ambiguous")
            if not lf.same_answer(r, m):
                breaks.append((c, k))
    if not wired and any(c.dump is not None for c in cases):
        rep.notes.append("driver does not answer `glr` requests (engine model not wired into Main.lean): " + name +
                         " correspondence not run")
    return breaks


def known_oracle(c):
    for (_, _, _, m) in c.inputs:
        m["job"] = "std"
    return oracle(c)


def run(rep, tier, seed):
    rng = random.Random(seed)
    proofs_ok = lean_obligations(rep, PROP_MODULE)
    ok, log = build_harness()
    if not ok:
        rep.oblige("cargo build harness/dyn against /repo", False, log[-1500:])
        rep.violation({"broken": "harness build", "log": log[-3000:]}, no_input=True)
        return
    cases = gen(rng, tier)
    for fc in lf.replay_known(rep, "C03", known_oracle):
        cases.insert(0, fc)
    lf.add_histories(rng, cases)
    for c in cases:
        c.want_nodup = True
    lf.run_cases(cases, model=True, extra_requests=lambda c: ["cover 0 0 1", "glr cert"], parse_model=True)
    cases += directed(rep, cases, rng)
    fcases = forest_cases(cases)
    lf.run_cases(fcases, model=False)
    glr_model_answers(fcases)
    witness_n2(rep)
    ecases = engine_only_cases(rng, tier)
    lf.run_cases(ecases, model=True, extra_requests=lambda c: ["glr cert"], parse_model=False)
    glr_model_answers(ecases)
    check(rep, cases, fcases, proofs_ok, ecases)


def witness_n2(rep):
    """C03-N2 (known finding): the witness is judged against its hand-derived number of derivations (two tokenizations, one
    derivation each); a different count than the recorded loss is reported as an ordinary violation"""
    from common import load_findings
    f = next((x for x in load_findings() if x.get("key") == "C03-N2-frontier-key-after-whitespace"), None)
    if f is None:
        return
    w = f["witness"]
    c = lf.Case(w["grammar"], w["settings"].split(" "), [("GLR", "0", w["input"], {})], gram=None, tag="finding:" + f["key"])
    c.max_trees = 8
    lf.run_cases([c], model=True, parse_model=True)
    res = c.results[0] if c.results else ""
    try:
        n = int(res.split(" ")[1]) if res.startswith("ok ") else None
    except ValueError:
        n = None
    rep.count("witness_C03-N2_solutions:" + str(n))
    if c.model and c.model[0] != res:
        rep.notes.append("C03-N2 witness: engine model and implementation answer differently: " + c.model[0][:80] + " / " + res[:80])
    if n == w["expected_solutions"]:
        if f["status"] == "known":
            rep.notes.append("known finding C03-N2 no longer reproduces on its witness")
    elif f["status"] == "known" and n == 1:
        rep.known_finding(f["key"], f["what"][:300])
    else:
        rep.violation(dict(c.describe(0), kind="impl!=oracle", why=f"the input has {w['expected_solutions']} derivations (two tokenizations), "
                           f"the GLR parser answers: {res[:120]}"))


def engine_only_cases(rng, tier):
    """families that only feed the engine correspondence (Tie A) and the certificate (Tie B), not the derivation oracle:
    whitespace between tokens (default skipping), Layout rules (whitespace / line comments / nested comments: the nested LR
    layout parser inside find_lookaheads), partial parsing on and off, all three table types"""
    n = 6 if tier == "quick" else 40
    out = []
    for layout, ws in ((None, ("none", "mixed")), ("ws", ("mixed",)), ("comments", ("mixed", "layout")),
                       ("nested", ("mixed", "layout"))):
        kw = dict(unicode=(layout is None), layout=layout, p_empty=0.25)
        tts = ("LALR_RN",) if layout in (None, "ws") else ("LALR_RN", "LALR_PAGER")
        cs = lf.bnf_cases(rng, n, tts=tts, algo="GLR", max_len=3, n_sent=8, n_mut=3, ws=ws, gen_kw=kw,
                          partial=("0", "1"))
        for c in cs:
            c.max_trees = 8
            c.tag = "engine-only:" + str(layout)
        out += cs
    return out


def cert_answer(c):
    """answer of `glr cert` (Cert.glr of Model/GlrCert.lean: hypothesis of C03_engine_sound / C03_engine_no_panic) or None"""
    for x in getattr(c, "extra", None) or []:
        if x.startswith("cert "):
            return x
    return None


def cert_failures(cases):
    return [c for c in cases if c.dump is not None and cert_answer(c) is not None and
            (" glr=1" not in " " + cert_answer(c) or "layoutsafe=FAIL" in cert_answer(c) or
             (c.settings[1] == "LALR_RN" and "completeRN=0" in cert_answer(c)))]


def cover_failures(cases):
    return [c for c in cases if c.dump is not None and getattr(c, "extra", None) and not c.extra[0].startswith("ok")]


def directed(rep, cases, rng):
    """The table-side premise of GLR completeness is the right-nulled certificate (`Cover.check` with rn: every cell
    holds exactly the canonical actions plus every right-nulled reduction, C04_cover_sound).  For a grammar whose RN
    table fails it, search deeper (all strings to length 8 over its alphabet, capped) for an input that loses a tree."""
    out = []
    for c in sorted(cover_failures(cases), key=lambda c: len(c.text))[:6]:
        g = c.gram
        alphabet = list(g.terms.keys())
        inputs, seen = [], {tuple(m["toks"]) for (_, _, _, m) in c.inputs}
        for s in all_strings(alphabet, 8 if len(alphabet) <= 2 else 6 if len(alphabet) <= 3 else 5):
            if tuple(s) not in seen and len(inputs) < 4000:
                inputs.append(("GLR", "0", "".join(g.terms[t] for t in s), {"toks": s, "job": "std"}))
        if inputs:
            d = lf.Case(c.text, c.settings, inputs, gram=g, tag="directed")
            d.extra = ["ok (directed search case)"]
            out.append(d)
    if out:
        lf.run_cases(out, model=False)
        glr_model_answers(out)
        for d in out:
            d.extra = ["ok (directed search case)"]
    return out


def check(rep, cases, fcases, proofs_ok, ecases=()):
    rep.cov["rule"] = ("literature grammars (ambiguous, palindromes, hidden left recursion, right-nullable) + random grammars in scope "
                       "(acyclic, no ambiguous empty derivation; ambiguous / non-LR / nullable) with the RN table; inputs: all strings up "
                       "to the length bound + sentences; per input: solutions() vs an independent derivation counter, every enumerated "
                       "tree valid modulo elision and distinct, tree set = derivation tree set (<= 64 trees), by-index = by-iteration, "
                       "None beyond solutions(); every RN table must pass the Lean certificate Cover.check (exactly the canonical "
                       "actions plus every right-nulled reduction), a failing table triggers a directed deeper input search; second pass: the real SPPF (runtime hook) is loaded into the Lean enumeration model "
                       "and solutions/get_tree compared; EVERY input (incl. the forest jobs and the directed search) is also run "
                       "through the Lean model of the GSS engine (Model/Glr.lean: frontiers, pending reductions in the real order, "
                       "right-nulled reductions, the fold, shifter, accept/error) and the answer lines are compared textually: "
                       "Ok/Err, solutions(), every printed tree with all spans, error position and expected set, and for the forest "
                       "jobs the whole SPPF dump (sharing structure, node numbering of the hook); engine-only families (no "
                       "derivation oracle): whitespace between tokens, Layout rules (whitespace / comments / nested comments), "
                       "partial parsing, LALR_RN and LALR_PAGER tables; EVERY real table of the run must pass the Lean "
                       "certificate Cert.glr (hypothesis of the engine theorems); distinct = (grammar, input)")
    failures, _ = lf.evaluate(rep, cases, oracle, proofs_ok, PROP_MODULE, compare_model=False, known_class=known_class)
    breaks = forest_correspondence(rep, fcases)
    rep.counters["forest_corr_breaks"] = len(breaks)
    ecases = list(ecases)
    ebreaks = (engine_correspondence(rep, cases) + engine_correspondence(rep, fcases, name="glr-engine-forest") +
               engine_correspondence(rep, ecases, name="glr-engine-ws-layout-partial"))
    rep.counters["engine_corr_breaks"] = len(ebreaks)
    # per-input certificate of `C03_engine_no_duplicates_from_poss_facts`: PossFacts + repetition-free roots + acyclic unfolding
    # of the MODEL's result graph (which the engine correspondence ties to the real parser's answer, tree by tree)
    nodup_fail = []
    for c in cases:
        for k, a in (getattr(c, "nodup", None) or {}).items():
            if not a.startswith("nodup "):
                rep.count("nodup_cert:" + a[:20])
            elif a == "nodup na":
                rep.count("nodup_cert:na(no ok result)")
            elif a == "nodup possfacts=1 roots=1 acyclic=1":
                rep.count("nodup_cert:pass")
            elif "acyclic=0" in a:
                rep.count("nodup_cert:cyclic(outside the theorem)")
            else:
                rep.count("nodup_cert:FAIL")
                nodup_fail.append((c, k, a))
    rep.counters["nodup_cert_failures"] = len(nodup_fail)
    amb = sum(1 for c in cases for r in c.results if r.startswith("ok ") and int(r.split(" ")[1]) > 1)
    rep.counters["ambiguous_inputs"] = amb
    rep.counters["sentences"] = sum(1 for c in cases for r in c.results if r.startswith("ok "))
    cf = cover_failures(cases)
    rep.counters["rn_tables_certified"] = sum(1 for c in cases if c.dump is not None and getattr(c, "extra", None)
                                               and c.extra[0].startswith("ok pairs"))
    rep.counters["rn_certificate_failures"] = len(cf)
    if cf and not failures:
        c = min(cf, key=lambda c: len(c.text))
        rep.violation(dict(c.describe(), why="the right-nulled table of this grammar fails the Lean certificate Cover.check "
                           "(rn): " + c.extra[0] + " -- GLR completeness is no longer shown for it; the directed search "
                           "(all strings to length 5-8) found no input that loses a tree", kind="certificate",
                           n_failures=len(cf)), no_input=True)
    # Tie B for the engine theorems: Cert.glr (nullable ranking, structural certificate with right-nulled reduce entries,
    # accessing symbols, Cert.total) evaluated by the driver on EVERY real table of this run
    certf = cert_failures(list(cases) + ecases)
    for c in list(cases) + ecases:
        a = cert_answer(c)
        if c.dump is None or a is None:
            continue
        rep.count("glr_cert_pass" if " glr=1" in a else "glr_cert_FAIL")
        if "completeRN=" in a:
            # hypothesis of C03_engine_reduction_closure / C03_engine_complete; right-nulled tables must pass, plain LALR tables cannot
            rep.count(("completeRN_pass:" if "completeRN=1" in a else "completeRN_fail:") + c.settings[1])
        ls = a.rsplit("layoutsafe=", 1)[1].split(" ")[0] if "layoutsafe=" in a else "?"
        rep.count("layoutsafe:" + {"none": "no Layout rule (void)", "cert": "Cert.glrLayout holds",
                                   "FAIL": "Cert.glrLayout FAILS"}.get(ls, ls))
    rep.counters["glr_certificate_failures"] = len(certf)
    if certf and not failures:
        c = min(certf, key=lambda c: len(c.text))
        rep.violation(dict(c.describe(), why="the table of this grammar fails the Lean certificate Cert.glr / Cert.glrLayout (hypotheses "
                           "of C03_engine_sound / C03_engine_no_panic_certified; for LALR_RN tables also Cert.completeRN, hypothesis of "
                           "C03_engine_reduction_closure / C03_engine_complete): " + cert_answer(c) + " -- soundness and panic freedom "
                           "of the GLR engine are no longer shown for it; no failing input was found", kind="certificate",
                           n_failures=len(certf)), no_input=True)
    if nodup_fail and not failures:
        c, k, a = min(nodup_fail, key=lambda f: (len(f[0].text), len(f[0].inputs[f[1]][2])))
        rep.violation(dict(c.describe(k), why="the result graph of the engine model fails the per-input certificate of "
                           "C03_engine_no_duplicates_from_poss_facts (a possibility list with a repeated node, two terminal nodes, or two "
                           "nodes of one production with prefix-comparable children; or a repeated root): " + a + " -- 'each tree once' is "
                           "no longer shown for this input; the derivation oracle found no duplicated tree", kind="certificate",
                           n_failures=len(nodup_fail)), no_input=True)
    if breaks and not failures and not cf:
        c, k, ans = breaks[0]
        rep.violation(dict(c.describe(k), why="correspondence corr:forest broken (Lean Forest.getTree/solutions != real "
                           "Forest::get_tree/solutions on the dumped SPPF); the derivation oracle found no failing input",
                           model=ans, kind="impl!=model", n_breaks=len(breaks)), no_input=True)
    if ebreaks and not failures and not cf:
        c, k = min(ebreaks, key=lambda f: (len(f[0].text), len(f[0].inputs[f[1]][2])))
        rep.violation(dict(c.describe(k), why="correspondence corr:glr-engine broken (Lean model of the GSS engine, Model/Glr.lean "
                           "`Glr.parse`, != real GlrParser::parse on the same table, input and match matrix); the derivation "
                           "oracle found no failing input", kind="impl!=model", n_breaks=len(ebreaks)), no_input=True)
    rep.assumptions += ["the GSS engine is modelled (Model/Glr.lean) and tied to the code by correspondence on every input; proved of "
                        "the model: soundness modulo elision, no panic, see notes/Glr.md; engine completeness is a theorem under LexDet; "
                        "duplicate-freeness is a theorem from PossFacts, which the driver evaluates on the model's result graph of every "
                        "input (`glr nodup`); both are additionally decided by the derivation oracle on the generated cases"]


def replay(rep, path):
    p = json.load(open(path))
    build_harness()
    g = lf.parse_bnf(p["grammar"])
    inp = p.get("input", "")
    c = lf.Case(p["grammar"], p["settings"].split(" "), [("GLR", "0", inp, {"toks": lf.toks_of_input(g, inp), "job": "std"})], gram=g)
    lf.run_cases([c], model=True, extra_requests=lambda c: ["cover 0 0 1", "glr cert"], parse_model=True)
    f = forest_cases([c])
    lf.run_cases(f, model=False)
    glr_model_answers(f)
    check(rep, [c], f, True)
