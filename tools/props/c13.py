"""C13 — spans and positions faithfully locate every tree node in the input."""
import json
import random

from common import lean_obligations, build_harness
import lrfamily as lf
import treeparse as tp
import oracles

LEVEL = "proof"
PROP_MODULE = "Rustemo.Props.C13"


def oracle(c):
    bad = []
    for k, ((algo, partial, inp, meta), res) in enumerate(zip(c.inputs, c.results)):
        if lf.klass(res) != "ok":
            continue
        try:
            if algo == "LR":
                trees = [tp.parse_tree_text(res[3:])]
            else:
                body = res.split(" trees", 1)[1]
                trees = [tp.parse_tree_text(x) for x in body.split(" ;") if x.strip()]
        except Exception as e:
            bad.append((k, f"unparsable answer: {e}"))
            continue
        for t in trees:
            probs = oracles.span_oracle(inp, t)
            if probs:
                bad.append((k, "; ".join(probs[:3])))
                break
    return bad


def known_class(c, k, why):
    """F20: GLR, ambiguous forest, nullable nonterminal, boundary mismatch against an empty-containing child"""
    if c.settings[0] != "GLR" or k is None:
        return None
    res = c.results[k]
    try:
        nsol = int(res.split(" ")[1])
    except Exception:
        return None
    if nsol > 1 and c.gram is not None and c.gram.nullable and ("starts at" in why or "ends at" in why):
        return "F20-glr-shared-span-ambiguous-nullable"
    return None


def gen(rng, tier):
    n = 80 if tier == "quick" else 800
    kw = dict(unicode=True, p_empty=0.3)
    cases = lf.bnf_cases(rng, n, tts=("LALR_PAGER",), algo="LR", max_len=3, n_sent=12, n_mut=4,
                         ws=("none", "mixed"), gen_kw=kw)
    glr = lf.bnf_cases(rng, n // 2, tts=("LALR_RN",), algo="GLR", max_len=3, n_sent=12, n_mut=4,
                       ws=("mixed",), gen_kw=kw, glr_scope=True)
    # the LR parser on a right-nulled table (selectable): shorter reductions, same span rules
    cases += lf.bnf_cases(rng, max(8, n // 6), tts=("LALR_RN",), algo="LR", max_len=3, n_sent=12, n_mut=4,
                          ws=("none", "mixed"), gen_kw=kw)
    # content tokens that span lines: the end line/column is not start + length
    mkw = dict(multiline=True, p_empty=0.3, nterm=4)
    cases += lf.bnf_cases(rng, max(10, n // 5), tts=("LALR_PAGER",), algo="LR", max_len=3, n_sent=12, n_mut=4,
                          ws=("none", "mixed"), gen_kw=mkw)
    glr += lf.bnf_cases(rng, max(8, n // 8), tts=("LALR_RN",), algo="GLR", max_len=3, n_sent=12, n_mut=4,
                        ws=("mixed",), gen_kw=mkw, glr_scope=True)
    for layout in ("ws", "comments"):
        lkw = dict(p_empty=0.3, layout=layout, multiline=True, nterm=4)
        cases += lf.bnf_cases(rng, max(4, n // 16), tts=("LALR_PAGER",), algo="LR", max_len=3, n_sent=10, n_mut=3,
                              ws=("mixed",), gen_kw=lkw)
        glr += lf.bnf_cases(rng, max(4, n // 16), tts=("LALR_RN",), algo="GLR", max_len=3, n_sent=10, n_mut=3,
                            ws=("mixed",), gen_kw=lkw, glr_scope=True)
    # user Layout rules (whitespace / line comments / nested block comments): the layout parser runs with the parser's
    # own context (LR) resp. GSS head (GLR), so spans after layout are a separate code path from whitespace skipping
    for layout in ("ws", "comments", "nested"):
        lkw = dict(p_empty=0.3, layout=layout)
        wss = ("mixed",) if layout == "ws" else ("mixed", "layout")
        cases += lf.bnf_cases(rng, max(6, n // 8), tts=("LALR_PAGER",), algo="LR", max_len=3, n_sent=10, n_mut=3, ws=wss, gen_kw=lkw)
        glr += lf.bnf_cases(rng, max(6, n // 8), tts=("LALR_RN",), algo="GLR", max_len=3, n_sent=10, n_mut=3, ws=wss, gen_kw=lkw,
                            glr_scope=True)
    return cases, glr


def run(rep, tier, seed):
    rng = random.Random(seed)
    proofs_ok = lean_obligations(rep, PROP_MODULE)
    ok, log = build_harness()
    if not ok:
        rep.oblige("cargo build harness/dyn against /repo", False, log[-1500:])
        rep.violation({"broken": "harness build", "log": log[-3000:]}, no_input=True)
        return
    cases, glr = gen(rng, tier)
    fixed = lf.replay_known(rep, "C13", oracle)
    cases = [c for c in fixed if c.settings[0] == "LR"] + cases
    glr = [c for c in fixed if c.settings[0] == "GLR"] + glr
    lf.add_histories(rng, cases)
    lf.run_cases(cases, extra_requests=lambda c: ["cert noshiftstop"])
    lf.add_histories(rng, glr)
    lf.run_cases(glr, model=False)
    check(rep, cases, glr, proofs_ok)


def check(rep, cases, glr, proofs_ok):
    rep.cov["rule"] = ("random BNF grammars with nullable symbols anywhere (p_empty=0.3), terminals of 1-4 UTF-8 bytes and terminals "
                       "whose text spans lines; "
                       "LR (LALR_PAGER, model+oracle) and GLR (LALR_RN, oracle on every tree of the forest up to 64); inputs: "
                       "strings up to length 3, sentences, mutations, with whitespace/newline/CRLF/NBSP insertions; the same with user "
                       "Layout rules (whitespace, line comments, nested block comments) for LR and GLR; "
                       "distinct = (grammar, settings, input)")
    def orc(c):
        bad = oracle(c)
        ex = getattr(c, "extra", None)
        if ex:
            rep.count("cert_noShiftStop_" + ("pass" if ex[0] == "1" else "FAIL"))
            if ex[0] != "1":
                bad.append((None, "Cert.noShiftStop fails on the compiler's table: hypothesis of C13_lr_spans not met"))
        return bad
    f1, _ = lf.evaluate(rep, cases, orc, proofs_ok, PROP_MODULE,
                        in_scope=lambda c: tp.parse_dump(c.dump)["conflicts"] == 0)
    if glr:
        lf.evaluate(rep, glr, oracle, True, PROP_MODULE, compare_model=False, known_class=known_class)
    rep.assumptions += ["GLR half: oracle on implementation output only (no GLR engine model yet)"]


def replay(rep, path):
    p = json.load(open(path))
    build_harness()
    g = lf.parse_bnf(p["grammar"])
    algo = p.get("algo", "LR")
    c = lf.Case(p["grammar"], p["settings"].split(" "), [(algo, p.get("partial", "0"), p.get("input", ""), {})], gram=g)
    lf.apply_replay_history(c, p)
    lf.run_cases([c], model=(algo == "LR"), extra_requests=(lambda c: ["cert noshiftstop"]) if algo == "LR" else None)
    check(rep, [c] if algo == "LR" else [], [c] if algo != "LR" else [], True)
